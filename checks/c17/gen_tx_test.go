// C17 shape generators: pkg/io primitives, keys, transaction package, blocks.
package c17

import (
	"encoding/binary"
	"encoding/json"
	"errors"
	"math"
	"strings"

	"github.com/nspcc-dev/neo-go/pkg/core/block"
	"github.com/nspcc-dev/neo-go/pkg/core/transaction"
	"github.com/nspcc-dev/neo-go/pkg/crypto/keys"
	"github.com/nspcc-dev/neo-go/pkg/io"
	"github.com/nspcc-dev/neo-go/pkg/util"
)

// ---- field alphabets -------------------------------------------------------------

var (
	u160s = []util.Uint160{{}, u160(1), u160(0xff)}
	u256s = []util.Uint256{{}, u256(1), u256(0xff)}
	u8s   = []uint8{0, 1, 0xff}
	u16s  = []uint16{0, 1, 0xffff}
	u32s  = []uint32{0, 1, math.MaxUint32}
	u64s  = []uint64{0, 1, math.MaxUint64}
)

func u160(b byte) (u util.Uint160) {
	for i := range u {
		u[i] = b
	}
	return
}

func u256(b byte) (u util.Uint256) {
	for i := range u {
		u[i] = b
	}
	return
}

// byteStrings: lengths 0, 1, 2 and (if max > 0) max; contents chosen so that
// length prefixes and var-int prefix bytes occur as data.
func byteStrings(max int) [][]byte {
	out := [][]byte{{}, {0x00}, {0xff}, {0x01, 0xfd}}
	if max > 0 {
		out = append(out, rep(0xaa, max))
	}
	return out
}

var pubs = func() []*keys.PublicKey {
	var out []*keys.PublicKey
	for _, k := range []byte{1, 2, 3} {
		b := make([]byte, 32)
		b[31] = k
		p, err := keys.NewPrivateKeyFromBytes(b)
		if err != nil {
			panic(err)
		}
		out = append(out, p.PublicKey())
	}
	return out
}()

// ---- io primitives ---------------------------------------------------------------

type varUint struct{ V uint64 }

func (v *varUint) EncodeBinary(w *io.BinWriter) { w.WriteVarUint(v.V) }
func (v *varUint) DecodeBinary(r *io.BinReader) { v.V = r.ReadVarUint() }

type varBytes struct{ B []byte }

func (v *varBytes) EncodeBinary(w *io.BinWriter) { w.WriteVarBytes(v.B) }
func (v *varBytes) DecodeBinary(r *io.BinReader) { v.B = r.ReadVarBytes() }

type varString struct{ S string }

func (v *varString) EncodeBinary(w *io.BinWriter) { w.WriteString(v.S) }
func (v *varString) DecodeBinary(r *io.BinReader) { v.S = r.ReadString() }

type u256Array struct{ A []util.Uint256 }

func (v *u256Array) EncodeBinary(w *io.BinWriter) { w.WriteArray(v.A) }
func (v *u256Array) DecodeBinary(r *io.BinReader) { r.ReadArray(&v.A, 70000) }

var varUintBoundaries = []uint64{0, 1, 0xfc, 0xfd, 0xfe, 0xff, 0x100, 0xfffe, 0xffff, 0x10000, 0x10001,
	0xfffffffe, 0xffffffff, 0x100000000, math.MaxInt64, math.MaxInt64 + 1, math.MaxUint64}

func ioCodecs() []*codec {
	vu := ser[varUint]("io.VarUint", "pkg/io", func(bool) []*varUint {
		var out []*varUint
		for _, v := range varUintBoundaries {
			out = append(out, &varUint{v})
		}
		return out
	})
	// io.GetVarSize of an integer is documented as the size of its
	// variable-length encoding.
	vu.size = func(v any) int {
		x := v.(*varUint).V
		if x > math.MaxInt64 {
			return len(varint(x)) // GetVarSize takes an int; not expressible
		}
		return io.GetVarSize(int(x))
	}
	vu.cheap = true
	vb := ser[varBytes]("io.VarBytes", "pkg/io", func(th bool) []*varBytes {
		var out []*varBytes
		for _, n := range []int{0, 1, 2, 0xfc, 0xfd, 0xfe, 0xfffe, 0xffff, 0x10000} {
			out = append(out, &varBytes{rep(byte(n), n)})
		}
		return out
	})
	vb.size = func(v any) int { return io.GetVarSize(v.(*varBytes).B) }
	vb.cheap = true
	vs := ser[varString]("io.VarString", "pkg/io", func(th bool) []*varString {
		var out []*varString
		for _, n := range []int{0, 1, 2, 0xfc, 0xfd, 0xffff, 0x10000} {
			out = append(out, &varString{string(rep('a', n))})
		}
		return out
	})
	vs.size = func(v any) int { return io.GetVarSize(v.(*varString).S) }
	va := ser[u256Array]("io.Array[Uint256]", "pkg/io", func(th bool) []*u256Array {
		var out []*u256Array
		for _, n := range []int{0, 1, 2, 0xfc, 0xfd, 0xffff, 0x10000} {
			a := make([]util.Uint256, n)
			for i := range a {
				a[i] = u256s[i%3]
			}
			out = append(out, &u256Array{a})
		}
		return out
	})
	// io.GetVarSize of a []util.Uint256 is not defined by its documentation
	// (Uint256 values are not io.Serializable): no size oracle here.
	return []*codec{vu, vb, vs, va}
}

// ---- keys ---------------------------------------------------------------------

type pubKeys struct{ K keys.PublicKeys }

func keyCodecs() []*codec {
	pk := ser[keys.PublicKey]("keys.PublicKey", "pkg/crypto/keys", func(bool) []*keys.PublicKey { return pubs })
	withJSON[keys.PublicKey](pk)
	pk.accept = func() []namedBytes {
		return []namedBytes{{"uncompressed", pubs[0].UncompressedBytes()}}
	}
	pk.maxSeed = 70
	pks := &codec{
		name: "keys.PublicKeys", pkg: "pkg/crypto/keys",
		gen: func(bool) []any {
			return []any{&pubKeys{keys.PublicKeys{}}, &pubKeys{keys.PublicKeys{pubs[0]}}, &pubKeys{keys.PublicKeys{pubs[1], pubs[0]}}}
		},
		enc: func(v any) ([]byte, error) { return v.(*pubKeys).K.Bytes(), nil },
		dec: func(b []byte) (any, error) {
			var k pubKeys
			if err := k.K.DecodeBytes(b); err != nil {
				return nil, err
			}
			return &k, nil
		},
	}
	return []*codec{pk, pks}
}

// ---- witness conditions -----------------------------------------------------------

func condLeaves() []transaction.WitnessCondition {
	f, t := transaction.ConditionBoolean(false), transaction.ConditionBoolean(true)
	var out = []transaction.WitnessCondition{&t, transaction.ConditionCalledByEntry{}, &f}
	for _, h := range u160s {
		a, b := transaction.ConditionScriptHash(h), transaction.ConditionCalledByContract(h)
		out = append(out, &a, &b)
	}
	for _, k := range pubs[:2] {
		a, b := transaction.ConditionGroup(*k), transaction.ConditionCalledByGroup(*k)
		out = append(out, &a, &b)
	}
	return out
}

func condLists(from []transaction.WitnessCondition, withMax bool) [][]transaction.WitnessCondition {
	var out [][]transaction.WitnessCondition
	for _, a := range from {
		out = append(out, []transaction.WitnessCondition{a})
	}
	for _, a := range from {
		for _, b := range from {
			out = append(out, []transaction.WitnessCondition{a, b})
		}
	}
	if withMax {
		m := make([]transaction.WitnessCondition, 16)
		for i := range m {
			m[i] = from[i%len(from)]
		}
		out = append(out, m)
	}
	return out
}

func condCompose(children []transaction.WitnessCondition, withMax bool) []transaction.WitnessCondition {
	var out []transaction.WitnessCondition
	for _, c := range children {
		out = append(out, &transaction.ConditionNot{Condition: c})
	}
	for _, l := range condLists(children, withMax) {
		a, o := transaction.ConditionAnd(l), transaction.ConditionOr(l)
		out = append(out, &a, &o)
	}
	return out
}

// conditions: every leaf; every composition of depth 2 over three leaves;
// every composition of depth 3 over {three leaves, three depth-2 shapes}.
func conditions() []transaction.WitnessCondition {
	leaves := condLeaves()
	l3 := leaves[:3]
	d2 := condCompose(l3, true)
	mix := append(append([]transaction.WitnessCondition{}, l3...), d2[0], d2[3], d2[len(d2)-3])
	d3 := condCompose(mix, true)
	out := append(append(append([]transaction.WitnessCondition{}, leaves...), d2...), d3...)
	// keep only depth <= 3 (compositions of two depth-2 items are depth 3: fine)
	return out
}

type condBox struct{ C transaction.WitnessCondition }

func condDepth4() []byte {
	// Not(Not(Not(Boolean true))) is depth 4.
	return []byte{0x01, 0x01, 0x01, 0x00, 0x01}
}

func ruleList() []transaction.WitnessRule {
	var out []transaction.WitnessRule
	for _, c := range conditions() {
		for _, a := range []transaction.WitnessAction{transaction.WitnessDeny, transaction.WitnessAllow} {
			out = append(out, transaction.WitnessRule{Action: a, Condition: c})
		}
	}
	return out
}

func signerList(th bool) []transaction.Signer {
	var out []transaction.Signer
	rules := ruleList()
	smallRules := [][]transaction.WitnessRule{{}, {rules[0]}, {rules[1], rules[2]}, nil}
	r16 := make([]transaction.WitnessRule, 16)
	for i := range r16 {
		r16[i] = rules[(i*7)%len(rules)]
	}
	smallRules[3] = r16
	contracts := [][]util.Uint160{{}, {u160s[1]}, {u160s[0], u160s[2]}, nil}
	c16 := make([]util.Uint160, 16)
	for i := range c16 {
		c16[i] = u160(byte(i))
	}
	contracts[3] = c16
	groups := [][]*keys.PublicKey{{}, {pubs[0]}, {pubs[1], pubs[0]}, nil}
	g16 := make([]*keys.PublicKey, 16)
	for i := range g16 {
		g16[i] = pubs[i%3]
	}
	groups[3] = g16
	for _, acc := range u160s {
		for _, sc := range []transaction.WitnessScope{transaction.None, transaction.CalledByEntry, transaction.Global} {
			out = append(out, transaction.Signer{Account: acc, Scopes: sc})
		}
		for _, c := range contracts {
			out = append(out, transaction.Signer{Account: acc, Scopes: transaction.CustomContracts, AllowedContracts: c})
		}
		for _, g := range groups {
			out = append(out, transaction.Signer{Account: acc, Scopes: transaction.CustomGroups, AllowedGroups: g})
		}
		for _, r := range smallRules {
			out = append(out, transaction.Signer{Account: acc, Scopes: transaction.Rules, Rules: r})
		}
		for i := 0; i < 3; i++ {
			out = append(out, transaction.Signer{Account: acc, Scopes: transaction.CalledByEntry | transaction.CustomContracts | transaction.CustomGroups | transaction.Rules,
				AllowedContracts: contracts[i], AllowedGroups: groups[(i+1)%3], Rules: smallRules[(i+2)%3]})
		}
	}
	// every single rule in a Rules signer
	for _, r := range rules {
		out = append(out, transaction.Signer{Account: u160s[1], Scopes: transaction.Rules, Rules: []transaction.WitnessRule{r}})
	}
	return out
}

var oracleCodes = []transaction.OracleResponseCode{transaction.Success, transaction.ProtocolNotSupported, transaction.ConsensusUnreachable,
	transaction.NotFound, transaction.Timeout, transaction.Forbidden, transaction.ResponseTooLarge, transaction.InsufficientFunds,
	transaction.ContentTypeNotSupported, transaction.Error}

func oracleResponses() []*transaction.OracleResponse {
	var out []*transaction.OracleResponse
	for _, id := range u64s {
		for _, c := range oracleCodes {
			if c == transaction.Success {
				for _, r := range byteStrings(transaction.MaxOracleResultSize) {
					out = append(out, &transaction.OracleResponse{ID: id, Code: c, Result: r})
				}
				out = append(out, &transaction.OracleResponse{ID: id, Code: c, Result: rep(1, transaction.MaxOracleResultSize-1)})
			} else {
				out = append(out, &transaction.OracleResponse{ID: id, Code: c, Result: []byte{}})
			}
		}
	}
	return out
}

func attributes(withReserved bool) []transaction.Attribute {
	out := []transaction.Attribute{{Type: transaction.HighPriority}}
	for _, o := range oracleResponses() {
		out = append(out, transaction.Attribute{Type: transaction.OracleResponseT, Value: o})
	}
	for _, h := range u32s {
		out = append(out, transaction.Attribute{Type: transaction.NotValidBeforeT, Value: &transaction.NotValidBefore{Height: h}})
	}
	for _, h := range u256s {
		out = append(out, transaction.Attribute{Type: transaction.ConflictsT, Value: &transaction.Conflicts{Hash: h}})
	}
	for _, n := range u8s {
		out = append(out, transaction.Attribute{Type: transaction.NotaryAssistedT, Value: &transaction.NotaryAssisted{NKeys: n}})
	}
	if withReserved {
		for _, t := range []transaction.AttrType{transaction.ReservedLowerBound, transaction.ReservedUpperBound} {
			for _, v := range byteStrings(0) {
				out = append(out, transaction.Attribute{Type: t, Value: &transaction.Reserved{Value: v}})
			}
		}
	}
	return out
}

func witnesses() []transaction.Witness {
	var out []transaction.Witness
	for _, i := range byteStrings(transaction.MaxInvocationScript) {
		for _, v := range byteStrings(transaction.MaxVerificationScript) {
			out = append(out, transaction.Witness{InvocationScript: i, VerificationScript: v})
		}
	}
	return out
}

func ptrs[T any](vs []T) []*T {
	out := make([]*T, len(vs))
	for i := range vs {
		out[i] = &vs[i]
	}
	return out
}

// transactions: product of scalar profiles, signer lists, attribute lists,
// scripts and witness shapes.
func transactions(th bool) []*transaction.Transaction {
	type scal struct {
		nonce, vub uint32
		sys, net   int64
	}
	scals := []scal{{0, 0, 0, 0}, {1, 1, 1, 1}, {math.MaxUint32, math.MaxUint32, math.MaxInt64, 0}, {math.MaxUint32, 0, 0, math.MaxInt64}}
	sl := signerList(th)
	byScope := func(sc transaction.WitnessScope, n int) transaction.Signer {
		k := 0
		for _, s := range sl {
			if s.Scopes == sc && s.Account == u160s[1] {
				if k == n {
					return s
				}
				k++
			}
		}
		panic("no such signer")
	}
	acc := func(s transaction.Signer, b byte) transaction.Signer { s.Account = u160(b); return s }
	s16 := make([]transaction.Signer, 16)
	for i := range s16 {
		s16[i] = transaction.Signer{Account: u160(byte(i + 1)), Scopes: transaction.CalledByEntry}
	}
	signerLists := [][]transaction.Signer{
		{acc(byScope(transaction.None, 0), 1)},
		{acc(byScope(transaction.CalledByEntry, 0), 0xff)},
		{acc(byScope(transaction.Global, 0), 0), acc(byScope(transaction.CustomContracts, 1), 2)},
		{acc(byScope(transaction.CustomGroups, 2), 3), acc(byScope(transaction.Rules, 2), 4)},
		{acc(sl[len(sl)-3], 5)}, // a depth-3 rule
		{acc(byScope(transaction.CalledByEntry|transaction.CustomContracts|transaction.CustomGroups|transaction.Rules, 1), 6)},
		s16,
	}
	at := attributes(true)
	pick := func(t transaction.AttrType, n int) transaction.Attribute {
		k := 0
		for _, a := range at {
			if a.Type == t {
				if k == n {
					return a
				}
				k++
			}
		}
		panic("no such attribute")
	}
	attrLists := [][]transaction.Attribute{
		{},
		{pick(transaction.HighPriority, 0)},
		{pick(transaction.OracleResponseT, 1)},
		{pick(transaction.NotValidBeforeT, 2), pick(transaction.NotaryAssistedT, 1)},
		{pick(transaction.ConflictsT, 1), pick(transaction.ConflictsT, 2)},
		{pick(transaction.ReservedLowerBound, 3)},
		{pick(transaction.HighPriority, 0), pick(transaction.OracleResponseT, 40), pick(transaction.NotValidBeforeT, 0), pick(transaction.ConflictsT, 0), pick(transaction.NotaryAssistedT, 2), pick(transaction.ReservedUpperBound, 1)},
	}
	var conf15 []transaction.Attribute
	for i := 0; i < 15; i++ {
		conf15 = append(conf15, transaction.Attribute{Type: transaction.ConflictsT, Value: &transaction.Conflicts{Hash: u256(byte(i))}})
	}
	scripts := [][]byte{{0x11}, {0x00, 0xfd}, rep(0x21, 0xfc), rep(0x21, 0xfd)}
	ws := []transaction.Witness{{InvocationScript: []byte{}, VerificationScript: []byte{}}, {InvocationScript: []byte{0x0c}, VerificationScript: []byte{0x41, 0xfd}}, {InvocationScript: rep(1, 0xfd), VerificationScript: rep(2, 0xfc)}}
	mk := func(sc scal, sg []transaction.Signer, atr []transaction.Attribute, script []byte, w transaction.Witness) *transaction.Transaction {
		t := &transaction.Transaction{Nonce: sc.nonce, SystemFee: sc.sys, NetworkFee: sc.net, ValidUntilBlock: sc.vub,
			Signers: sg, Attributes: atr, Script: script}
		for range sg {
			t.Scripts = append(t.Scripts, w)
		}
		return t
	}
	var out []*transaction.Transaction
	for _, sc := range scals {
		for _, sg := range signerLists {
			for _, atr := range attrLists {
				if len(sg)+len(atr) > transaction.MaxAttributes {
					continue
				}
				for _, script := range scripts {
					for _, w := range ws {
						out = append(out, mk(sc, sg, atr, script, w))
					}
				}
			}
		}
	}
	// maxima: 1 signer + 15 attributes, 16 signers, longest scripts.
	out = append(out, mk(scals[1], signerLists[0], conf15, scripts[0], ws[0]))
	for _, n := range []int{transaction.MaxScriptLength - 1, transaction.MaxScriptLength} {
		out = append(out, mk(scals[1], signerLists[0], attrLists[0], rep(0x21, n), ws[0]))
	}
	out = append(out, mk(scals[1], signerLists[0], attrLists[0], scripts[0],
		transaction.Witness{InvocationScript: rep(1, transaction.MaxInvocationScript), VerificationScript: rep(2, transaction.MaxVerificationScript)}))
	// every signer shape and every attribute shape once
	for i := range sl {
		out = append(out, mk(scals[1], []transaction.Signer{sl[i]}, attrLists[0], scripts[0], ws[1]))
	}
	for i := range at {
		out = append(out, mk(scals[0], signerLists[1], []transaction.Attribute{at[i]}, scripts[1], ws[0]))
	}
	return out
}

func txHash(v any) string { return v.(*transaction.Transaction).Hash().StringLE() }
func txSize(v any) int    { return v.(*transaction.Transaction).Size() }
func wrongType() error    { return errors.New("wrong type") }
func hasReserved(t *transaction.Transaction) bool {
	for _, a := range t.Attributes {
		if a.Type >= transaction.ReservedLowerBound {
			return true
		}
	}
	return false
}

func txCodecs() []*codec {
	var out []*codec
	w := ser[transaction.Witness]("transaction.Witness", "pkg/core/transaction", func(bool) []*transaction.Witness { return ptrs(witnesses()) })
	withJSON[transaction.Witness](w).withSizeVar()
	w.cheap = true
	w.reject = func() []namedBytes {
		return []namedBytes{
			{"invocation-1025", cat(varint(transaction.MaxInvocationScript+1), rep(1, transaction.MaxInvocationScript+1), []byte{0})},
			{"verification-1025", cat([]byte{0}, varint(transaction.MaxVerificationScript+1), rep(1, transaction.MaxVerificationScript+1))},
		}
	}
	out = append(out, w)

	cond := &codec{
		name: "transaction.WitnessCondition", pkg: "pkg/core/transaction",
		gen: func(bool) []any {
			var vs []any
			for _, c := range conditions() {
				vs = append(vs, &condBox{c})
			}
			return vs
		},
		enc: func(v any) ([]byte, error) {
			return encW(func(w *io.BinWriter) { v.(*condBox).C.EncodeBinary(w) })
		},
		dec: func(b []byte) (any, error) {
			r := io.NewBinReaderFromBuf(b)
			c := transaction.DecodeBinaryCondition(r)
			if r.Err != nil {
				return nil, r.Err
			}
			return &condBox{c}, nil
		},
		jenc: func(v any) ([]byte, error) { return v.(*condBox).C.MarshalJSON() },
		jdec: func(b []byte) (any, error) {
			c, err := transaction.UnmarshalConditionJSON(b)
			if err != nil {
				return nil, err
			}
			return &condBox{c}, nil
		},
		cheap: true,
		reject: func() []namedBytes {
			and17 := cat([]byte{0x02, 17}, rep(0x20, 17))
			return []namedBytes{{"depth-4", condDepth4()}, {"and-17-items", and17}, {"or-0-items", []byte{0x03, 0}},
				{"depth-4-and", []byte{0x02, 1, 0x02, 1, 0x02, 1, 0x20}}}
		},
	}
	out = append(out, cond)

	rule := ser[transaction.WitnessRule]("transaction.WitnessRule", "pkg/core/transaction", func(bool) []*transaction.WitnessRule { return ptrs(ruleList()) })
	withJSON[transaction.WitnessRule](rule).withSizeVar()
	out = append(out, rule)
	// stack item form of a rule (what contracts see and what RPC bindings parse back)
	ruleSI := &codec{
		name: "transaction.WitnessRule/stackitem", pkg: "pkg/core/transaction",
		gen: func(bool) []any { return toAny(ptrs(ruleList())) },
		enc: func(v any) ([]byte, error) { return serItem(v.(*transaction.WitnessRule).ToStackItem()) },
		dec: func(b []byte) (any, error) {
			it, err := deserItem(b)
			if err != nil {
				return nil, err
			}
			var r transaction.WitnessRule
			if err := r.FromStackItem(it); err != nil {
				return nil, err
			}
			return &r, nil
		},
	}
	out = append(out, ruleSI)

	sg := ser[transaction.Signer]("transaction.Signer", "pkg/core/transaction", func(th bool) []*transaction.Signer { return ptrs(signerList(th)) })
	withJSON[transaction.Signer](sg).withSizeVar()
	sg.reject = func() []namedBytes {
		return []namedBytes{
			{"contracts-17", cat(rep(0, 20), []byte{0x10, 17}, rep(0, 20*17))},
			{"groups-17", cat(rep(0, 20), []byte{0x20, 17}, bytesRepeat(pubs[0].Bytes(), 17))},
			{"rules-17", cat(rep(0, 20), []byte{0x40, 17}, bytesRepeat([]byte{1, 0x20}, 17))},
			{"global+entry", cat(rep(0, 20), []byte{0x81})},
			{"unknown-scope", cat(rep(0, 20), []byte{0x02})},
		}
	}
	out = append(out, sg)
	sgSI := &codec{
		name: "transaction.Signer/stackitem", pkg: "pkg/core/transaction",
		gen: func(th bool) []any { return toAny(ptrs(signerList(th))) },
		enc: func(v any) ([]byte, error) {
			it, err := v.(*transaction.Signer).ToStackItem()
			if err != nil {
				return nil, err
			}
			return serItem(it)
		},
		dec: func(b []byte) (any, error) {
			it, err := deserItem(b)
			if err != nil {
				return nil, err
			}
			var s transaction.Signer
			if err := s.FromStackItem(it); err != nil {
				return nil, err
			}
			return &s, nil
		},
		// the stack item form always carries the three lists; the binary form
		// only those the scopes select, so compare through the stack item.
		noDeep: true,
	}
	out = append(out, sgSI)

	at := ser[transaction.Attribute]("transaction.Attribute", "pkg/core/transaction", func(bool) []*transaction.Attribute { return ptrs(attributes(true)) })
	at.withSizeVar()
	at.jenc = func(v any) ([]byte, error) {
		a := v.(*transaction.Attribute)
		if a.Type >= transaction.ReservedLowerBound {
			return nil, errNoJSON // JSON form of reserved attributes is not defined (UnmarshalJSON knows no such type)
		}
		return json.Marshal(a)
	}
	at.jdec = func(b []byte) (any, error) {
		var a transaction.Attribute
		if err := json.Unmarshal(b, &a); err != nil {
			return nil, err
		}
		return &a, nil
	}
	at.reject = func() []namedBytes {
		return []namedBytes{
			{"oracle-result-65536", cat([]byte{0x11}, rep(0, 8), []byte{0}, varint(transaction.MaxOracleResultSize+1), rep(1, transaction.MaxOracleResultSize+1))},
			{"oracle-error-with-result", cat([]byte{0x11}, rep(0, 8), []byte{0xff, 1, 1})},
			{"oracle-bad-code", cat([]byte{0x11}, rep(0, 8), []byte{0x01, 0})},
			{"unknown-type", []byte{0x02}},
		}
	}
	out = append(out, at)

	or := ser[transaction.OracleResponse]("transaction.OracleResponse", "pkg/core/transaction", func(bool) []*transaction.OracleResponse { return oracleResponses() })
	withJSON[transaction.OracleResponse](or).withSizeVar()
	out = append(out, or)
	nvb := ser[transaction.NotValidBefore]("transaction.NotValidBefore", "pkg/core/transaction", func(bool) []*transaction.NotValidBefore {
		var vs []*transaction.NotValidBefore
		for _, h := range u32s {
			vs = append(vs, &transaction.NotValidBefore{Height: h})
		}
		return vs
	})
	withJSON[transaction.NotValidBefore](nvb).withSizeVar()
	out = append(out, nvb)
	cf := ser[transaction.Conflicts]("transaction.Conflicts", "pkg/core/transaction", func(bool) []*transaction.Conflicts {
		var vs []*transaction.Conflicts
		for _, h := range u256s {
			vs = append(vs, &transaction.Conflicts{Hash: h})
		}
		return vs
	})
	withJSON[transaction.Conflicts](cf).withSizeVar()
	out = append(out, cf)
	na := ser[transaction.NotaryAssisted]("transaction.NotaryAssisted", "pkg/core/transaction", func(bool) []*transaction.NotaryAssisted {
		var vs []*transaction.NotaryAssisted
		for _, h := range u8s {
			vs = append(vs, &transaction.NotaryAssisted{NKeys: h})
		}
		return vs
	})
	withJSON[transaction.NotaryAssisted](na).withSizeVar()
	out = append(out, na)
	rs := ser[transaction.Reserved]("transaction.Reserved", "pkg/core/transaction", func(bool) []*transaction.Reserved {
		var vs []*transaction.Reserved
		for _, b := range byteStrings(0x10000) {
			vs = append(vs, &transaction.Reserved{Value: b})
		}
		return vs
	})
	rs.withSizeVar().cheap = true
	out = append(out, rs)

	// Transaction through the entry point used by P2P (CMDTX) and RPC.
	txb := &codec{
		name: "transaction.Transaction/NewTransactionFromBytes", pkg: "pkg/core/transaction",
		gen: func(th bool) []any { return toAny(transactions(th)) },
		enc: func(v any) ([]byte, error) { return encS(v.(*transaction.Transaction)) },
		dec: func(b []byte) (any, error) {
			t, err := transaction.NewTransactionFromBytes(b)
			if err != nil {
				return nil, err
			}
			return t, nil
		},
		jenc: func(v any) ([]byte, error) {
			if hasReserved(v.(*transaction.Transaction)) {
				return nil, errNoJSON
			}
			return json.Marshal(v)
		},
		jdec: func(b []byte) (any, error) {
			var t transaction.Transaction
			if err := json.Unmarshal(b, &t); err != nil {
				return nil, err
			}
			return &t, nil
		},
		hash:  txHash,
		size:  txSize,
		label: txLabel,
		sig:   txSig,
		reject: func() []namedBytes {
			base := func(nsig int, attrs []byte, nattr int, script []byte, w []byte) []byte {
				b := cat([]byte{0}, rep(0, 4), rep(0, 8), rep(0, 8), rep(0, 4), varint(uint64(nsig)))
				for i := 0; i < nsig; i++ {
					b = cat(b, rep(byte(i+1), 20), []byte{1})
				}
				b = cat(b, varint(uint64(nattr)), attrs, varint(uint64(len(script))), script, varint(uint64(nsig)))
				for i := 0; i < nsig; i++ {
					b = cat(b, w)
				}
				return b
			}
			e := []byte{0, 0}
			return []namedBytes{
				{"signers-17", base(17, nil, 0, []byte{0x11}, e)},
				{"signers-0", base(0, nil, 0, []byte{0x11}, e)},
				{"attrs-16-with-1-signer", base(1, bytesRepeat(cat([]byte{0x21}, rep(3, 32)), 16), 16, []byte{0x11}, e)},
				{"script-65536", base(1, nil, 0, rep(0x21, transaction.MaxScriptLength+1), e)},
				{"script-empty", base(1, nil, 0, nil, e)},
				{"two-highpriority", base(1, []byte{1, 1}, 2, []byte{0x11}, e)},
				{"invocation-1025", base(1, nil, 0, []byte{0x11}, cat(varint(1025), rep(1, 1025), []byte{0}))},
				{"duplicate-signers", func() []byte {
					b := base(2, nil, 0, []byte{0x11}, e)
					copy(b[26+21:], rep(1, 20))
					return b
				}()},
				{"version-1", func() []byte { b := base(1, nil, 0, []byte{0x11}, e); b[0] = 1; return b }()},
				{"negative-sysfee", func() []byte { b := base(1, nil, 0, []byte{0x11}, e); b[12] = 0x80; return b }()},
			}
		},
	}
	out = append(out, txb)
	// Transaction through io.Serializable (block bodies, the database, notary requests).
	txd := ser[transaction.Transaction]("transaction.Transaction/DecodeBinary", "pkg/core/transaction", transactions)
	txd.hash, txd.size, txd.label, txd.sig = txHash, txSize, txLabel, txSig
	txd.reject = txb.reject
	out = append(out, txd)
	return out
}

var errNoJSON = errors.New("no JSON form")

func bytesRepeat(b []byte, n int) []byte {
	var out []byte
	for i := 0; i < n; i++ {
		out = append(out, b...)
	}
	return out
}

// ---- transaction layout walker (labels for the findings) ---------------------------

type span struct {
	off, n int
	label  string
}

type walker struct {
	b     []byte
	p     int
	spans []span
	bad   bool
}

func (w *walker) take(n int, label string) []byte {
	if w.bad || w.p+n > len(w.b) {
		w.bad = true
		return make([]byte, n)
	}
	w.spans = append(w.spans, span{w.p, n, label})
	w.p += n
	return w.b[w.p-n : w.p]
}

func (w *walker) varint(label string) uint64 {
	if w.bad || w.p >= len(w.b) {
		w.bad = true
		return 0
	}
	switch w.b[w.p] {
	case 0xfd:
		b := w.take(3, label)
		return uint64(binary.LittleEndian.Uint16(b[1:]))
	case 0xfe:
		b := w.take(5, label)
		return uint64(binary.LittleEndian.Uint32(b[1:]))
	case 0xff:
		b := w.take(9, label)
		return binary.LittleEndian.Uint64(b[1:])
	}
	return uint64(w.take(1, label)[0])
}

func (w *walker) cond(pfx string, depth int) {
	if depth > 8 || w.bad {
		w.bad = true
		return
	}
	switch t := w.take(1, pfx+"condition-type")[0]; t {
	case 0x00:
		w.take(1, pfx+"condition-boolean-value")
	case 0x01:
		w.cond(pfx, depth+1)
	case 0x02, 0x03:
		n := w.varint(pfx + "condition-list-count")
		for i := uint64(0); i < n && !w.bad; i++ {
			w.cond(pfx, depth+1)
		}
	case 0x18, 0x28:
		w.take(20, pfx+"condition-hash")
	case 0x19, 0x29:
		w.take(1, pfx+"condition-group-key-prefix")
		w.take(32, pfx+"condition-group-key")
	case 0x20:
	default:
		w.bad = true
	}
}

func walkTx(b []byte) []span {
	w := &walker{b: b}
	w.take(1, "version")
	w.take(4, "nonce")
	w.take(8, "sysfee")
	w.take(8, "netfee")
	w.take(4, "validuntilblock")
	ns := w.varint("signers-count")
	for i := uint64(0); i < ns && !w.bad; i++ {
		w.take(20, "signer-account")
		sc := w.take(1, "signer-scopes")[0]
		if sc&0x10 != 0 {
			n := w.varint("signer-allowedcontracts-count")
			w.take(int(n)*20, "signer-allowedcontracts")
		}
		if sc&0x20 != 0 {
			n := w.varint("signer-allowedgroups-count")
			for j := uint64(0); j < n && !w.bad; j++ {
				w.take(1, "signer-allowedgroups-key-prefix")
				w.take(32, "signer-allowedgroups-key")
			}
		}
		if sc&0x40 != 0 {
			n := w.varint("signer-rules-count")
			for j := uint64(0); j < n && !w.bad; j++ {
				w.take(1, "signer-rule-action")
				w.cond("signer-rule-", 0)
			}
		}
	}
	na := w.varint("attributes-count")
	for i := uint64(0); i < na && !w.bad; i++ {
		switch t := w.take(1, "attribute-type")[0]; {
		case t == 0x01:
		case t == 0x11:
			w.take(8, "attribute-oracle-id")
			w.take(1, "attribute-oracle-code")
			n := w.varint("attribute-oracle-result-length")
			w.take(int(n), "attribute-oracle-result")
		case t == 0x20:
			w.take(4, "attribute-notvalidbefore-height")
		case t == 0x21:
			w.take(32, "attribute-conflicts-hash")
		case t == 0x22:
			w.take(1, "attribute-notaryassisted-nkeys")
		case t >= 0xe0:
			n := w.varint("attribute-reserved-length")
			w.take(int(n), "attribute-reserved-value")
		default:
			w.bad = true
		}
	}
	n := w.varint("script-length")
	w.take(int(n), "script")
	nw := w.varint("witnesses-count")
	for i := uint64(0); i < nw && !w.bad; i++ {
		n := w.varint("witness-invocation-length")
		w.take(int(n), "witness-invocation")
		n = w.varint("witness-verification-length")
		w.take(int(n), "witness-verification")
	}
	return w.spans
}

// txSig is the layout of a transaction encoding: its field sequence with the
// widths of the length prefixes.
func txSig(seed []byte) string {
	var b strings.Builder
	for _, s := range walkTx(seed) {
		b.WriteString(s.label)
		if strings.HasSuffix(s.label, "count") || strings.HasSuffix(s.label, "length") {
			b.WriteByte(byte('0' + s.n))
		}
		b.WriteByte(',')
	}
	return b.String()
}

func txLabel(seed []byte, off int) string {
	for _, s := range walkTx(seed) {
		if off >= s.off && off < s.off+s.n {
			return s.label
		}
	}
	return "trailing"
}

// isTxHashedPart tells whether a label belongs to the signed (hashed) part.
func isTxHashedPart(label string) bool {
	return len(label) < 7 || label[:7] != "witness"
}

// ---- headers and blocks -------------------------------------------------------------

func headers(sr bool) []*block.Header {
	var out []*block.Header
	ws := witnesses()
	wsel := []transaction.Witness{ws[0], ws[7], ws[len(ws)-1]}
	for i := 0; i < 3; i++ {
		for _, w := range wsel {
			h := &block.Header{Version: u32s[i], PrevHash: u256s[i], MerkleRoot: u256s[(i+1)%3], Timestamp: u64s[i], Nonce: u64s[(i+2)%3],
				Index: u32s[(i+1)%3], NextConsensus: u160s[i], Script: w, StateRootEnabled: sr, PrimaryIndex: u8s[i]}
			if sr {
				h.PrevStateRoot = u256s[(i+2)%3]
			}
			out = append(out, h)
		}
	}
	return out
}

func blocks(sr bool, th bool) []*block.Block {
	txs := transactions(th)
	small := []*transaction.Transaction{}
	for i := 0; i < len(txs); i += len(txs) / 7 {
		small = append(small, txs[i])
	}
	txLists := [][]*transaction.Transaction{{}, {small[0]}, {small[1], small[2]}, small}
	var out []*block.Block
	hs := headers(sr)
	for i, h := range hs {
		for j, l := range txLists {
			if i%3 != 0 && j > 1 {
				continue
			}
			b := &block.Block{Header: *h}
			b.Transactions = make([]*transaction.Transaction, len(l))
			for k := range l {
				b.Transactions[k] = l[k].Copy()
			}
			b.RebuildMerkleRoot()
			out = append(out, b)
		}
	}
	return out
}

func hdrHash(v any) string { return v.(*block.Header).Hash().StringLE() }
func blkHash(v any) string { return v.(*block.Block).Hash().StringLE() }

func blockCodecs() []*codec {
	var out []*codec
	for _, sr := range []bool{false, true} {
		sr := sr
		sfx := ""
		if sr {
			sfx = "/stateroot"
		}
		h := serNew[block.Header]("block.Header"+sfx, "pkg/core/block", func() *block.Header { return &block.Header{StateRootEnabled: sr} },
			func(bool) []*block.Header { return headers(sr) })
		h.hash = hdrHash
		h.jenc = func(v any) ([]byte, error) { return json.Marshal(v) }
		h.jdec = func(b []byte) (any, error) {
			x := &block.Header{StateRootEnabled: sr}
			if err := json.Unmarshal(b, x); err != nil {
				return nil, err
			}
			return x, nil
		}
		h.size = func(v any) int { return io.GetVarSize(v) }
		h.reject = func() []namedBytes {
			good, _ := encS(headers(sr)[0])
			n := len(good) - 2
			return []namedBytes{{"two-witnesses", cat(good[:n-1], []byte{2, 0, 0, 0, 0})}, {"zero-witnesses", cat(good[:n-1], []byte{0})}}
		}
		out = append(out, h)
		b := serNew[block.Block]("block.Block"+sfx, "pkg/core/block", func() *block.Block { return block.New(sr) },
			func(th bool) []*block.Block { return blocks(sr, th) })
		b.hash = blkHash
		b.jenc = func(v any) ([]byte, error) {
			for _, t := range v.(*block.Block).Transactions {
				if hasReserved(t) {
					return nil, errNoJSON
				}
			}
			return json.Marshal(v)
		}
		b.jdec = func(bs []byte) (any, error) {
			x := block.New(sr)
			if err := json.Unmarshal(bs, x); err != nil {
				return nil, err
			}
			return x, nil
		}
		// documented: expected block size = header + transactions
		b.size = func(v any) int { return v.(*block.Block).GetExpectedBlockSize() }
		b.reject = func() []namedBytes {
			good, _ := encS(headers(sr)[0])
			return []namedBytes{{"65536-transactions", cat(good, varint(block.MaxTransactionsPerBlock+1))}}
		}
		out = append(out, b)
		// the trimmed form the database keeps
		tb := &codec{
			name: "block.Block/trimmed" + sfx, pkg: "pkg/core/block",
			gen: func(th bool) []any { return toAny(blocks(sr, th)) },
			enc: func(v any) ([]byte, error) {
				return encW(func(w *io.BinWriter) { v.(*block.Block).EncodeTrimmed(w) })
			},
			dec: func(bs []byte) (any, error) {
				x, err := block.NewTrimmedFromReader(sr, io.NewBinReaderFromBuf(bs))
				if err != nil {
					return nil, err
				}
				return x, nil
			},
			hash:   blkHash,
			noDeep: true, // only transaction hashes are kept
		}
		out = append(out, tb)
	}
	return out
}
