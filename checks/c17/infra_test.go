// C17 infrastructure: codec registry type, structural equality, helpers.
package c17

import (
	"bytes"
	"encoding/binary"
	"encoding/hex"
	"encoding/json"
	"fmt"
	"reflect"
	"sort"
	"strings"
	"unicode/utf8"

	"github.com/nspcc-dev/neo-go/pkg/io"
)

// codec describes one serialisable type (or one decoding entry point of it).
type codec struct {
	name string
	pkg  string // neo-go package whose own tests are relevant
	// gen enumerates all values over the type's field alphabet (pointers).
	gen func(thorough bool) []any
	enc func(v any) ([]byte, error)
	dec func(b []byte) (any, error)
	// optional
	jenc func(v any) ([]byte, error)
	jdec func(b []byte) (any, error)
	hash func(v any) string // hex of the identity hash, "" if none
	size func(v any) int    // size the value reports
	// sizeAdj is added to len(encoding) to get the expected size (MPT nodes
	// report the size without the type byte).
	sizeAdj int
	// noDeep: decode(encode(v)) is compared by bytes/hash only (the encoding
	// deliberately stores less than the in-memory form, e.g. MPT children).
	noDeep bool
	// noDeepDecoded: as noDeep but only for values that come from the decoder
	// fed with arbitrary bytes.
	noDeepDecoded bool
	cheap         bool // all 3-byte strings in thorough
	derived       bool // derived codec: skipped in the value round-trip phase
	// canon, if set, is the form compared for equality instead of enc (the
	// compressed P2P form is not canonical: the compressor may choose freely).
	canon func(v any) ([]byte, error)
	// encMayFail tells whether an encoding error of a DECODED value is by
	// design (the decoder documents a wider domain than the encoder).
	encMayFail func(err error) bool
	// seedEnc, if set, produces the mutation seeds instead of enc (it must be
	// deterministic; the LZ4 compressor is not).
	seedEnc func(v any) ([]byte, error)
	// noBytes: encodings are not compared byte-wise (map iteration order).
	noBytes bool
	// label names the field a byte offset of a canonical encoding belongs to.
	label func(seed []byte, off int) string
	// extra inputs: byte strings that the documentation says must be
	// rejected (limit+1) / accepted (at the limit).
	reject func() []namedBytes
	accept func() []namedBytes
	// sig, if set, gives the layout of a seed; quick runs mutate one seed per layout.
	sig func(seed []byte) string
	// group names the decoder family in keys of findings that are about the
	// decoder rather than the value (allocation, non-termination); default name.
	group string
	// maxSeed overrides the length bound of seeds used for mutation.
	maxSeed int
	// maxSeeds bounds the number of seeds (quick, thorough); 0 = all.
	maxSeeds [2]int
	// base: for the derived JSON codec, the codec of the binary form of the type.
	base *codec
}

// crossCheck: a value a decoder accepted must survive the OTHER wire form of
// its type as well (binary-accepted -> JSON and back, JSON-accepted -> binary
// and back) with the same content and hash.
func (c *codec) crossCheck(v any, bad func(oracle, detail string)) {
	var name string
	var enc func(v any) ([]byte, error)
	var dec func(b []byte) (any, error)
	var outside func(err error) bool
	canon, hash, noDeep := c.canonOf, c.hash, c.noDeep
	switch {
	case c.base != nil:
		// the JSON decoder fed with byte-level mutants: the JSON -> binary direction
		// is explored by the structural mutants (phase F) and the limit family (phase E)
		return
	case c.jenc != nil && c.jdec != nil:
		if hasInvalidUTF8(reflect.ValueOf(v), 0) {
			return // JSON text is UTF-8 by definition: such a string is outside the domain of the form
		}
		name, enc, dec, outside = "json", c.jenc, c.jdec, isNoJSON
	default:
		return
	}
	b, err := enc(v)
	if err != nil {
		if !(outside != nil && outside(err)) {
			bad("cross-"+name+"-encode-fails", err.Error())
		}
		return
	}
	v2, err := dec(b)
	if err != nil {
		bad("cross-"+name+"-rejects", fmt.Sprintf("%v; %s form: %s", err, name, clipS(b, name)))
		return
	}
	if !noDeep && !c.noDeepDecoded {
		if ok, path := semEqual(v, v2); !ok {
			bad("cross-"+name+"-value-differs", "first difference at "+path+"; "+name+" form: "+clipS(b, name))
			return
		}
	}
	if !c.noBytes {
		c1, err1 := canon(v)
		c2, err2 := canon(v2)
		if err1 == nil && (err2 != nil || !bytes.Equal(c1, c2)) {
			bad("cross-"+name+"-encoding-differs", fmt.Sprintf("%s vs %s (%v); %s form: %s", clip(c1), clip(c2), err2, name, clipS(b, name)))
		}
	}
	if hash != nil {
		if h, h2 := hash(v), hash(v2); h != h2 {
			bad("cross-"+name+"-hash-differs", h+" vs "+h2)
		}
	}
}

var _ = bytes.Equal


type namedBytes struct {
	name string
	b    []byte
}

func toAny[T any](vs []*T) []any {
	out := make([]any, len(vs))
	for i, v := range vs {
		out[i] = v
	}
	return out
}

// encW runs f on a fresh buffer writer and returns the bytes (BufBinWriter.Bytes
// drains the buffer and sets Err, so the order of the checks matters).
func encW(f func(w *io.BinWriter)) ([]byte, error) {
	w := io.NewBufBinWriter()
	f(w.BinWriter)
	if w.Err != nil {
		return nil, w.Err
	}
	return w.Bytes(), nil
}

func encS(s io.Serializable) ([]byte, error) {
	w := io.NewBufBinWriter()
	s.EncodeBinary(w.BinWriter)
	if w.Err != nil {
		return nil, w.Err
	}
	return w.Bytes(), nil
}

// ser builds a codec for a type whose pointer implements io.Serializable.
func ser[T any, PT interface {
	*T
	io.Serializable
}](name, pkg string, gen func(thorough bool) []*T) *codec {
	return &codec{
		name: name, pkg: pkg,
		gen: func(th bool) []any { return toAny(gen(th)) },
		enc: func(v any) ([]byte, error) { return encS(PT(v.(*T))) },
		dec: func(b []byte) (any, error) {
			var t T
			r := io.NewBinReaderFromBuf(b)
			PT(&t).DecodeBinary(r)
			if r.Err != nil {
				return nil, r.Err
			}
			return &t, nil
		},
	}
}

// serNew is ser for types that need a prepared receiver (flags set before
// decoding).
func serNew[T any, PT interface {
	*T
	io.Serializable
}](name, pkg string, mk func() *T, gen func(thorough bool) []*T) *codec {
	c := ser[T, PT](name, pkg, gen)
	c.dec = func(b []byte) (any, error) {
		t := mk()
		r := io.NewBinReaderFromBuf(b)
		PT(t).DecodeBinary(r)
		if r.Err != nil {
			return nil, r.Err
		}
		return t, nil
	}
	return c
}

func withJSON[T any](c *codec) *codec {
	c.jenc = func(v any) ([]byte, error) { return json.Marshal(v) }
	c.jdec = func(b []byte) (any, error) {
		var t T
		if err := json.Unmarshal(b, &t); err != nil {
			return nil, err
		}
		return &t, nil
	}
	return c
}

func (c *codec) withSizeVar() *codec {
	c.size = func(v any) int { return io.GetVarSize(v) }
	return c
}

// jsonCodecOf derives the codec of the JSON decoder of c: the "encoding" is the
// JSON text, the decoder is UnmarshalJSON.
func jsonCodecOf(c *codec) *codec {
	return &codec{
		name: c.name + "/json", pkg: c.pkg,
		gen: func(th bool) []any {
			var out []any
			for _, v := range c.gen(th) {
				if _, err := c.jenc(v); err == nil {
					out = append(out, v)
				}
			}
			return out
		},
		enc:      c.jenc,
		dec:      c.jdec,
		hash:     c.hash,
		noDeep:   c.noDeep,
		maxSeed:  900,
		maxSeeds: [2]int{10, 40},
		derived:  true,
		base:     c,
	}
}

// ---- structural equality ------------------------------------------------------

// Fields that cache derived data (hash, size, encoding); they are set at
// different moments on different paths and are compared through Hash()/Size().
var ignoreFields = map[string]bool{
	"transaction.Transaction.hash":       true,
	"transaction.Transaction.hashed":     true,
	"transaction.Transaction.size":       true,
	"block.Header.hash":                  true,
	"payload.Extensible.hash":            true,
	"payload.P2PNotaryRequest.hash":      true,
	"mpt.BaseNode.hash":                  true,
	"mpt.BaseNode.bytes":                 true,
	"mpt.BaseNode.hashValid":             true,
	"mpt.BaseNode.bytesValid":            true,
	"network.Message.compressedPayload":  true,
	"stackitem.Array.rc":                 true,
	"stackitem.Struct.rc":                true,
	"stackitem.Map.rc":                   true,
	"state.ContractInvocation.Arguments": true, // JSON-only view of argumentsBytes
}

var rawMessageType = reflect.TypeOf(json.RawMessage{})

// semEqual compares two values structurally: nil and empty slices/maps are
// equal, cache fields are skipped, unexported fields are compared. It returns
// the path of the first difference.
func semEqual(a, b any) (bool, string) {
	return semEq(reflect.ValueOf(a), reflect.ValueOf(b), "", 0)
}

func semEq(a, b reflect.Value, path string, depth int) (bool, string) {
	if depth > 200000 {
		return false, path + ": too deep"
	}
	if !a.IsValid() || !b.IsValid() {
		if a.IsValid() == b.IsValid() {
			return true, ""
		}
		return false, path + ": one is invalid"
	}
	if a.Type() != b.Type() {
		return false, fmt.Sprintf("%s: type %s vs %s", path, a.Type(), b.Type())
	}
	if a.Type() == rawMessageType {
		// an absent JSON value and "null" are the same content
		x, y := a.Bytes(), b.Bytes()
		if len(x) == 0 {
			x = []byte("null")
		}
		if len(y) == 0 {
			y = []byte("null")
		}
		if string(x) != string(y) {
			// the same JSON value may be spelled differently (escapes, spaces)
			var vx, vy any
			dx, dy := json.NewDecoder(bytes.NewReader(x)), json.NewDecoder(bytes.NewReader(y))
			dx.UseNumber()
			dy.UseNumber()
			if dx.Decode(&vx) != nil || dy.Decode(&vy) != nil || !reflect.DeepEqual(vx, vy) {
				return false, path
			}
		}
		return true, ""
	}
	switch a.Kind() {
	case reflect.Bool:
		if a.Bool() != b.Bool() {
			return false, path
		}
	case reflect.Int, reflect.Int8, reflect.Int16, reflect.Int32, reflect.Int64:
		if a.Int() != b.Int() {
			return false, path
		}
	case reflect.Uint, reflect.Uint8, reflect.Uint16, reflect.Uint32, reflect.Uint64, reflect.Uintptr:
		if a.Uint() != b.Uint() {
			return false, path
		}
	case reflect.Float32, reflect.Float64:
		if a.Float() != b.Float() {
			return false, path
		}
	case reflect.String:
		if a.String() != b.String() {
			return false, path
		}
	case reflect.Slice:
		if a.Len() != b.Len() {
			return false, fmt.Sprintf("%s: len %d vs %d", path, a.Len(), b.Len())
		}
		if a.Len() > 0 && a.Pointer() == b.Pointer() {
			return true, ""
		}
		for i := 0; i < a.Len(); i++ {
			if ok, p := semEq(a.Index(i), b.Index(i), fmt.Sprintf("%s[%d]", path, i), depth+1); !ok {
				return false, p
			}
		}
	case reflect.Array:
		for i := 0; i < a.Len(); i++ {
			if ok, p := semEq(a.Index(i), b.Index(i), fmt.Sprintf("%s[%d]", path, i), depth+1); !ok {
				return false, p
			}
		}
	case reflect.Map:
		if a.Len() != b.Len() {
			return false, fmt.Sprintf("%s: map len %d vs %d", path, a.Len(), b.Len())
		}
		for _, k := range a.MapKeys() {
			bv := b.MapIndex(k)
			if !bv.IsValid() {
				return false, fmt.Sprintf("%s: key missing", path)
			}
			if ok, p := semEq(a.MapIndex(k), bv, path+"[k]", depth+1); !ok {
				return false, p
			}
		}
	case reflect.Pointer:
		if a.IsNil() || b.IsNil() {
			if a.IsNil() == b.IsNil() {
				return true, ""
			}
			return false, path + ": nil vs non-nil"
		}
		if a.Pointer() == b.Pointer() {
			return true, ""
		}
		return semEq(a.Elem(), b.Elem(), path, depth+1)
	case reflect.Interface:
		if a.IsNil() || b.IsNil() {
			if a.IsNil() == b.IsNil() {
				return true, ""
			}
			return false, path + ": nil vs non-nil interface"
		}
		return semEq(a.Elem(), b.Elem(), path, depth+1)
	case reflect.Struct:
		t := a.Type()
		tn := t.String()
		for i := 0; i < a.NumField(); i++ {
			fn := t.Field(i).Name
			if ignoreFields[tn+"."+fn] {
				continue
			}
			if ok, p := semEq(a.Field(i), b.Field(i), path+"."+fn, depth+1); !ok {
				if !strings.Contains(p, " @") {
					p += " @" + tn + "." + fn // innermost struct field that differs
				}
				return false, p
			}
		}
	case reflect.Func, reflect.Chan, reflect.UnsafePointer:
		if a.IsNil() != b.IsNil() {
			return false, path
		}
	default:
		return false, path + ": unsupported kind " + a.Kind().String()
	}
	return true, ""
}

// ---- small helpers ---------------------------------------------------------------

// ownerOf extracts the "type.field" suffix semEqual attaches to a difference.
func ownerOf(path string) string {
	if i := strings.Index(path, " @"); i >= 0 {
		o := path[i+2:]
		if j := strings.IndexAny(o, "; "); j >= 0 {
			o = o[:j]
		}
		return o
	}
	return ""
}

func (c *codec) groupName() string {
	if c.group != "" {
		return c.group
	}
	return c.name
}

func hx(b []byte) string { return hex.EncodeToString(b) }

func unhx(s string) []byte {
	b, err := hex.DecodeString(s)
	if err != nil {
		panic(err)
	}
	return b
}

func cat(parts ...[]byte) []byte {
	var out []byte
	for _, p := range parts {
		out = append(out, p...)
	}
	return out
}

func rep(b byte, n int) []byte {
	out := make([]byte, n)
	for i := range out {
		out[i] = b
	}
	return out
}

// varint returns the minimal (canonical, as the C# reference and
// io.GetVarSize define it) encoding of v.
func varint(v uint64) []byte {
	switch {
	case v < 0xfd:
		return []byte{byte(v)}
	case v <= 0xffff:
		return []byte{0xfd, byte(v), byte(v >> 8)}
	case v <= 0xffffffff:
		b := make([]byte, 5)
		b[0] = 0xfe
		binary.LittleEndian.PutUint32(b[1:], uint32(v))
		return b
	}
	b := make([]byte, 9)
	b[0] = 0xff
	binary.LittleEndian.PutUint64(b[1:], v)
	return b
}

// varintForm returns v in the given prefix form (0xfd, 0xfe, 0xff).
func varintForm(v uint64, form byte) []byte {
	switch form {
	case 0xfd:
		return []byte{0xfd, byte(v), byte(v >> 8)}
	case 0xfe:
		b := make([]byte, 5)
		b[0] = 0xfe
		binary.LittleEndian.PutUint32(b[1:], uint32(v))
		return b
	}
	b := make([]byte, 9)
	b[0] = 0xff
	binary.LittleEndian.PutUint64(b[1:], v)
	return b
}

func sortedKeys[V any](m map[string]V) []string {
	ks := make([]string, 0, len(m))
	for k := range m {
		ks = append(ks, k)
	}
	sort.Strings(ks)
	return ks
}

func short(s string, n int) string {
	s = strings.ReplaceAll(s, "\n", " ")
	if len(s) > n {
		return s[:n] + "..."
	}
	return s
}

// errClass reduces an error text to a class usable as an outcome name.
func errClass(err error) string {
	s := err.Error()
	var b strings.Builder
	for _, c := range s {
		switch {
		case c >= '0' && c <= '9':
			if b.Len() > 0 && strings.HasSuffix(b.String(), "#") {
				continue
			}
			b.WriteByte('#')
		default:
			b.WriteRune(c)
		}
	}
	return short(b.String(), 60)
}

// hasInvalidUTF8 tells whether a value contains a Go string that is not valid UTF-8.
func hasInvalidUTF8(v reflect.Value, depth int) bool {
	if !v.IsValid() || depth > 64 {
		return false
	}
	switch v.Kind() {
	case reflect.String:
		return !utf8.ValidString(v.String())
	case reflect.Pointer, reflect.Interface:
		if v.IsNil() {
			return false
		}
		return hasInvalidUTF8(v.Elem(), depth+1)
	case reflect.Struct:
		for i := 0; i < v.NumField(); i++ {
			if hasInvalidUTF8(v.Field(i), depth+1) {
				return true
			}
		}
	case reflect.Slice, reflect.Array:
		if v.Type().Elem().Kind() == reflect.Uint8 {
			return false
		}
		for i := 0; i < v.Len(); i++ {
			if hasInvalidUTF8(v.Index(i), depth+1) {
				return true
			}
		}
	case reflect.Map:
		it := v.MapRange()
		for it.Next() {
			if hasInvalidUTF8(it.Key(), depth+1) || hasInvalidUTF8(it.Value(), depth+1) {
				return true
			}
		}
	}
	return false
}
