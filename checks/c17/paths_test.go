// C17 phase B: the hash and size of a transaction or block do not depend on
// the path by which it arrived.
package c17

import (
	"bytes"
	"encoding/binary"
	"encoding/json"
	"fmt"
	"sort"
	"strings"
	"sync"

	"github.com/nspcc-dev/neo-go/pkg/core/block"
	"github.com/nspcc-dev/neo-go/pkg/core/dao"
	"github.com/nspcc-dev/neo-go/pkg/core/storage"
	"github.com/nspcc-dev/neo-go/pkg/core/transaction"
	"github.com/nspcc-dev/neo-go/pkg/io"
	"github.com/nspcc-dev/neo-go/pkg/network"
	"github.com/nspcc-dev/neo-go/pkg/network/payload"

	"verif/lib/vk"
)

// lz4Literals is a valid LZ4 block that consists of literals only, preceded
// by the 4-byte length the P2P framing uses.
func lz4Literals(src []byte) []byte {
	out := make([]byte, 4, len(src)+16)
	binary.LittleEndian.PutUint32(out, uint32(len(src)))
	l := len(src)
	if l < 15 {
		out = append(out, byte(l<<4))
	} else {
		out = append(out, 0xf0)
		rest := l - 15
		for rest >= 255 {
			out = append(out, 255)
			rest -= 255
		}
		out = append(out, byte(rest))
	}
	return append(out, src...)
}

func rawMessage(flags byte, cmd network.CommandType, pl []byte) []byte {
	return cat([]byte{flags, byte(cmd)}, varint(uint64(len(pl))), pl)
}

type pathObs struct {
	path string
	hash string
	size int // -1: path does not report a size
	err  string
}

// txPaths feeds the wire bytes x to every entry point that can receive a
// transaction and reports the identity each path assigns.
func txPaths(x []byte) []pathObs {
	var out []pathObs
	obs := func(path string, f func() (*transaction.Transaction, error)) {
		var o = pathObs{path: path, size: -1}
		if p := guard(func() {
			t, err := f()
			if err != nil {
				o.err = err.Error()
				return
			}
			o.hash, o.size = t.Hash().StringLE(), t.Size()
		}); p != "" {
			o.err = "panic: " + p
		}
		out = append(out, o)
	}
	obs("NewTransactionFromBytes", func() (*transaction.Transaction, error) { return transaction.NewTransactionFromBytes(x) })
	obs("DecodeBinary", func() (*transaction.Transaction, error) {
		t := &transaction.Transaction{}
		r := io.NewBinReaderFromBuf(x)
		t.DecodeBinary(r)
		if r.Err == nil && r.Len() != 0 {
			return nil, fmt.Errorf("harness: trailing bytes")
		}
		return t, r.Err
	})
	hdr, _ := encS(headers(false)[0])
	obs("block-body", func() (*transaction.Transaction, error) {
		b := block.New(false)
		r := io.NewBinReaderFromBuf(cat(hdr, []byte{1}, x))
		b.DecodeBinary(r)
		if r.Err != nil {
			return nil, r.Err
		}
		if r.Len() != 0 {
			return nil, fmt.Errorf("harness: trailing bytes")
		}
		return b.Transactions[0], nil
	})
	msg := func(raw []byte) (*transaction.Transaction, error) {
		m := &network.Message{}
		if err := m.Decode(io.NewBinReaderFromBuf(raw)); err != nil {
			return nil, err
		}
		return m.Payload.(*transaction.Transaction), nil
	}
	obs("p2p-message", func() (*transaction.Transaction, error) { return msg(rawMessage(0, network.CMDTX, x)) })
	obs("p2p-message-compressed", func() (*transaction.Transaction, error) {
		return msg(rawMessage(byte(network.Compressed), network.CMDTX, lz4Literals(x)))
	})
	obs("p2p-block-message", func() (*transaction.Transaction, error) {
		m := &network.Message{}
		if err := m.Decode(io.NewBinReaderFromBuf(rawMessage(0, network.CMDBlock, cat(hdr, []byte{1}, x)))); err != nil {
			return nil, err
		}
		return m.Payload.(*block.Block).Transactions[0], nil
	})
	// JSON as RPC serves it: the JSON of the transaction as received.
	obs("json-of-received", func() (*transaction.Transaction, error) {
		t, err := transaction.NewTransactionFromBytes(x)
		if err != nil {
			return nil, err
		}
		if hasReserved(t) {
			return nil, errNoJSON
		}
		j, err := json.Marshal(t)
		if err != nil {
			return nil, err
		}
		t2 := &transaction.Transaction{}
		if err := json.Unmarshal(j, t2); err != nil {
			return nil, fmt.Errorf("JSON produced for the received transaction is rejected: %w", err)
		}
		return t2, nil
	})
	// the database: stored as received, read back by the hash it was stored under
	obs("dao", func() (*transaction.Transaction, error) {
		t, err := transaction.NewTransactionFromBytes(x)
		if err != nil {
			return nil, err
		}
		d := dao.NewSimple(storage.NewMemoryStore(), false)
		if err := d.StoreAsTransaction(t, 1, nil); err != nil {
			return nil, err
		}
		t2, _, err := d.GetTransaction(t.Hash())
		if err != nil {
			return nil, fmt.Errorf("GetTransaction(hash it was stored under): %w", err)
		}
		return t2, nil
	})
	return out
}

func blockPaths(y []byte, sr bool) []pathObs {
	var out []pathObs
	obs := func(path string, f func() (*block.Block, error)) {
		var o = pathObs{path: path, size: -1}
		if p := guard(func() {
			b, err := f()
			if err != nil {
				o.err = err.Error()
				return
			}
			hs := []string{b.Hash().StringLE()}
			for _, t := range b.Transactions {
				hs = append(hs, t.Hash().StringLE())
			}
			o.hash = strings.Join(hs, ",")
			if !b.Trimmed {
				o.size = io.GetVarSize(b)
			}
		}); p != "" {
			o.err = "panic: " + p
		}
		out = append(out, o)
	}
	direct := func() (*block.Block, error) {
		b := block.New(sr)
		r := io.NewBinReaderFromBuf(y)
		b.DecodeBinary(r)
		if r.Err == nil && r.Len() != 0 {
			return nil, fmt.Errorf("harness: trailing bytes")
		}
		return b, r.Err
	}
	obs("DecodeBinary", direct)
	msg := func(raw []byte) (*block.Block, error) {
		m := &network.Message{StateRootInHeader: sr}
		if err := m.Decode(io.NewBinReaderFromBuf(raw)); err != nil {
			return nil, err
		}
		return m.Payload.(*block.Block), nil
	}
	obs("p2p-message", func() (*block.Block, error) { return msg(rawMessage(0, network.CMDBlock, y)) })
	obs("p2p-message-compressed", func() (*block.Block, error) {
		return msg(rawMessage(byte(network.Compressed), network.CMDBlock, lz4Literals(y)))
	})
	obs("json-of-received", func() (*block.Block, error) {
		b, err := direct()
		if err != nil {
			return nil, err
		}
		for _, t := range b.Transactions {
			if hasReserved(t) {
				return nil, errNoJSON
			}
		}
		j, err := json.Marshal(b)
		if err != nil {
			return nil, err
		}
		b2 := block.New(sr)
		if err := json.Unmarshal(j, b2); err != nil {
			return nil, fmt.Errorf("JSON produced for the received block is rejected: %w", err)
		}
		return b2, nil
	})
	obs("dao", func() (*block.Block, error) {
		b, err := direct()
		if err != nil {
			return nil, err
		}
		d := dao.NewSimple(storage.NewMemoryStore(), sr)
		if err := d.StoreAsBlock(b, nil, nil); err != nil {
			return nil, err
		}
		for _, t := range b.Transactions {
			if err := d.StoreAsTransaction(t, b.Index, nil); err != nil {
				return nil, err
			}
		}
		b2, err := d.GetBlock(b.Hash())
		if err != nil {
			return nil, fmt.Errorf("GetBlock(hash it was stored under): %w", err)
		}
		// the transactions come back through GetTransaction
		for i, tt := range b2.Transactions {
			t2, _, err := d.GetTransaction(tt.Hash())
			if err != nil {
				return nil, fmt.Errorf("GetTransaction(%d): %w", i, err)
			}
			if t2.Hash() != tt.Hash() {
				return nil, fmt.Errorf("transaction %d read back with another hash", i)
			}
		}
		return b2, nil
	})
	// header identity through the Headers payload
	obs("p2p-headers", func() (*block.Block, error) {
		b, err := direct()
		if err != nil {
			return nil, err
		}
		hb, err := encS(&payload.Headers{Hdrs: []*block.Header{&b.Header}, StateRootInHeader: sr})
		if err != nil {
			return nil, err
		}
		m := &network.Message{StateRootInHeader: sr}
		if err := m.Decode(io.NewBinReaderFromBuf(rawMessage(0, network.CMDHeaders, hb))); err != nil {
			return nil, err
		}
		h := m.Payload.(*payload.Headers).Hdrs[0]
		if h.Hash() != b.Hash() {
			return nil, fmt.Errorf("header hash %s differs from block hash %s", h.Hash().StringLE(), b.Hash().StringLE())
		}
		return b, nil
	})
	return out
}

// comparePaths: all paths that accept the bytes must agree on hash and size;
// what the node itself derives from an accepted arrival (its JSON, its
// database record) must be readable again.
func comparePaths(what string, obs []pathObs) (accepted int, diffs []string) {
	hashes, sizes := map[string][]string{}, map[int][]string{}
	var first *pathObs
	for i := range obs {
		o := &obs[i]
		if o.err != "" {
			continue
		}
		accepted++
		if first == nil {
			first = o
		}
		hashes[o.hash] = append(hashes[o.hash], o.path)
		if o.size >= 0 {
			sizes[o.size] = append(sizes[o.size], o.path)
		}
	}
	if len(hashes) > 1 {
		var g []string
		for h, ps := range hashes {
			g = append(g, fmt.Sprintf("%s via %s", h, strings.Join(ps, "+")))
		}
		sort.Strings(g)
		diffs = append(diffs, fmt.Sprintf("%s-hash-depends-on-path|%s", what, strings.Join(g, " / ")))
	}
	if len(sizes) > 1 {
		var g []string
		for h, ps := range sizes {
			g = append(g, fmt.Sprintf("%d via %s", h, strings.Join(ps, "+")))
		}
		sort.Strings(g)
		diffs = append(diffs, fmt.Sprintf("%s-size-depends-on-path|%s", what, strings.Join(g, " / ")))
	}
	if first != nil && obs[0].err == "" {
		for _, o := range obs {
			if (o.path == "json-of-received" || o.path == "dao") && o.err != "" && o.err != errNoJSON.Error() {
				diffs = append(diffs, fmt.Sprintf("%s-%s-unreadable|%s", what, o.path, short(o.err, 200)))
			}
		}
	}
	return
}

type pathCase struct {
	what  string // tx | block | block/stateroot
	kind  string // canonical | varint-nonminimal | subst
	off   int
	seed  []byte
	input []byte
}

func pathCases(th bool) []pathCase {
	var out []pathCase
	seen := map[string]bool{}
	var txSeeds [][]byte
	for _, t := range transactions(th) {
		b, err := encS(t)
		if err != nil || seen[string(b)] {
			continue
		}
		seen[string(b)] = true
		out = append(out, pathCase{"tx", "canonical", -1, nil, b})
		if len(b) <= 160 {
			txSeeds = append(txSeeds, b)
		}
	}
	// non-canonical arrivals of the same content: var-int re-encodings and
	// boundary byte substitutions at every position of small seeds, one seed per
	// distinct layout (sequence of field labels).
	layouts := map[string]bool{}
	for _, s := range txSeeds {
		var sig strings.Builder
		for _, sp := range walkTx(s) {
			sig.WriteString(sp.label)
			sig.WriteByte(',')
		}
		if layouts[sig.String()] {
			continue
		}
		layouts[sig.String()] = true
		for i := 0; i < len(s); i++ {
			if s[i] < 0xfd {
				for _, form := range []byte{0xfd, 0xfe, 0xff} {
					out = append(out, pathCase{"tx", "varint-nonminimal", i, s, cat(s[:i], varintForm(uint64(s[i]), form), s[i+1:])})
				}
			}
			for _, x := range boundaryBytes {
				if x != s[i] {
					m := append([]byte{}, s...)
					m[i] = x
					out = append(out, pathCase{"tx", "subst", i, s, m})
				}
			}
			if s[i] == 0x02 || s[i] == 0x03 {
				// a compressed key prefix: try the uncompressed form of the same key
				if i+33 <= len(s) {
					for _, k := range pubs {
						if bytes.Equal(k.Bytes(), s[i:i+33]) {
							out = append(out, pathCase{"tx", "uncompressed-key", i, s, cat(s[:i], k.UncompressedBytes(), s[i+33:])})
						}
					}
				}
			}
		}
	}
	for _, sr := range []bool{false, true} {
		what := "block"
		if sr {
			what = "block/stateroot"
		}
		n := 0
		for _, b := range blocks(sr, th) {
			y, err := encS(b)
			if err != nil {
				continue
			}
			out = append(out, pathCase{what, "canonical", -1, nil, y})
			if len(y) <= 400 && n < 6 {
				n++
				for i := 0; i < len(y); i++ {
					if y[i] < 0xfd {
						out = append(out, pathCase{what, "varint-nonminimal", i, y, cat(y[:i], varintForm(uint64(y[i]), 0xfd), y[i+1:])})
					}
				}
			}
		}
	}
	return out
}

func (pc *pathCase) eval() (accepted int, fs []finding) {
	var obs []pathObs
	what := "tx"
	if pc.what == "tx" {
		obs = txPaths(pc.input)
	} else {
		what = "block"
		obs = blockPaths(pc.input, pc.what == "block/stateroot")
	}
	accepted, diffs := comparePaths(what, obs)
	label := ""
	if pc.what == "tx" && pc.seed != nil {
		label = txLabel(pc.seed, pc.off)
	}
	for _, d := range diffs {
		parts := strings.SplitN(d, "|", 2)
		key := fmt.Sprintf("path:%s:%s", pc.kind, parts[0])
		if label != "" {
			key += ":" + label
		}
		var all []string
		for _, o := range obs {
			if o.err != "" {
				all = append(all, fmt.Sprintf("%s: error %s", o.path, short(o.err, 120)))
			} else {
				all = append(all, fmt.Sprintf("%s: hash %s size %d", o.path, o.hash, o.size))
			}
		}
		fs = append(fs, finding{Key: key, Mode: "path", Codec: pc.what, Kind: pc.kind, Oracle: strings.SplitN(parts[0], ":", 2)[0], Label: label,
			Input: clip(pc.input), Seed: clip(pc.seed), Offset: pc.off, Detail: parts[1] + " || " + strings.Join(all, "; "), Pkg: "pkg/core/transaction"})
	}
	return
}

func pathPhase(r *vk.Run, th bool, report func(finding)) (int, int) {
	cases := pathCases(th)
	var mu sync.Mutex
	evals, nontrivial := 0, 0
	byKind := map[string]int{}
	var all []finding
	r.Parallel(len(cases), func(i int) {
		acc, fs := cases[i].eval()
		mu.Lock()
		all = append(all, fs...)
		evals++
		if acc >= 2 {
			nontrivial++
		}
		byKind[cases[i].what+"/"+cases[i].kind]++
		mu.Unlock()
		switch {
		case len(fs) > 0:
			r.Outcome("path->" + fs[0].Oracle)
		case acc == 0:
			r.Outcome("path->rejected-everywhere")
		default:
			r.Outcome("path->agree")
		}
		if cases[i].kind == "canonical" && i%97 == 0 {
			r.Sample(map[string]any{"phase": "paths", "what": cases[i].what, "input_hex": short(hx(cases[i].input), 160), "paths_accepting": acc})
		}
	})
	sort.SliceStable(all, func(a, b int) bool { return len(all[a].Input) < len(all[b].Input) })
	for _, f := range all {
		report(f)
	}
	ks := make([]string, 0, len(byKind))
	for k, v := range byKind {
		ks = append(ks, fmt.Sprintf("%s=%d", k, v))
	}
	sort.Strings(ks)
	fmt.Println("path cases:", strings.Join(ks, " "))
	return evals, nontrivial
}

func replayPath(r *vk.Run, f finding) int {
	if strings.Contains(f.Input, "...") {
		fmt.Println("replay: input was clipped")
		return 0
	}
	pc := pathCase{what: f.Codec, kind: f.Kind, off: f.Offset, input: unhx(f.Input)}
	if f.Seed != "" && !strings.Contains(f.Seed, "...") {
		pc.seed = unhx(f.Seed)
	}
	for k := 0; k < 5; k++ {
		_, fs := pc.eval()
		var keys []string
		for _, x := range fs {
			keys = append(keys, x.Key)
			if x.Key == f.Key {
				r.Violation(x.Key, x)
			}
		}
		fmt.Printf("replay %d: %s %s input %s -> %v\n", k+1, pc.what, pc.kind, short(f.Input, 100), keys)
	}
	return 5
}
