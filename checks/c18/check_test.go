// C18, part "algebra": keys, signatures, addresses and number encodings obey
// their algebra (DESIGN.md section 4, C18). Input-exhaustive over the finite
// sets stated next to every section; every oracle is an independent reference
// (re-implemented here from the definition) or a round-trip law of the property.
//
// Every section is a function of ONE input given as a string, so that a replay
// file (section, input) re-runs exactly the failing case.
package c18

import (
	"fmt"
	"os"
	"sort"
	"strings"
	"sync"
	"testing"
	"time"

	"verif/lib/vk"
)

type failure struct {
	rank   int64
	input  string
	detail any
}

type secStat struct {
	Inputs     vk.Counter // distinct inputs evaluated (enumerations are duplicate-free)
	Nontrivial vk.Counter // of those, non-trivial by the section's rule
	Evals      vk.Counter // oracle evaluations
	Calls      vk.Counter // calls into the packages under test
	seen       vk.Counter
}

type chk struct {
	r       *vk.Run
	mu      sync.Mutex
	fails   map[string][]failure
	nfail   map[string]int
	stats   map[string]*secStat
	notes   map[string]int64 // measured facts that are not part of any oracle
	replay  bool
	nseen   map[string]int
	samples []any
}

func newChk(r *vk.Run) *chk {
	return &chk{r: r, fails: map[string][]failure{}, nfail: map[string]int{}, stats: map[string]*secStat{}, notes: map[string]int64{}, nseen: map[string]int{}}
}

// sec: the statistics of a section. All sections are created before the
// parallel phase, so the common path reads the map without locking.
func (c *chk) sec(name string) *secStat {
	if s := c.stats[name]; s != nil {
		return s
	}
	panic("unknown section " + name)
}

// seen records the first inputs of every section as samples for the evidence.
func (c *chk) seen(section, input string) {
	st := c.sec(section)
	if st.seen.Get() >= 2 {
		return
	}
	st.seen.Inc()
	c.mu.Lock()
	if c.nseen[section] < 2 {
		c.nseen[section]++
		if len(input) > 120 {
			input = input[:120] + "..."
		}
		c.samples = append(c.samples, map[string]string{"section": section, "input": input, "nth_input_of_section": fmt.Sprint(c.nseen[section])})
	}
	c.mu.Unlock()
}

func (c *chk) note(k string, n int64) {
	c.mu.Lock()
	c.notes[k] += n
	c.mu.Unlock()
}

// replayRec is the detail part of every violation: enough to re-run the case.
type replayRec struct {
	Section string `json:"section"`
	Input   string `json:"input"`
	Class   string `json:"class"`
	What    string `json:"what"`
}

// bad records a failed oracle. Failures of one class (one law of one function)
// are collected and only the simplest few are reported, so that one defect does
// not flood the report; the total is kept in the evidence.
func (c *chk) bad(section, class, input string, rank int64, what string) {
	c.bad2(section, class, input, input, rank, what)
}

// bad2: key names the failing input in the violation key, input is the exact
// argument of the section function (what --replay feeds back).
func (c *chk) bad2(section, class, key, input string, rank int64, what string) {
	c.mu.Lock()
	defer c.mu.Unlock()
	c.nfail[class]++
	f := failure{rank: rank, input: key, detail: replayRec{Section: section, Input: input, Class: class, What: what}}
	l := c.fails[class]
	if len(l) < 32 {
		c.fails[class] = append(l, f)
		return
	}
	// keep the 32 simplest seen so far
	worst := 0
	for i := range l {
		if l[i].rank > l[worst].rank || l[i].rank == l[worst].rank && l[i].input > l[worst].input {
			worst = i
		}
	}
	if rank < l[worst].rank || rank == l[worst].rank && key < l[worst].input {
		l[worst] = f
	}
}

const perClass = 2

// flush reports the perClass simplest failures of every class.
func (c *chk) flush() map[string]int {
	c.mu.Lock()
	defer c.mu.Unlock()
	classes := make([]string, 0, len(c.fails))
	for k := range c.fails {
		classes = append(classes, k)
	}
	sort.Strings(classes)
	for _, cl := range classes {
		l := c.fails[cl]
		sort.SliceStable(l, func(i, j int) bool {
			if l[i].rank != l[j].rank {
				return l[i].rank < l[j].rank
			}
			return l[i].input < l[j].input
		})
		for i := 0; i < len(l) && i < perClass; i++ {
			c.r.Violation(cl+":"+l[i].input, l[i].detail)
		}
	}
	return c.nfail
}

// guard runs f and turns a panic of the code under test into a failure.
func (c *chk) guard(section, input string, f func()) {
	defer func() {
		if r := recover(); r != nil {
			msg := fmt.Sprint(r)
			if len(msg) > 160 {
				msg = msg[:160]
			}
			c.bad(section, section+"-panic", input, 0, "panic: "+msg)
		}
	}()
	f()
}

type section struct {
	name   string
	rule   string                     // what is enumerated and what makes an input non-trivial
	shards func(c *chk) []func()      // the enumeration, cut into independent pieces
	one    func(c *chk, input string) // evaluate one input (used by the enumeration and by --replay)
	// pshards: the enumeration under a NON-default address version byte (sections
	// of prefix_test.go only; run in one sequential phase per version, see there).
	pshards func(c *chk, prefix byte) []func()
}

var sections []*section

func register(s *section) { sections = append(sections, s) }

func TestCheck(t *testing.T) {
	vk.UseT(t)
	r := vk.Start("C18", "model_checking", 70*time.Second, 8*time.Minute)
	c := newChk(r)
	for _, s := range sections {
		c.stats[s.name] = &secStat{}
	}
	if r.Replay != "" {
		c.replay = true
		var rec replayRec
		if err := r.ReadReplay(&rec); err != nil {
			fmt.Println("cannot read replay:", err)
			r.Finish(map[string]any{"states": 1, "transitions": 1, "traces_validated_against_impl": 0}, nil)
		}
		if rec.Section == "" {
			fmt.Println("replay file is not a case of the algebra part")
			r.Finish(map[string]any{"states": 1, "transitions": 1, "traces_validated_against_impl": 0}, nil)
		}
		n := 0
		for _, s := range sections {
			if s.name != rec.Section {
				continue
			}
			for i := 0; i < 5; i++ {
				before := c.nfail[rec.Class]
				c.guard(s.name, rec.Input, func() { s.one(c, rec.Input) })
				fmt.Printf("replay %d: section=%s input=%q class=%s fails=%v\n", i+1, s.name, rec.Input, rec.Class, c.nfail[rec.Class] > before)
				n++
			}
		}
		c.flush()
		r.Finish(map[string]any{"states": 1, "transitions": n, "traces_validated_against_impl": n}, nil)
	}
	var work []func()
	var names []string
	only := os.Getenv("C18_ONLY") // development aid: run the sections whose name contains this
	for _, s := range sections {
		if only != "" && !strings.Contains(s.name, only) {
			continue
		}
		sh := s.shards(c)
		for range sh {
			names = append(names, s.name)
		}
		work = append(work, sh...)
	}
	r.Parallel(len(work), func(i int) {
		c.guard(names[i], "(enumeration)", work[i])
	})
	// the sections that depend on the process-global address version byte, once per
	// non-default version, each in its own phase after the common one has been joined.
	if only == "" {
		c.prefixPhases()
	}
	nfail := c.flush()
	cov := map[string]any{}
	var inputs, nontriv, evals, calls int64
	per := map[string]any{}
	var rules []string
	for _, s := range sections {
		st := c.sec(s.name)
		inputs += st.Inputs.Get()
		nontriv += st.Nontrivial.Get()
		evals += st.Evals.Get()
		calls += st.Calls.Get()
		per[s.name] = map[string]int64{"inputs": st.Inputs.Get(), "nontrivial": st.Nontrivial.Get(), "oracle_evaluations": st.Evals.Get(), "calls_into_repo": st.Calls.Get()}
		rules = append(rules, s.name+": "+s.rule)
		if st.Inputs.Get() == 0 && !r.IsCapped() && only == "" {
			r.Violation("harness:section-did-not-run:"+s.name, s.name)
		}
	}
	cov["states"] = int(inputs)
	cov["transitions"] = int(calls)
	cov["traces_validated_against_impl"] = int(evals)
	cov["evaluations"] = int(evals)
	cov["distinct_nontrivial"] = int(nontriv)
	cov["rule"] = "input-exhaustive per section; a state is one distinct input of one section, a transition one call into the packages under test; " + strings.Join(rules, " | ")
	cov["sections"] = per
	c.prefixCoverage(cov)
	emitAnyCoverage(c, cov)
	prio := map[string]int{"sign-verify": 1, "fixedn-values": 2, "bigint-int": 3, "base58-bytes": 4, "script-multisig": 5, "nep2": 6, "nep2-unicode": 7}
	rk := func(i int) string {
		sec := c.samples[i].(map[string]string)["section"]
		p := prio[sec]
		if p == 0 {
			p = 9
		}
		return c.samples[i].(map[string]string)["nth_input_of_section"] + fmt.Sprint(p) + sec
	}
	sort.SliceStable(c.samples, func(i, j int) bool { return rk(i) < rk(j) })
	cov["samples"] = c.samples
	if len(nfail) > 0 {
		cov["failed_inputs_per_class"] = nfail
	}
	if len(c.notes) > 0 {
		cov["measured_not_in_oracle"] = c.notes
	}
	cov["notes"] = []string{
		"observed, deliberately NOT part of any oracle (outside the property text); counts are under measured_not_in_oracle:",
		"emit.Int(16) (hence CreateMultiSigRedeemScript with m or n = 16) pushes PUSHINT8 16 where PUSH16 would do; parser and VM read it back correctly",
		"fixedn.FromString accepts a minus sign inside the fraction (\"1.-1\" with precision 2 is 0.99)",
		"fixedn.Fixed8FromString silently wraps values outside the int64 range (\"92233720369\" parses without error)",
		"the malleated signature (r, N-s) verifies for every signature: inherent to ECDSA as Neo uses it, only single-bit changes are demanded to fail",
		"every signature equals the RFC 6979 signature computed by the Go standard library (independent implementation)",
		"mr-tron/base58 rejects the empty string, so Decode(Encode([]byte{})) is not demanded of the raw codec",
		"sections prefix-*: address.Prefix (process-global) is set between two joined parallel phases, one phase per non-default version byte, and restored by a defer; under NEO2Prefix the key's verification script is required to be the NEO2 one (PUSHBYTES33 key CHECKSIG) that publickey.go switches to; what NEP2Decrypt does with a string made under another address version is counted, not judged",
		"section emit-any: kinds no doc comment promises (uintptr, big.Int by value, named integer types; int8/int16/int32/uint for stackitem.TryMake) may be refused or must come out exact; how many (path, kind) pairs refuse is counted (emit_any_refusals_of_undocumented_kinds_or_too_big_values); floats are not in the menu (TryMake truncates them through its int64 conversion: not judged); a path built on a root path (emit.Any, NewParameterFromValue, stackitem.TryMake) that already failed for the input is skipped and the failure reported once at the root; actor.Make*Call / neotest invocation helpers build their scripts with smartcontract.CreateCallScript, which is driven directly",
		"scrypt cost limits NEP-2 to 2-3 keys; CreateMultiSigRedeemScript accepts n > 1024 keys (parser refuses them): not examined beyond n = 1024",
	}
	r.Finish(cov, []string{
		"reference encoders/decoders (two's complement, base-58, Merkle recursion, decimal grammar, sequential scripts) are written in the check from the definitions and share no code with /repo",
		"crypto/sha256, crypto/hmac, crypto/aes, crypto/elliptic, math/big of the Go standard library are trusted; RIPEMD-160 and scrypt references are written in the check and verified against their published test vectors at start",
		"a corrupted Base58Check/WIF/NEP-2 string or signature is required to be rejected; a 2^-32 checksum collision or a forged signature would be reported (the run is deterministic, none occurs)",
		"NEP-2 uses the library's standard scrypt parameters (n=16384,r=8,p=8) on a few keys only (cost)",
	})
}

func itoa(i int) string { return fmt.Sprint(i) }
