package c18

// Section "emit-any": the script BUILDERS that take Go values of any integer
// KIND (emit.Any and everything built on it, smartcontract.Parameter conversion,
// the invoker -> JSON -> RPC server script path, stackitem.TryMake). One input is
// "<kind>|<decimal>": the Go value is made from the decimal by the obvious
// conversion HERE, every builder is fed with it, the script runs in a fresh VM
// and what lies on the stack must be that mathematical integer. A builder may
// refuse a value (error / panic) where it does not document support; it must
// never alter it silently.

import (
	"bytes"
	"encoding/hex"
	"encoding/json"
	"errors"
	"fmt"
	"math"
	"math/big"
	"math/bits"
	"reflect"
	"sort"
	"strings"

	"github.com/google/uuid"
	"github.com/nspcc-dev/neo-go/pkg/core/transaction"
	nio "github.com/nspcc-dev/neo-go/pkg/io"
	"github.com/nspcc-dev/neo-go/pkg/neorpc/result"
	"github.com/nspcc-dev/neo-go/pkg/rpcclient/invoker"
	"github.com/nspcc-dev/neo-go/pkg/services/rpcsrv/params"
	"github.com/nspcc-dev/neo-go/pkg/smartcontract"
	"github.com/nspcc-dev/neo-go/pkg/smartcontract/callflag"
	"github.com/nspcc-dev/neo-go/pkg/smartcontract/scparser"
	"github.com/nspcc-dev/neo-go/pkg/util"
	"github.com/nspcc-dev/neo-go/pkg/vm/emit"
	"github.com/nspcc-dev/neo-go/pkg/vm/opcode"
	"github.com/nspcc-dev/neo-go/pkg/vm/stackitem"

	"verif/lib/vk"
)

type (
	namedInt64  int64
	namedUint64 uint64
	namedUint   uint
	namedInt8   int8
	namedUint8  uint8
)

type anyKind struct {
	name     string
	min, max *big.Int // nil: unbounded
	mk       func(n *big.Int) any
	// documented support (doc comments of emit.Any / NewParameterFromValue; the
	// explicit cases of TryMake): a refusal of such a kind is a failure.
	emitDoc, paramDoc, makeDoc bool
	isBool                     bool
}

func bi(v int64) *big.Int     { return big.NewInt(v) }
func bu(v uint64) *big.Int    { return new(big.Int).SetUint64(v) }
func pow2(k uint) *big.Int    { return new(big.Int).Lsh(one, k) }
func neg(n *big.Int) *big.Int { return new(big.Int).Neg(n) }

var anyKinds = []anyKind{
	{name: "int", min: bi(math.MinInt), max: bi(math.MaxInt), mk: func(n *big.Int) any { return int(n.Int64()) }, emitDoc: true, paramDoc: true, makeDoc: true},
	{name: "int8", min: bi(math.MinInt8), max: bi(math.MaxInt8), mk: func(n *big.Int) any { return int8(n.Int64()) }, emitDoc: true, paramDoc: true},
	{name: "int16", min: bi(math.MinInt16), max: bi(math.MaxInt16), mk: func(n *big.Int) any { return int16(n.Int64()) }, emitDoc: true, paramDoc: true},
	{name: "int32", min: bi(math.MinInt32), max: bi(math.MaxInt32), mk: func(n *big.Int) any { return int32(n.Int64()) }, emitDoc: true, paramDoc: true},
	{name: "int64", min: bi(math.MinInt64), max: bi(math.MaxInt64), mk: func(n *big.Int) any { return n.Int64() }, emitDoc: true, paramDoc: true, makeDoc: true},
	{name: "uint", min: bi(0), max: bu(math.MaxUint), mk: func(n *big.Int) any { return uint(n.Uint64()) }, emitDoc: true, paramDoc: true},
	{name: "uint8", min: bi(0), max: bi(math.MaxUint8), mk: func(n *big.Int) any { return uint8(n.Uint64()) }, emitDoc: true, paramDoc: true, makeDoc: true},
	{name: "uint16", min: bi(0), max: bi(math.MaxUint16), mk: func(n *big.Int) any { return uint16(n.Uint64()) }, emitDoc: true, paramDoc: true, makeDoc: true},
	{name: "uint32", min: bi(0), max: bi(math.MaxUint32), mk: func(n *big.Int) any { return uint32(n.Uint64()) }, emitDoc: true, paramDoc: true, makeDoc: true},
	{name: "uint64", min: bi(0), max: bu(math.MaxUint64), mk: func(n *big.Int) any { return n.Uint64() }, emitDoc: true, paramDoc: true, makeDoc: true},
	{name: "*big.Int", mk: func(n *big.Int) any { return new(big.Int).Set(n) }, emitDoc: true, paramDoc: true, makeDoc: true},
	{name: "bool", min: bi(0), max: bi(1), mk: func(n *big.Int) any { return n.Sign() != 0 }, emitDoc: true, paramDoc: true, makeDoc: true, isBool: true},
	// kinds no doc comment promises: refused or right, nothing else.
	{name: "uintptr", min: bi(0), max: bu(math.MaxUint64), mk: func(n *big.Int) any { return uintptr(n.Uint64()) }},
	{name: "big.Int", mk: func(n *big.Int) any { return *new(big.Int).Set(n) }},
	{name: "namedInt64", min: bi(math.MinInt64), max: bi(math.MaxInt64), mk: func(n *big.Int) any { return namedInt64(n.Int64()) }},
	{name: "namedUint64", min: bi(0), max: bu(math.MaxUint64), mk: func(n *big.Int) any { return namedUint64(n.Uint64()) }},
	{name: "namedUint", min: bi(0), max: bu(math.MaxUint), mk: func(n *big.Int) any { return namedUint(n.Uint64()) }},
	{name: "namedInt8", min: bi(math.MinInt8), max: bi(math.MaxInt8), mk: func(n *big.Int) any { return namedInt8(n.Int64()) }},
	{name: "namedUint8", min: bi(0), max: bi(math.MaxUint8), mk: func(n *big.Int) any { return namedUint8(n.Uint64()) }},
}

func anyKindByName(s string) *anyKind {
	for i := range anyKinds {
		if anyKinds[i].name == s {
			return &anyKinds[i]
		}
	}
	return nil
}

// anyMenu: the edge menu (signed), simplest first; a kind takes what it can hold.
func anyMenu(k *anyKind) []*big.Int {
	var cand []*big.Int
	for v := int64(-2); v <= 18; v++ {
		cand = append(cand, bi(v))
	}
	ks := []uint{7, 8, 15, 16, 31, 32, 53, 63, 64}
	if k.min == nil {
		ks = append(ks, 127, 128, 254, 255, 256)
	}
	for _, e := range ks {
		for d := int64(-2); d <= 2; d++ {
			cand = append(cand, new(big.Int).Add(pow2(e), bi(d)), new(big.Int).Add(neg(pow2(e)), bi(d)))
		}
	}
	if k.min != nil {
		cand = append(cand, k.min, new(big.Int).Add(k.min, one), k.max, new(big.Int).Sub(k.max, one))
	}
	seen := map[string]bool{}
	var out []*big.Int
	for _, n := range cand {
		if k.min != nil && (n.Cmp(k.min) < 0 || n.Cmp(k.max) > 0) {
			continue
		}
		if !seen[n.String()] {
			seen[n.String()] = true
			out = append(out, n)
		}
	}
	sort.SliceStable(out, func(i, j int) bool { return rankInt(out[i]) < rankInt(out[j]) })
	return out
}

// descAny renders a stack item (maps and structs included).
func descAny(it stackitem.Item) string {
	switch it.Type() {
	case stackitem.StructT:
		var p []string
		for _, e := range it.Value().([]stackitem.Item) {
			p = append(p, descAny(e))
		}
		return "S[" + strings.Join(p, ",") + "]"
	case stackitem.ArrayT:
		var p []string
		for _, e := range it.Value().([]stackitem.Item) {
			p = append(p, descAny(e))
		}
		return "A[" + strings.Join(p, ",") + "]"
	case stackitem.MapT:
		var p []string
		for _, e := range it.Value().([]stackitem.MapElement) {
			p = append(p, descAny(e.Key)+"="+descAny(e.Value))
		}
		return "M[" + strings.Join(p, ",") + "]"
	}
	return describe(it)
}

// descParam renders a smartcontract.Parameter in the same notation.
func descParam(p smartcontract.Parameter) string {
	switch p.Type {
	case smartcontract.IntegerType:
		if b, ok := p.Value.(*big.Int); ok && b != nil {
			return "I:" + b.String()
		}
		return fmt.Sprintf("I?%T", p.Value)
	case smartcontract.BoolType:
		if b, ok := p.Value.(bool); ok {
			if b {
				return "T"
			}
			return "F"
		}
		return fmt.Sprintf("Bool?%T", p.Value)
	case smartcontract.ByteArrayType:
		if b, ok := p.Value.([]byte); ok {
			return "B:" + hex.EncodeToString(b)
		}
	case smartcontract.ArrayType:
		if a, ok := p.Value.([]smartcontract.Parameter); ok {
			var s []string
			for _, e := range a {
				s = append(s, descParam(e))
			}
			return "A[" + strings.Join(s, ",") + "]"
		}
	case smartcontract.MapType:
		if a, ok := p.Value.([]smartcontract.ParameterPair); ok {
			var s []string
			for _, e := range a {
				s = append(s, descParam(e.Key)+"="+descParam(e.Value))
			}
			return "M[" + strings.Join(s, ",") + "]"
		}
	}
	return fmt.Sprintf("?%s:%T", p.Type, p.Value)
}

// prefixBeforeSyscall: the instructions in front of the first SYSCALL.
func prefixBeforeSyscall(script []byte) ([]byte, error) {
	ctx := scparser.NewContext(script, 0)
	for {
		pos := ctx.NextIP()
		if pos >= len(script) {
			return nil, errors.New("no SYSCALL in the script")
		}
		op, _, err := ctx.Next()
		if err != nil {
			return nil, err
		}
		if op == opcode.SYSCALL {
			return bytes.Clone(script[:pos]), nil
		}
	}
}

// captureRPC is the invoker's "server": it keeps what would go over the wire.
type captureRPC struct {
	ps []smartcontract.Parameter
}

func (c *captureRPC) TerminateSession(uuid.UUID) (bool, error) { return true, nil }
func (c *captureRPC) TraverseIterator(uuid.UUID, uuid.UUID, int) ([]stackitem.Item, error) {
	return nil, nil
}
func (c *captureRPC) InvokeContractVerify(_ util.Uint160, ps []smartcontract.Parameter, _ []transaction.Signer, _ ...transaction.Witness) (*result.Invoke, error) {
	c.ps = ps
	return &result.Invoke{}, nil
}
func (c *captureRPC) InvokeFunction(_ util.Uint160, _ string, ps []smartcontract.Parameter, _ []transaction.Signer) (*result.Invoke, error) {
	c.ps = ps
	return &result.Invoke{}, nil
}
func (c *captureRPC) InvokeScript([]byte, []transaction.Signer) (*result.Invoke, error) {
	return &result.Invoke{}, nil
}

var anyCallee = util.Uint160{0xc1, 0x8a, 3, 4, 5, 6, 7, 8, 9, 10, 11, 12, 13, 14, 15, 16, 17, 18, 19, 0x20}

const anyMethod = "someMethod"

// anyPath is one way from a Go value to something comparable.
type anyPath struct {
	name string
	doc  func(k *anyKind) bool // is the kind documented as supported on this path
	// run returns the rendering of what came out, the emitted script of the bare
	// value (nil when the path has none), or the refusal.
	run func(k *anyKind, n *big.Int) (got string, bare []byte, err error)
	// want renders the expectation from the rendering of one value.
	want func(one string) string
	// notVM: what comes out is not a VM item yet (a too big number may pass)
	notVM bool
}

func sameAs(one string) string { return one }

var errNotThisKind = errors.New("path exists for another kind only")

// meaningErr: the builder produced something, and it does not mean the value.
type meaningErr struct{ msg string }

func (e *meaningErr) Error() string { return e.msg }

func wrongf(format string, a ...any) error { return &meaningErr{fmt.Sprintf(format, a...)} }

func runTop(script []byte) (string, error) {
	v, err := runScript(script)
	if err != nil {
		return "", wrongf("VM: %v (script %x)", err, script)
	}
	if v.Estack().Len() != 1 {
		return "", wrongf("VM: %d items on the stack (script %x)", v.Estack().Len(), script)
	}
	return descAny(v.Estack().Pop().Item()), nil
}

// runCall executes what a call script does before its SYSCALL and renders the
// argument array; flags, method and contract must be the given ones.
func runCall(script []byte, below []string) (string, error) {
	pre, err := prefixBeforeSyscall(script)
	if err != nil {
		return "", wrongf("%v (script %x)", err, script)
	}
	v, err := runScript(pre)
	if err != nil {
		return "", wrongf("VM: %v (script %x)", err, pre)
	}
	if v.Estack().Len() != 4+len(below) {
		return "", wrongf("VM: %d items on the stack (script %x)", v.Estack().Len(), pre)
	}
	h := descAny(v.Estack().Pop().Item())
	m := descAny(v.Estack().Pop().Item())
	f := descAny(v.Estack().Pop().Item())
	args := descAny(v.Estack().Pop().Item())
	if h != "B:"+hex.EncodeToString(anyCallee.BytesBE()) || m != "B:"+hex.EncodeToString([]byte(anyMethod)) || f != fmt.Sprintf("I:%d", callflag.All) {
		return "", wrongf("call frame (%s, %s, %s) is not (contract, method, All)", h, m, f)
	}
	for i := len(below) - 1; i >= 0; i-- {
		if g := descAny(v.Estack().Pop().Item()); g != below[i] {
			return "", wrongf("item under the call frame is %s, want %s", g, below[i])
		}
	}
	return args, nil
}

func scriptOf(f func(w *nio.BinWriter)) ([]byte, error) {
	w := nio.NewBufBinWriter()
	f(w.BinWriter)
	if w.Err != nil {
		return nil, w.Err
	}
	return w.Bytes(), nil
}

func typedOf(k *anyKind, n *big.Int, shape string) any {
	v := k.mk(n)
	t := reflect.TypeOf(v)
	switch shape {
	case "slice":
		s := reflect.MakeSlice(reflect.SliceOf(t), 2, 2)
		s.Index(0).Set(reflect.ValueOf(k.mk(n)))
		s.Index(1).Set(reflect.ValueOf(k.mk(n)))
		return s.Interface()
	case "array":
		a := reflect.New(reflect.ArrayOf(2, t)).Elem()
		a.Index(0).Set(reflect.ValueOf(k.mk(n)))
		a.Index(1).Set(reflect.ValueOf(k.mk(n)))
		return a.Interface()
	case "map":
		m := reflect.MakeMap(reflect.MapOf(reflect.TypeOf(""), t))
		m.SetMapIndex(reflect.ValueOf("k"), reflect.ValueOf(k.mk(n)))
		return m.Interface()
	}
	panic(shape)
}

func wireScript(ps []smartcontract.Parameter) ([]byte, error) {
	js, err := json.Marshal(ps)
	if err != nil {
		return nil, fmt.Errorf("marshal: %w", err)
	}
	return params.CreateFunctionInvocationScript(anyCallee, anyMethod, &params.Param{RawMessage: js})
}

var anyPaths = []anyPath{
	{name: "emit.Any", doc: func(k *anyKind) bool { return k.emitDoc }, want: sameAs,
		run: func(k *anyKind, n *big.Int) (string, []byte, error) {
			s, err := scriptOf(func(w *nio.BinWriter) { emit.Any(w, k.mk(n)) })
			if err != nil {
				return "", nil, err
			}
			g, err := runTop(s)
			return g, s, err
		}},
	{name: "emit.Array", doc: func(k *anyKind) bool { return k.emitDoc }, want: func(o string) string { return "A[" + o + "]" },
		run: func(k *anyKind, n *big.Int) (string, []byte, error) {
			s, err := scriptOf(func(w *nio.BinWriter) { emit.Array(w, k.mk(n)) })
			if err != nil {
				return "", nil, err
			}
			g, err := runTop(s)
			return g, nil, err
		}},
	{name: "emit.Array(nested)", doc: func(k *anyKind) bool { return k.emitDoc }, want: func(o string) string { return "A[I:7,A[" + o + ",A[" + o + "]]," + o + "]" },
		run: func(k *anyKind, n *big.Int) (string, []byte, error) {
			s, err := scriptOf(func(w *nio.BinWriter) { emit.Array(w, int64(7), []any{k.mk(n), []any{k.mk(n)}}, k.mk(n)) })
			if err != nil {
				return "", nil, err
			}
			g, err := runTop(s)
			return g, nil, err
		}},
	{name: "emit.AppCall", doc: func(k *anyKind) bool { return k.emitDoc }, want: func(o string) string { return "A[" + o + ",B:61," + o + "]" },
		run: func(k *anyKind, n *big.Int) (string, []byte, error) {
			s, err := scriptOf(func(w *nio.BinWriter) { emit.AppCall(w, anyCallee, anyMethod, callflag.All, k.mk(n), "a", k.mk(n)) })
			if err != nil {
				return "", nil, err
			}
			g, err := runCall(s, nil)
			return g, nil, err
		}},
	{name: "smartcontract.CreateCallScript", doc: func(k *anyKind) bool { return k.emitDoc }, want: func(o string) string { return "A[" + o + "]" },
		run: func(k *anyKind, n *big.Int) (string, []byte, error) {
			s, err := smartcontract.CreateCallScript(anyCallee, anyMethod, k.mk(n))
			if err != nil {
				return "", nil, err
			}
			g, err := runCall(s, nil)
			return g, nil, err
		}},
	{name: "smartcontract.CreateCallWithAssertScript", doc: func(k *anyKind) bool { return k.emitDoc }, want: func(o string) string { return "A[" + o + ",A[" + o + "]]" },
		run: func(k *anyKind, n *big.Int) (string, []byte, error) {
			s, err := smartcontract.CreateCallWithAssertScript(anyCallee, anyMethod, k.mk(n), []any{k.mk(n)})
			if err != nil {
				return "", nil, err
			}
			g, err := runCall(s, nil)
			return g, nil, err
		}},
	{name: "smartcontract.CreateCallAndUnwrapIteratorScript", doc: func(k *anyKind) bool { return k.emitDoc }, want: func(o string) string { return "A[" + o + "]" },
		run: func(k *anyKind, n *big.Int) (string, []byte, error) {
			s, err := smartcontract.CreateCallAndUnwrapIteratorScript(anyCallee, anyMethod, 9, k.mk(n))
			if err != nil {
				return "", nil, err
			}
			g, err := runCall(s, []string{"I:9"})
			return g, nil, err
		}},
	{name: "smartcontract.CreateCallAndPrefetchIteratorScript", doc: func(k *anyKind) bool { return k.emitDoc }, want: func(o string) string { return "A[" + o + "]" },
		run: func(k *anyKind, n *big.Int) (string, []byte, error) {
			s, err := smartcontract.CreateCallAndPrefetchIteratorScript(anyCallee, anyMethod, 300, k.mk(n))
			if err != nil {
				return "", nil, err
			}
			g, err := runCall(s, []string{"I:300"})
			return g, nil, err
		}},
	{name: "smartcontract.NewParameterFromValue", doc: func(k *anyKind) bool { return k.paramDoc }, want: sameAs, notVM: true,
		run: func(k *anyKind, n *big.Int) (string, []byte, error) {
			p, err := smartcontract.NewParameterFromValue(k.mk(n))
			if err != nil {
				return "", nil, err
			}
			return descParam(p), nil, nil
		}},
	{name: "Parameter.ToStackItem", doc: func(k *anyKind) bool { return k.paramDoc }, want: sameAs,
		run: func(k *anyKind, n *big.Int) (string, []byte, error) {
			p, err := smartcontract.NewParameterFromValue(k.mk(n))
			if err != nil {
				return "", nil, err
			}
			it, err := p.ToStackItem()
			if err != nil {
				return "", nil, err
			}
			return descAny(it), nil, nil
		}},
	{name: "ExpandParameterToEmitable->emit.Any", doc: func(k *anyKind) bool { return k.paramDoc }, want: sameAs,
		run: func(k *anyKind, n *big.Int) (string, []byte, error) {
			p, err := smartcontract.NewParameterFromValue(k.mk(n))
			if err != nil {
				return "", nil, err
			}
			e, err := smartcontract.ExpandParameterToEmitable(p)
			if err != nil {
				return "", nil, err
			}
			s, err := scriptOf(func(w *nio.BinWriter) { emit.Any(w, e) })
			if err != nil {
				return "", nil, err
			}
			g, err := runTop(s)
			return g, s, err
		}},
	{name: "Parameter.JSON", doc: func(k *anyKind) bool { return k.paramDoc }, want: sameAs,
		run: func(k *anyKind, n *big.Int) (string, []byte, error) {
			p, err := smartcontract.NewParameterFromValue(k.mk(n))
			if err != nil {
				return "", nil, err
			}
			js, err := json.Marshal(p)
			if err != nil {
				return "", nil, err
			}
			var q smartcontract.Parameter
			if err := json.Unmarshal(js, &q); err != nil {
				return "", nil, err
			}
			return descParam(q), nil, nil
		}},
	{name: "invoker.Call->wire->rpcsrv-script", doc: func(k *anyKind) bool { return k.paramDoc }, want: func(o string) string { return "A[" + o + ",A[" + o + "]]" },
		run: func(k *anyKind, n *big.Int) (string, []byte, error) {
			cl := &captureRPC{}
			if _, err := invoker.New(cl, nil).Call(anyCallee, anyMethod, k.mk(n), []any{k.mk(n)}); err != nil {
				return "", nil, err
			}
			s, err := wireScript(cl.ps)
			if err != nil {
				return "", nil, err
			}
			g, err := runCall(s, nil)
			return g, nil, err
		}},
	{name: "invoker.Verify->wire->rpcsrv-script", doc: func(k *anyKind) bool { return k.paramDoc }, want: func(o string) string { return "A[" + o + "]" },
		run: func(k *anyKind, n *big.Int) (string, []byte, error) {
			cl := &captureRPC{}
			if _, err := invoker.New(cl, nil).Verify(anyCallee, nil, k.mk(n)); err != nil {
				return "", nil, err
			}
			s, err := wireScript(cl.ps)
			if err != nil {
				return "", nil, err
			}
			g, err := runCall(s, nil)
			return g, nil, err
		}},
	{name: "NewParameterFromValue([]T)", doc: func(k *anyKind) bool { return k.paramDoc },
		want: func(o string) string { return "A[" + o + "," + o + "]" },
		run: func(k *anyKind, n *big.Int) (string, []byte, error) {
			p, err := smartcontract.NewParameterFromValue(typedOf(k, n, "slice"))
			if err != nil {
				return "", nil, err
			}
			e, err := smartcontract.ExpandParameterToEmitable(p)
			if err != nil {
				return "", nil, err
			}
			s, err := scriptOf(func(w *nio.BinWriter) { emit.Any(w, e) })
			if err != nil {
				return "", nil, err
			}
			g, err := runTop(s)
			if err == nil && g != descParam(p) {
				return "", nil, wrongf("parameter %s became %s on the stack", descParam(p), g)
			}
			return g, nil, err
		}},
	{name: "NewParameterFromValue([2]T)", doc: func(k *anyKind) bool { return k.paramDoc },
		want: func(o string) string { return "A[" + o + "," + o + "]" },
		run: func(k *anyKind, n *big.Int) (string, []byte, error) {
			p, err := smartcontract.NewParameterFromValue(typedOf(k, n, "array"))
			if err != nil {
				return "", nil, err
			}
			it, err := p.ToStackItem()
			if err != nil {
				return "", nil, err
			}
			return descAny(it), nil, nil
		}},
	{name: "NewParameterFromValue(map[string]T)->wire->rpcsrv-script", doc: func(k *anyKind) bool { return k.paramDoc },
		want: func(o string) string { return "A[M[B:6b=" + o + "]]" },
		run: func(k *anyKind, n *big.Int) (string, []byte, error) {
			p, err := smartcontract.NewParameterFromValue(typedOf(k, n, "map"))
			if err != nil {
				return "", nil, err
			}
			s, err := wireScript([]smartcontract.Parameter{p})
			if err != nil {
				return "", nil, err
			}
			g, err := runCall(s, nil)
			return g, nil, err
		}},
	{name: "stackitem.TryMake", doc: func(k *anyKind) bool { return k.makeDoc }, want: sameAs,
		run: func(k *anyKind, n *big.Int) (string, []byte, error) {
			it, err := stackitem.TryMake(k.mk(n))
			if err != nil {
				return "", nil, err
			}
			return descAny(it), nil, nil
		}},
	{name: "stackitem.TryMake/[]any", doc: func(k *anyKind) bool { return k.makeDoc }, want: func(o string) string { return "A[" + o + ",A[" + o + "]]" },
		run: func(k *anyKind, n *big.Int) (string, []byte, error) {
			it, err := stackitem.TryMake([]any{k.mk(n), []any{k.mk(n)}})
			if err != nil {
				return "", nil, err
			}
			return descAny(it), nil, nil
		}},
	{name: "stackitem.TryMake/[]int", doc: func(k *anyKind) bool { return k.makeDoc }, want: func(o string) string { return "A[" + o + ",I:-1," + o + "]" },
		run: func(k *anyKind, n *big.Int) (string, []byte, error) {
			if k.name != "int" {
				return "", nil, errNotThisKind
			}
			it, err := stackitem.TryMake([]int{int(n.Int64()), -1, int(n.Int64())})
			if err != nil {
				return "", nil, err
			}
			return descAny(it), nil, nil
		}},
	{name: "stackitem.TryMake->emit.StackItem", doc: func(k *anyKind) bool { return k.makeDoc }, want: sameAs,
		run: func(k *anyKind, n *big.Int) (string, []byte, error) {
			it, err := stackitem.TryMake(k.mk(n))
			if err != nil {
				return "", nil, err
			}
			s, err := scriptOf(func(w *nio.BinWriter) { emit.StackItem(w, it) })
			if err != nil {
				return "", nil, err
			}
			g, err := runTop(s)
			return g, s, err
		}},
	{name: "stackitem.TryMake->emit.Any-struct-map", doc: func(k *anyKind) bool { return k.makeDoc },
		want: func(o string) string { return "A[S[" + o + ",A[" + o + "]],M[" + o + "=" + o + "]]" },
		run: func(k *anyKind, n *big.Int) (string, []byte, error) {
			mkIt := func() (stackitem.Item, error) { return stackitem.TryMake(k.mk(n)) }
			a, err := mkIt()
			if err != nil {
				return "", nil, err
			}
			b, _ := mkIt()
			c, _ := mkIt()
			d, _ := mkIt()
			st := stackitem.NewStruct([]stackitem.Item{a, stackitem.NewArray([]stackitem.Item{b})})
			m := stackitem.NewMapWithValue([]stackitem.MapElement{{Key: c, Value: d}})
			s, err := scriptOf(func(w *nio.BinWriter) { emit.Any(w, []any{st, m}) })
			if err != nil {
				return "", nil, err
			}
			g, err := runTop(s)
			return g, nil, err
		}},
}

// pushForms: the scripts that push n canonically - the shortest push, and for
// -1..16 also PUSHINT8 (emit.Int(16) is known to use it; not demanded shorter).
func pushFormOK(script []byte, n *big.Int) (ok, shortest bool) {
	ref := refPushInt(n)
	if bytes.Equal(script, ref) {
		return true, true
	}
	if n.IsInt64() && n.Int64() >= -1 && n.Int64() <= 16 && bytes.Equal(script, []byte{0x00, byte(n.Int64())}) {
		return true, false
	}
	return false, false
}

var (
	anyOutcomes = vk.NewSet() // path|kind|ok or refused
	anyScripts  = vk.NewSet() // distinct scripts of a bare value
	anyResults  = vk.NewSet() // distinct renderings that came out
)

// emitAnyCoverage: scalar counters of the section for the merged evidence.
func emitAnyCoverage(c *chk, cov map[string]any) {
	st := c.sec("emit-any")
	cov["emit_any_kinds"] = len(anyKinds)
	cov["emit_any_paths"] = len(anyPaths)
	cov["emit_any_inputs_kind_x_value"] = int(st.Inputs.Get())
	cov["emit_any_path_evaluations"] = int(st.Calls.Get())
	cov["emit_any_distinct_path_kind_outcomes"] = anyOutcomes.Len()
	cov["emit_any_distinct_bare_scripts"] = anyScripts.Len()
	cov["emit_any_distinct_results"] = anyResults.Len()
}

// anyRoot: the path a path is built on (itself for the three roots).
func anyRoot(name string) string {
	switch {
	case strings.HasPrefix(name, "stackitem.TryMake"):
		return "stackitem.TryMake"
	case strings.HasPrefix(name, "emit.") || strings.HasPrefix(name, "smartcontract.CreateCall"):
		return "emit.Any"
	}
	return "smartcontract.NewParameterFromValue"
}

func emitAnyOne(c *chk, in string) {
	const sec = "emit-any"
	st := c.sec(sec)
	c.seen(sec, in)
	kn, dec, _ := strings.Cut(in, "|")
	k := anyKindByName(kn)
	n, ok := new(big.Int).SetString(dec, 10)
	if k == nil || !ok {
		panic("bad input " + in)
	}
	st.Inputs.Inc()
	enc := refEncode(n)
	if len(enc) > 1 {
		st.Nontrivial.Inc()
	}
	rank := rankInt(n)
	if !new(big.Int).Abs(n).IsInt64() {
		// among the wide values a power of two is the simplest
		a := new(big.Int).Abs(n)
		pc := 0
		for _, w := range a.Bits() {
			pc += bits.OnesCount(uint(w))
		}
		rank = int64(1)<<50 + int64(a.BitLen())<<12 + int64(pc)
	}
	one := "I:" + n.String()
	if k.isBool {
		one = map[bool]string{true: "T", false: "F"}[n.Sign() != 0]
	}
	fits := len(enc) <= 32
	failed := map[string]bool{}
	for i := range anyPaths {
		p := &anyPaths[i]
		if failed[anyRoot(p.name)] && anyRoot(p.name) != p.name {
			// built on a path that already failed for this input: reported once, there
			c.note("emit_any_derived_paths_skipped_after_their_root_failed", 1)
			continue
		}
		var got string
		var bare []byte
		var err error
		func() {
			defer func() {
				if r := recover(); r != nil {
					err = fmt.Errorf("panic: %v", r)
				}
			}()
			got, bare, err = p.run(k, n)
		}()
		if err == errNotThisKind {
			continue
		}
		st.Calls.Inc()
		st.Evals.Inc()
		id := p.name + "(" + k.name + ")"
		if err != nil {
			msg := err.Error()
			if len(msg) > 200 {
				msg = msg[:200]
			}
			var me *meaningErr
			switch {
			case errors.As(err, &me):
				// the builder produced something and it does not mean the value
				failed[p.name] = true
				c.bad(sec, "emit-any-value:"+id, in, rank, msg)
			case p.doc(k) && fits:
				failed[p.name] = true
				c.bad(sec, "emit-any-refused:"+id, in, rank, "a documented kind is refused: "+msg)
			default:
				c.r.Outcome("emit-any:" + p.name + ":refused")
				anyOutcomes.Add(p.name + "|" + k.name + "|refused")
				c.note("emit_any_refusals_of_undocumented_kinds_or_too_big_values", 1)
			}
			continue
		}
		if !fits && !p.notVM {
			// a number the VM cannot hold must not come out as anything
			failed[p.name] = true
			c.bad(sec, "emit-any-accepts-too-big:"+id, in, rank, "got "+got)
			continue
		}
		want := p.want(one)
		if p.name == "NewParameterFromValue([]T)" && k.name == "uint8" {
			want = "B:" + hex.EncodeToString([]byte{byte(n.Uint64()), byte(n.Uint64())}) // []uint8 IS []byte
		}
		if got != want {
			class := "emit-any-value:"
			if !p.doc(k) {
				// no doc comment promises this kind here: refusing is fine, altering is not
				class = "emit-any-undocumented-kind-altered:"
			}
			failed[p.name] = true
			c.bad(sec, class+id, in, rank, fmt.Sprintf("Go value %s of kind %s came out as %s, want %s", n, k.name, got, want))
			continue
		}
		c.r.Outcome("emit-any:" + p.name + ":ok")
		anyOutcomes.Add(p.name + "|" + k.name + "|ok")
		anyResults.Add(got)
		if bare != nil {
			anyScripts.Add(string(bare))
		}
		if bare != nil && !k.isBool {
			st.Evals.Inc()
			fok, shortest := pushFormOK(bare, n)
			if !fok {
				failed[p.name] = true
				c.bad(sec, "emit-any-push-form:"+id, in, rank, fmt.Sprintf("script %x, the canonical push of %s is %x", bare, n, refPushInt(n)))
			} else if !shortest {
				c.note("emit_any_scripts_not_the_shortest_push", 1)
			}
		}
	}
}

func init() {
	register(&section{
		name: "emit-any",
		rule: "every Go integer kind {int, int8..int64, uint, uint8..uint64, *big.Int, bool; undocumented: uintptr, big.Int by value, named int64/uint64/uint/int8/uint8} x the edge menu the kind can hold {-2..18, +-2^k+d for k in 7,8,15,16,31,32,53,63,64 (big: ..127,128,254,255,256), |d|<=2, min, min+1, max-1, max} x 22 builder paths (emit.Any/Array/nested/AppCall, smartcontract.CreateCall*Script, NewParameterFromValue -> ToStackItem / ExpandParameterToEmitable / JSON / typed slices, arrays, maps, invoker.Call/Verify -> wire JSON -> rpcsrv script, stackitem.TryMake -> emit.StackItem incl. struct and map): the fresh VM leaves exactly the Go value as a mathematical integer (reference big.Int made in the check), element-wise in containers, pushes are canonical; a documented kind is never refused, no kind is altered silently, numbers beyond 256 bits are refused; non-trivial = more than one byte",
		one:  emitAnyOne,
		shards: func(c *chk) []func() {
			var out []func()
			for i := range anyKinds {
				k := &anyKinds[i]
				out = append(out, func() {
					for _, n := range anyMenu(k) {
						if c.r.Expired() {
							return
						}
						emitAnyOne(c, k.name+"|"+n.String())
					}
				})
			}
			return out
		},
	})
}
