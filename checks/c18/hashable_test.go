package c18

// Signing of Hashable items for a NETWORK (SignHashable / VerifyHashable /
// hash.GetSignedData / hash.NetSha256): the network magic is a parameter no other
// section exercises. Reference: the signed data are LE32(magic) || hash, the
// signature is the deterministic signature of those bytes.

import (
	"bytes"
	"crypto/sha256"
	"encoding/binary"
	"fmt"
	mbits "math/bits"

	"github.com/nspcc-dev/neo-go/pkg/config/netmode"
	"github.com/nspcc-dev/neo-go/pkg/crypto/hash"
	"github.com/nspcc-dev/neo-go/pkg/util"
	"github.com/nspcc-dev/neo-go/pkg/wallet"
)

type fixedHash util.Uint256

func (h fixedHash) Hash() util.Uint256 { return util.Uint256(h) }

// netMenu: 0, 1, the two public networks, a private one, values whose four bytes
// differ (so that byte order shows) and the largest value.
var netMenu = []uint32{0, 1, 860833102, 894710606, 42, 0x01000000, 0x01020304, 0xFFFFFFFF}

func testHash(j int) util.Uint256 {
	var h util.Uint256
	switch j {
	case 0:
	case 1:
		for i := range h {
			h[i] = 0xff
		}
	default:
		for i := range h {
			h[i] = byte(i*7 + j)
		}
	}
	return h
}

func signHashableOne(c *chk, in string) {
	// input "<key>,<index into netMenu>,<hash>"
	const sec = "sign-hashable"
	st := c.sec(sec)
	c.seen(sec, in)
	var i, ni, j int
	fmt.Sscanf(in, "%d,%d,%d", &i, &ni, &j)
	net := netMenu[ni]
	priv := testKey(i)
	pub := priv.PublicKey()
	h := testHash(j)
	st.Inputs.Inc()
	if net != 0 {
		st.Nontrivial.Inc()
	}
	rank := int64(ni*100 + i*10 + j)
	key := fmt.Sprintf("key=%d:net=%d:hash=%d", i, net, j)
	ev := func(class string, ok bool, k, what string) {
		st.Evals.Inc()
		st.Calls.Inc()
		if !ok {
			c.bad2(sec, class, k, in, rank, what)
		}
	}
	data := append(binary.LittleEndian.AppendUint32(nil, net), h[:]...)
	digest := sha256.Sum256(data)
	got := hash.GetSignedData(net, fixedHash(h))
	ev("signed-data:GetSignedData", bytes.Equal(got, data), key, fmt.Sprintf("%x, reference %x", got, data))
	ev("signed-data:NetSha256", hash.NetSha256(net, fixedHash(h)) == util.Uint256(digest), key, "differs from sha256(LE32(magic)||hash)")
	sig := priv.SignHashable(net, fixedHash(h))
	want := priv.Sign(data)
	ev("sign-hashable:SignHashable == Sign(signed data)", bytes.Equal(sig, want), key, fmt.Sprintf("%x, reference %x", sig, want))
	ev("sign-hashable:VerifyHashable(SignHashable)", pub.VerifyHashable(sig, net, fixedHash(h)) && pub.Verify(sig, digest[:]), key, "does not verify")
	// (the reference signature too, so that a wrong signer does not hide the verifier)
	ev("sign-hashable:VerifyHashable(reference signature)", pub.VerifyHashable(want, net, fixedHash(h)), key, "the signature of LE32(magic)||hash does not verify")
	acc := wallet.NewAccountFromPrivateKey(testKey(i))
	ev("sign-hashable:Account.SignHashable", bytes.Equal(acc.SignHashable(netmode.Magic(net), fixedHash(h)), want), key, "differs from the key's signature")
	others := append([]uint32{}, netMenu...)
	others = append(others, mbits.ReverseBytes32(net), net+1, net^0x80000000)
	seen := map[uint32]bool{net: true}
	for _, n2 := range others {
		if seen[n2] {
			continue
		}
		seen[n2] = true
		ev("verify-accepts-other-network:VerifyHashable", !pub.VerifyHashable(want, n2, fixedHash(h)), fmt.Sprintf("%s:othernet=%d", key, n2), "a signature for one network verifies for another")
	}
	for j2 := 0; j2 < 4; j2++ {
		if j2 != j {
			ev("verify-accepts-other-message:VerifyHashable", !pub.VerifyHashable(want, net, fixedHash(testHash(j2))), fmt.Sprintf("%s:otherhash=%d", key, j2), "verifies for another hash")
		}
	}
	ev("verify-accepts-other-key:VerifyHashable", !testKey((i+1)%8).PublicKey().VerifyHashable(want, net, fixedHash(h)), key, "verifies under another key")
}

func init() {
	register(&section{
		name: "sign-hashable",
		rule: "4 keys x 8 network magics (0, 1, both public networks, 42, 0x01000000, 0x01020304, 0xffffffff) x 4 hashes: GetSignedData = LE32(magic)||hash, NetSha256 its SHA-256, SignHashable = the deterministic signature of those bytes (also through a wallet account) and verifies; fails for every other magic of the menu, the byte-swapped magic, magic+1, magic with the top bit flipped, every other hash and another key; non-trivial = magic != 0",
		one:  signHashableOne,
		shards: func(c *chk) []func() {
			var out []func()
			for i := 0; i < 4; i++ {
				out = append(out, func() {
					for ni := range netMenu {
						for j := 0; j < 4; j++ {
							signHashableOne(c, fmt.Sprintf("%d,%d,%d", i, ni, j))
						}
					}
				})
			}
			return out
		},
	})
}
