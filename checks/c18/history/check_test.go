// C18, part "history": decoding and verifying a public key is a function of
// (entry point, bytes, curve) only - whatever this process decoded before.
//
// pkg/crypto/keys keeps a process-wide LRU cache of decoded keys keyed by the
// key BYTES; the same 33 bytes can be a point of P-256 and of secp256k1. The
// other parts evaluate every input once; this one enumerates ALL sequences of
// operations op = (entry point, bytes, curve) up to a length over byte strings
// chosen to collide, each sequence from a fresh cache, and demands that the
// last operation answers exactly like the reference: the same operation done
// by direct curve arithmetic written here (no /repo code, no state).
//
// Fresh cache, black box: the cache holds 1024 entries and a hit returns the
// cached POINTER. A purge decodes 1024 filler keys (newest first, so that in
// the steady state all but the few just evicted are hits); a self-test checks
// by pointer identity that a probe key is cached and that the purge evicts it.
// The cache is process-wide, so sequences cannot run concurrently in one
// process: the enumeration is cut into shards run by child processes of this
// test binary.
package history

import (
	"bufio"
	"bytes"
	"crypto/ecdsa"
	"crypto/elliptic"
	"crypto/sha256"
	"encoding/hex"
	"encoding/json"
	"fmt"
	"math/big"
	"os"
	"os/exec"
	"runtime"
	"sort"
	"strconv"
	"strings"
	"sync"
	"testing"
	"time"

	"github.com/decred/dcrd/dcrec/secp256k1/v4"
	"github.com/nspcc-dev/neo-go/pkg/crypto/keys"
	"github.com/nspcc-dev/neo-go/pkg/vm"

	"verif/lib/vk"
)

const fullDepth = 3

var (
	r1 = elliptic.P256()
	k1 = secp256k1.S256() // nolint:staticcheck
)

func curveOf(name string) elliptic.Curve {
	if name == "k1" {
		return k1
	}
	return r1
}

func curveName(c elliptic.Curve) string {
	switch {
	case c == nil:
		return "nil"
	case c == r1:
		return "r1"
	case c == k1:
		return "k1"
	}
	return "other:" + c.Params().Name
}

// ---- reference arithmetic ------------------------------------------------------------------

// liftX: a square root of x^3+ax+b with the given parity, or nil.
func liftX(c elliptic.Curve, x *big.Int, odd uint) *big.Int {
	p := c.Params()
	if x.Cmp(p.P) >= 0 {
		return nil
	}
	y2 := new(big.Int).Exp(x, big.NewInt(3), p.P)
	if c == r1 {
		y2.Sub(y2, new(big.Int).Mul(x, big.NewInt(3)))
	}
	y2.Add(y2, p.B)
	y2.Mod(y2, p.P)
	y := new(big.Int).ModSqrt(y2, p.P)
	if y == nil {
		return nil
	}
	if y.Bit(0) != odd {
		y.Sub(p.P, y)
	}
	return y
}

func onCurve(c elliptic.Curve, x, y *big.Int) bool {
	p := c.Params()
	if x.Cmp(p.P) >= 0 || y.Cmp(p.P) >= 0 {
		return false
	}
	l := new(big.Int).Mul(y, y)
	l.Mod(l, p.P)
	ry := liftX(c, x, y.Bit(0))
	return ry != nil && new(big.Int).Mod(new(big.Int).Mul(ry, ry), p.P).Cmp(l) == 0 && ry.Cmp(y) == 0
}

// refDecode: the point the bytes denote on the curve, by the encoding rules.
func refDecode(b []byte, c elliptic.Curve) (x, y *big.Int, ok bool) {
	switch {
	case len(b) == 33 && (b[0] == 2 || b[0] == 3):
		x = new(big.Int).SetBytes(b[1:])
		y = liftX(c, x, uint(b[0]&1))
		return x, y, y != nil
	case len(b) == 65 && b[0] == 4:
		x, y = new(big.Int).SetBytes(b[1:33]), new(big.Int).SetBytes(b[33:])
		return x, y, onCurve(c, x, y)
	}
	return nil, nil, false
}

func compress(x, y *big.Int) []byte {
	return append([]byte{2 + byte(y.Bit(0))}, x.FillBytes(make([]byte, 32))...)
}

// ---- the colliding byte strings ---------------------------------------------------------------

type bstr struct {
	Name   string
	B      []byte
	Native string // curve of the private key the fixed signature was made with ("" none)
	Sig    []byte
}

var digest = sha256.Sum256([]byte("c18 history: the same bytes, two curves"))

func mkPriv(c elliptic.Curve, d int64) *keys.PrivateKey {
	x, y := c.ScalarBaseMult(big.NewInt(d).FillBytes(make([]byte, 32)))
	return &keys.PrivateKey{PrivateKey: ecdsa.PrivateKey{PublicKey: ecdsa.PublicKey{Curve: c, X: x, Y: y}, D: big.NewInt(d)}}
}

// find: the first private scalar >= from on curve c whose public X is / is not
// also the X of a point of the other curve.
func find(c, other elliptic.Curve, wantOnOther bool, from int64) *keys.PrivateKey {
	for d := from; ; d++ {
		p := mkPriv(c, d)
		if (liftX(other, p.X, 0) != nil) == wantOnOther {
			return p
		}
	}
}

func byteStrings() []bstr {
	var out []bstr
	add := func(name string, p *keys.PrivateKey, native string, uncompressed bool) {
		b := compress(p.X, p.Y)
		if uncompressed {
			b = append(append([]byte{4}, p.X.FillBytes(make([]byte, 32))...), p.Y.FillBytes(make([]byte, 32))...)
		}
		out = append(out, bstr{Name: name, B: b, Native: native, Sig: p.SignHash(digest)})
	}
	kBoth := find(k1, r1, true, 0x5eed)
	kOnly := find(k1, r1, false, 0x5eed)
	rBoth := find(r1, k1, true, 0x5eed)
	rOnly := find(r1, k1, false, 0x5eed)
	add("k1key-Xalso-on-r1", kBoth, "k1", false)
	add("r1key-Xalso-on-k1", rBoth, "r1", false)
	add("k1key-Xnot-on-r1", kOnly, "k1", false)
	add("r1key-Xnot-on-k1", rOnly, "r1", false)
	add("k1key-uncompressed", kBoth, "k1", true)
	add("r1key-uncompressed", rBoth, "r1", true)
	out = append(out, bstr{Name: "infinity", B: []byte{0}, Sig: out[0].Sig})
	return out
}

// ---- operations ---------------------------------------------------------------------------------

type op struct {
	Fn    string // entry point
	BS    int    // byte string index (-1: EVICT)
	Curve string // "r1" | "k1"
}

func (o op) String() string {
	if o.Fn == "EVICT" {
		return "EVICT(1024 other keys)"
	}
	return fmt.Sprintf("%s(%s,%s)", o.Fn, bss[o.BS].Name, o.Curve)
}

var bss []bstr

func alphabet(thorough bool) []op {
	var a []op
	both := []string{"NewPublicKeyFromBytes", "CheckMultisigPar1of1", "PublicKey.DecodeBytes"}
	r1only := []string{"NewPublicKeyFromString", "PublicKey.UnmarshalJSON", "PublicKeys.DecodeBytes"}
	if thorough {
		r1only = append(r1only, "NewPublicKeysFromStrings")
	}
	// cache users first, then the entry points that (today) bypass the cache
	for i := range bss {
		for _, c := range []string{"r1", "k1"} {
			a = append(a, op{both[0], i, c})
		}
	}
	// the VM's multisig path decodes through the same cache; /repo only ever calls
	// it with P-256 (a secp256k1 verification per operation would also dominate the cost)
	for i := range bss {
		a = append(a, op{both[1], i, "r1"})
	}
	for i := range bss {
		a = append(a, op{r1only[0], i, "r1"})
	}
	a = append(a, op{Fn: "EVICT", BS: -1})
	for i := range bss {
		for _, c := range []string{"r1", "k1"} {
			a = append(a, op{both[2], i, c})
		}
	}
	for _, fn := range r1only[1:] {
		for i := range bss {
			a = append(a, op{fn, i, "r1"})
		}
	}
	return a
}

var (
	verifyMemo = map[string]bool{}
)

func describeKey(p *keys.PublicKey, sig []byte, sigID int) string {
	if p == nil {
		return "nil key"
	}
	if p.X == nil || p.Y == nil {
		return "curve=" + curveName(p.Curve) + " infinity"
	}
	k := fmt.Sprintf("%s/%x/%x/%d", curveName(p.Curve), p.X, p.Y, sigID)
	v, ok := verifyMemo[k]
	if !ok {
		v = p.Verify(sig, digest[:]) // a pure function of the key value: computed once per value
		verifyMemo[k] = v
	}
	return fmt.Sprintf("curve=%s X=%x Y=%x bytes=%x verifies_native_signature=%v", curveName(p.Curve), p.X, p.Y, p.Bytes(), v)
}

// reference: what the operation must answer, from the encoding rules alone.
func reference(o op) string {
	if o.Fn == "EVICT" {
		return "ok"
	}
	bs := bss[o.BS]
	c := curveOf(o.Curve)
	x, y, ok := refDecode(bs.B, c)
	if o.Fn == "CheckMultisigPar1of1" {
		if !ok {
			return "panic"
		}
		return fmt.Sprint(refVerify(c, x, y, bs, o.BS))
	}
	if !ok {
		return "error"
	}
	return fmt.Sprintf("curve=%s X=%x Y=%x bytes=%x verifies_native_signature=%v", o.Curve, x, y, compress(x, y), refVerify(c, x, y, bs, o.BS))
}

var refVerifyMemo = map[string]bool{}

func refVerify(c elliptic.Curve, x, y *big.Int, bs bstr, id int) bool {
	k := fmt.Sprintf("%s/%d", curveName(c), id)
	v, ok := refVerifyMemo[k]
	if !ok {
		v = ecdsa.Verify(&ecdsa.PublicKey{Curve: c, X: x, Y: y}, digest[:], new(big.Int).SetBytes(bs.Sig[:32]), new(big.Int).SetBytes(bs.Sig[32:]))
		refVerifyMemo[k] = v
	}
	return v
}

// ---- the cache, black box ------------------------------------------------------------------------

var (
	fillers  [][]byte
	fillDir  bool
	purges   int64
	fillMiss int64
)

func makeFillers() {
	// 1024 further P-256 points (uncompressed: decoding needs no square root).
	x, y := r1.ScalarBaseMult(big.NewInt(0x7777777).Bytes())
	gx, gy := r1.Params().Gx, r1.Params().Gy
	for i := 0; i < 1024; i++ {
		fillers = append(fillers, append(append([]byte{4}, x.FillBytes(make([]byte, 32))...), y.FillBytes(make([]byte, 32))...))
		x, y = r1.Add(x, y, gx, gy)
	}
}

// touchFillers decodes every filler once, most recently touched first.
func touchFillers() {
	n := len(fillers)
	for i := 0; i < n; i++ {
		j := i
		if !fillDir {
			j = n - 1 - i
		}
		if _, err := keys.NewPublicKeyFromBytes(fillers[j], r1); err != nil {
			panic("filler key does not decode: " + err.Error())
		}
	}
	fillDir = !fillDir
	purges++
}

// selfTest: (cache observable by pointer identity, purge evicts).
func selfTest() (cached, purgeWorks bool) {
	probe := compress(mkPriv(r1, 0xabcdef).X, mkPriv(r1, 0xabcdef).Y)
	touchFillers()
	p1, _ := keys.NewPublicKeyFromBytes(probe, r1)
	p2, _ := keys.NewPublicKeyFromBytes(probe, r1)
	cached = p1 == p2
	touchFillers()
	p3, _ := keys.NewPublicKeyFromBytes(probe, r1)
	purgeWorks = p3 != p1
	touchFillers()
	return
}

// ---- executing one operation against /repo ----------------------------------------------------------

func exec1(o op) (res string) {
	defer func() {
		if r := recover(); r != nil {
			res = "panic"
		}
	}()
	if o.Fn == "EVICT" {
		touchFillers()
		return "ok"
	}
	bs := bss[o.BS]
	c := curveOf(o.Curve)
	b := bytes.Clone(bs.B)
	var p *keys.PublicKey
	var err error
	switch o.Fn {
	case "NewPublicKeyFromBytes":
		p, err = keys.NewPublicKeyFromBytes(b, c)
	case "CheckMultisigPar1of1":
		return fmt.Sprint(vm.CheckMultisigPar(c, digest[:], [][]byte{b}, [][]byte{bs.Sig}))
	case "PublicKey.DecodeBytes":
		p = &keys.PublicKey{Curve: c}
		err = p.DecodeBytes(b)
	case "NewPublicKeyFromString":
		p, err = keys.NewPublicKeyFromString(hex.EncodeToString(b))
	case "NewPublicKeysFromStrings":
		var l keys.PublicKeys
		l, err = keys.NewPublicKeysFromStrings([]string{hex.EncodeToString(b)})
		if err == nil {
			p = l[0]
		}
	case "PublicKey.UnmarshalJSON":
		p = new(keys.PublicKey)
		err = json.Unmarshal([]byte(`"`+hex.EncodeToString(b)+`"`), p)
	case "PublicKeys.DecodeBytes":
		var l keys.PublicKeys
		err = l.DecodeBytes(append([]byte{1}, b...))
		if err == nil {
			if len(l) != 1 {
				return fmt.Sprintf("%d keys", len(l))
			}
			p = l[0]
		}
	default:
		panic("unknown op")
	}
	if err != nil {
		return "error"
	}
	return describeKey(p, bs.Sig, o.BS)
}

// ---- one shard (child process) ----------------------------------------------------------------------

type failRec struct {
	Seq   []int    `json:"seq"`
	Ops   []string `json:"ops"`
	Got   string   `json:"got"`
	Want  string   `json:"want"`
	Fresh string   `json:"same_op_alone_in_fresh_state"`
}

type shardOut struct {
	Sequences   int64     `json:"sequences"`
	Ops         int64     `json:"ops"`
	Colliding   int64     `json:"colliding"`
	Purges      int64     `json:"purges"`
	Cached      bool      `json:"cached"`
	PurgeWorks  bool      `json:"purge_works"`
	Expired     bool      `json:"expired"`
	Fails       []failRec `json:"fails"`
	NFails      int64     `json:"nfails"`
	Outcomes    map[string]int64
	SampleSeq   []string `json:"sample"`
	SampleGot   string   `json:"sample_got"`
	AlphabetLen int      `json:"alphabet"`
}

func runSeq(alpha []op, seq []int) string {
	touchFillers() // fresh cache
	var res string
	for _, k := range seq {
		res = exec1(alpha[k])
	}
	return res
}

func opNames(alpha []op, seq []int) []string {
	s := make([]string, len(seq))
	for i, k := range seq {
		s[i] = alpha[k].String()
	}
	return s
}

func shard(thorough bool, depth, idx, n int, deadline time.Time) shardOut {
	bss = byteStrings()
	makeFillers()
	alpha := alphabet(thorough)
	refs := make([]string, len(alpha))
	for i, o := range alpha {
		refs[i] = reference(o)
	}
	out := shardOut{Outcomes: map[string]int64{}, AlphabetLen: len(alpha)}
	out.Cached, out.PurgeWorks = selfTest()
	// which symbols go through the package-level cache (all callers of
	// keys.NewPublicKeyFromBytes) - only used to bound the deepest level.
	var cacheOps []int
	for k, o := range alpha {
		if o.Fn == "NewPublicKeyFromBytes" || o.Fn == "CheckMultisigPar1of1" || o.Fn == "NewPublicKeyFromString" || o.Fn == "EVICT" {
			cacheOps = append(cacheOps, k)
		}
	}
	cnt := 0
	mine := func(seq []int) bool {
		if len(seq) == 1 {
			return idx == 0
		}
		return (seq[0]*len(alpha)+seq[1])%n == idx
	}
	eval := func(seq []int) {
		cnt++
		if cnt&255 == 0 && time.Now().After(deadline) {
			out.Expired = true
			return
		}
		last := seq[len(seq)-1]
		got := runSeq(alpha, seq)
		out.Sequences++
		out.Ops += int64(len(seq))
		lo := alpha[last]
		for _, k := range seq[:len(seq)-1] {
			if alpha[k].BS == lo.BS && lo.BS >= 0 && (alpha[k].Curve != lo.Curve || alpha[k].Fn != lo.Fn) {
				out.Colliding++
				break
			}
		}
		cls := strings.SplitN(got, " ", 2)[0]
		out.Outcomes[lo.Fn+"->"+cls]++
		if got != refs[last] {
			out.NFails++
			if len(out.Fails) < 40 {
				out.Fails = append(out.Fails, failRec{Seq: append([]int{}, seq...), Ops: opNames(alpha, seq), Got: got, Want: refs[last], Fresh: runSeq(alpha, []int{last})})
			}
		} else if len(seq) == 3 && out.SampleSeq == nil && lo.Fn == "NewPublicKeyFromBytes" && alpha[seq[0]].BS == lo.BS && alpha[seq[0]].Curve != lo.Curve {
			out.SampleSeq, out.SampleGot = opNames(alpha, seq), got
		}
	}
	// every symbol at every position up to fullDepth; a longer sequence (thorough)
	// has a prefix of symbols that go through the cache and any symbol last.
	isCache := map[int]bool{}
	for _, k := range cacheOps {
		isCache[k] = true
	}
	var rec func(seq []int)
	rec = func(seq []int) {
		if out.Expired || len(seq) == 2 && !mine(seq) {
			return
		}
		if len(seq) > 0 && mine(seq) {
			eval(seq)
		}
		if len(seq) == depth {
			return
		}
		if len(seq)+1 > fullDepth {
			for _, k := range seq {
				if !isCache[k] {
					return
				}
			}
		}
		for k := range alpha {
			rec(append(append([]int{}, seq...), k))
		}
	}
	rec(nil)
	out.Purges = purges
	return out
}

// TestShard is the child process entry (it only runs when the parent asks).
func TestShard(t *testing.T) {
	spec := os.Getenv("C18H_SHARD")
	if spec == "" {
		t.Skip("not a child")
	}
	var idx, n, depth int
	var thorough bool
	var dl int64
	fmt.Sscanf(spec, "%d/%d/%d/%t/%d", &idx, &n, &depth, &thorough, &dl)
	out := shard(thorough, depth, idx, n, time.Unix(dl, 0))
	b, _ := json.Marshal(out)
	fmt.Printf("\nC18H:%s\n", b)
}

// ---- the check (parent) ----------------------------------------------------------------------------------

type caseRec struct {
	History bool     `json:"history_case"`
	Tier    string   `json:"tier_alphabet"`
	Seq     []int    `json:"seq"`
	Ops     []string `json:"ops"`
	Got     string   `json:"got"`
	Want    string   `json:"want_by_reference"`
	Fresh   string   `json:"same_op_alone_in_fresh_state"`
}

func TestCheck(t *testing.T) {
	vk.UseT(t)
	r := vk.Start("C18", "model_checking", 60*time.Second, 6*time.Minute)
	if r.Replay != "" {
		replay(r)
		return
	}
	depth := vk.Pick(r, 3, 4)
	nproc := min(runtime.NumCPU(), 12)
	deadline := time.Now().Add(time.Duration(float64(vk.Pick(r, 60, 360))*0.9) * time.Second)
	if s := os.Getenv("VERIF_BUDGET_S"); s != "" {
		if v, err := strconv.Atoi(s); err == nil {
			deadline = time.Now().Add(time.Duration(v) * time.Second * 9 / 10)
		}
	}
	outs := make([]shardOut, nproc)
	errs := make([]string, nproc)
	var wg sync.WaitGroup
	for i := 0; i < nproc; i++ {
		wg.Add(1)
		go func(i int) {
			defer wg.Done()
			cmd := exec.Command(os.Args[0], "-test.run", "^TestShard$", "-test.timeout", "0", "-test.count", "1")
			cmd.Env = append(os.Environ(), fmt.Sprintf("C18H_SHARD=%d/%d/%d/%t/%d", i, nproc, depth, r.Thorough(), deadline.Unix()))
			var stderr bytes.Buffer
			cmd.Stderr = &stderr
			stdout, _ := cmd.StdoutPipe()
			if err := cmd.Start(); err != nil {
				errs[i] = err.Error()
				return
			}
			kill := time.AfterFunc(time.Until(deadline)+60*time.Second, func() { _ = cmd.Process.Kill() })
			defer kill.Stop()
			sc := bufio.NewScanner(stdout)
			sc.Buffer(make([]byte, 1<<20), 1<<26)
			found := false
			for sc.Scan() {
				if l := sc.Text(); strings.HasPrefix(l, "C18H:") {
					if err := json.Unmarshal([]byte(l[5:]), &outs[i]); err != nil {
						errs[i] = err.Error()
					}
					found = true
				}
			}
			if err := cmd.Wait(); err != nil || !found {
				s := stderr.String()
				if len(s) > 600 {
					s = s[len(s)-600:]
				}
				errs[i] = fmt.Sprintf("child %d: %v %s", i, err, s)
			}
		}(i)
	}
	wg.Wait()
	var tot shardOut
	tot.Outcomes = map[string]int64{}
	tot.Cached, tot.PurgeWorks = true, true
	var fails []failRec
	for i, o := range outs {
		if errs[i] != "" {
			// a child that died is a harness failure, never silently a pass
			r.Violation(fmt.Sprintf("harness:history-child-failed:%d", i), errs[i])
			continue
		}
		tot.Sequences += o.Sequences
		tot.Ops += o.Ops
		tot.Colliding += o.Colliding
		tot.Purges += o.Purges
		tot.NFails += o.NFails
		tot.Cached = tot.Cached && o.Cached
		tot.PurgeWorks = tot.PurgeWorks && o.PurgeWorks
		tot.AlphabetLen = o.AlphabetLen
		if o.Expired {
			r.Capped()
		}
		for k, v := range o.Outcomes {
			tot.Outcomes[k] += v
		}
		fails = append(fails, o.Fails...)
		if o.SampleSeq != nil {
			r.Sample(map[string]any{"sequence": o.SampleSeq, "last_operation_answers": o.SampleGot})
		}
	}
	for k := range tot.Outcomes {
		r.Outcome(k)
	}
	if tot.Cached && !tot.PurgeWorks {
		// cannot establish a fresh state: results below are still compared with the
		// reference, but a reported sequence may owe its failure to earlier ones.
		r.Capped()
		fmt.Println("NOTE history: decoding 1024 other keys does not evict a cached key; sequences do not start from a fresh cache")
	}
	// the simplest failing sequences per failing entry point
	sort.SliceStable(fails, func(i, j int) bool {
		if len(fails[i].Seq) != len(fails[j].Seq) {
			return len(fails[i].Seq) < len(fails[j].Seq)
		}
		return fmt.Sprint(fails[i].Seq) < fmt.Sprint(fails[j].Seq)
	})
	per := map[string]int{}
	alphaNames := vk.Pick(r, "quick", "thorough")
	for _, f := range fails {
		last := f.Ops[len(f.Ops)-1]
		fn := last[:strings.IndexByte(last, '(')]
		if per[fn] >= 2 {
			continue
		}
		per[fn]++
		r.Violation("key-history:"+last+":after:"+strings.Join(f.Ops[:len(f.Ops)-1], ";"),
			caseRec{History: true, Tier: alphaNames, Seq: f.Seq, Ops: f.Ops, Got: f.Got, Want: f.Want, Fresh: f.Fresh})
	}
	r.Finish(map[string]any{
		"states":                        int(tot.Sequences) + 1,
		"transitions":                   int(tot.Ops),
		"traces_validated_against_impl": int(tot.Sequences),
		"evaluations":                   int(tot.Sequences),
		"distinct_nontrivial":           int(tot.Colliding),
		"rule":                          "every sequence of key decode/verify operations (entry point, byte string, curve) up to the depth, each from a fresh key cache, in child processes; the last operation must answer exactly like direct curve arithmetic; byte strings: a secp256k1 key whose X is / is not also a P-256 X, a P-256 key whose X is / is not on secp256k1, their uncompressed forms, infinity; plus the operation EVICT (decode 1024 other keys); non-trivial = the last operation's bytes were used earlier in the sequence under another curve or entry point",
		"history_depth":                 depth,
		"history_full_alphabet_depth":   min(depth, fullDepth),
		"history_outcomes":              tot.Outcomes,
		"history_alphabet":              tot.AlphabetLen,
		"history_sequences":             int(tot.Sequences),
		"history_failing_sequences":     int(tot.NFails),
		"history_child_processes":       nproc,
		"history_cache_purges":          int(tot.Purges),
		"history_cache_seen_by_pointer": tot.Cached,
		"history_purge_evicts":          tot.PurgeWorks,
	}, []string{
		"a fresh key cache is produced by decoding 1024 filler keys (the cache size); the check verifies by pointer identity of a probe key that this evicts, and says so if it does not",
		"only the last operation of a sequence is compared (every prefix is itself an enumerated sequence); Verify is computed once per distinct key value",
	})
}

func replay(r *vk.Run) {
	var c caseRec
	if err := r.ReadReplay(&c); err != nil || !c.History {
		fmt.Println("replay file is not a case of the history part")
		r.Finish(map[string]any{"states": 1, "transitions": 1, "traces_validated_against_impl": 0}, nil)
	}
	bss = byteStrings()
	makeFillers()
	alpha := alphabet(c.Tier == "thorough")
	bad := 0
	for i := 0; i < 5; i++ {
		got := runSeq(alpha, c.Seq)
		want := reference(alpha[c.Seq[len(c.Seq)-1]])
		fmt.Printf("replay %d: %v\n  got  %s\n  want %s\n", i+1, opNames(alpha, c.Seq), got, want)
		if got != want {
			bad++
		}
	}
	if bad > 0 {
		ops := opNames(alpha, c.Seq)
		r.Violation("key-history:"+ops[len(ops)-1]+":after:"+strings.Join(ops[:len(ops)-1], ";"), c)
	}
	r.Finish(map[string]any{"states": 1, "transitions": 5, "traces_validated_against_impl": 5}, nil)
}
