package c18

import (
	"bytes"
	"encoding/hex"
	"encoding/json"
	"fmt"
	"math/big"
	"slices"
	"strings"

	"github.com/nspcc-dev/neo-go/pkg/encoding/bigint"
	nio "github.com/nspcc-dev/neo-go/pkg/io"
	"github.com/nspcc-dev/neo-go/pkg/util"
	"github.com/nspcc-dev/neo-go/pkg/vm/stackitem"

	"verif/lib/vk"
)

var one = big.NewInt(1)

// refEncode: minimal two's-complement little-endian form, zero -> empty.
func refEncode(n *big.Int) []byte {
	if n.Sign() == 0 {
		return []byte{}
	}
	for l := 1; ; l++ {
		half := new(big.Int).Lsh(one, uint(8*l-1))
		if n.Cmp(new(big.Int).Neg(half)) >= 0 && n.Cmp(half) < 0 {
			v := new(big.Int).Set(n)
			if n.Sign() < 0 {
				v.Add(v, new(big.Int).Lsh(one, uint(8*l)))
			}
			b := v.FillBytes(make([]byte, l))
			slices.Reverse(b)
			return b
		}
	}
}

// refDecode: two's-complement little-endian of any length.
func refDecode(b []byte) *big.Int {
	be := slices.Clone(b)
	slices.Reverse(be)
	v := new(big.Int).SetBytes(be)
	if len(b) > 0 && b[len(b)-1]&0x80 != 0 {
		v.Sub(v, new(big.Int).Lsh(one, uint(8*len(b))))
	}
	return v
}

func rankInt(n *big.Int) int64 {
	a := new(big.Int).Abs(n)
	if a.IsInt64() {
		return a.Int64()
	}
	return int64(1)<<50 + int64(a.BitLen())
}

// ---- bigint: one integer ---------------------------------------------------------

func bigintOne(c *chk, in string) {
	const sec = "bigint-int"
	st := c.sec(sec)
	c.seen(sec, in)
	n, ok := new(big.Int).SetString(in, 10)
	if !ok {
		panic("bad input " + in)
	}
	orig := new(big.Int).Set(n)
	want := refEncode(orig)
	rank := rankInt(orig)
	st.Inputs.Inc()
	if len(want) > 1 {
		st.Nontrivial.Inc()
	}
	enc := bigint.ToBytes(n)
	st.Calls.Inc()
	st.Evals.Add(5)
	if n.Cmp(orig) != 0 {
		c.bad(sec, "bigint-argument-modified:ToBytes", in, rank, fmt.Sprintf("argument became %s", n))
		n.Set(orig)
	}
	if !bytes.Equal(enc, want) {
		c.bad(sec, "bigint-minimal-form:ToBytes", in, rank, fmt.Sprintf("ToBytes=%x, minimal two's-complement LE is %x", enc, want))
	}
	if enc != nil {
		dec := bigint.FromBytes(enc)
		st.Calls.Inc()
		if dec.Cmp(orig) != 0 {
			c.bad(sec, "bigint-roundtrip:FromBytes(ToBytes(n))", in, rank, fmt.Sprintf("ToBytes=%x FromBytes=%s", enc, dec))
		}
	}
	// the reference form itself and forms padded with redundant sign bytes decode to n.
	pad := byte(0)
	if orig.Sign() < 0 {
		pad = 0xff
	}
	for k := 0; k <= 2; k++ {
		b := slices.Clone(want)
		for i := 0; i < k; i++ {
			b = append(b, pad)
		}
		dec := bigint.FromBytes(b)
		st.Calls.Inc()
		if dec.Cmp(orig) != 0 {
			c.bad(sec, "bigint-decode:FromBytes", in, rank, fmt.Sprintf("FromBytes(%x)=%s", b, dec))
		}
	}
	// preallocated buffers: none, too small, large and dirty.
	for _, buf := range [][]byte{nil, bytes.Repeat([]byte{0xaa}, 3), bytes.Repeat([]byte{0xaa}, 40)[:0], bytes.Repeat([]byte{0x55}, 40)} {
		got := bigint.ToPreallocatedBytes(n, buf)
		st.Calls.Inc()
		if !bytes.Equal(got, want) {
			c.bad(sec, "bigint-minimal-form:ToPreallocatedBytes", in, rank, fmt.Sprintf("cap=%d len=%d: %x, want %x", cap(buf), len(buf), got, want))
		}
		if n.Cmp(orig) != 0 {
			c.bad(sec, "bigint-argument-modified:ToPreallocatedBytes", in, rank, fmt.Sprintf("argument became %s", n))
			n.Set(orig)
		}
	}
	// the VM's integer item serialises through the same codec (<= 32 bytes).
	if len(want) <= 32 {
		it := stackitem.NewBigInteger(new(big.Int).Set(orig))
		b, err := it.TryBytes()
		st.Calls.Inc()
		st.Evals.Inc()
		if err != nil || !bytes.Equal(b, want) {
			c.bad(sec, "bigint-minimal-form:stackitem.BigInteger.TryBytes", in, rank, fmt.Sprintf("%x err=%v, want %x", b, err, want))
		}
	}
}

// ---- bigint: one byte string -------------------------------------------------------

func bigintBytesOne(c *chk, in string) {
	const sec = "bigint-bytes"
	st := c.sec(sec)
	c.seen(sec, in)
	b, err := hex.DecodeString(in)
	if err != nil {
		panic(err)
	}
	if b == nil {
		b = []byte{}
	}
	st.Inputs.Inc()
	want := refDecode(b)
	min := refEncode(want)
	if len(min) < len(b) {
		st.Nontrivial.Inc() // a non-minimal form
	}
	got := bigint.FromBytes(b)
	re := bigint.ToBytes(got)
	st.Calls.Add(2)
	st.Evals.Add(2)
	rank := int64(len(b))<<32 + rankInt(want)
	if got.Cmp(want) != 0 {
		c.bad(sec, "bigint-decode:FromBytes(bytes)", in, rank, fmt.Sprintf("FromBytes=%s, two's-complement LE value is %s", got, want))
	}
	if !bytes.Equal(re, min) {
		c.bad(sec, "bigint-reencode:ToBytes(FromBytes(bytes))", in, rank, fmt.Sprintf("re-encoded %x, minimal form of %s is %x", re, want, min))
	}
}

func init() {
	register(&section{
		name: "bigint-int",
		rule: "every integer |n|<=2^17 and every +-2^k+d (k<=256,|d|<=2): ToBytes/ToPreallocatedBytes equal the reference minimal two's-complement LE form, FromBytes inverts it and also decodes sign-padded forms; non-trivial = encoding longer than one byte",
		one:  bigintOne,
		shards: func(c *chk) []func() {
			var out []func()
			const lim = 1 << 17
			const step = 1 << 12
			for lo := -lim; lo <= lim; lo += step {
				lo := lo
				out = append(out, func() {
					for v := lo; v < lo+step && v <= lim; v++ {
						if v&1023 == 0 && c.r.Expired() {
							return
						}
						bigintOne(c, itoa(v))
					}
				})
			}
			out = append(out, func() {
				seen := vk.NewSet()
				for k := 0; k <= 256; k++ {
					for _, sign := range []int64{1, -1} {
						for d := int64(-2); d <= 2; d++ {
							n := new(big.Int).Lsh(one, uint(k))
							n.Mul(n, big.NewInt(sign))
							n.Add(n, big.NewInt(d))
							if a := new(big.Int).Abs(n); a.IsInt64() && a.Int64() <= lim {
								continue // already in the range above
							}
							if seen.Add(n.String()) {
								bigintOne(c, n.String())
							}
						}
					}
				}
			})
			return out
		},
	})
	register(&section{
		name: "bigint-bytes",
		rule: "every byte string of length <= 2 (thorough: 3) plus 31..34-byte sign-boundary patterns: FromBytes equals the reference value and re-encodes to its minimal form; non-trivial = input was not minimal",
		one:  bigintBytesOne,
		shards: func(c *chk) []func() {
			maxLen := vk.Pick(c.r, 2, 3)
			var out []func()
			out = append(out, func() {
				bigintBytesOne(c, "")
				for a := 0; a < 256; a++ {
					bigintBytesOne(c, hex.EncodeToString([]byte{byte(a)}))
				}
				for _, l := range []int{31, 32, 33, 34} {
					for _, top := range []byte{0x00, 0x01, 0x7f, 0x80, 0xfe, 0xff} {
						for _, fill := range []byte{0x00, 0x80, 0xff} {
							b := bytes.Repeat([]byte{fill}, l)
							b[l-1] = top
							bigintBytesOne(c, hex.EncodeToString(b))
						}
					}
				}
			})
			for a := 0; a < 256; a++ {
				a := a
				out = append(out, func() {
					for b := 0; b < 256; b++ {
						bigintBytesOne(c, hex.EncodeToString([]byte{byte(b), byte(a)}))
						if maxLen >= 3 {
							if c.r.Expired() {
								return
							}
							for d := 0; d < 256; d++ {
								bigintBytesOne(c, hex.EncodeToString([]byte{byte(d), byte(b), byte(a)}))
							}
						}
					}
				})
			}
			return out
		},
	})
	register(&section{
		name:   "uint160-256",
		rule:   "every single-bit pattern of 160/256 bits plus dense patterns: BE/LE bytes, BE/LE hex strings, JSON and binary forms decode back to the same value and LE is the byte reversal of BE; wrong lengths and non-hex are rejected; non-trivial = value is not a palindrome of bytes",
		one:    uintOne,
		shards: func(c *chk) []func() { return []func(){func() { uintAll(c) }} },
	})
}

// ---- Uint160 / Uint256 ----------------------------------------------------------------

func uintPatterns(size int) [][]byte {
	var out [][]byte
	for bit := 0; bit < size*8; bit++ {
		b := make([]byte, size)
		b[bit/8] = 1 << uint(bit%8)
		out = append(out, b)
	}
	dense := func(f func(i int) byte) {
		b := make([]byte, size)
		for i := range b {
			b[i] = f(i)
		}
		out = append(out, b)
	}
	dense(func(i int) byte { return 0 })
	dense(func(i int) byte { return 0xff })
	dense(func(i int) byte { return byte(i + 1) })
	dense(func(i int) byte { return byte(0xf0 - i) })
	dense(func(i int) byte { return []byte{0xaa, 0x55}[i%2] })
	dense(func(i int) byte { return byte(i * 37) })
	return out
}

func uintAll(c *chk) {
	for _, size := range []int{20, 32} {
		for _, p := range uintPatterns(size) {
			uintOne(c, hex.EncodeToString(p))
		}
	}
	// wrong lengths / alphabets (input "!<size>").
	uintOne(c, "!20")
	uintOne(c, "!32")
}

func uintOne(c *chk, in string) {
	const sec = "uint160-256"
	st := c.sec(sec)
	c.seen(sec, in)
	if strings.HasPrefix(in, "!") {
		uintReject(c, in)
		return
	}
	be, err := hex.DecodeString(in)
	if err != nil {
		panic(err)
	}
	le := slices.Clone(be)
	slices.Reverse(le)
	st.Inputs.Inc()
	if !bytes.Equal(be, le) {
		st.Nontrivial.Inc()
	}
	rank := int64(len(be))
	fail := func(what, detail string) {
		c.bad(sec, fmt.Sprintf("uint%d-roundtrip:%s", len(be)*8, what), in, rank, detail)
	}
	eq := func(what string, gotBE []byte, err error) {
		st.Evals.Inc()
		st.Calls.Inc()
		if err != nil || !bytes.Equal(gotBE, be) {
			fail(what, fmt.Sprintf("got %x err=%v", gotBE, err))
		}
	}
	if len(be) == 20 {
		u, err := util.Uint160DecodeBytesBE(be)
		eq("DecodeBytesBE", u[:], err)
		snapshot := u
		eq("BytesBE", u.BytesBE(), nil)
		st.Evals.Inc()
		if gl := u.BytesLE(); !bytes.Equal(gl, le) || u != snapshot {
			fail("BytesLE", fmt.Sprintf("BytesLE=%x want %x (receiver now %x)", gl, le, u[:]))
		}
		u2, err := util.Uint160DecodeBytesLE(le)
		eq("DecodeBytesLE", u2[:], err)
		u3, err := util.Uint160DecodeStringBE(u.StringBE())
		eq("DecodeStringBE(StringBE)", u3[:], err)
		u4, err := util.Uint160DecodeStringLE(u.StringLE())
		eq("DecodeStringLE(StringLE)", u4[:], err)
		st.Evals.Add(3)
		if u.StringBE() != hex.EncodeToString(be) || u.StringLE() != hex.EncodeToString(le) || u.String() != u.StringBE() {
			fail("String", fmt.Sprintf("BE=%s LE=%s", u.StringBE(), u.StringLE()))
		}
		rv := u.Reverse()
		if !bytes.Equal(rv[:], le) || rv.Reverse() != u {
			fail("Reverse", fmt.Sprintf("%x", rv[:]))
		}
		js, err := json.Marshal(u)
		if err != nil || string(js) != `"0x`+hex.EncodeToString(le)+`"` {
			fail("MarshalJSON", fmt.Sprintf("%s err=%v", js, err))
		}
		var u5, u6 util.Uint160
		err = json.Unmarshal(js, &u5)
		eq("UnmarshalJSON(MarshalJSON)", u5[:], err)
		err = json.Unmarshal([]byte(`"`+hex.EncodeToString(le)+`"`), &u6)
		eq("UnmarshalJSON(no 0x)", u6[:], err)
		w := nio.NewBufBinWriter()
		u.EncodeBinary(w.BinWriter)
		var u7 util.Uint160
		rd := nio.NewBinReaderFromBuf(w.Bytes())
		u7.DecodeBinary(rd)
		eq("DecodeBinary(EncodeBinary)", u7[:], rd.Err)
		return
	}
	u, err := util.Uint256DecodeBytesBE(be)
	eq("DecodeBytesBE", u[:], err)
	snapshot := u
	eq("BytesBE", u.BytesBE(), nil)
	st.Evals.Inc()
	if gl := u.BytesLE(); !bytes.Equal(gl, le) || u != snapshot {
		fail("BytesLE", fmt.Sprintf("BytesLE=%x want %x (receiver now %x)", gl, le, u[:]))
	}
	u2, err := util.Uint256DecodeBytesLE(le)
	eq("DecodeBytesLE", u2[:], err)
	u3, err := util.Uint256DecodeStringBE(u.StringBE())
	eq("DecodeStringBE(StringBE)", u3[:], err)
	u4, err := util.Uint256DecodeStringLE(u.StringLE())
	eq("DecodeStringLE(StringLE)", u4[:], err)
	st.Evals.Add(3)
	if u.StringBE() != hex.EncodeToString(be) || u.StringLE() != hex.EncodeToString(le) || u.String() != u.StringBE() {
		fail("String", fmt.Sprintf("BE=%s LE=%s", u.StringBE(), u.StringLE()))
	}
	rv := u.Reverse()
	if !bytes.Equal(rv[:], le) || rv.Reverse() != u {
		fail("Reverse", fmt.Sprintf("%x", rv[:]))
	}
	js, err := json.Marshal(u)
	if err != nil || string(js) != `"0x`+hex.EncodeToString(le)+`"` {
		fail("MarshalJSON", fmt.Sprintf("%s err=%v", js, err))
	}
	var u5, u6 util.Uint256
	err = json.Unmarshal(js, &u5)
	eq("UnmarshalJSON(MarshalJSON)", u5[:], err)
	err = json.Unmarshal([]byte(`"`+hex.EncodeToString(le)+`"`), &u6)
	eq("UnmarshalJSON(no 0x)", u6[:], err)
	w := nio.NewBufBinWriter()
	u.EncodeBinary(w.BinWriter)
	var u7 util.Uint256
	rd := nio.NewBinReaderFromBuf(w.Bytes())
	u7.DecodeBinary(rd)
	eq("DecodeBinary(EncodeBinary)", u7[:], rd.Err)
}

func uintReject(c *chk, in string) {
	const sec = "uint160-256"
	st := c.sec(sec)
	size := 20
	if in == "!32" {
		size = 32
	}
	st.Inputs.Inc()
	st.Nontrivial.Inc()
	must := func(what string, err error) {
		st.Evals.Inc()
		st.Calls.Inc()
		if err == nil {
			c.bad(sec, fmt.Sprintf("uint%d-accepts-malformed:%s", size*8, what), in, int64(size), "no error")
		}
	}
	for _, l := range []int{0, 1, size - 1, size + 1, 2 * size} {
		b := bytes.Repeat([]byte{0x11}, l)
		s := hex.EncodeToString(b)
		if size == 20 {
			_, e := util.Uint160DecodeBytesBE(b)
			must(fmt.Sprintf("DecodeBytesBE(len %d)", l), e)
			_, e = util.Uint160DecodeBytesLE(b)
			must(fmt.Sprintf("DecodeBytesLE(len %d)", l), e)
			_, e = util.Uint160DecodeStringBE(s)
			must(fmt.Sprintf("DecodeStringBE(len %d)", len(s)), e)
			_, e = util.Uint160DecodeStringLE(s)
			must(fmt.Sprintf("DecodeStringLE(len %d)", len(s)), e)
			var u util.Uint160
			must(fmt.Sprintf("UnmarshalJSON(len %d)", len(s)), json.Unmarshal([]byte(`"0x`+s+`"`), &u))
		} else {
			_, e := util.Uint256DecodeBytesBE(b)
			must(fmt.Sprintf("DecodeBytesBE(len %d)", l), e)
			_, e = util.Uint256DecodeBytesLE(b)
			must(fmt.Sprintf("DecodeBytesLE(len %d)", l), e)
			_, e = util.Uint256DecodeStringBE(s)
			must(fmt.Sprintf("DecodeStringBE(len %d)", len(s)), e)
			_, e = util.Uint256DecodeStringLE(s)
			must(fmt.Sprintf("DecodeStringLE(len %d)", len(s)), e)
			var u util.Uint256
			must(fmt.Sprintf("UnmarshalJSON(len %d)", len(s)), json.Unmarshal([]byte(`"0x`+s+`"`), &u))
		}
	}
	// right length, wrong alphabet / odd length.
	good := strings.Repeat("ab", size)
	for _, s := range []string{"g" + good[1:], good[:len(good)-1] + "z", good[:len(good)-1], good + "0", " " + good[1:]} {
		if size == 20 {
			_, e := util.Uint160DecodeStringBE(s)
			must("DecodeStringBE("+s[:4]+"..)", e)
			_, e = util.Uint160DecodeStringLE(s)
			must("DecodeStringLE("+s[:4]+"..)", e)
		} else {
			_, e := util.Uint256DecodeStringBE(s)
			must("DecodeStringBE("+s[:4]+"..)", e)
			_, e = util.Uint256DecodeStringLE(s)
			must("DecodeStringLE("+s[:4]+"..)", e)
		}
	}
}
