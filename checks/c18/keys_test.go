package c18

import (
	"bytes"
	"crypto"
	"crypto/elliptic"
	"crypto/sha256"
	"encoding/asn1"
	"encoding/hex"
	"encoding/json"
	"fmt"
	"math/big"
	"strings"

	"github.com/nspcc-dev/neo-go/pkg/crypto/hash"
	"github.com/nspcc-dev/neo-go/pkg/crypto/keys"
	"github.com/nspcc-dev/neo-go/pkg/encoding/address"
	"github.com/nspcc-dev/neo-go/pkg/encoding/base58"
	"github.com/nspcc-dev/neo-go/pkg/util"

	"verif/lib/vk"
)

var curve = elliptic.P256()

// testScalars: private scalars at the edges of the range and in the middle.
func testScalar(i int) *big.Int {
	N := curve.Params().N
	switch i {
	case 0:
		return big.NewInt(1)
	case 1:
		return big.NewInt(2)
	case 2:
		return new(big.Int).Sub(N, big.NewInt(1))
	case 3:
		return new(big.Int).Sub(N, big.NewInt(2))
	case 4:
		return new(big.Int).Lsh(one, 255) // top bit only
	case 5:
		return new(big.Int).SetBytes(bytes.Repeat([]byte{0x00, 0xff}, 16)) // leading zero byte
	}
	h := sha256.Sum256([]byte(fmt.Sprintf("c18 key %d", i)))
	v := new(big.Int).SetBytes(h[:])
	return v.Mod(v, N)
}

func testKey(i int) *keys.PrivateKey {
	p, err := keys.NewPrivateKeyFromBytes(testScalar(i).FillBytes(make([]byte, 32)))
	if err != nil {
		panic(err)
	}
	return p
}

func testMsg(j int) []byte {
	switch j {
	case 0:
		return []byte{}
	case 1:
		return []byte{0}
	case 2:
		return []byte("a")
	case 3:
		return make([]byte, 32)
	case 4:
		return bytes.Repeat([]byte{0xff}, 64)
	}
	return []byte(fmt.Sprintf("c18 message number %d with some length to it", j))
}

// ---- WIF and public key encodings ----------------------------------------------------------

func keyCodecOne(c *chk, in string) {
	const sec = "key-codecs"
	st := c.sec(sec)
	c.seen(sec, in)
	var i int
	fmt.Sscan(in, &i)
	d := testScalar(i)
	priv := testKey(i)
	pub := priv.PublicKey()
	st.Inputs.Inc()
	st.Nontrivial.Inc()
	rank := int64(i)
	x, y := curve.ScalarBaseMult(d.FillBytes(make([]byte, 32)))
	check := func(class string, ok bool, what string) {
		st.Evals.Inc()
		st.Calls.Inc()
		if !ok {
			c.bad(sec, class, in, rank, what)
		}
	}
	check("key-derive:NewPrivateKeyFromBytes", priv.D.Cmp(d) == 0 && pub.X.Cmp(x) == 0 && pub.Y.Cmp(y) == 0 && bytes.Equal(priv.Bytes(), d.FillBytes(make([]byte, 32))), "scalar or point differ")
	// WIF
	wif := priv.WIF()
	back, err := keys.NewPrivateKeyFromWIF(wif)
	check("wif-roundtrip:NewPrivateKeyFromWIF(WIF())", err == nil && back.D.Cmp(d) == 0 && back.PublicKey().Equal(pub), fmt.Sprintf("wif %q err=%v", wif, err))
	wantWIF := refB58Enc(func() []byte {
		p := append(append([]byte{0x80}, d.FillBytes(make([]byte, 32))...), 0x01)
		return append(p, refChecksum(p)...)
	}())
	check("wif-encode:WIF", wif == wantWIF, fmt.Sprintf("%q, reference %q", wif, wantWIF))
	for _, comp := range []bool{true, false} {
		for _, ver := range []byte{0x80, 0x00, 0x01, 0xef} {
			s, err := keys.WIFEncode(priv.Bytes(), ver, comp)
			w, err2 := keys.WIFDecode(s, ver)
			effVer := ver
			if ver == 0 {
				effVer = keys.WIFVersion
			}
			check("wif-roundtrip:WIFDecode(WIFEncode)", err == nil && err2 == nil && w.PrivateKey.D.Cmp(d) == 0 && w.Compressed == comp && w.Version == effVer && w.S == s,
				fmt.Sprintf("version=%#x compressed=%v string=%q err=%v/%v", ver, comp, s, err, err2))
			if err == nil {
				other := byte(0x81)
				_, e := keys.WIFDecode(s, other)
				check("wif-accepts-wrong-version:WIFDecode", e != nil || effVer == other, fmt.Sprintf("string for version %#x accepted as %#x", effVer, other))
				// every single character replaced by its successor in the alphabet
				for pos := 0; pos < len(s); pos++ {
					k := strings.IndexByte(b58alpha, s[pos])
					cs := s[:pos] + string(b58alpha[(k+1)%58]) + s[pos+1:]
					_, e := keys.WIFDecode(cs, ver)
					check("wif-accepts-corrupted:WIFDecode", e != nil, fmt.Sprintf("%q (position %d of %q changed) accepted", cs, pos, s))
				}
			}
		}
	}
	for _, l := range []int{0, 31, 33} {
		_, e := keys.WIFEncode(make([]byte, l), 0x80, true)
		check("wif-accepts-wrong-length:WIFEncode", e != nil, fmt.Sprintf("key of %d bytes accepted", l))
		_, e = keys.NewPrivateKeyFromBytes(make([]byte, l))
		check("key-accepts-wrong-length:NewPrivateKeyFromBytes", e != nil, fmt.Sprintf("key of %d bytes accepted", l))
	}
	for _, pl := range [][]byte{append([]byte{0x80}, make([]byte, 31)...), append([]byte{0x80}, make([]byte, 34)...), append(append([]byte{0x80}, priv.Bytes()...), 0x02)} {
		_, e := keys.WIFDecode(base58.CheckEncode(pl), 0x80)
		check("wif-accepts-malformed:WIFDecode", e != nil, fmt.Sprintf("payload %x accepted", pl))
	}
	// public key encodings
	comp := pub.Bytes()
	unc := pub.UncompressedBytes()
	wantComp := append([]byte{2 + byte(y.Bit(0))}, x.FillBytes(make([]byte, 32))...)
	wantUnc := append(append([]byte{4}, x.FillBytes(make([]byte, 32))...), y.FillBytes(make([]byte, 32))...)
	check("pubkey-encode:Bytes", bytes.Equal(comp, wantComp), fmt.Sprintf("%x want %x", comp, wantComp))
	check("pubkey-encode:UncompressedBytes", bytes.Equal(unc, wantUnc), fmt.Sprintf("%x want %x", unc, wantUnc))
	for name, enc := range map[string][]byte{"compressed": comp, "uncompressed": unc} {
		p2, err := keys.NewPublicKeyFromBytes(enc, curve)
		check("pubkey-roundtrip:NewPublicKeyFromBytes("+name+")", err == nil && p2.Equal(pub) && p2.X.Cmp(x) == 0 && p2.Y.Cmp(y) == 0, fmt.Sprintf("%x err=%v", enc, err))
		var p3 keys.PublicKey
		err = p3.DecodeBytes(enc)
		check("pubkey-roundtrip:DecodeBytes("+name+")", err == nil && p3.Equal(pub), fmt.Sprintf("%x err=%v", enc, err))
	}
	p4, err := keys.NewPublicKeyFromString(pub.StringCompressed())
	check("pubkey-roundtrip:NewPublicKeyFromString(StringCompressed)", err == nil && p4.Equal(pub) && pub.StringCompressed() == hex.EncodeToString(wantComp), fmt.Sprintf("err=%v", err))
	js, err := json.Marshal(pub)
	var p5 keys.PublicKey
	err2 := json.Unmarshal(js, &p5)
	check("pubkey-roundtrip:UnmarshalJSON(MarshalJSON)", err == nil && err2 == nil && p5.Equal(pub), fmt.Sprintf("%s err=%v/%v", js, err, err2))
	var list, list2 keys.PublicKeys = keys.PublicKeys{pub, testKey((i + 1) % 8).PublicKey()}, nil
	err = list2.DecodeBytes(list.Bytes())
	check("pubkey-roundtrip:PublicKeys.DecodeBytes(Bytes)", err == nil && len(list2) == 2 && list2[0].Equal(list[0]) && list2[1].Equal(list[1]), fmt.Sprintf("err=%v", err))
	// invalid encodings: every one must be rejected.
	P := curve.Params().P
	bad := map[string][]byte{
		"empty":                        {},
		"infinity":                     {0},
		"prefix-01":                    append([]byte{1}, wantComp[1:]...),
		"prefix-05":                    append([]byte{5}, wantComp[1:]...),
		"prefix-06-uncompressed":       append([]byte{6}, wantUnc[1:]...),
		"compressed-31-byte-x":         wantComp[:32],
		"compressed-extra-byte":        append(append([]byte{}, wantComp...), 0),
		"uncompressed-63-bytes":        wantUnc[:64],
		"uncompressed-extra-byte":      append(append([]byte{}, wantUnc...), 0),
		"uncompressed-y-plus-1":        append(append([]byte{4}, x.FillBytes(make([]byte, 32))...), new(big.Int).Mod(new(big.Int).Add(y, one), P).FillBytes(make([]byte, 32))...),
		"uncompressed-x-and-y-swapped": append(append([]byte{4}, y.FillBytes(make([]byte, 32))...), x.FillBytes(make([]byte, 32))...),
	}
	// a compressed X with no point on the curve: search upwards from x+1 (reference arithmetic).
	for xx := new(big.Int).Add(x, one); ; xx.Add(xx, one) {
		if !hasY(xx) {
			bad["compressed-x-not-on-curve"] = append([]byte{2}, xx.FillBytes(make([]byte, 32))...)
			break
		}
	}
	for name, enc := range bad {
		_, err := keys.NewPublicKeyFromBytes(enc, curve)
		check("pubkey-accepts-invalid:NewPublicKeyFromBytes", err != nil, fmt.Sprintf("%s: %x accepted", name, enc))
	}
	// the other parity decodes to the negated point, not to this key.
	flip := append([]byte{wantComp[0] ^ 1}, wantComp[1:]...)
	p6, err := keys.NewPublicKeyFromBytes(flip, curve)
	check("pubkey-decode:NewPublicKeyFromBytes(other parity)", err == nil && p6.X.Cmp(x) == 0 && new(big.Int).Add(p6.Y, y).Cmp(P) == 0, fmt.Sprintf("err=%v", err))
	// script hash and address of the key.
	vs := pub.GetVerificationScript()
	sh := pub.GetScriptHash()
	check("key-address:GetScriptHash/Address", sh == hash.Hash160(vs) && pub.Address() == address.Uint160ToString(sh) && priv.Address() == pub.Address() && priv.GetScriptHash() == sh, "script hash / address chain inconsistent")
	ua, err := address.StringToUint160(pub.Address())
	check("key-address:StringToUint160(Address())", err == nil && ua == sh, fmt.Sprintf("err=%v", err))
}

// hasY: is there a point with this X on P-256 (y^2 = x^3 - 3x + b)?
func hasY(x *big.Int) bool {
	p := curve.Params()
	if x.Cmp(p.P) >= 0 {
		return false
	}
	y2 := new(big.Int).Exp(x, big.NewInt(3), p.P)
	y2.Sub(y2, new(big.Int).Mul(x, big.NewInt(3)))
	y2.Add(y2, p.B)
	y2.Mod(y2, p.P)
	return new(big.Int).ModSqrt(y2, p.P) != nil
}

// ---- NEP-2 -------------------------------------------------------------------------------------

func nep2One(c *chk, in string) {
	// input "<key index>|<passphrase>"
	const sec = "nep2"
	st := c.sec(sec)
	c.seen(sec, in)
	k := strings.IndexByte(in, '|')
	var i int
	fmt.Sscan(in[:k], &i)
	pass := in[k+1:]
	priv := testKey(i)
	st.Inputs.Inc()
	st.Nontrivial.Inc()
	rank := int64(i)
	params := keys.NEP2ScryptParams()
	enc, err := keys.NEP2Encrypt(priv, pass, params)
	st.Calls.Inc()
	st.Evals.Inc()
	if err != nil || len(enc) != 58 {
		c.bad(sec, "nep2-encrypt:NEP2Encrypt", in, rank, fmt.Sprintf("%q err=%v", enc, err))
		return
	}
	dec, err := keys.NEP2Decrypt(enc, pass, params)
	st.Calls.Inc()
	st.Evals.Inc()
	if err != nil || dec.D.Cmp(priv.D) != 0 || !dec.PublicKey().Equal(priv.PublicKey()) {
		c.bad(sec, "nep2-roundtrip:NEP2Decrypt(NEP2Encrypt)", in, rank, fmt.Sprintf("%q err=%v", enc, err))
	}
	enc2, _ := keys.NEP2Encrypt(priv, pass, params)
	st.Calls.Inc()
	st.Evals.Inc()
	if enc2 != enc {
		c.bad(sec, "nep2-not-deterministic:NEP2Encrypt", in, rank, fmt.Sprintf("%q then %q", enc, enc2))
	}
	// every passphrase one character away: substitution at each position, one
	// character dropped at each position, one appended, and the case of each letter.
	rs := []rune(pass)
	wrong := vk.NewSet()
	var list []string
	addw := func(w string) {
		if w != pass && wrong.Add(w) {
			list = append(list, w)
		}
	}
	for p := range rs {
		sub := append([]rune{}, rs...)
		sub[p]++
		addw(string(sub))
		addw(string(append(append([]rune{}, rs[:p]...), rs[p+1:]...)))
		if up := strings.ToUpper(string(rs[p])); up != string(rs[p]) {
			addw(string(rs[:p]) + up + string(rs[p+1:]))
		}
	}
	addw(pass + "a")
	addw(pass + " ")
	for _, w := range list {
		_, err := keys.NEP2Decrypt(enc, w, params)
		st.Calls.Inc()
		st.Evals.Inc()
		if err == nil {
			c.bad2(sec, "nep2-accepts-wrong-passphrase:NEP2Decrypt", fmt.Sprintf("key=%d:right=%q:wrong=%q", i, pass, w), in, rank, "decrypted without error")
		}
	}
	// a damaged string is rejected before any key derivation (checksum / format).
	for pos := 0; pos < len(enc); pos++ {
		kk := strings.IndexByte(b58alpha, enc[pos])
		cs := enc[:pos] + string(b58alpha[(kk+1)%58]) + enc[pos+1:]
		_, err := keys.NEP2Decrypt(cs, pass, keys.ScryptParams{N: 2, R: 1, P: 1})
		st.Calls.Inc()
		st.Evals.Inc()
		if err == nil {
			c.bad2(sec, "nep2-accepts-corrupted:NEP2Decrypt", fmt.Sprintf("key=%d:pos=%d", i, pos), in, rank, fmt.Sprintf("%q accepted", cs))
		}
	}
}

// nep2UnicodeOne: passphrases that contain Unicode compatibility characters. Input
// "<right passphrase>|<its compatibility twin>": the two are DIFFERENT passphrases
// (not canonically equivalent, they differ after NFC), so each must open what it
// encrypted and must not open what the other encrypted.
func nep2UnicodeOne(c *chk, in string) {
	const sec = "nep2-unicode"
	st := c.sec(sec)
	c.seen(sec, in)
	k := strings.IndexByte(in, '|')
	a, b := in[:k], in[k+1:]
	priv := testKey(1)
	params := keys.NEP2ScryptParams()
	st.Inputs.Inc()
	st.Nontrivial.Inc()
	for _, pr := range [][2]string{{a, b}, {b, a}} {
		right, wrong := pr[0], pr[1]
		enc, err := keys.NEP2Encrypt(priv, right, params)
		st.Calls.Inc()
		st.Evals.Inc()
		if err != nil {
			c.bad2(sec, "nep2-encrypt:NEP2Encrypt", fmt.Sprintf("pass=%+q", right), in, 1, fmt.Sprintf("err=%v", err))
			continue
		}
		dec, err := keys.NEP2Decrypt(enc, right, params)
		st.Calls.Inc()
		st.Evals.Inc()
		if err != nil || dec.D.Cmp(priv.D) != 0 {
			c.bad2(sec, "nep2-roundtrip:NEP2Decrypt(NEP2Encrypt)", fmt.Sprintf("pass=%+q", right), in, 1, fmt.Sprintf("the passphrase that encrypted the key does not open it: err=%v", err))
		}
		_, err = keys.NEP2Decrypt(enc, wrong, params)
		st.Calls.Inc()
		st.Evals.Inc()
		if err == nil {
			c.bad2(sec, "nep2-accepts-wrong-passphrase:NEP2Decrypt", fmt.Sprintf("right=%+q:wrong=%+q", right, wrong), in, 1, "decrypted without error")
		}
	}
}

// ---- sign / verify -------------------------------------------------------------------------------

func rfc6979ByStdlib(priv *keys.PrivateKey, digest []byte) (sig []byte, ok bool) {
	defer func() {
		if recover() != nil {
			ok = false
		}
	}()
	der, err := (&priv.PrivateKey).Sign(nil, digest, crypto.SHA256)
	if err != nil {
		return nil, false
	}
	var rs struct{ R, S *big.Int }
	if _, err := asn1.Unmarshal(der, &rs); err != nil {
		return nil, false
	}
	out := make([]byte, 64)
	rs.R.FillBytes(out[:32])
	rs.S.FillBytes(out[32:])
	return out, true
}

func signOne(c *chk, in string) {
	// input "<key>,<message>,<number of keys>,<number of messages>"
	const sec = "sign-verify"
	st := c.sec(sec)
	c.seen(sec, in)
	var i, j, nk, nm int
	fmt.Sscanf(in, "%d,%d,%d,%d", &i, &j, &nk, &nm)
	priv := testKey(i)
	pub := priv.PublicKey()
	msg := testMsg(j)
	digest := sha256.Sum256(msg)
	st.Inputs.Inc()
	st.Nontrivial.Inc()
	rank := int64(i*100 + j)
	sig := priv.Sign(msg)
	st.Calls.Inc()
	ev := func(class string, ok bool, key, what string) {
		st.Evals.Inc()
		if !ok {
			c.bad2(sec, class, key, in, rank, what)
		}
	}
	kj := fmt.Sprintf("key=%d:msg=%d", i, j)
	ev("sign-verify:Verify(Sign(m))", len(sig) == 64 && pub.Verify(sig, digest[:]), kj, fmt.Sprintf("signature %x does not verify", sig))
	st.Calls.Inc()
	sig2 := priv.Sign(msg)
	sig3 := priv.SignHash(util.Uint256(digest))
	sig4 := testKey(i).Sign(append([]byte{}, msg...))
	st.Calls.Add(3)
	ev("sign-deterministic:Sign twice", bytes.Equal(sig, sig2) && bytes.Equal(sig, sig3) && bytes.Equal(sig, sig4), kj, fmt.Sprintf("%x / %x / %x / %x", sig, sig2, sig3, sig4))
	if ref, ok := rfc6979ByStdlib(priv, digest[:]); ok {
		if bytes.Equal(ref, sig) {
			c.note("signatures_equal_to_go_stdlib_rfc6979", 1)
		} else {
			c.note("signatures_different_from_go_stdlib_rfc6979", 1)
		}
	}
	// other keys, other messages.
	for i2 := 0; i2 < nk; i2++ {
		if i2 == i {
			continue
		}
		st.Calls.Inc()
		ev("verify-accepts-other-key:Verify", !testKey(i2).PublicKey().Verify(sig, digest[:]), fmt.Sprintf("%s:otherkey=%d", kj, i2), "verifies under another key")
	}
	for j2 := 0; j2 < nm; j2++ {
		if j2 == j {
			continue
		}
		d2 := sha256.Sum256(testMsg(j2))
		st.Calls.Inc()
		ev("verify-accepts-other-message:Verify", !pub.Verify(sig, d2[:]), fmt.Sprintf("%s:othermsg=%d", kj, j2), "verifies for another message")
	}
	// every single bit of the signature.
	for bit := 0; bit < 512; bit++ {
		f := append([]byte{}, sig...)
		f[bit/8] ^= 0x80 >> uint(bit%8)
		st.Calls.Inc()
		ev("verify-accepts-altered-signature:Verify", !pub.Verify(f, digest[:]), fmt.Sprintf("%s:bit=%d", kj, bit), fmt.Sprintf("signature with bit %d flipped verifies", bit))
	}
	// every single bit of the digest.
	for bit := 0; bit < 256; bit++ {
		d2 := digest
		d2[bit/8] ^= 0x80 >> uint(bit%8)
		st.Calls.Inc()
		ev("verify-accepts-other-message:Verify", !pub.Verify(sig, d2[:]), fmt.Sprintf("%s:digestbit=%d", kj, bit), "verifies for a digest with one bit flipped")
	}
	for _, l := range []int{0, 1, 32, 63, 65, 128} {
		f := append(append([]byte{}, sig...), sig...)[:l]
		st.Calls.Inc()
		ev("verify-accepts-wrong-length:Verify", !pub.Verify(f, digest[:]), fmt.Sprintf("%s:len=%d", kj, l), "verifies")
	}
	zero := make([]byte, 64)
	st.Calls.Inc()
	ev("verify-accepts-altered-signature:Verify", !pub.Verify(zero, digest[:]), kj+":zero", "all-zero signature verifies")
	// measured only: ECDSA malleability (r, N-s) is inherent to the scheme.
	N := curve.Params().N
	hs := append([]byte{}, sig[:32]...)
	hs = append(hs, new(big.Int).Sub(N, new(big.Int).SetBytes(sig[32:])).FillBytes(make([]byte, 32))...)
	if pub.Verify(hs, digest[:]) {
		c.note("malleated_signature_r_N_minus_s_verifies", 1)
	}
}

func init() {
	register(&section{
		name: "key-codecs",
		rule: "8 (thorough: 16) private keys incl. scalars 1, 2, N-1, N-2, 2^255: WIF (every version/compression, each character corrupted, wrong version, wrong lengths), compressed/uncompressed/hex/JSON/list public-key encodings decode back to the same point; 12 kinds of invalid encodings rejected; script hash and address chain consistent",
		one:  keyCodecOne,
		shards: func(c *chk) []func() {
			var out []func()
			for i := 0; i < vk.Pick(c.r, 8, 16); i++ {
				i := i
				out = append(out, func() { keyCodecOne(c, itoa(i)) })
			}
			return out
		},
	})
	register(&section{
		name: "nep2",
		rule: "2 (thorough: 3) keys x one passphrase each, standard scrypt parameters: decrypts with the right passphrase, encryption is deterministic, every passphrase one character away (substitute/drop/append/case) and every single-character corruption of the string is rejected",
		one:  nep2One,
		shards: func(c *chk) []func() {
			cases := []string{"0|pw1", "6|Neo-é3", "2|a b"}
			var out []func()
			for _, cs := range cases[:vk.Pick(c.r, 2, 3)] {
				cs := cs
				out = append(out, func() { nep2One(c, cs) })
			}
			return out
		},
	})
	register(&section{
		name: "nep2-unicode",
		rule: "passphrases with Unicode compatibility characters (fullwidth letters, ligature, superscript, circled digit, roman numeral, trade mark, ideographic space; thorough: 4 more) against their compatibility twins, both directions, standard scrypt parameters: each opens what it encrypted and is rejected for what its twin encrypted (the twins differ after NFC, so they are different passphrases)",
		one:  nep2UnicodeOne,
		shards: func(c *chk) []func() {
			cases := []string{
				"\uff50\uff41\uff53\uff53\uff11\uff12\uff13|pass123", "\ufb01nance|finance", "e=mc\u00b2|e=mc2", "\u2460st|1st",
				"\u2163 kings|IV kings", "neo\u2122|neoTM", "a\u3000b|a b",
				"\ufb03x|ffix", "\u00bd|1\u20442", "x\u2075|x5", "\u017fecret|secret",
			}
			var out []func()
			for _, cs := range cases[:vk.Pick(c.r, 7, 11)] {
				out = append(out, func() { nep2UnicodeOne(c, cs) })
			}
			return out
		},
	})
	register(&section{
		name: "sign-verify",
		rule: "8x8 (thorough: 12x12) keys x messages: Sign verifies; Sign twice / SignHash / a fresh key object give the identical signature; fails under every other key, for every other message, for each of the 256 single-bit changes of the digest, each of the 512 single-bit changes of the signature, the zero signature and 6 wrong lengths",
		one:  signOne,
		shards: func(c *chk) []func() {
			n := vk.Pick(c.r, 8, 12)
			var out []func()
			for i := 0; i < n; i++ {
				for j := 0; j < n; j++ {
					in := fmt.Sprintf("%d,%d,%d,%d", i, j, n, n)
					out = append(out, func() { signOne(c, in) })
				}
			}
			return out
		},
	})
}
