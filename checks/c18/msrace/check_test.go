// C18, part "race": the same vm.CheckMultisigPar calls as the gated part, but
// free-running on the real elliptic.P256() and built with -race. It is a data
// race detector pass (and a second, unscheduled comparison with the sequential
// definition), not the decider for the schedule quantifier. It also covers the
// calls the gated part cannot label: the same signature byte string repeated.
package msrace

import (
	"crypto/elliptic"
	"fmt"
	"testing"
	"time"

	"github.com/nspcc-dev/neo-go/pkg/vm"

	ms "verif/lib/c18ms"
	"verif/lib/vk"
)

type caseRec struct {
	Config   ms.Config `json:"config"`
	Race     bool      `json:"free_running"`
	Name     string    `json:"name"`
	Expected string    `json:"expected_by_sequential_definition"`
	Got      string    `json:"got"`
}

func call(fx *ms.Fixtures, cfg ms.Config) (res string) {
	defer func() {
		if r := recover(); r != nil {
			res = fmt.Sprintf("panic: %v", r)
		}
	}()
	pk, sg := fx.Build(cfg)
	return fmt.Sprint(vm.CheckMultisigPar(elliptic.P256(), fx.Hash, pk, sg))
}

func TestCheck(t *testing.T) {
	vk.UseT(t)
	r := vk.Start("C18", "model_checking", 40*time.Second, 4*time.Minute)
	fx := ms.NewFixtures(1000)
	if r.Replay != "" {
		var c caseRec
		if err := r.ReadReplay(&c); err != nil || !c.Race {
			fmt.Println("replay file is not a case of the race part")
			r.Finish(map[string]any{"states": 1, "transitions": 1, "traces_validated_against_impl": 0}, nil)
		}
		bad := 0
		for i := 0; i < 200; i++ {
			if got := call(fx, c.Config); got != fmt.Sprint(ms.SeqDef(c.Config)) {
				bad++
			}
		}
		fmt.Printf("replayed %s 200x free-running: %d wrong answers\n", c.Config, bad)
		if bad > 0 {
			r.Violation("multisig-freerun:"+c.Config.String(), c)
		}
		r.Finish(map[string]any{"states": 1, "transitions": 200, "traces_validated_against_impl": 200}, nil)
	}
	if err := fx.SelfCheck(); err != nil {
		r.Violation("harness:fixtures:"+err.Error(), err.Error())
	}
	nmax := vk.Pick(r, 4, 5)
	nall := vk.Pick(r, 3, 4) // up to here every failing kind, beyond only the wrong signature
	iters := vk.Pick(r, 3, 2)
	var cfgs []ms.Config
	for n := 1; n <= nmax; n++ {
		kinds := []int{ms.SigWrong}
		if n <= nall {
			kinds = []int{ms.SigWrong, ms.SigMalformed, ms.SigZeroR}
		}
		for _, kp := range ms.KeyPatterns(n) {
			alpha := ms.SigAlphabet(ms.NumIDs(kp), kinds)
			for m := 1; m <= n; m++ {
				ms.ForEachSigs(alpha, m, func(sigs []int) bool {
					c := ms.Config{Keys: kp, Sigs: append([]int{}, sigs...)}
					cfgs = append(cfgs, c)
					// the same byte string twice only differs when a meaning repeats
					seen := map[int]bool{}
					rep := false
					for _, s := range sigs {
						rep = rep || seen[s]
						seen[s] = true
					}
					if rep {
						c.SameBytes = true
						cfgs = append(cfgs, c)
					}
					return true
				})
			}
		}
	}
	var calls, par, same, trues vk.Counter
	r.Parallel(len(cfgs), func(i int) {
		cfg := cfgs[i]
		want := fmt.Sprint(ms.SeqDef(cfg))
		if len(cfg.Sigs) > 1 {
			par.Inc()
		}
		if cfg.SameBytes {
			same.Inc()
		}
		for k := 0; k < iters; k++ {
			got := call(fx, cfg)
			calls.Inc()
			r.Outcome(got[:min(len(got), 5)])
			if got == "true" {
				trues.Inc()
			}
			if got != want {
				r.Violation("multisig-freerun:"+cfg.String(), caseRec{Config: cfg, Race: true, Name: cfg.String(), Expected: want, Got: got})
				return
			}
		}
		if i%5000 == 0 {
			r.Sample(caseRec{Config: cfg, Race: true, Name: cfg.String(), Expected: want, Got: want})
		}
	})
	r.Finish(map[string]any{
		"states":                         len(cfgs),
		"transitions":                    int(calls.Get()),
		"traces_validated_against_impl":  int(calls.Get()),
		"evaluations":                    int(calls.Get()),
		"distinct_nontrivial":            int(par.Get()),
		"rule":                           "every m-of-n configuration up to n (see n_max) incl. repeated identical signature bytes, several free-running calls each on elliptic.P256() under the race detector, many calls concurrently; non-trivial = more than one signature (the parallel path)",
		"race_n_max":                     nmax,
		"race_n_max_all_failing_kinds":   nall,
		"race_calls_per_configuration":   iters,
		"race_configurations_same_bytes": int(same.Get()),
		"race_accepting_calls":           int(trues.Get()),
	}, []string{"the race detector only sees the interleavings that happen to occur; the schedule quantifier is decided by the gated part"})
}
