// C18, part "multisig": vm.CheckMultisigPar under EVERY completion order of its
// parallel signature verifications (DESIGN.md section 4, C18).
//
// The curve is a parameter of the function. The harness passes a wrapper whose
// Params() pointer is not P-256's, which sends crypto/ecdsa down its generic
// path: that path calls the wrapper's ScalarMult from inside the worker
// goroutine that CheckMultisigPar started. The wrapper blocks there on a
// per-call gate. Everything runs inside a testing/synctest bubble, so
// synctest.Wait() returns exactly when every goroutine of the call is durably
// blocked (on a gate or on the function's own channels); the harness then
// picks which outstanding verification completes next. A depth-first search
// over these picks enumerates all schedules of a configuration; each schedule
// is one fresh execution of the real function.
package multisig

import (
	"crypto/elliptic"
	"encoding/hex"
	"fmt"
	"math/big"
	"os"
	"runtime/debug"
	"runtime/pprof"
	"sort"
	"strings"
	"sync"
	"sync/atomic"
	"testing"
	"testing/synctest"
	"time"

	"github.com/nspcc-dev/neo-go/pkg/vm"

	ms "verif/lib/c18ms"
	"verif/lib/vk"
)

// ---- the gated curve ---------------------------------------------------------

var p256 = elliptic.P256()

type gate struct {
	id string
	ch chan struct{}
}

// exec is one execution (one schedule) of one configuration.
type exec struct {
	mu      sync.Mutex
	blocked []*gate
}

type gcurve struct {
	params *elliptic.CurveParams // a copy: pointer differs from P-256's
	fx     *ms.Fixtures
	ex     atomic.Pointer[exec]
	mu     sync.Mutex
	memo   map[string][2]*big.Int
	mults  int64
}

func (c *gcurve) Params() *elliptic.CurveParams { return c.params }
func (c *gcurve) IsOnCurve(x, y *big.Int) bool  { return p256.IsOnCurve(x, y) }
func (c *gcurve) Add(x1, y1, x2, y2 *big.Int) (*big.Int, *big.Int) {
	return c.cached("a"+string(x1.Bytes())+"/"+string(y1.Bytes())+"/"+string(x2.Bytes())+"/"+string(y2.Bytes()), func() (*big.Int, *big.Int) { return p256.Add(x1, y1, x2, y2) })
}
func (c *gcurve) Double(x1, y1 *big.Int) (*big.Int, *big.Int) { return p256.Double(x1, y1) }

// memoised: P-256 arithmetic is a pure function; the same few (point, scalar)
// pairs recur in millions of schedules.
func (c *gcurve) cached(key string, f func() (*big.Int, *big.Int)) (*big.Int, *big.Int) {
	c.mu.Lock()
	v, ok := c.memo[key]
	c.mu.Unlock()
	if !ok {
		x, y := f()
		v = [2]*big.Int{x, y}
		c.mu.Lock()
		c.memo[key] = v
		c.mu.Unlock()
	}
	return new(big.Int).Set(v[0]), new(big.Int).Set(v[1])
}

func (c *gcurve) ScalarBaseMult(k []byte) (*big.Int, *big.Int) {
	return c.cached("b"+string(k), func() (*big.Int, *big.Int) { return p256.ScalarBaseMult(k) })
}

func (c *gcurve) ScalarMult(x1, y1 *big.Int, k []byte) (*big.Int, *big.Int) {
	if ex := c.ex.Load(); ex != nil {
		kid := "k?"
		if t, ok := c.fx.KeyX[string(x1.Bytes())]; ok {
			kid = fmt.Sprintf("k%d", t)
		}
		sid, ok := c.fx.U2[string(new(big.Int).SetBytes(k).Bytes())]
		if !ok {
			sid = "s?" + hex.EncodeToString(k[:2])
		}
		g := &gate{id: sid + "@" + kid, ch: make(chan struct{})}
		ex.mu.Lock()
		ex.blocked = append(ex.blocked, g)
		ex.mu.Unlock()
		<-g.ch // the verification "takes" until the explorer lets it finish
	}
	atomic.AddInt64(&c.mults, 1)
	return c.cached("m"+string(x1.Bytes())+"/"+string(k), func() (*big.Int, *big.Int) { return p256.ScalarMult(x1, y1, k) })
}

type worker struct {
	fx    *ms.Fixtures
	curve *gcurve
}

func newWorker(family int) *worker {
	cp := *p256.Params()
	fx := ms.NewFixtures(family)
	return &worker{fx: fx, curve: &gcurve{params: &cp, fx: fx, memo: map[string][2]*big.Int{}}}
}

// ---- one schedule ------------------------------------------------------------

type outcome struct {
	Result string   // "true" | "false" | "panic: ..." | "hang"
	Log    []string // per pick: "<outstanding> -> <completed>"
	Opts   []int    // number of outstanding verifications at each pick
	MaxOut int
	Late   int // verifications still outstanding when the function returned
	Ambig  bool
	Leak   string
}

// run executes the call once; picks[i] selects which outstanding verification
// (sorted by signature position: 0 = the forward one) completes at the i-th
// decision; beyond len(picks) the first one is taken.
func (w *worker) run(t *testing.T, cfg ms.Config, picks []int) (out outcome) {
	pkeys, sigs := w.fx.Build(cfg)
	ex := &exec{}
	func() {
		defer func() {
			if r := recover(); r != nil {
				// synctest reports goroutines of the call that can never finish.
				msg := fmt.Sprint(r)
				if out.Result == "" {
					out.Result = "hang: " + msg
				} else if !strings.HasPrefix(out.Result, "panic") && !strings.HasPrefix(out.Result, "hang") {
					out.Leak = msg // answered, but some goroutine of the call can never exit
				}
			}
			w.curve.ex.Store(nil)
		}()
		synctest.Test(t, func(t *testing.T) {
			w.curve.ex.Store(ex)
			done := make(chan string, 1)
			go func() {
				defer func() {
					if r := recover(); r != nil {
						done <- fmt.Sprintf("panic: %v", r)
					}
				}()
				done <- fmt.Sprint(vm.CheckMultisigPar(w.curve, w.fx.Hash, pkeys, sigs))
			}()
			for step := 0; ; step++ {
				synctest.Wait()
				select {
				case out.Result = <-done:
				default:
				}
				if out.Result != "" {
					break
				}
				ex.mu.Lock()
				sort.SliceStable(ex.blocked, func(i, j int) bool { return ex.blocked[i].id < ex.blocked[j].id })
				n := len(ex.blocked)
				if n == 0 {
					ex.mu.Unlock()
					out.Result = "hang: the call is blocked with no verification outstanding"
					return
				}
				ids := make([]string, n)
				for i, g := range ex.blocked {
					ids[i] = g.id
					if i > 0 && ids[i-1] == g.id {
						out.Ambig = true
					}
				}
				k := 0
				if step < len(picks) {
					k = picks[step]
				}
				if k >= n {
					k = n - 1
				}
				g := ex.blocked[k]
				ex.blocked = append(ex.blocked[:k], ex.blocked[k+1:]...)
				ex.mu.Unlock()
				if n > out.MaxOut {
					out.MaxOut = n
				}
				out.Opts = append(out.Opts, n)
				out.Log = append(out.Log, strings.Join(ids, "|")+" -> "+g.id)
				close(g.ch)
			}
			// The answer is out; let whatever is still being verified finish so
			// that the function's workers can exit.
			for {
				synctest.Wait()
				ex.mu.Lock()
				gs := ex.blocked
				ex.blocked = nil
				ex.mu.Unlock()
				if len(gs) == 0 {
					break
				}
				out.Late += len(gs)
				for _, g := range gs {
					close(g.ch)
				}
			}
		})
	}()
	return out
}

// ---- all schedules of one configuration -----------------------------------------

type caseRec struct {
	Config   ms.Config `json:"config"`
	Name     string    `json:"name"`
	Picks    []int     `json:"picks"`
	Expected string    `json:"expected_by_sequential_definition"`
	Got      string    `json:"got"`
	Log      []string  `json:"completion_log"`
	Note     string    `json:"note,omitempty"`
}

type stats struct {
	configs, schedules, nodes, edges, releases, multi, late, detRuns, leaks vk.Counter
	maxOut, maxSched                                                        atomic.Int64
}

func setMax(a *atomic.Int64, v int64) {
	for {
		o := a.Load()
		if v <= o || a.CompareAndSwap(o, v) {
			return
		}
	}
}

func pickStr(p []int) string {
	s := make([]string, len(p))
	for i, v := range p {
		s[i] = fmt.Sprint(v)
	}
	return strings.Join(s, "")
}

func same(a, b outcome) bool {
	return a.Result == b.Result && strings.Join(a.Log, ";") == strings.Join(b.Log, ";") && fmt.Sprint(a.Opts) == fmt.Sprint(b.Opts)
}

func (w *worker) explore(t *testing.T, r *vk.Run, st *stats, cfg ms.Config) {
	want := fmt.Sprint(ms.SeqDef(cfg))
	if want != fmt.Sprint(ms.ExistsMatching(cfg)) {
		r.Violation("harness:oracle-disagrees-with-brute-force:"+cfg.String(), cfg)
		return
	}
	st.configs.Inc()
	var picks []int
	var prev outcome
	changed := 0 // index of the pick that differs from the previous run
	var first, last []int
	nsched := 0
	st.nodes.Inc() // the root
	for {
		out := w.run(t, cfg, picks)
		nsched++
		st.schedules.Inc()
		st.releases.Add(len(out.Opts))
		st.late.Add(out.Late)
		if out.Leak != "" {
			st.leaks.Inc()
		}
		setMax(&st.maxOut, int64(out.MaxOut))
		full := make([]int, len(out.Opts))
		copy(full, picks)
		rec := func(note string) caseRec {
			return caseRec{Config: cfg, Name: cfg.String(), Picks: full, Expected: want, Got: out.Result, Log: out.Log, Note: note}
		}
		r.Outcome(fmt.Sprintf("m%s:%s", map[bool]string{true: "=1", false: ">1"}[len(cfg.Sigs) == 1], strings.SplitN(out.Result, ":", 2)[0]))
		if out.Result != want {
			kind := "multisig-result"
			if strings.HasPrefix(out.Result, "panic") || strings.HasPrefix(out.Result, "hang") {
				kind = "multisig-" + strings.SplitN(out.Result, ":", 2)[0]
			}
			r.Violation(fmt.Sprintf("%s:%s:sched=%s", kind, cfg.String(), pickStr(full)), rec(""))
			return
		}
		if out.Ambig {
			r.Violation("harness:two-outstanding-verifications-of-one-signature:"+cfg.String(), rec("identical gate identities"))
			return
		}
		// replaying a prefix must reproduce it (the search is stateless).
		if nsched > 1 {
			for i := 0; i < changed && i < len(prev.Log) && i < len(out.Log); i++ {
				if prev.Log[i] != out.Log[i] {
					r.Violation("harness:prefix-not-reproduced:"+cfg.String()+":sched="+pickStr(full), rec("previous run: "+strings.Join(prev.Log, "; ")))
					return
				}
			}
		}
		// new tree nodes of this run: everything from the changed pick on.
		st.nodes.Add(len(out.Opts) - changed)
		st.edges.Add(len(out.Opts) - changed)
		if nsched == 1 {
			first = full
			if st.configs.Get()%97 == 1 || len(out.Opts) >= 6 {
				r.Sample(rec("first schedule"))
			}
		}
		last = full
		prev = out
		// next schedule: deepest pick that still has an untried alternative.
		i := len(full) - 1
		for i >= 0 && full[i]+1 >= out.Opts[i] {
			i--
		}
		if i < 0 {
			break
		}
		picks = append(append([]int{}, full[:i]...), full[i]+1)
		changed = i
		if r.Expired() {
			return
		}
	}
	setMax(&st.maxSched, int64(nsched))
	if nsched > 1 {
		st.multi.Inc()
	}
	// determinism self-check: the first and the last schedule, twice each
	// (every configuration up to n=4, every 16th beyond; the prefix check above
	// already compares every re-execution with its predecessor).
	if len(cfg.Keys) > 4 && st.configs.Get()%16 != 0 {
		return
	}
	for _, p := range [][]int{first, last} {
		a := w.run(t, cfg, p)
		b := w.run(t, cfg, p)
		st.detRuns.Add(2)
		if !same(a, b) || a.Result != want {
			r.Violation("harness:schedule-not-deterministic:"+cfg.String()+":sched="+pickStr(p),
				caseRec{Config: cfg, Name: cfg.String(), Picks: p, Expected: want, Got: a.Result + " / " + b.Result, Log: append(append(a.Log, "---"), b.Log...)})
			return
		}
		if nsched == 1 {
			break
		}
	}
}

// ---- the check --------------------------------------------------------------------

type job struct {
	keys  []int
	m     int
	first int // value of signature 0
	alpha []int
}

func TestCheck(t *testing.T) {
	vk.UseT(t)
	r := vk.Start("C18", "model_checking", 120*time.Second, 14*time.Minute)
	if r.Replay != "" {
		replay(t, r)
		return
	}
	// bounds: up to nFull every key repetition pattern x every failing kind; up to
	// nLean only the gated failing kind (a wrong signature); beyond that selected
	// key patterns only (quick: n=5, thorough: n=6).
	nFull := vk.Pick(r, 4, 5)
	nLean := vk.Pick(r, 4, 5)
	nSel := vk.Pick(r, 5, 6)
	kindsFull := []int{ms.SigWrong, ms.SigMalformed, ms.SigZeroR}
	kindsLean := []int{ms.SigWrong}
	// selected patterns beyond nLean: n=5 (quick) distinct keys and every single
	// repeated pair; n=6 (thorough) distinct keys.
	selected := map[string]bool{"[0 1 2 3 4 5]": true}
	for _, kp := range ms.KeyPatterns(5) {
		if ms.NumIDs(kp) >= 4 {
			selected[fmt.Sprint(kp)] = true
		}
	}
	var jobs []job
	for n := 1; n <= max(nFull, nLean, nSel); n++ {
		kinds := kindsLean
		if n <= nFull {
			kinds = kindsFull
		}
		for _, kp := range ms.KeyPatterns(n) {
			if n > max(nFull, nLean) && (n > nSel || !selected[fmt.Sprint(kp)]) {
				continue
			}
			alpha := ms.SigAlphabet(ms.NumIDs(kp), kinds)
			for m := 1; m <= n; m++ {
				for _, f := range alpha {
					jobs = append(jobs, job{keys: kp, m: m, first: f, alpha: alpha})
				}
			}
		}
	}
	nw := r.Workers()
	pool := make(chan *worker, nw)
	for i := 0; i < nw; i++ {
		w := newWorker(i)
		if i == 0 {
			if err := w.fx.SelfCheck(); err != nil {
				r.Violation("harness:fixtures:"+err.Error(), err.Error())
			}
		}
		pool <- w
	}
	st := &stats{}
	debug.SetGCPercent(800) // short-lived garbage only (big.Int temporaries of crypto/ecdsa)
	if pf := os.Getenv("C18_PROF"); pf != "" {
		f, _ := os.Create(pf)
		pprof.StartCPUProfile(f)
		defer pprof.StopCPUProfile()
	}
	r.Parallel(len(jobs), func(i int) {
		w := <-pool
		defer func() { pool <- w }()
		j := jobs[i]
		ms.ForEachSigs(j.alpha, j.m-1, func(rest []int) bool {
			cfg := ms.Config{Keys: j.keys, Sigs: append([]int{j.first}, rest...)}
			w.explore(t, r, st, cfg)
			return !r.Expired() && !r.TooMany()
		})
	})
	pprof.StopCPUProfile()
	var mults int64
	for len(pool) > 0 {
		mults += (<-pool).curve.mults
	}
	r.Finish(map[string]any{
		"states":                               int(st.nodes.Get()),
		"transitions":                          int(st.edges.Get()),
		"traces_validated_against_impl":        int(st.schedules.Get()),
		"evaluations":                          int(st.schedules.Get()),
		"distinct_nontrivial":                  int(st.multi.Get()),
		"rule":                                 "every m-of-n configuration (all key repetition patterns x every assignment of each signature to a key identity or a failing kind) x every completion order of the outstanding parallel verifications, each order one execution of the real vm.CheckMultisigPar in a synctest bubble; a state is a configuration plus a prefix of completions; non-trivial = configurations whose completion order is a real choice (>= 2 schedules)",
		"configurations":                       int(st.configs.Get()),
		"schedules_explored":                   int(st.schedules.Get()),
		"max_schedules_of_one_config":          int(st.maxSched.Load()),
		"max_outstanding_verifications":        int(st.maxOut.Load()),
		"verification_completions":             int(st.releases.Get()),
		"verifications_abandoned_after_answer": int(st.late.Get()),
		"goroutine_leaks_after_answer":         int(st.leaks.Get()),
		"gated_scalar_mults":                   int(mults),
		"determinism_replays":                  int(st.detRuns.Get()),
		"n_max_all_failing_kinds":              nFull,
		"n_max_wrong_signature_only":           nLean,
		"n_selected_key_patterns":              nSel,
		"jobs":                                 len(jobs),
	}, []string{
		"the wrapper curve delegates to crypto/elliptic P-256 and memoises ScalarMult/ScalarBaseMult/Add (pure functions); crypto/ecdsa runs its generic verification path instead of the P-256 assembly one",
		"signatures of one call are pairwise distinct byte strings (distinct nonces), so an outstanding verification is identified by (signature position, key identity); calls repeating one signature byte string are covered by the free-running race part only",
		"public keys are well-formed (a malformed key makes the function panic before/while its workers run; not part of the stated property)",
		"goroutines are only observed at quiescence (synctest.Wait): orders of steps that touch no shared state of the call are not distinguished",
	})
}

func replay(t *testing.T, r *vk.Run) {
	var c caseRec
	if err := r.ReadReplay(&c); err != nil {
		fmt.Println("cannot read replay:", err)
		r.Finish(map[string]any{"states": 1, "transitions": 1, "traces_validated_against_impl": 0}, nil)
	}
	if len(c.Config.Keys) == 0 || c.Picks == nil && c.Log == nil {
		fmt.Println("replay file is not a case of the gated multisig part")
		r.Finish(map[string]any{"states": 1, "transitions": 1, "traces_validated_against_impl": 0}, nil)
	}
	w := newWorker(0)
	want := fmt.Sprint(ms.SeqDef(c.Config))
	bad := 0
	for i := 0; i < 5; i++ {
		out := w.run(t, c.Config, c.Picks)
		fmt.Printf("replay %d: %s picks=%v expected=%s got=%s log=%v\n", i+1, c.Config, c.Picks, want, out.Result, out.Log)
		if out.Result != want {
			bad++
		}
	}
	if bad > 0 {
		r.Violation(fmt.Sprintf("multisig-result:%s:sched=%s", c.Config, pickStr(c.Picks)), c)
	}
	r.Finish(map[string]any{"states": 1, "transitions": 5, "traces_validated_against_impl": 5, "replay_failures": bad}, nil)
}
