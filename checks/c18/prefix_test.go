package c18

// Sections that run under a MENU of address version bytes. address.Prefix is a
// package-level variable of /repo (cli/wallet/legacy.go switches it to NEO2Prefix,
// private networks may configure another value); every other section of this part
// runs with the default 0x35 only, where "the variable" and "the constant
// NEO3Prefix" cannot be told apart.
//
// address.Prefix is process-global state, so these sections do not run inside the
// common parallel phase (except for the default prefix): TestCheck runs one
// sequential PHASE per non-default prefix; within a phase every worker sees the
// same prefix, the variable is written only between two r.Parallel calls (which
// join all workers) and is restored by a defer. A section function never writes
// the variable during the enumeration (it only asserts it); in --replay mode
// (single goroutine) it sets and restores it itself.
//
// Oracles (all by reference implementations that take the prefix as a PARAMETER,
// sharing no code with /repo):
//   encode under p == base58check(p||hash); decode(encode(u)) == u under p;
//   an address of any OTHER version q (the menu and both neighbours of p) is
//   rejected under p - with the encode oracle of phase q this gives "encoded under
//   q, rejected under p" in both directions; key -> script -> script hash ->
//   address chain; wallet accounts; NEP-2 whose salt is a hash of the ADDRESS
//   STRING (full reference encryption, a menu of scrypt parameters).

import (
	"bytes"
	"crypto/aes"
	"crypto/sha256"
	"encoding/hex"
	"fmt"
	"strings"
	"sync"

	"github.com/nspcc-dev/neo-go/pkg/crypto/keys"
	"github.com/nspcc-dev/neo-go/pkg/encoding/address"
	"github.com/nspcc-dev/neo-go/pkg/smartcontract"
	"github.com/nspcc-dev/neo-go/pkg/smartcontract/scparser"
	"github.com/nspcc-dev/neo-go/pkg/util"
	"github.com/nspcc-dev/neo-go/pkg/wallet"

	"verif/lib/vk"
)

// prefixMenu: the default first (it runs inside the common parallel phase), then
// NEO2Prefix (the only other value /repo itself sets), both ends of the byte range
// and two arbitrary values (0x18 = NEO2Prefix+1).
var prefixMenu = []byte{address.NEO3Prefix, address.NEO2Prefix, 0x00, 0x18, 0x42, 0xFF}

func prefixIndex(p byte) int64 {
	for i, q := range prefixMenu {
		if q == p {
			return int64(i)
		}
	}
	return int64(len(prefixMenu))
}

// otherPrefixes: every menu prefix and both neighbours of p, except p itself.
func otherPrefixes(p byte) []byte {
	seen := map[byte]bool{p: true}
	var out []byte
	for _, q := range append(append([]byte{}, prefixMenu...), p+1, p-1, p^0x80) {
		if !seen[q] {
			seen[q] = true
			out = append(out, q)
		}
	}
	return out
}

// splitPrefix parses "pfx=XX|rest".
func splitPrefix(in string) (byte, string) {
	if !strings.HasPrefix(in, "pfx=") || len(in) < 7 || in[6] != '|' {
		panic("bad input " + in)
	}
	b, err := hex.DecodeString(in[4:6])
	if err != nil {
		panic(err)
	}
	return b[0], in[7:]
}

func pfxIn(p byte, rest string) string { return fmt.Sprintf("pfx=%02x|%s", p, rest) }

// underPrefix runs f with address.Prefix == p. During the enumeration the phase
// runner has set the variable (never written by workers); a replay sets and
// restores it here.
func (c *chk) underPrefix(p byte, f func()) {
	if c.replay {
		old := address.Prefix
		address.Prefix = p
		defer func() { address.Prefix = old }()
		f()
		return
	}
	if address.Prefix != p {
		panic(fmt.Sprintf("harness: a case of prefix %#x runs in the phase of prefix %#x", p, address.Prefix))
	}
	f()
}

// prefixPhases: one sequential phase per non-default prefix (called by TestCheck
// after the common parallel phase has been joined).
func (c *chk) prefixPhases() {
	for _, p := range prefixMenu[1:] {
		if c.r.Expired() {
			c.r.Capped()
			return
		}
		c.prefixPhase(p)
	}
	if address.Prefix != address.NEO3Prefix {
		c.r.Violation("harness:address-prefix-not-restored", fmt.Sprintf("%#x", address.Prefix))
		address.Prefix = address.NEO3Prefix
	}
}

func (c *chk) prefixPhase(p byte) {
	var work []func()
	var names []string
	for _, s := range sections {
		if s.pshards == nil {
			continue
		}
		sh := s.pshards(c, p)
		for range sh {
			names = append(names, s.name)
		}
		work = append(work, sh...)
	}
	old := address.Prefix
	address.Prefix = p
	defer func() { address.Prefix = old }() // also when a worker's panic escapes guard
	c.r.Parallel(len(work), func(i int) {
		c.guard(names[i], fmt.Sprintf("pfx=%02x|(enumeration)", p), work[i])
	})
}

// measured counters of the prefix sections: cases per section and version.
var pfxStat = struct {
	sync.Mutex
	cases map[string]int64
	outs  map[string]int64
}{cases: map[string]int64{}, outs: map[string]int64{}}

func (c *chk) pfxCase(sec string, p byte) {
	pfxStat.Lock()
	pfxStat.cases[fmt.Sprintf("%s:pfx=%02x", sec, p)]++
	pfxStat.Unlock()
}

// pfxOut counts an outcome class of a prefix section (also given to vk).
func (c *chk) pfxOut(sec string, p byte, what string) {
	k := fmt.Sprintf("%s:pfx=%02x:%s", sec, p, what)
	pfxStat.Lock()
	pfxStat.outs[k]++
	pfxStat.Unlock()
	c.r.Outcome(k)
}

func (c *chk) prefixCoverage(cov map[string]any) {
	pfxStat.Lock()
	defer pfxStat.Unlock()
	var total, nondef int64
	for k, n := range pfxStat.cases {
		total += n
		if !strings.Contains(k, fmt.Sprintf(":pfx=%02x", address.NEO3Prefix)) {
			nondef += n
		}
	}
	menu := make([]string, len(prefixMenu))
	for i, p := range prefixMenu {
		menu[i] = fmt.Sprintf("%#02x", p)
	}
	cov["prefix_families"] = "prefix-address, prefix-keys, prefix-nep2"
	cov["prefix_menu"] = strings.Join(menu, ",")
	cov["prefix_menu_size"] = len(prefixMenu)
	cov["prefix_scrypt_parameter_sets"] = len(scryptMenu) + 1
	cov["prefix_cases"] = int(total)
	cov["prefix_cases_under_a_non_default_version"] = int(nondef)
	cov["prefix_distinct_outcomes"] = len(pfxStat.outs)
	cov["prefix_cases_per_section_and_version"] = pfxStat.cases
}

// ---- references with the prefix as a parameter ---------------------------------------------

var refSelfTest sync.Once

func refHash160(b []byte) util.Uint160 {
	refSelfTest.Do(func() {
		if bad := refCryptoSelfTest(); bad != "" {
			panic("harness: the check's reference implementation fails its published test vector: " + bad)
		}
	})
	s := sha256.Sum256(b)
	return util.Uint160(refRIPEMD160(s[:]))
}

func refAddr(p byte, be []byte) string {
	pl := append([]byte{p}, be...)
	return refB58Enc(append(pl, refChecksum(pl)...))
}

func refCompressed(pub *keys.PublicKey) []byte {
	return append([]byte{2 + byte(pub.Y.Bit(0))}, pub.X.FillBytes(make([]byte, 32))...)
}

// refSigScript: the verification script of a key. NEO3: PUSHDATA1 33 key SYSCALL
// System.Crypto.CheckSig. Under the NEO2 address version /repo switches to the
// NEO2 script PUSHBYTES33 key CHECKSIG (publickey.go, used by the legacy wallet
// conversion to recompute NEO2 addresses).
func refSigScript(p byte, comp []byte) []byte {
	if p == address.NEO2Prefix {
		return append(append([]byte{0x21}, comp...), 0xac)
	}
	return append(append(append([]byte{0x0c, 33}, comp...), 0x41), syscallID("System.Crypto.CheckSig")...)
}

// refNEP2: NEP-2 as specified: salt = sha256d(address string)[:4], scrypt over the
// passphrase (the passphrases of this section are their own NFC form; normalisation
// is the subject of the nep2-unicode section), AES-256-ECB of (key XOR first half)
// under the second half.
func refNEP2(p byte, priv *keys.PrivateKey, pass string, sp keys.ScryptParams) (string, []byte) {
	sh := refHash160(refSigScript(p, refCompressed(priv.PublicKey())))
	salt := refChecksum([]byte(refAddr(p, sh[:])))
	dk := refScrypt([]byte(pass), salt, sp.N, sp.R, sp.P, 64)
	x := priv.D.FillBytes(make([]byte, 32))
	for i := range x {
		x[i] ^= dk[i]
	}
	blk, err := aes.NewCipher(dk[32:])
	if err != nil {
		panic(err)
	}
	enc := make([]byte, 32)
	blk.Encrypt(enc[:16], x[:16])
	blk.Encrypt(enc[16:], x[16:])
	pl := append(append([]byte{0x01, 0x42, 0xe0}, salt...), enc...)
	return refB58Enc(append(pl, refChecksum(pl)...)), salt
}

// ---- addresses under a prefix -------------------------------------------------------------------

func prefixAddressOne(c *chk, in string) {
	const sec = "prefix-address"
	st := c.sec(sec)
	c.seen(sec, in)
	p, rest := splitPrefix(in)
	c.underPrefix(p, func() { prefixAddressBody(c, st, in, p, rest) })
}

func prefixAddressBody(c *chk, st *secStat, in string, p byte, rest string) {
	const sec = "prefix-address"
	st.Inputs.Inc()
	c.pfxCase(sec, p)
	pk := fmt.Sprintf("pfx=%02x", p)
	decode := func(s string) (u util.Uint160, err error, panicked string) {
		defer func() {
			if r := recover(); r != nil {
				panicked = fmt.Sprint(r)
			}
		}()
		st.Calls.Inc()
		u, err = address.StringToUint160(s)
		return
	}
	if strings.HasPrefix(rest, "payload:") {
		// a Base58Check string whose payload is not p||20 bytes
		st.Nontrivial.Inc()
		pl, err := hex.DecodeString(strings.TrimPrefix(rest, "payload:"))
		if err != nil {
			panic(err)
		}
		s := refB58Enc(append(append([]byte{}, pl...), refChecksum(pl)...))
		st.Evals.Inc()
		u, derr, pan := decode(s)
		switch {
		case pan != "":
			c.bad2(sec, "address-decode-panics:StringToUint160", fmt.Sprintf("%s:payload=%dbytes", pk, len(pl)), in, prefixIndex(p)*1000+int64(len(pl)), fmt.Sprintf("string %q (payload %x): panic: %s", s, pl, pan))
		case derr == nil:
			c.bad2(sec, "address-accepts-malformed:StringToUint160", fmt.Sprintf("%s:payload=%dbytes", pk, len(pl)), in, prefixIndex(p)*1000+int64(len(pl)), fmt.Sprintf("string %q (payload %x) decoded to %s under address version %#x", s, pl, u.StringBE(), p))
		}
		return
	}
	be, err := hex.DecodeString(rest)
	if err != nil || len(be) != 20 {
		panic("bad input")
	}
	nz := 0
	for _, x := range be {
		if x != 0 {
			nz++
		}
	}
	if p != address.NEO3Prefix {
		st.Nontrivial.Inc() // a non-default version byte
	}
	rank := prefixIndex(p)*1000 + int64(nz)
	u, _ := util.Uint160DecodeBytesBE(be)
	s := address.Uint160ToString(u)
	st.Calls.Inc()
	st.Evals.Add(2)
	want := refAddr(p, be)
	if s != want {
		c.bad2(sec, "address-encode:Uint160ToString", pk+":u="+rest, in, rank, fmt.Sprintf("%q under address version %#x, reference %q", s, p, want))
	}
	// (the reference string is decoded, so that a wrong encoder does not hide the decoder)
	back, derr, pan := decode(want)
	if pan != "" || derr != nil || back != u {
		c.bad2(sec, "address-roundtrip:StringToUint160(Uint160ToString(u))", pk+":u="+rest, in, rank, fmt.Sprintf("address %q of version %#x decodes to %s err=%v panic=%q", want, p, back.StringBE(), derr, pan))
	} else {
		c.pfxOut(sec, p, "own-version->decoded")
	}
	// the second entry path: a textual parameter that is an address is a Hash160.
	prm, perr := smartcontract.NewParameterFromString(want)
	st.Calls.Inc()
	st.Evals.Inc()
	if perr != nil || prm.Type != smartcontract.Hash160Type || prm.Value != any(u) {
		c.bad2(sec, "address-roundtrip:NewParameterFromString(address)", pk+":u="+rest, in, rank, fmt.Sprintf("address %q of version %#x: parameter %+v err=%v", want, p, prm, perr))
	}
	// the same hash under every other version byte: rejected.
	for _, q := range otherPrefixes(p) {
		foreign := refAddr(q, be)
		got, derr, pan := decode(foreign)
		st.Evals.Inc()
		key := fmt.Sprintf("%s:foreign=%02x:u=%s", pk, q, rest)
		switch {
		case pan != "":
			c.bad2(sec, "address-decode-panics:StringToUint160", key, in, rank, fmt.Sprintf("string %q: panic: %s", foreign, pan))
		case derr == nil:
			c.bad2(sec, "address-accepts-foreign-version:StringToUint160", key, in, rank+int64(q), fmt.Sprintf("address %q carries version %#x, the configured version is %#x, decoded to %s", foreign, q, p, got.StringBE()))
		default:
			c.pfxOut(sec, p, "foreign-version->rejected")
		}
		if prm, perr := smartcontract.NewParameterFromString(foreign); perr == nil && prm.Type == smartcontract.Hash160Type {
			c.bad2(sec, "address-accepts-foreign-version:NewParameterFromString", key, in, rank+int64(q), fmt.Sprintf("address %q of version %#x is a Hash160 parameter under version %#x", foreign, q, p))
		}
		st.Calls.Inc()
	}
	// every single character replaced by its successor in the alphabet: rejected.
	for pos := 0; pos < len(want); pos++ {
		k := strings.IndexByte(b58alpha, want[pos])
		cs := want[:pos] + string(b58alpha[(k+1)%58]) + want[pos+1:]
		st.Evals.Inc()
		got, derr, pan := decode(cs)
		if pan != "" {
			c.bad2(sec, "address-decode-panics:StringToUint160", fmt.Sprintf("%s:corrupted:%s:pos=%d", pk, rest, pos), in, rank, fmt.Sprintf("string %q: panic: %s", cs, pan))
		} else if derr == nil && refAddr(p, got[:]) != cs {
			c.bad2(sec, "address-accepts-malformed:StringToUint160", fmt.Sprintf("%s:corrupted:%s:pos=%d", pk, rest, pos), in, rank+int64(pos), fmt.Sprintf("string %q decoded to %s", cs, got.StringBE()))
		}
	}
}

// ---- key -> script -> script hash -> address, wallet accounts -----------------------------------

func prefixKeysOne(c *chk, in string) {
	const sec = "prefix-keys"
	st := c.sec(sec)
	c.seen(sec, in)
	p, rest := splitPrefix(in)
	c.underPrefix(p, func() { prefixKeysBody(c, st, in, p, rest) })
}

func prefixKeysBody(c *chk, st *secStat, in string, p byte, rest string) {
	const sec = "prefix-keys"
	var i int
	fmt.Sscan(rest, &i)
	st.Inputs.Inc()
	c.pfxCase(sec, p)
	if p != address.NEO3Prefix {
		st.Nontrivial.Inc()
	}
	rank := prefixIndex(p)*100 + int64(i)
	key := fmt.Sprintf("pfx=%02x:key=%d", p, i)
	check := func(class string, ok bool, what string) {
		st.Evals.Inc()
		st.Calls.Inc()
		if !ok {
			c.bad2(sec, class, key, in, rank, what)
		}
	}
	priv := testKey(i)
	pub := priv.PublicKey()
	comp := refCompressed(pub)
	vs := pub.GetVerificationScript()
	wantVS := refSigScript(p, comp)
	check("script-builder:GetVerificationScript(under prefix)", bytes.Equal(vs, wantVS), fmt.Sprintf("%x under address version %#x, reference %x", vs, p, wantVS))
	if p != address.NEO2Prefix {
		k, ok := scparser.ParseSignatureContract(vs)
		check("script-parser:ParseSignatureContract(GetVerificationScript)(under prefix)", ok && bytes.Equal(k, comp) && scparser.IsSignatureContract(vs), fmt.Sprintf("script %x: ok=%v key=%x", vs, ok, k))
		c.pfxOut(sec, p, "neo3-script")
	} else {
		c.pfxOut(sec, p, "neo2-script")
	}
	wantSH := refHash160(wantVS)
	wantA := refAddr(p, wantSH[:])
	sh := pub.GetScriptHash()
	check("key-address:GetScriptHash(under prefix)", sh == wantSH && priv.GetScriptHash() == wantSH, fmt.Sprintf("%s / %s, reference %s", sh.StringBE(), priv.GetScriptHash().StringBE(), wantSH.StringBE()))
	check("key-address:Address(under prefix)", pub.Address() == wantA && priv.Address() == wantA, fmt.Sprintf("%q / %q under address version %#x, reference %q", pub.Address(), priv.Address(), p, wantA))
	ua, err := address.StringToUint160(wantA)
	check("key-address:StringToUint160(Address())(under prefix)", err == nil && ua == wantSH, fmt.Sprintf("address %q: %s err=%v", wantA, ua.StringBE(), err))
	// the key's address of every other version: rejected.
	for _, q := range otherPrefixes(p) {
		// (the hash of the script this key has under q, so that the string is the
		// very address the key shows when q is configured)
		shq := refHash160(refSigScript(q, comp))
		foreign := refAddr(q, shq[:])
		_, err := address.StringToUint160(foreign)
		st.Evals.Inc()
		st.Calls.Inc()
		if err == nil {
			c.bad2(sec, "address-accepts-foreign-version:StringToUint160", fmt.Sprintf("%s:foreign=%02x", key, q), in, rank, fmt.Sprintf("address %q of the key under version %#x accepted under version %#x", foreign, q, p))
		}
	}
	// wallet accounts.
	acc := wallet.NewAccountFromPrivateKey(testKey(i))
	check("wallet-account:NewAccountFromPrivateKey(under prefix)", acc.Address == wantA && acc.ScriptHash() == wantSH && bytes.Equal(acc.Contract.Script, wantVS) && bytes.Equal(acc.GetVerificationScript(), wantVS),
		fmt.Sprintf("address %q hash %s script %x; reference %q %s %x", acc.Address, acc.ScriptHash().StringBE(), acc.Contract.Script, wantA, wantSH.StringBE(), wantVS))
	acc2, err := wallet.NewAccountFromWIF(priv.WIF())
	check("wallet-account:NewAccountFromWIF(under prefix)", err == nil && acc2.Address == wantA && acc2.ScriptHash() == wantSH, fmt.Sprintf("err=%v", err))
	// an account known by its address only: the script hash is decoded lazily.
	bare := &wallet.Account{Address: wantA}
	check("wallet-account:Account{Address}.ScriptHash(under prefix)", bare.ScriptHash() == wantSH, fmt.Sprintf("address %q of version %#x gives script hash %s, reference %s", wantA, p, bare.ScriptHash().StringBE(), wantSH.StringBE()))
	ca := wallet.NewContractAccount(wantSH)
	check("wallet-account:NewContractAccount(under prefix)", ca.Address == wantA && ca.ScriptHash() == wantSH, fmt.Sprintf("address %q hash %s", ca.Address, ca.ScriptHash().StringBE()))
	// a 1-of-1 multisig account of the key: the script does not depend on the version, the address does.
	ms, err := smartcontract.CreateMultiSigRedeemScript(1, keys.PublicKeys{pub})
	if err == nil {
		macc := wallet.NewAccountFromPrivateKey(testKey(i))
		err = macc.ConvertMultisig(1, keys.PublicKeys{pub})
		msh := refHash160(ms)
		check("wallet-account:ConvertMultisig(under prefix)", err == nil && macc.Address == refAddr(p, msh[:]) && macc.ScriptHash() == msh && (&wallet.Account{Address: macc.Address}).ScriptHash() == msh, fmt.Sprintf("err=%v address %q, reference %q", err, macc.Address, refAddr(p, msh[:])))
	}
}

// ---- NEP-2 under a prefix -----------------------------------------------------------------------

// scryptMenu: the parameters are a knob the other NEP-2 sections only exercise at
// the library's standard values. Small, with pairwise different N/R/P so that a
// transposition shows; the standard values on a single case.
var scryptMenu = []keys.ScryptParams{{N: 2, R: 1, P: 1}, {N: 16, R: 2, P: 1}, {N: 4, R: 1, P: 3}}

func prefixNEP2One(c *chk, in string) {
	const sec = "prefix-nep2"
	st := c.sec(sec)
	c.seen(sec, in)
	p, rest := splitPrefix(in)
	c.underPrefix(p, func() { prefixNEP2Body(c, st, in, p, rest) })
}

func prefixNEP2Body(c *chk, st *secStat, in string, p byte, rest string) {
	// rest: "<key>|<N>,<R>,<P>|<passphrase>"
	const sec = "prefix-nep2"
	f := strings.SplitN(rest, "|", 3)
	var i int
	var sp keys.ScryptParams
	fmt.Sscan(f[0], &i)
	fmt.Sscanf(f[1], "%d,%d,%d", &sp.N, &sp.R, &sp.P)
	pass := f[2]
	st.Inputs.Inc()
	c.pfxCase(sec, p)
	if p != address.NEO3Prefix || sp != keys.NEP2ScryptParams() {
		st.Nontrivial.Inc()
	}
	rank := prefixIndex(p)*1000 + int64(i)*10 + int64(sp.N)
	key := fmt.Sprintf("pfx=%02x:key=%d:scrypt=%s:pass=%+q", p, i, f[1], pass)
	priv := testKey(i)
	want, salt := refNEP2(p, priv, pass, sp)
	enc, err := keys.NEP2Encrypt(testKey(i), pass, sp)
	st.Calls.Inc()
	st.Evals.Inc()
	if err != nil || enc != want {
		c.bad2(sec, "nep2-encrypt:NEP2Encrypt-vs-reference", key, in, rank, fmt.Sprintf("%q err=%v under address version %#x, reference %q (salt %x = hash of the address string)", enc, err, p, want, salt))
	}
	// the salt is a hash of the address STRING: it differs between versions.
	if raw, ok := refB58Dec(enc); err == nil && ok && len(raw) == 43 {
		for _, q := range otherPrefixes(p) {
			_, saltQ := refNEP2salt(q, priv)
			st.Evals.Inc()
			if bytes.Equal(raw[3:7], saltQ) {
				c.bad2(sec, "nep2-salt-ignores-prefix:NEP2Encrypt", fmt.Sprintf("%s:as-under=%02x", key, q), in, rank, fmt.Sprintf("string %q produced under address version %#x carries the salt %x of the key's address under version %#x", enc, p, saltQ, q))
			}
		}
	}
	// the reference string is decrypted, so that a wrong encryptor does not hide the decryptor.
	dec, err := keys.NEP2Decrypt(want, pass, sp)
	st.Calls.Inc()
	st.Evals.Inc()
	if err != nil || dec.D.Cmp(priv.D) != 0 || !dec.PublicKey().Equal(priv.PublicKey()) {
		c.bad2(sec, "nep2-roundtrip:NEP2Decrypt(NEP2Encrypt)", key, in, rank, fmt.Sprintf("%q under address version %#x: err=%v", want, p, err))
	} else {
		c.pfxOut(sec, p, "right-passphrase->key")
	}
	if sp.N > 1024 {
		return // the standard parameters: reference, encrypt, decrypt only (cost)
	}
	rs := []rune(pass)
	sub := append([]rune{}, rs...)
	sub[len(sub)-1]++
	for _, w := range []string{string(sub), pass + "a", string(rs[1:])} {
		_, err := keys.NEP2Decrypt(want, w, sp)
		st.Calls.Inc()
		st.Evals.Inc()
		if err == nil {
			c.bad2(sec, "nep2-accepts-wrong-passphrase:NEP2Decrypt", fmt.Sprintf("%s:wrong=%+q", key, w), in, rank, "decrypted without error")
		} else {
			c.pfxOut(sec, p, "wrong-passphrase->rejected")
		}
	}
	// other scrypt parameters are another key derivation: rejected.
	for _, sq := range scryptMenu {
		if sq == sp {
			continue
		}
		_, err := keys.NEP2Decrypt(want, pass, sq)
		st.Calls.Inc()
		st.Evals.Inc()
		if err == nil {
			c.bad2(sec, "nep2-accepts-other-scrypt-parameters:NEP2Decrypt", fmt.Sprintf("%s:with=%d,%d,%d", key, sq.N, sq.R, sq.P), in, rank, "decrypted without error")
		}
	}
	// measured only (the property does not say what a string made under another
	// address version must do): the same key and passphrase encrypted under q.
	for _, q := range otherPrefixes(p)[:2] {
		foreign, _ := refNEP2(q, priv, pass, sp)
		if _, err := keys.NEP2Decrypt(foreign, pass, sp); err == nil {
			c.note("nep2_string_of_another_address_version_opened", 1)
			c.pfxOut(sec, p, "foreign-version-string->opened")
		} else {
			c.note("nep2_string_of_another_address_version_rejected", 1)
			c.pfxOut(sec, p, "foreign-version-string->rejected")
		}
		st.Calls.Inc()
	}
	// wallet account: Encrypt gives the same string; the string alone gives the account back.
	wantSH := refHash160(refSigScript(p, refCompressed(priv.PublicKey())))
	wantA := refAddr(p, wantSH[:])
	acc := wallet.NewAccountFromPrivateKey(testKey(i))
	err = acc.Encrypt(pass, sp)
	st.Calls.Inc()
	st.Evals.Inc()
	if err != nil || acc.EncryptedWIF != want {
		c.bad2(sec, "wallet-account:Encrypt(under prefix)", key, in, rank, fmt.Sprintf("%q err=%v, reference %q", acc.EncryptedWIF, err, want))
	}
	acc2, err := wallet.NewAccountFromEncryptedWIF(want, pass, sp)
	st.Calls.Inc()
	st.Evals.Inc()
	if err != nil || acc2.Address != wantA || acc2.ScriptHash() != wantSH || acc2.PrivateKey() == nil || acc2.PrivateKey().D.Cmp(priv.D) != 0 {
		c.bad2(sec, "wallet-account:NewAccountFromEncryptedWIF(under prefix)", key, in, rank, fmt.Sprintf("err=%v", err))
	}
	locked := &wallet.Account{Address: wantA, EncryptedWIF: want}
	err = locked.Decrypt(pass, sp)
	st.Calls.Inc()
	st.Evals.Inc()
	if err != nil || !locked.CanSign() || locked.PrivateKey().D.Cmp(priv.D) != 0 || locked.PrivateKey().Address() != locked.Address || locked.ScriptHash() != wantSH {
		c.bad2(sec, "wallet-account:Decrypt(under prefix)", key, in, rank, fmt.Sprintf("err=%v", err))
	}
}

// refNEP2salt: only the salt of refNEP2 (no key derivation).
func refNEP2salt(p byte, priv *keys.PrivateKey) (string, []byte) {
	sh := refHash160(refSigScript(p, refCompressed(priv.PublicKey())))
	a := refAddr(p, sh[:])
	return a, refChecksum([]byte(a))
}

func init() {
	register(&section{
		name: "prefix-address",
		rule: "address version byte (address.Prefix) from {0x35 default, 0x17 NEO2, 0x00, 0x18, 0x42, 0xff} x all 160 single-bit script hashes plus dense ones (thorough) / 20 one-bit-per-byte hashes plus dense ones (quick): Uint160ToString = base58check(version||hash) by the reference with the version as a parameter, the reference string decodes back (also as a textual Hash160 parameter), the same hash under every OTHER version (menu, version+-1, version^0x80) is rejected, every single-character corruption is rejected, payloads of 0,1,20,22,44 bytes after the configured version are rejected; non-trivial = a non-default version",
		one:  prefixAddressOne,
		shards: func(c *chk) []func() {
			return prefixAddressShards(c, address.NEO3Prefix)
		},
		pshards: prefixAddressShards,
	})
	register(&section{
		name: "prefix-keys",
		rule: "address version x 8 (thorough: 16) keys: GetVerificationScript equals the reference script (NEO2 form under 0x17 only) and parses back to the key, GetScriptHash = Hash160 by an independent RIPEMD160(SHA256), Address = reference address under the configured version and decodes to the script hash, the address the key has under every other version is rejected, wallet accounts (from key, from WIF, from address only, contract account, 1-of-1 multisig conversion) show the same address and script hash; non-trivial = a non-default version",
		one:  prefixKeysOne,
		shards: func(c *chk) []func() {
			return prefixKeysShards(c, address.NEO3Prefix)
		},
		pshards: prefixKeysShards,
	})
	register(&section{
		name: "prefix-nep2",
		rule: "address version x 3 keys x 3 small scrypt parameter sets with pairwise different N,R,P x 2 passphrases (plus the standard parameters on one case for 0x35 and 0x17; thorough: every version): NEP2Encrypt equals a full reference NEP-2 encryption whose salt is the hash of the reference ADDRESS STRING under the configured version, the salt differs from the salt under every other version, NEP2Decrypt opens the reference string, 3 wrong passphrases and the other scrypt parameter sets are rejected, wallet Account Encrypt/Decrypt/NewAccountFromEncryptedWIF agree; non-trivial = a non-default version or non-standard scrypt parameters",
		one:  prefixNEP2One,
		shards: func(c *chk) []func() {
			return prefixNEP2Shards(c, address.NEO3Prefix)
		},
		pshards: prefixNEP2Shards,
	})
}

func prefixAddressShards(c *chk, p byte) []func() {
	return []func(){func() {
		pats := uintPatterns(20)
		for k, u := range pats {
			// quick: one bit per byte (bit k%8 of byte k/8 -> 20 hashes) and the dense ones
			if !c.r.Thorough() && k < 160 && k%8 != (k/8)%8 {
				continue
			}
			prefixAddressOne(c, pfxIn(p, hex.EncodeToString(u)))
		}
	}, func() {
		body := make([]byte, 44)
		for i := range body {
			body[i] = byte(i + 1)
		}
		prefixAddressOne(c, pfxIn(p, "payload:"))
		for _, l := range []int{0, 1, 19, 21, 43} {
			prefixAddressOne(c, pfxIn(p, "payload:"+hex.EncodeToString(append([]byte{p}, body[:l]...))))
		}
	}}
}

func prefixKeysShards(c *chk, p byte) []func() {
	var out []func()
	for i := 0; i < vk.Pick(c.r, 8, 16); i++ {
		out = append(out, func() { prefixKeysOne(c, pfxIn(p, itoa(i))) })
	}
	return out
}

func prefixNEP2Shards(c *chk, p byte) []func() {
	var out []func()
	for _, i := range []int{0, 2, 6} {
		for _, sp := range scryptMenu {
			for _, pass := range []string{"pw1", "Neo-\u00e9 3"} {
				in := pfxIn(p, fmt.Sprintf("%d|%d,%d,%d|%s", i, sp.N, sp.R, sp.P, pass))
				out = append(out, func() { prefixNEP2One(c, in) })
			}
		}
	}
	if c.r.Thorough() || p == address.NEO3Prefix || p == address.NEO2Prefix {
		std := keys.NEP2ScryptParams()
		in := pfxIn(p, fmt.Sprintf("%d|%d,%d,%d|%s", 1, std.N, std.R, std.P, "pw1"))
		out = append(out, func() { prefixNEP2One(c, in) })
	}
	return out
}
