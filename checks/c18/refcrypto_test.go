package c18

// Reference RIPEMD-160 (from the specification of Dobbertin, Bosselaers, Preneel)
// and scrypt (RFC 7914), written here so that the references of the prefix
// sections share no code with /repo or its dependencies. Only crypto/sha256,
// crypto/hmac and crypto/aes of the Go standard library are trusted. Both are
// verified against published test vectors before use (refCryptoSelfTest).

import (
	"crypto/hmac"
	"crypto/sha256"
	"encoding/binary"
	"encoding/hex"
	"math/bits"
)

var rmdR = [80]int{
	0, 1, 2, 3, 4, 5, 6, 7, 8, 9, 10, 11, 12, 13, 14, 15,
	7, 4, 13, 1, 10, 6, 15, 3, 12, 0, 9, 5, 2, 14, 11, 8,
	3, 10, 14, 4, 9, 15, 8, 1, 2, 7, 0, 6, 13, 11, 5, 12,
	1, 9, 11, 10, 0, 8, 12, 4, 13, 3, 7, 15, 14, 5, 6, 2,
	4, 0, 5, 9, 7, 12, 2, 10, 14, 1, 3, 8, 11, 6, 15, 13,
}
var rmdRR = [80]int{
	5, 14, 7, 0, 9, 2, 11, 4, 13, 6, 15, 8, 1, 10, 3, 12,
	6, 11, 3, 7, 0, 13, 5, 10, 14, 15, 8, 12, 4, 9, 1, 2,
	15, 5, 1, 3, 7, 14, 6, 9, 11, 8, 12, 2, 10, 0, 4, 13,
	8, 6, 4, 1, 3, 11, 15, 0, 5, 12, 2, 13, 9, 7, 10, 14,
	12, 15, 10, 4, 1, 5, 8, 7, 6, 2, 13, 14, 0, 3, 9, 11,
}
var rmdS = [80]int{
	11, 14, 15, 12, 5, 8, 7, 9, 11, 13, 14, 15, 6, 7, 9, 8,
	7, 6, 8, 13, 11, 9, 7, 15, 7, 12, 15, 9, 11, 7, 13, 12,
	11, 13, 6, 7, 14, 9, 13, 15, 14, 8, 13, 6, 5, 12, 7, 5,
	11, 12, 14, 15, 14, 15, 9, 8, 9, 14, 5, 6, 8, 6, 5, 12,
	9, 15, 5, 11, 6, 8, 13, 12, 5, 12, 13, 14, 11, 8, 5, 6,
}
var rmdSS = [80]int{
	8, 9, 9, 11, 13, 15, 15, 5, 7, 7, 8, 11, 14, 14, 12, 6,
	9, 13, 15, 7, 12, 8, 9, 11, 7, 7, 12, 7, 6, 15, 13, 11,
	9, 7, 15, 11, 8, 6, 6, 14, 12, 13, 5, 14, 13, 13, 7, 5,
	15, 5, 8, 11, 14, 14, 6, 14, 6, 9, 12, 9, 12, 5, 15, 8,
	8, 5, 12, 9, 12, 5, 14, 6, 8, 13, 6, 5, 15, 13, 11, 11,
}
var rmdK = [5]uint32{0, 0x5a827999, 0x6ed9eba1, 0x8f1bbcdc, 0xa953fd4e}
var rmdKK = [5]uint32{0x50a28be6, 0x5c4dd124, 0x6d703ef3, 0x7a6d76e9, 0}

func rmdF(j int, x, y, z uint32) uint32 {
	switch j / 16 {
	case 0:
		return x ^ y ^ z
	case 1:
		return (x & y) | (^x & z)
	case 2:
		return (x | ^y) ^ z
	case 3:
		return (x & z) | (y &^ z)
	}
	return x ^ (y | ^z)
}

func refRIPEMD160(msg []byte) [20]byte {
	h := [5]uint32{0x67452301, 0xefcdab89, 0x98badcfe, 0x10325476, 0xc3d2e1f0}
	m := append([]byte{}, msg...)
	m = append(m, 0x80)
	for len(m)%64 != 56 {
		m = append(m, 0)
	}
	m = binary.LittleEndian.AppendUint64(m, uint64(len(msg))*8)
	for off := 0; off < len(m); off += 64 {
		var x [16]uint32
		for i := range x {
			x[i] = binary.LittleEndian.Uint32(m[off+4*i:])
		}
		a, b, c, d, e := h[0], h[1], h[2], h[3], h[4]
		aa, bb, cc, dd, ee := a, b, c, d, e
		for j := 0; j < 80; j++ {
			t := bits.RotateLeft32(a+rmdF(j, b, c, d)+x[rmdR[j]]+rmdK[j/16], rmdS[j]) + e
			a, e, d, c, b = e, d, bits.RotateLeft32(c, 10), b, t
			t = bits.RotateLeft32(aa+rmdF(79-j, bb, cc, dd)+x[rmdRR[j]]+rmdKK[j/16], rmdSS[j]) + ee
			aa, ee, dd, cc, bb = ee, dd, bits.RotateLeft32(cc, 10), bb, t
		}
		t := h[1] + c + dd
		h[1] = h[2] + d + ee
		h[2] = h[3] + e + aa
		h[3] = h[4] + a + bb
		h[4] = h[0] + b + cc
		h[0] = t
	}
	var out [20]byte
	for i, v := range h {
		binary.LittleEndian.PutUint32(out[4*i:], v)
	}
	return out
}

// ---- scrypt (RFC 7914) ---------------------------------------------------------------------------

// refPBKDF2one: PBKDF2-HMAC-SHA256 with ONE iteration (all scrypt needs).
func refPBKDF2one(pass, salt []byte, n int) []byte {
	var out []byte
	for i := uint32(1); len(out) < n; i++ {
		mac := hmac.New(sha256.New, pass)
		mac.Write(salt)
		mac.Write(binary.BigEndian.AppendUint32(nil, i))
		out = mac.Sum(out)
	}
	return out[:n]
}

func refSalsa208(b *[16]uint32) {
	x := *b
	r := bits.RotateLeft32
	for i := 0; i < 4; i++ {
		x[4] ^= r(x[0]+x[12], 7)
		x[8] ^= r(x[4]+x[0], 9)
		x[12] ^= r(x[8]+x[4], 13)
		x[0] ^= r(x[12]+x[8], 18)
		x[9] ^= r(x[5]+x[1], 7)
		x[13] ^= r(x[9]+x[5], 9)
		x[1] ^= r(x[13]+x[9], 13)
		x[5] ^= r(x[1]+x[13], 18)
		x[14] ^= r(x[10]+x[6], 7)
		x[2] ^= r(x[14]+x[10], 9)
		x[6] ^= r(x[2]+x[14], 13)
		x[10] ^= r(x[6]+x[2], 18)
		x[3] ^= r(x[15]+x[11], 7)
		x[7] ^= r(x[3]+x[15], 9)
		x[11] ^= r(x[7]+x[3], 13)
		x[15] ^= r(x[11]+x[7], 18)

		x[1] ^= r(x[0]+x[3], 7)
		x[2] ^= r(x[1]+x[0], 9)
		x[3] ^= r(x[2]+x[1], 13)
		x[0] ^= r(x[3]+x[2], 18)
		x[6] ^= r(x[5]+x[4], 7)
		x[7] ^= r(x[6]+x[5], 9)
		x[4] ^= r(x[7]+x[6], 13)
		x[5] ^= r(x[4]+x[7], 18)
		x[11] ^= r(x[10]+x[9], 7)
		x[8] ^= r(x[11]+x[10], 9)
		x[9] ^= r(x[8]+x[11], 13)
		x[10] ^= r(x[9]+x[8], 18)
		x[12] ^= r(x[15]+x[14], 7)
		x[13] ^= r(x[12]+x[15], 9)
		x[14] ^= r(x[13]+x[12], 13)
		x[15] ^= r(x[14]+x[13], 18)
	}
	for i := range x {
		b[i] += x[i]
	}
}

// refBlockMix: B is 2r blocks of 16 words.
func refBlockMix(b []uint32, r int) []uint32 {
	var x [16]uint32
	copy(x[:], b[(2*r-1)*16:])
	y := make([]uint32, len(b))
	for i := 0; i < 2*r; i++ {
		for k := 0; k < 16; k++ {
			x[k] ^= b[i*16+k]
		}
		refSalsa208(&x)
		pos := i / 2
		if i%2 == 1 {
			pos += r
		}
		copy(y[pos*16:], x[:])
	}
	return y
}

func refROMix(b []byte, r, n int) {
	x := make([]uint32, 32*r)
	for i := range x {
		x[i] = binary.LittleEndian.Uint32(b[4*i:])
	}
	v := make([][]uint32, n)
	for i := 0; i < n; i++ {
		v[i] = x
		x = refBlockMix(x, r)
	}
	for i := 0; i < n; i++ {
		j := int((uint64(x[(2*r-1)*16]) | uint64(x[(2*r-1)*16+1])<<32) % uint64(n))
		t := make([]uint32, len(x))
		for k := range t {
			t[k] = x[k] ^ v[j][k]
		}
		x = refBlockMix(t, r)
	}
	for i := range x {
		binary.LittleEndian.PutUint32(b[4*i:], x[i])
	}
}

func refScrypt(pass, salt []byte, n, r, p, keyLen int) []byte {
	b := refPBKDF2one(pass, salt, p*128*r)
	for i := 0; i < p; i++ {
		refROMix(b[i*128*r:(i+1)*128*r], r, n)
	}
	return refPBKDF2one(pass, b, keyLen)
}

// refCryptoSelfTest: published vectors ("" means fine).
func refCryptoSelfTest() string {
	for msg, want := range map[string]string{
		"":                           "9c1185a5c5e9fc54612808977ee8f548b2258d31",
		"abc":                        "8eb208f7e05d987a9b044a8e98c6b087f15a0bfc",
		"abcdefghijklmnopqrstuvwxyz": "f71c27109c692c1b56bbdceb5b9d2865b3708dbc",
		"abcdbcdecdefdefgefghfghighijhijkijkljklmklmnlmnomnopnopq": "12a053384a9c0c88e405a06c27dcf49ada62eb2b",
	} {
		if got := refRIPEMD160([]byte(msg)); hex.EncodeToString(got[:]) != want {
			return "RIPEMD-160 of " + msg
		}
	}
	// RFC 7914, section 12
	if got := hex.EncodeToString(refScrypt(nil, nil, 16, 1, 1, 64)); got != "77d6576238657b203b19ca42c18a0497f16b4844e3074ae8dfdffa3fede21442fcd0069ded0948f8326a753a0fc81f17e8d3e0fb2e0d3628cf35e20c38d18906" {
		return "scrypt vector 1"
	}
	if got := hex.EncodeToString(refScrypt([]byte("password"), []byte("NaCl"), 1024, 8, 16, 64)); got != "fdbabe1c9d3472007856e7190d01e9fe7c6ad7cbc8237830e77376634b3731622eaf30d92e22a3886ff109279d9830dac727afb94a83ee6d8360cbdfa2cc0640" {
		return "scrypt vector 2"
	}
	return ""
}
