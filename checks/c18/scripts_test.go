package c18

import (
	"bytes"
	"crypto/sha256"
	"encoding/hex"
	"fmt"
	"math/big"
	"slices"
	"sort"
	"strings"

	"github.com/nspcc-dev/neo-go/pkg/crypto/hash"
	"github.com/nspcc-dev/neo-go/pkg/crypto/keys"
	nio "github.com/nspcc-dev/neo-go/pkg/io"
	"github.com/nspcc-dev/neo-go/pkg/smartcontract"
	"github.com/nspcc-dev/neo-go/pkg/smartcontract/scparser"
	"github.com/nspcc-dev/neo-go/pkg/util"
	"github.com/nspcc-dev/neo-go/pkg/vm"
	"github.com/nspcc-dev/neo-go/pkg/vm/emit"
	"github.com/nspcc-dev/neo-go/pkg/vm/stackitem"

	"verif/lib/vk"
)

// ---- Merkle root -------------------------------------------------------------------------

func dsha(b []byte) [32]byte {
	h := sha256.Sum256(b)
	return sha256.Sum256(h[:])
}

// refMerkle: the recursive definition (pairwise double SHA-256, last node
// duplicated when a level is odd).
func refMerkle(hs [][32]byte) [32]byte {
	if len(hs) == 1 {
		return hs[0]
	}
	if len(hs)%2 == 1 {
		hs = append(slices.Clone(hs), hs[len(hs)-1])
	}
	next := make([][32]byte, 0, len(hs)/2)
	for i := 0; i < len(hs); i += 2 {
		next = append(next, dsha(append(append([]byte{}, hs[i][:]...), hs[i+1][:]...)))
	}
	return refMerkle(next)
}

func merkleOne(c *chk, in string) {
	// input "<length>|<variant>": 0 distinct leaves, 1 all equal, 2 last two equal, 3 first two equal
	const sec = "merkle"
	st := c.sec(sec)
	c.seen(sec, in)
	var n, variant int
	fmt.Sscanf(in, "%d|%d", &n, &variant)
	st.Inputs.Inc()
	if n >= 3 && n&(n-1) != 0 {
		st.Nontrivial.Inc() // some level is odd
	}
	rank := int64(n*10 + variant)
	leaves := make([][32]byte, n)
	for i := range leaves {
		k := i
		switch {
		case variant == 1:
			k = 0
		case variant == 2 && i == n-1 && n >= 2:
			k = n - 2
		case variant == 3 && i == 1:
			k = 0
		}
		leaves[i] = sha256.Sum256([]byte(fmt.Sprintf("leaf %d", k)))
	}
	mk := func() []util.Uint256 {
		l := make([]util.Uint256, n)
		for i := range leaves {
			l[i] = util.Uint256(leaves[i])
		}
		return l
	}
	if n == 0 {
		// documented: CalcMerkleRoot of nothing is the zero hash, NewMerkleTree refuses.
		st.Evals.Add(2)
		st.Calls.Add(2)
		if r := hash.CalcMerkleRoot(mk()); r != (util.Uint256{}) {
			c.bad(sec, "merkle-root:CalcMerkleRoot", in, rank, fmt.Sprintf("root of the empty list is %s", r.StringBE()))
		}
		if t, err := hash.NewMerkleTree(mk()); err == nil {
			c.bad(sec, "merkle-root:NewMerkleTree", in, rank, fmt.Sprintf("a tree of the empty list: %v", t))
		}
		return
	}
	want := util.Uint256(refMerkle(leaves))
	got := hash.CalcMerkleRoot(mk())
	st.Calls.Inc()
	st.Evals.Inc()
	if got != want {
		c.bad(sec, "merkle-root:CalcMerkleRoot", in, rank, fmt.Sprintf("root %s, recursive definition gives %s", got.StringBE(), want.StringBE()))
	}
	l := mk()
	t, err := hash.NewMerkleTree(l)
	st.Calls.Inc()
	st.Evals.Add(2)
	if err != nil || t.Root() != want {
		c.bad(sec, "merkle-root:NewMerkleTree", in, rank, fmt.Sprintf("err=%v, recursive definition gives %s", err, want.StringBE()))
	}
	if !slices.Equal(l, mk()) {
		c.bad(sec, "merkle-input-modified:NewMerkleTree", in, rank, "the hash list was changed")
	}
}

// ---- reference script pieces ---------------------------------------------------------------

func syscallID(name string) []byte {
	h := sha256.Sum256([]byte(name))
	return h[:4]
}

// refPushInt: the canonical push of an integer (PUSHM1..PUSH16, else the
// smallest PUSHINT8..PUSHINT256 with sign extension).
func refPushInt(n *big.Int) []byte {
	if n.IsInt64() && n.Int64() >= -1 && n.Int64() <= 16 {
		return []byte{byte(0x10 + n.Int64())}
	}
	b := refEncode(n)
	size, op := 1, byte(0)
	for size < len(b) {
		size *= 2
		op++
	}
	pad := byte(0)
	if n.Sign() < 0 {
		pad = 0xff
	}
	for len(b) < size {
		b = append(b, pad)
	}
	return append([]byte{op}, b...)
}

func sortedKeys(n int) (scrambled keys.PublicKeys, sortedBytes [][]byte) {
	var ks keys.PublicKeys
	for i := n; i >= 1; i-- { // d = n..1: not sorted by (X, Y)
		p, err := keys.NewPrivateKeyFromBytes(big.NewInt(int64(i)).FillBytes(make([]byte, 32)))
		if err != nil {
			panic(err)
		}
		ks = append(ks, p.PublicKey())
	}
	ref := slices.Clone(ks)
	sort.SliceStable(ref, func(i, j int) bool {
		if c := ref[i].X.Cmp(ref[j].X); c != 0 {
			return c < 0
		}
		return ref[i].Y.Cmp(ref[j].Y) < 0
	})
	for _, k := range ref {
		sortedBytes = append(sortedBytes, append([]byte{2 + byte(k.Y.Bit(0))}, k.X.FillBytes(make([]byte, 32))...))
	}
	return ks, sortedBytes
}

func runScript(script []byte) (v *vm.VM, err error) {
	defer func() {
		if r := recover(); r != nil {
			err = fmt.Errorf("panic: %v", r)
		}
	}()
	v = vm.New()
	v.LoadScript(script)
	err = v.Run()
	return v, err
}

func multisigScriptOne(c *chk, in string) {
	// input "<m>,<n>"
	const sec = "script-multisig"
	st := c.sec(sec)
	c.seen(sec, in)
	var m, n int
	fmt.Sscanf(in, "%d,%d", &m, &n)
	st.Inputs.Inc()
	rank := int64(n*2000 + m)
	ks, sorted := sortedKeys(n)
	script, err := smartcontract.CreateMultiSigRedeemScript(m, ks)
	st.Calls.Inc()
	st.Evals.Inc()
	if m < 1 || m > n {
		if err == nil {
			c.bad(sec, "script-builder-accepts-invalid:CreateMultiSigRedeemScript", in, rank, "no error")
		}
		return
	}
	st.Nontrivial.Inc()
	if err != nil {
		c.bad(sec, "script-builder:CreateMultiSigRedeemScript", in, rank, err.Error())
		return
	}
	// reference script; an integer may be pushed by any instruction that means it
	// (emit.Int(16) uses PUSHINT8 16 where PUSH16 would do: measured, not demanded).
	mk := func(pushM, pushN []byte) []byte {
		want := slices.Clone(pushM)
		for _, k := range sorted {
			want = append(append(want, 0x0c, 33), k...)
		}
		want = append(want, pushN...)
		return append(append(want, 0x41), syscallID("System.Crypto.CheckMultisig")...)
	}
	forms := func(v int) [][]byte {
		f := [][]byte{refPushInt(big.NewInt(int64(v)))}
		if v >= 0 && v <= 16 {
			f = append(f, []byte{0x00, byte(v)})
		}
		return f
	}
	st.Evals.Add(4)
	match, shortest := false, false
	for i, fm := range forms(m) {
		for j, fn := range forms(n) {
			if bytes.Equal(script, mk(fm, fn)) {
				match = true
				shortest = i == 0 && j == 0
			}
		}
	}
	if !match {
		want := mk(forms(m)[0], forms(n)[0])
		c.bad(sec, "script-builder:CreateMultiSigRedeemScript", in, rank, fmt.Sprintf("script %x..., reference %x...", script[:min(len(script), 40)], want[:40]))
	} else if !shortest {
		c.note("multisig_scripts_with_a_longer_integer_push_than_necessary", 1)
	}
	for i, k := range ks {
		if !bytes.Equal(k.Bytes(), sorted[i]) {
			c.bad(sec, "script-builder:CreateMultiSigRedeemScript(sorts its argument)", in, rank, fmt.Sprintf("position %d", i))
			break
		}
	}
	pm, pk, ok := scparser.ParseMultiSigContract(script)
	st.Calls.Add(4)
	if !ok || pm != m || len(pk) != n || !slices.EqualFunc(pk, sorted, bytes.Equal) {
		c.bad(sec, "script-parser:ParseMultiSigContract(CreateMultiSigRedeemScript)", in, rank, fmt.Sprintf("ok=%v m=%d keys=%d", ok, pm, len(pk)))
	}
	if !scparser.IsMultiSigContract(script) || scparser.IsSignatureContract(script) || !scparser.IsStandardContract(script) {
		c.bad(sec, "script-parser:IsMultiSigContract/IsSignatureContract", in, rank, fmt.Sprintf("multisig=%v signature=%v", scparser.IsMultiSigContract(script), scparser.IsSignatureContract(script)))
	}
	// what the builder emitted means the same to the VM: run everything before the SYSCALL.
	v, err := runScript(script[:len(script)-5])
	st.Calls.Inc()
	st.Evals.Inc()
	if err != nil || v.Estack().Len() != n+2 {
		c.bad(sec, "script-vm:pushes of CreateMultiSigRedeemScript", in, rank, fmt.Sprintf("err=%v", err))
		return
	}
	okVM := v.Estack().Pop().BigInt().Cmp(big.NewInt(int64(n))) == 0
	for i := n - 1; i >= 0; i-- {
		okVM = okVM && bytes.Equal(v.Estack().Pop().Bytes(), sorted[i])
	}
	okVM = okVM && v.Estack().Pop().BigInt().Cmp(big.NewInt(int64(m))) == 0
	if !okVM {
		c.bad(sec, "script-vm:pushes of CreateMultiSigRedeemScript", in, rank, "stack differs from (m, keys..., n)")
	}
}

func sigScriptOne(c *chk, in string) {
	const sec = "script-signature"
	st := c.sec(sec)
	c.seen(sec, in)
	var i int
	fmt.Sscan(in, &i)
	pub := testKey(i).PublicKey()
	st.Inputs.Inc()
	st.Nontrivial.Inc()
	script := pub.GetVerificationScript()
	comp := append([]byte{2 + byte(pub.Y.Bit(0))}, pub.X.FillBytes(make([]byte, 32))...)
	want := append(append(append([]byte{0x0c, 33}, comp...), 0x41), syscallID("System.Crypto.CheckSig")...)
	st.Calls.Add(5)
	st.Evals.Add(3)
	if !bytes.Equal(script, want) {
		c.bad(sec, "script-builder:GetVerificationScript", in, int64(i), fmt.Sprintf("%x, reference %x", script, want))
	}
	k, ok := scparser.ParseSignatureContract(script)
	if !ok || !bytes.Equal(k, comp) {
		c.bad(sec, "script-parser:ParseSignatureContract(GetVerificationScript)", in, int64(i), fmt.Sprintf("ok=%v key=%x", ok, k))
	}
	if !scparser.IsSignatureContract(script) || scparser.IsMultiSigContract(script) || !scparser.IsStandardContract(script) {
		c.bad(sec, "script-parser:IsSignatureContract/IsMultiSigContract", in, int64(i), "")
	}
	// a 1-of-1 multisig of the same key is a different, multisig, contract.
	ms, err := smartcontract.CreateMultiSigRedeemScript(1, keys.PublicKeys{pub})
	st.Evals.Inc()
	if err != nil || scparser.IsSignatureContract(ms) || !scparser.IsMultiSigContract(ms) {
		c.bad(sec, "script-parser:1-of-1 multisig", in, int64(i), fmt.Sprintf("err=%v", err))
	}
}

// ---- emit <-> VM -------------------------------------------------------------------------------

func describe(it stackitem.Item) string {
	switch it.Type() {
	case stackitem.ArrayT, stackitem.StructT:
		var p []string
		for _, e := range it.Value().([]stackitem.Item) {
			p = append(p, describe(e))
		}
		return "A[" + strings.Join(p, ",") + "]"
	case stackitem.IntegerT:
		return "I:" + it.Value().(*big.Int).String()
	case stackitem.ByteArrayT, stackitem.BufferT:
		return "B:" + hex.EncodeToString(it.Value().([]byte))
	case stackitem.BooleanT:
		if it.Value().(bool) {
			return "T"
		}
		return "F"
	case stackitem.AnyT:
		return "N"
	}
	return "?" + it.Type().String()
}

func expect(v any) string {
	switch e := v.(type) {
	case []any:
		var p []string
		for _, x := range e {
			p = append(p, expect(x))
		}
		return "A[" + strings.Join(p, ",") + "]"
	case int64:
		return fmt.Sprintf("I:%d", e)
	case int:
		return fmt.Sprintf("I:%d", e)
	case uint64:
		return fmt.Sprintf("I:%d", e)
	case *big.Int:
		return "I:" + e.String()
	case []byte:
		return "B:" + hex.EncodeToString(e)
	case string:
		return "B:" + hex.EncodeToString([]byte(e))
	case bool:
		if e {
			return "T"
		}
		return "F"
	case nil:
		return "N"
	case util.Uint160:
		return "B:" + hex.EncodeToString(e[:])
	}
	panic(fmt.Sprintf("unexpected %T", v))
}

func emitIntOne(c *chk, in string) {
	const sec = "emit-int"
	st := c.sec(sec)
	c.seen(sec, in)
	n, ok := new(big.Int).SetString(in, 10)
	if !ok {
		panic("bad input")
	}
	st.Inputs.Inc()
	rank := rankInt(n)
	enc := refEncode(n)
	if len(enc) > 1 {
		st.Nontrivial.Inc()
	}
	type variant struct {
		name string
		f    func(w *nio.BinWriter)
	}
	vs := []variant{{"BigInt", func(w *nio.BinWriter) { emit.BigInt(w, new(big.Int).Set(n)) }}, {"Any(*big.Int)", func(w *nio.BinWriter) { emit.Any(w, new(big.Int).Set(n)) }}}
	if n.IsInt64() {
		vs = append(vs, variant{"Int", func(w *nio.BinWriter) { emit.Int(w, n.Int64()) }})
	}
	for _, va := range vs {
		w := nio.NewBufBinWriter()
		va.f(w.BinWriter)
		st.Calls.Inc()
		st.Evals.Inc()
		if len(enc) > 32 {
			if w.Err == nil {
				c.bad(sec, "emit-accepts-too-big:"+va.name, in, rank, fmt.Sprintf("script %x", w.Bytes()))
			}
			continue
		}
		if w.Err != nil {
			c.bad(sec, "emit-vm-roundtrip:"+va.name, in, rank, w.Err.Error())
			continue
		}
		script := w.Bytes()
		v, err := runScript(script)
		st.Calls.Inc()
		if err != nil || v.Estack().Len() != 1 {
			c.bad(sec, "emit-vm-roundtrip:"+va.name, in, rank, fmt.Sprintf("script %x: err=%v", script, err))
			continue
		}
		it := v.Estack().Pop().Item()
		b, berr := it.TryBytes()
		if it.Type() != stackitem.IntegerT || it.Value().(*big.Int).Cmp(n) != 0 || berr != nil || !bytes.Equal(b, enc) {
			c.bad(sec, "emit-vm-roundtrip:"+va.name, in, rank, fmt.Sprintf("script %x leaves %s (bytes %x), want bytes %x", script, describe(it), b, enc))
		}
		// the parser reads the same number back from the instruction.
		ctx := scparser.NewContext(script, 0)
		op, param, perr := ctx.Next()
		st.Evals.Inc()
		st.Calls.Inc()
		if perr != nil {
			c.bad(sec, "emit-parser-roundtrip:"+va.name, in, rank, perr.Error())
			continue
		}
		pb, perr := scparser.GetBigIntFromInstr(scparser.Instruction{Op: op, Param: param})
		if perr != nil || pb.Cmp(n) != 0 {
			c.bad(sec, "emit-parser-roundtrip:GetBigIntFromInstr("+va.name+")", in, rank, fmt.Sprintf("script %x: %v err=%v", script, pb, perr))
		}
		p64, perr := scparser.GetInt64FromInstr(scparser.Instruction{Op: op, Param: param})
		if n.IsInt64() && (perr != nil || p64 != n.Int64()) || !n.IsInt64() && perr == nil {
			c.bad(sec, "emit-parser-roundtrip:GetInt64FromInstr("+va.name+")", in, rank, fmt.Sprintf("script %x: %d err=%v", script, p64, perr))
		}
		if !bytes.Equal(script, refPushInt(n)) {
			c.note("emit_int_scripts_not_the_shortest_push", 1)
		}
	}
}

func emitBytesOne(c *chk, in string) {
	const sec = "emit-bytes"
	st := c.sec(sec)
	c.seen(sec, in)
	var l int
	fmt.Sscan(in, &l)
	st.Inputs.Inc()
	if l > 0 {
		st.Nontrivial.Inc()
	}
	data := make([]byte, l)
	for i := range data {
		data[i] = byte(i*7 + l)
	}
	for _, name := range []string{"Bytes", "String", "Any([]byte)"} {
		w := nio.NewBufBinWriter()
		switch name {
		case "Bytes":
			emit.Bytes(w.BinWriter, data)
		case "String":
			emit.String(w.BinWriter, string(data))
		default:
			emit.Any(w.BinWriter, data)
		}
		st.Calls.Add(2)
		st.Evals.Add(2)
		werr := w.Err
		script := w.Bytes()
		var hdr []byte
		switch {
		case l < 0x100:
			hdr = []byte{0x0c, byte(l)}
		case l < 0x10000:
			hdr = []byte{0x0d, byte(l), byte(l >> 8)}
		default:
			hdr = []byte{0x0e, byte(l), byte(l >> 8), byte(l >> 16), byte(l >> 24)}
		}
		if werr != nil || !bytes.Equal(script, append(hdr, data...)) {
			c.bad(sec, "emit-encode:"+name, in, int64(l), fmt.Sprintf("err=%v header %x, reference %x", werr, script[:min(len(script), 5)], hdr))
			continue
		}
		v, err := runScript(script)
		if err != nil || v.Estack().Len() != 1 {
			c.bad(sec, "emit-vm-roundtrip:"+name, in, int64(l), fmt.Sprintf("err=%v", err))
			continue
		}
		if it := v.Estack().Pop().Item(); it.Type() != stackitem.ByteArrayT || !bytes.Equal(it.Value().([]byte), data) {
			c.bad(sec, "emit-vm-roundtrip:"+name, in, int64(l), "other bytes on the stack")
		}
	}
}

func arrayCase(k int) []any {
	seq := func(n int) []any {
		var a []any
		for i := 0; i < n; i++ {
			a = append(a, int64(i-1))
		}
		return a
	}
	switch k {
	case 0:
		return []any{}
	case 1:
		return []any{int64(1)}
	case 2:
		return []any{int64(-1), int64(16), int64(17), new(big.Int).Lsh(one, 100), new(big.Int).Neg(new(big.Int).Lsh(one, 255)), uint64(1<<63 + 5)}
	case 3:
		return []any{[]byte{1, 2, 3}, "str", "", true, false, nil, []byte{}}
	case 4:
		return []any{[]any{int64(1), int64(2)}, []any{}, []any{[]any{int64(3)}}, int64(4)}
	case 5:
		return seq(15)
	case 6:
		return seq(16)
	case 7:
		return seq(17)
	case 8:
		return seq(255)
	case 9:
		return seq(256)
	case 10:
		return []any{util.Uint160{1, 2, 3}, 7, []any{nil, []any{true}}}
	}
	return nil
}

func emitArrayOne(c *chk, in string) {
	const sec = "emit-array"
	st := c.sec(sec)
	c.seen(sec, in)
	var k int
	fmt.Sscan(in, &k)
	es := arrayCase(k)
	st.Inputs.Inc()
	if len(es) > 0 {
		st.Nontrivial.Inc()
	}
	w := nio.NewBufBinWriter()
	emit.Array(w.BinWriter, es...)
	st.Calls.Add(2)
	st.Evals.Inc()
	if w.Err != nil {
		c.bad(sec, "emit-vm-roundtrip:Array", in, int64(k), w.Err.Error())
		return
	}
	v, err := runScript(w.Bytes())
	if err != nil || v.Estack().Len() != 1 {
		c.bad(sec, "emit-vm-roundtrip:Array", in, int64(k), fmt.Sprintf("err=%v", err))
		return
	}
	got, want := describe(v.Estack().Pop().Item()), expect(es)
	if got != want {
		if len(got) > 300 {
			got, want = got[:300], want[:min(len(want), 300)]
		}
		c.bad(sec, "emit-vm-roundtrip:Array", in, int64(k), fmt.Sprintf("stack %s, want %s", got, want))
	}
}

func init() {
	register(&section{
		name: "merkle",
		rule: "every list length 0..17 (thorough: 0..67) x 4 leaf patterns (distinct, all equal, last two equal, first two equal): CalcMerkleRoot and NewMerkleTree().Root() equal the recursive pairwise double-SHA256 definition written here; NewMerkleTree leaves its input alone; non-trivial = some level has an odd number of nodes",
		one:  merkleOne,
		shards: func(c *chk) []func() {
			return []func(){func() {
				for n := 0; n <= vk.Pick(c.r, 17, 67); n++ {
					for v := 0; v < 4; v++ {
						merkleOne(c, fmt.Sprintf("%d|%d", n, v))
					}
				}
			}}
		},
	})
	register(&section{
		name: "script-multisig",
		rule: "every 1<=m<=n<=5, n in {15,16,17,18} with m in {1,15,16,17,n}, n=1024 with m in {1,16,17,1024}, and m=0 / m=n+1: CreateMultiSigRedeemScript equals the reference script (keys sorted), ParseMultiSigContract returns m and the sorted keys, Is*Contract classify it, and the VM executes its pushes to (m, keys.., n); non-trivial = valid m",
		one:  multisigScriptOne,
		shards: func(c *chk) []func() {
			var ins []string
			for n := 1; n <= 5; n++ {
				for m := 0; m <= n+1; m++ {
					ins = append(ins, fmt.Sprintf("%d,%d", m, n))
				}
			}
			for _, n := range []int{15, 16, 17, 18} {
				for _, m := range []int{1, 15, 16, 17, n, n + 1} {
					if m <= n+1 {
						ins = append(ins, fmt.Sprintf("%d,%d", m, n))
					}
				}
			}
			var out []func()
			out = append(out, func() {
				seen := vk.NewSet()
				for _, in := range ins {
					if seen.Add(in) {
						multisigScriptOne(c, in)
					}
				}
			})
			for _, m := range []int{1, 16, 17, 1024, 1025} {
				in := fmt.Sprintf("%d,1024", m)
				out = append(out, func() { multisigScriptOne(c, in) })
			}
			return out
		},
	})
	register(&section{
		name: "script-signature",
		rule: "8 keys: GetVerificationScript equals the reference script, ParseSignatureContract returns the key, Is*Contract classify it and the 1-of-1 multisig of the same key",
		one:  sigScriptOne,
		shards: func(c *chk) []func() {
			return []func(){func() {
				for i := 0; i < 8; i++ {
					sigScriptOne(c, itoa(i))
				}
			}}
		},
	})
	register(&section{
		name: "emit-int",
		rule: "-2..18 and every +-2^k+d for k in {7,8,15,16,31,32,63,64,127,128,254,255,256}, |d|<=2: emit.Int/BigInt/Any -> the VM leaves exactly that integer with minimal bytes, scparser reads the same number from the instruction; beyond 256 bits emit refuses; non-trivial = more than one byte",
		one:  emitIntOne,
		shards: func(c *chk) []func() {
			return []func(){func() {
				seen := vk.NewSet()
				for v := -2; v <= 18; v++ {
					if seen.Add(itoa(v)) {
						emitIntOne(c, itoa(v))
					}
				}
				for _, k := range []uint{7, 8, 15, 16, 31, 32, 63, 64, 127, 128, 254, 255, 256} {
					for _, sign := range []int64{1, -1} {
						for d := int64(-2); d <= 2; d++ {
							n := new(big.Int).Lsh(one, k)
							n.Mul(n, big.NewInt(sign)).Add(n, big.NewInt(d))
							if seen.Add(n.String()) {
								emitIntOne(c, n.String())
							}
						}
					}
				}
			}}
		},
	})
	register(&section{
		name: "emit-bytes",
		rule: "lengths 0,1,2,32,33,75,76,255,256,257,65535,65536,65537: emit.Bytes/String/Any give PUSHDATA1/2/4 with the right length field and the VM leaves the same bytes",
		one:  emitBytesOne,
		shards: func(c *chk) []func() {
			return []func(){func() {
				for _, l := range []int{0, 1, 2, 32, 33, 75, 76, 255, 256, 257, 65535, 65536, 65537} {
					emitBytesOne(c, itoa(l))
				}
			}}
		},
	})
	register(&section{
		name: "emit-array",
		rule: "11 arrays (empty, scalars at opcode boundaries, byte strings/bools/null, nested, 15/16/17/255/256 elements): emit.Array -> the VM leaves an array with the same elements in the same order",
		one:  emitArrayOne,
		shards: func(c *chk) []func() {
			return []func(){func() {
				for k := 0; k <= 10; k++ {
					emitArrayOne(c, itoa(k))
				}
			}}
		},
	})
}
