package c18

import (
	"bytes"
	"crypto/sha256"
	"encoding/hex"
	"fmt"
	"math"
	"math/big"
	"strings"

	mb58 "github.com/mr-tron/base58"
	"github.com/nspcc-dev/neo-go/pkg/encoding/address"
	"github.com/nspcc-dev/neo-go/pkg/encoding/base58"
	"github.com/nspcc-dev/neo-go/pkg/encoding/fixedn"
	nio "github.com/nspcc-dev/neo-go/pkg/io"
	"github.com/nspcc-dev/neo-go/pkg/util"

	"verif/lib/vk"
)

// ---- reference Base58 -------------------------------------------------------------

const b58alpha = "123456789ABCDEFGHJKLMNPQRSTUVWXYZabcdefghijkmnopqrstuvwxyz"

func refB58Enc(b []byte) string {
	z := 0
	for z < len(b) && b[z] == 0 {
		z++
	}
	v := new(big.Int).SetBytes(b)
	var digits []byte
	m := new(big.Int)
	b58 := big.NewInt(58)
	for v.Sign() > 0 {
		v.QuoRem(v, b58, m)
		digits = append(digits, b58alpha[m.Int64()])
	}
	for i, j := 0, len(digits)-1; i < j; i, j = i+1, j-1 {
		digits[i], digits[j] = digits[j], digits[i]
	}
	return strings.Repeat("1", z) + string(digits)
}

func refB58Dec(s string) ([]byte, bool) {
	z := 0
	for z < len(s) && s[z] == '1' {
		z++
	}
	v := new(big.Int)
	for i := 0; i < len(s); i++ {
		k := strings.IndexByte(b58alpha, s[i])
		if k < 0 {
			return nil, false
		}
		v.Mul(v, big.NewInt(58))
		v.Add(v, big.NewInt(int64(k)))
	}
	return append(make([]byte, z), v.Bytes()...), true
}

func refChecksum(b []byte) []byte {
	h1 := sha256.Sum256(b)
	h2 := sha256.Sum256(h1[:])
	return h2[:4]
}

// ---- Base58 / Base58Check over byte strings ---------------------------------------------

func b58BytesOne(c *chk, in string) {
	const sec = "base58-bytes"
	st := c.sec(sec)
	c.seen(sec, in)
	b, err := hex.DecodeString(in)
	if err != nil {
		panic(err)
	}
	if b == nil {
		b = []byte{}
	}
	rank := int64(len(b))<<24 + int64(new(big.Int).SetBytes(b).Int64())
	st.Inputs.Inc()
	if len(b) > 0 && b[0] == 0 {
		st.Nontrivial.Inc() // leading zero bytes
	}
	// raw codec (the library neo-go's Base58Check is built on); the empty string is
	// documented by that library as an error, so it is not demanded to round-trip.
	if len(b) > 0 {
		s := mb58.Encode(b)
		st.Calls.Inc()
		st.Evals.Add(2)
		if s != refB58Enc(b) {
			c.bad(sec, "base58-encode:Encode", in, rank, fmt.Sprintf("Encode=%q reference=%q", s, refB58Enc(b)))
		}
		d, err := mb58.Decode(s)
		st.Calls.Inc()
		if err != nil || !bytes.Equal(d, b) {
			c.bad(sec, "base58-roundtrip:Decode(Encode(b))", in, rank, fmt.Sprintf("Encode=%q Decode=%x err=%v", s, d, err))
		}
	}
	// Base58Check of /repo.
	s := base58.CheckEncode(append([]byte{}, b...))
	st.Calls.Inc()
	st.Evals.Add(2)
	wantS := refB58Enc(append(append([]byte{}, b...), refChecksum(b)...))
	if s != wantS {
		c.bad(sec, "base58check-encode:CheckEncode", in, rank, fmt.Sprintf("CheckEncode=%q reference=%q", s, wantS))
	}
	d, err := base58.CheckDecode(s)
	st.Calls.Inc()
	if err != nil || !bytes.Equal(d, b) {
		name := in
		if name == "" {
			name = "(empty)"
		}
		c.bad2(sec, "base58check-roundtrip:CheckDecode(CheckEncode(b))", "b="+name, in, rank, fmt.Sprintf("CheckEncode=%q CheckDecode=%x err=%v", s, d, err))
	}
	if len(b) > 1 {
		return
	}
	// corruption (payloads of length <= 1 only: 257 strings x every change):
	// every single BIT of payload||checksum flipped ...
	full := append(append([]byte{}, b...), refChecksum(b)...)
	for bit := 0; bit < len(full)*8; bit++ {
		f := append([]byte{}, full...)
		f[bit/8] ^= 1 << uint(bit%8)
		cs := refB58Enc(f)
		d, err := base58.CheckDecode(cs)
		st.Calls.Inc()
		st.Evals.Inc()
		legit := bytes.Equal(refChecksum(f[:len(f)-4]), f[len(f)-4:])
		if err == nil && !legit {
			c.bad2(sec, "base58check-accepts-corrupted:CheckDecode", fmt.Sprintf("b=%s:bit=%d", in, bit), in, rank<<10+int64(bit), fmt.Sprintf("string %q (payload||checksum %x) decoded to %x", cs, f, d))
		}
	}
	// ... and every single CHARACTER replaced by every other alphabet symbol.
	for pos := 0; pos < len(s); pos++ {
		for k := 0; k < len(b58alpha); k++ {
			if b58alpha[k] == s[pos] {
				continue
			}
			cs := s[:pos] + string(b58alpha[k]) + s[pos+1:]
			d, err := base58.CheckDecode(cs)
			st.Calls.Inc()
			st.Evals.Inc()
			if err == nil && base58.CheckEncode(append([]byte{}, d...)) != cs {
				c.bad2(sec, "base58check-accepts-corrupted:CheckDecode", fmt.Sprintf("b=%s:pos=%d:sym=%c", in, pos, b58alpha[k]), in, rank<<10+int64(pos), fmt.Sprintf("string %q decoded to %x, which encodes to another string", cs, d))
			}
		}
	}
}

// ---- Base58 over short strings ------------------------------------------------------------

const b58syms = "12z0OIl" // three valid digits (zero digit, a small one, the largest) and the four look-alikes that are not in the alphabet

func b58StringOne(c *chk, in string) {
	const sec = "base58-strings"
	st := c.sec(sec)
	c.seen(sec, in)
	st.Inputs.Inc()
	want, valid := refB58Dec(in)
	if !valid || strings.HasPrefix(in, "1") {
		st.Nontrivial.Inc()
	}
	rank := int64(len(in))
	d, err := mb58.Decode(in)
	st.Calls.Inc()
	st.Evals.Add(2)
	switch {
	case !valid && err == nil:
		c.bad(sec, "base58-accepts-invalid-symbol:Decode", in, rank, fmt.Sprintf("decoded to %x", d))
	case valid && err != nil:
		c.bad(sec, "base58-rejects-valid:Decode", in, rank, err.Error())
	case valid && !bytes.Equal(d, want):
		c.bad(sec, "base58-decode:Decode", in, rank, fmt.Sprintf("Decode=%x reference=%x", d, want))
	}
	if err == nil {
		if re := mb58.Encode(d); re != in {
			c.bad(sec, "base58-reencode:Encode(Decode(s))", in, rank, fmt.Sprintf("decoded %x re-encodes to %q", d, re))
		}
	}
	// as a Base58Check string it is far too short to carry a checksum; if it is
	// accepted it must at least re-encode to itself.
	cd, cerr := base58.CheckDecode(in)
	st.Calls.Inc()
	if cerr == nil && base58.CheckEncode(append([]byte{}, cd...)) != in {
		c.bad(sec, "base58check-accepts-corrupted:CheckDecode(short)", in, rank, fmt.Sprintf("decoded to %x", cd))
	}
}

func allStrings(alpha string, maxLen int, f func(s string)) {
	var rec func(prefix string)
	rec = func(prefix string) {
		if len(prefix) > 0 {
			f(prefix)
		}
		if len(prefix) == maxLen {
			return
		}
		for i := 0; i < len(alpha); i++ {
			rec(prefix + string(alpha[i]))
		}
	}
	rec("")
}

// ---- addresses ---------------------------------------------------------------------------

func addressOne(c *chk, in string) {
	const sec = "address"
	st := c.sec(sec)
	c.seen(sec, in)
	st.Inputs.Inc()
	if strings.HasPrefix(in, "payload:") {
		// a Base58Check string whose payload is not prefix||20 bytes
		st.Nontrivial.Inc()
		p, err := hex.DecodeString(strings.TrimPrefix(in, "payload:"))
		if err != nil {
			panic(err)
		}
		s := refB58Enc(append(append([]byte{}, p...), refChecksum(p)...))
		st.Evals.Inc()
		st.Calls.Inc()
		var u util.Uint160
		var derr error
		panicked := ""
		func() {
			defer func() {
				if r := recover(); r != nil {
					panicked = fmt.Sprint(r)
				}
			}()
			u, derr = address.StringToUint160(s)
		}()
		what := "wrong-length"
		if len(p) == 21 {
			what = "wrong-prefix"
		}
		switch {
		case panicked != "":
			c.bad2(sec, "address-decode-panics:StringToUint160", fmt.Sprintf("%s:payload=%dbytes", what, len(p)), in, int64(len(p)), fmt.Sprintf("string %q (payload %x): panic: %s", s, p, panicked))
		case derr == nil && address.Uint160ToString(u) != s:
			c.bad2(sec, "address-accepts-malformed:StringToUint160", fmt.Sprintf("%s:payload=%dbytes", what, len(p)), in, int64(len(p)), fmt.Sprintf("string %q (payload %x) decoded to %s, whose address is %q", s, p, u.StringBE(), address.Uint160ToString(u)))
		}
		return
	}
	be, err := hex.DecodeString(in)
	if err != nil || len(be) != 20 {
		panic("bad input")
	}
	nz := 0
	for _, x := range be {
		if x != 0 {
			nz++
		}
	}
	if nz > 0 {
		st.Nontrivial.Inc()
	}
	u, _ := util.Uint160DecodeBytesBE(be)
	s := address.Uint160ToString(u)
	st.Calls.Inc()
	st.Evals.Add(2)
	payload := append([]byte{address.NEO3Prefix}, be...)
	if want := refB58Enc(append(payload, refChecksum(payload)...)); s != want {
		c.bad(sec, "address-encode:Uint160ToString", in, int64(nz), fmt.Sprintf("%q, reference %q", s, want))
	}
	back, err := address.StringToUint160(s)
	st.Calls.Inc()
	if err != nil || back != u {
		c.bad(sec, "address-roundtrip:StringToUint160(Uint160ToString(u))", in, int64(nz), fmt.Sprintf("address %q decodes to %s err=%v", s, back.StringBE(), err))
	}
	// every single character replaced by its successor in the alphabet: rejected.
	for pos := 0; pos < len(s); pos++ {
		k := strings.IndexByte(b58alpha, s[pos])
		cs := s[:pos] + string(b58alpha[(k+1)%58]) + s[pos+1:]
		st.Evals.Inc()
		st.Calls.Inc()
		var got util.Uint160
		var derr error
		c.guard(sec, in, func() { got, derr = address.StringToUint160(cs) })
		if derr == nil && address.Uint160ToString(got) != cs {
			c.bad2(sec, "address-accepts-malformed:StringToUint160", fmt.Sprintf("corrupted:%s:pos=%d", in, pos), in, int64(1000+pos), fmt.Sprintf("string %q decoded to %s", cs, got.StringBE()))
		}
	}
}

// ---- fixed-point decimals ------------------------------------------------------------------

// fixedPrecisions: every precision of the fixed-width types plus both sides of the
// implementation's table of powers of ten (16/17) and of the uint64 range (19/20).
var fixedPrecisions = []int{0, 1, 2, 3, 4, 5, 6, 7, 8, 9, 15, 16, 17, 18, 19, 20, 21, 30, 38}

// refFixedParse is the definition of a fixed-point decimal, written without any
// power of ten: the digits of s with the point removed and the fraction padded to
// p digits. ok=false: s is not of the plain form [-]digits[.digits] with at most p
// fraction digits (nothing is demanded then).
func refFixedParse(s string, p int) (*big.Int, bool) {
	neg := strings.HasPrefix(s, "-")
	t := strings.TrimPrefix(s, "-")
	ip, fp, hasDot := strings.Cut(t, ".")
	if ip == "" || (hasDot && fp == "") || len(fp) > p {
		return nil, false
	}
	for _, ch := range ip + fp {
		if ch < '0' || ch > '9' {
			return nil, false
		}
	}
	v, ok := new(big.Int).SetString(ip+fp+strings.Repeat("0", p-len(fp)), 10)
	if !ok {
		return nil, false
	}
	if neg {
		v.Neg(v)
	}
	return v, true
}

func fixedStringOne(c *chk, in string) {
	// input: "<precision>|<string>"
	const sec = "fixedn-strings"
	st := c.sec(sec)
	c.seen(sec, in)
	i := strings.IndexByte(in, '|')
	var p int
	fmt.Sscan(in[:i], &p)
	s := in[i+1:]
	st.Inputs.Inc()
	rank := int64(len(s))*100 + int64(p)
	v, err := fixedn.FromString(s, p)
	st.Calls.Inc()
	st.Evals.Inc()
	if ref, ok := refFixedParse(s, p); ok {
		st.Evals.Inc()
		if err != nil || v.Cmp(ref) != 0 {
			c.bad(sec, "fixedn-value:FromString-vs-definition", in, rank, fmt.Sprintf("%q with precision %d is %s by definition, FromString gives %v err=%v", s, p, ref, v, err))
		}
	}
	if err == nil {
		st.Nontrivial.Inc() // the string parses
		// (the value v itself is an input of the fixedn-values section, where
		// FromString(ToString(v)) == v is demanded; here: the canonical string is stable.)
		canon := fixedn.ToString(v, p)
		v2, err2 := fixedn.FromString(canon, p)
		st.Calls.Add(2)
		st.Evals.Add(1)
		if err2 != nil {
			c.bad(sec, "fixedn-reformat:FromString(ToString(FromString(s)))", in, rank, fmt.Sprintf("%q parses to %s, formats to %q, which does not parse: %v", s, v, canon, err2))
		} else if c2 := fixedn.ToString(v2, p); v2.Cmp(v) == 0 && c2 != canon {
			c.bad(sec, "fixedn-canonical-not-stable:ToString", in, rank, fmt.Sprintf("%q then %q", canon, c2))
		}
	}
	if err == nil && strings.Contains(s[strings.IndexByte(s+".", '.'):], "-") {
		c.note("fixedn_FromString_accepts_a_minus_sign_inside_the_fraction", 1)
	}
	if p == 8 {
		f, ferr := fixedn.Fixed8FromString(s)
		if ferr == nil && err == nil && !v.IsInt64() {
			c.note("fixedn_Fixed8FromString_wraps_values_outside_int64_without_error", 1)
		}
		st.Calls.Inc()
		st.Evals.Inc()
		if (ferr == nil) != (err == nil) {
			c.bad(sec, "fixedn-fixed8-vs-decimal:Fixed8FromString", in, rank, fmt.Sprintf("Fixed8FromString err=%v, FromString(s,8) err=%v", ferr, err))
		} else if ferr == nil && v.IsInt64() && int64(f) != v.Int64() {
			c.bad(sec, "fixedn-fixed8-vs-decimal:Fixed8FromString", in, rank, fmt.Sprintf("Fixed8FromString=%d, FromString(s,8)=%s", int64(f), v))
		}
	}
}

func fixedValueOne(c *chk, in string) {
	// input: "<precision>|<integer x>": the number x * 10^-precision.
	const sec = "fixedn-values"
	st := c.sec(sec)
	c.seen(sec, in)
	i := strings.IndexByte(in, '|')
	var p int
	fmt.Sscan(in[:i], &p)
	x, ok := new(big.Int).SetString(in[i+1:], 10)
	if !ok {
		panic("bad input")
	}
	st.Inputs.Inc()
	if x.Sign() != 0 {
		st.Nontrivial.Inc()
	}
	rank := rankInt(x)*16 + int64(p)
	s := fixedn.ToString(new(big.Int).Set(x), p)
	back, err := fixedn.FromString(s, p)
	st.Calls.Add(2)
	st.Evals.Inc()
	if err != nil || back.Cmp(x) != 0 {
		c.bad2(sec, "fixedn-roundtrip:FromString(ToString(x,p),p)", fmt.Sprintf("prec=%d:x=%s", p, x), in, rank, fmt.Sprintf("x=%s precision=%d formats to %q, which parses to %v err=%v", x, p, s, back, err))
	}
	st.Evals.Inc()
	if ref, ok := refFixedParse(s, p); !ok || ref.Cmp(x) != 0 {
		c.bad2(sec, "fixedn-value:ToString-vs-definition", fmt.Sprintf("prec=%d:x=%s", p, x), in, rank, fmt.Sprintf("x=%s precision=%d formats to %q, which is %v by definition (plain form: %v)", x, p, s, ref, ok))
	}
	if p != 8 || !x.IsInt64() {
		return
	}
	f := fixedn.Fixed8(x.Int64())
	fs := f.String()
	fb, err := fixedn.Fixed8FromString(fs)
	st.Calls.Add(2)
	st.Evals.Inc()
	if err != nil || fb != f {
		class := "fixedn-roundtrip:Fixed8FromString(Fixed8.String())"
		if int64(f) == math.MinInt64 {
			class += ":int64-min"
		}
		c.bad2(sec, class, fmt.Sprintf("x=%d", int64(f)), in, rank, fmt.Sprintf("Fixed8(%d) formats to %q, which parses to %d err=%v", int64(f), fs, int64(fb), err))
	} else {
		// JSON is built on String(); only examined where String() itself round-trips.
		js, _ := f.MarshalJSON()
		var g fixedn.Fixed8
		err := g.UnmarshalJSON(js)
		st.Calls.Add(2)
		st.Evals.Inc()
		if err != nil || g != f {
			c.bad2(sec, "fixedn-roundtrip:Fixed8.UnmarshalJSON(MarshalJSON)", fmt.Sprintf("x=%d", int64(f)), in, rank, fmt.Sprintf("%s -> %d err=%v", js, int64(g), err))
		}
	}
	w := nio.NewBufBinWriter()
	f.EncodeBinary(w.BinWriter)
	var g fixedn.Fixed8
	rd := nio.NewBinReaderFromBuf(w.Bytes())
	g.DecodeBinary(rd)
	st.Calls.Add(2)
	st.Evals.Inc()
	if rd.Err != nil || g != f {
		c.bad2(sec, "fixedn-roundtrip:Fixed8.DecodeBinary(EncodeBinary)", fmt.Sprintf("x=%d", int64(f)), in, rank, fmt.Sprintf("%x -> %d", w.Bytes(), int64(g)))
	}
	st.Evals.Inc()
	if f.IntegralValue()*100000000+int64(f.FractionalValue()) != int64(f) {
		c.bad2(sec, "fixedn-parts:Fixed8.IntegralValue+FractionalValue", fmt.Sprintf("x=%d", int64(f)), in, rank, fmt.Sprintf("%d and %d", f.IntegralValue(), f.FractionalValue()))
	}
}

func init() {
	register(&section{
		name: "base58-bytes",
		rule: "every byte string of length <= 2 (thorough: 3): Encode equals the reference base-58, Decode inverts it, CheckEncode = base58(b||sha256d(b)[:4]), CheckDecode inverts it; for length <= 1 every single-bit and every single-character corruption must be rejected; non-trivial = leading zero bytes",
		one:  b58BytesOne,
		shards: func(c *chk) []func() {
			maxLen := vk.Pick(c.r, 2, 3)
			var out []func()
			out = append(out, func() { b58BytesOne(c, "") })
			for a := 0; a < 256; a++ {
				a := a
				out = append(out, func() {
					b58BytesOne(c, hex.EncodeToString([]byte{byte(a)}))
					for b := 0; b < 256; b++ {
						b58BytesOne(c, hex.EncodeToString([]byte{byte(a), byte(b)}))
						if maxLen >= 3 {
							if c.r.Expired() {
								return
							}
							for d := 0; d < 256; d++ {
								b58BytesOne(c, hex.EncodeToString([]byte{byte(a), byte(b), byte(d)}))
							}
						}
					}
				})
			}
			return out
		},
	})
	register(&section{
		name: "base58-strings",
		rule: "every string of length <= 4 (thorough: 6) over {1,2,z,0,O,I,l} plus strings with bytes outside ASCII: Decode accepts exactly the strings without a foreign symbol, equals the reference value, and Encode(Decode(s)) == s; non-trivial = contains a foreign symbol or a leading zero digit",
		one:  b58StringOne,
		shards: func(c *chk) []func() {
			maxLen := vk.Pick(c.r, 4, 6)
			var out []func()
			for i := 0; i < len(b58syms); i++ {
				first := string(b58syms[i])
				out = append(out, func() {
					b58StringOne(c, first)
					allStrings(b58syms, maxLen-1, func(s string) { b58StringOne(c, first+s) })
				})
			}
			out = append(out, func() {
				for _, s := range []string{"\x00", "\xff", "2\xff", "\x802", "é", "2é2", " 2", "2 ", "2\n", "+", "/", "2=", "\x7f"} {
					b58StringOne(c, s)
				}
			})
			return out
		},
	})
	register(&section{
		name: "address",
		rule: "all 160 single-bit script hashes plus dense ones: address = base58check(0x35||hash) and decodes back; every single-character corruption, wrong prefix and every payload length 0..44 other than 21 must be rejected (or re-encode to itself); non-trivial = non-zero hash or malformed string",
		one:  addressOne,
		shards: func(c *chk) []func() {
			return []func(){func() {
				for _, p := range uintPatterns(20) {
					addressOne(c, hex.EncodeToString(p))
				}
			}, func() {
				body := make([]byte, 44)
				for i := range body {
					body[i] = byte(i + 1)
				}
				for l := 0; l <= 44; l++ {
					if l == 20 {
						continue
					}
					addressOne(c, "payload:"+hex.EncodeToString(append([]byte{address.NEO3Prefix}, body[:l]...)))
				}
				addressOne(c, "payload:") // no prefix byte at all
				for _, pfx := range []byte{0x00, 0x17, 0x34, 0x36, 0xff} {
					addressOne(c, "payload:"+hex.EncodeToString(append([]byte{pfx}, body[:20]...)))
				}
			}}
		},
	})
	register(&section{
		name: "fixedn-strings",
		rule: "every string of length <= 4 (thorough: 6) over {0,1,9,.,-} x precisions 0..8 and 9,15..21,30,38 (both sides of the implementation's power table): no panic; a string of the plain form [-]digits[.digits] parses to the value an independent reference (digits shifted by the precision) gives; a string that parses formats to a canonical string that parses to the same value and is stable; Fixed8FromString agrees with FromString(s,8); non-trivial = the string parses",
		one:  fixedStringOne,
		shards: func(c *chk) []func() {
			maxLen := vk.Pick(c.r, 4, 6)
			var out []func()
			for _, p := range fixedPrecisions {
				out = append(out, func() {
					fixedStringOne(c, fmt.Sprintf("%d|", p))
					if p == 8 {
						for _, s := range []string{"92233720368.54775807", "92233720368.54775808", "92233720369", "-92233720368.54775808", "-92233720368.54775809", "99999999999999999999"} {
							fixedStringOne(c, "8|"+s)
						}
					}
					allStrings("019.-", maxLen, func(s string) { fixedStringOne(c, fmt.Sprintf("%d|%s", p, s)) })
				})
			}
			return out
		},
	})
	register(&section{
		name: "fixedn-values",
		rule: "every value produced by parsing the strings above, its negation, 0, +-1, +-(10^p-1), +-10^p, +-(10^p+1) and the ends of the int64 range, x precisions 0..8 and 9,15..21,30,38: FromString(ToString(x,p),p) == x and the independent reference parses ToString(x,p) to x; for p=8 also Fixed8 String/JSON/binary round trips; non-trivial = x != 0",
		one:  fixedValueOne,
		shards: func(c *chk) []func() {
			var out []func()
			for _, p := range fixedPrecisions {
				out = append(out, func() {
					vals := vk.NewSet()
					var list []*big.Int
					add := func(v *big.Int) {
						for _, w := range []*big.Int{v, new(big.Int).Neg(v)} {
							if vals.Add(w.String()) {
								list = append(list, w)
							}
						}
					}
					add(big.NewInt(0))
					add(big.NewInt(1))
					pw := new(big.Int).Exp(big.NewInt(10), big.NewInt(int64(p)), nil)
					add(new(big.Int).Sub(pw, one))
					add(pw)
					add(new(big.Int).Add(pw, one))
					add(big.NewInt(math.MaxInt64))
					add(big.NewInt(math.MinInt64))
					add(big.NewInt(math.MaxInt64 - 1))
					allStrings("019.-", vk.Pick(c.r, 4, 6), func(s string) {
						defer func() { _ = recover() }() // panics are reported by the strings section
						if v, err := fixedn.FromString(s, p); err == nil {
							add(v)
						}
					})
					for _, v := range list {
						fixedValueOne(c, fmt.Sprintf("%d|%s", p, v))
					}
				})
			}
			return out
		},
	})
}
