// C19: consensus through the node's dBFT integration is safe, and live under
// synchrony. Explicit-state model checking of the REAL code at message level
// (Engine N, lib/netx): N real consensus services on N real ledgers in one
// synctest bubble; a transition = one environment event + quiescence; the
// explorer enumerates delivery schedules exhaustively within a deviation
// bound from the synchronous default schedule (DESIGN.md 2.4, "### C19").
package c19

import (
	"bytes"
	"encoding/json"
	"fmt"
	"io"
	"os"
	"os/exec"
	"path/filepath"
	"runtime/debug"
	"runtime/pprof"
	"sort"
	"strings"
	"sync"
	"sync/atomic"
	"syscall"
	"testing"
	"testing/synctest"
	"time"
	"unsafe"

	"github.com/nspcc-dev/dbft"

	"verif/lib/netx"
	"verif/lib/vk"
)

// ---- schedules ---------------------------------------------------------------------

// Dev is one deviation: at step At (0-based index of the applied event) take
// Ev instead of the default event.
type Dev struct {
	At int        `json:"at"`
	Ev netx.Event `json:"ev"`
}

// Sched is one schedule: the default synchronous schedule with deviations.
type Sched struct {
	Scen string `json:"scenario"`
	Devs []Dev  `json:"devs"`
}

func (s Sched) Compact() string {
	if len(s.Devs) == 0 {
		return "default"
	}
	var p []string
	for _, d := range s.Devs {
		p = append(p, fmt.Sprintf("%d:%s", d.At, d.Ev))
	}
	return strings.Join(p, ",")
}

type scen struct {
	netx.Scenario
	setup    *netx.Setup
	maxBound int      // deviation bound explored for this scenario
	allTxs   bool     // every transaction of TxAt must be on chain when the path completes
	boundary bool     // block-limit boundary content: the first block must be made at view 0, without any ChangeView, and hold exactly expect
	expect   []string // catalogue names the first block must hold (boundary scenarios)
	maxSil   int      // f
	split    bool     // scenario of the split family (ext_recovery_test.go): not part of the deviation levels
	prim     int      // split: primary index of the first height
	deep     bool     // split: explored by the split family in the thorough tier only
	xview    bool     // scenario of the xview family (ext_xview_test.go; split is set as well)
	catchup  bool     // scenario of the catchup family (ext_catchup_test.go; split is set as well)
	lag      int      // catchup: blocks the others produce while the laggard lags
	reqtx    bool     // scenario of the reqtx family (ext_reqtx_test.go; split is set as well)
}

// Replay artefact / violation detail.
type caseRec struct {
	Oracle   string       `json:"oracle"`
	Scenario string       `json:"scenario"`
	N        int          `json:"n"`
	Bound    int          `json:"deviations"`
	Schedule string       `json:"schedule"`
	Devs     []Dev        `json:"devs"`
	Events   []netx.Event `json:"events"` // the explicit event list up to and including the failing step
	AtStep   int          `json:"at_step"`
	Text     string       `json:"text"`
	Log      []string     `json:"log,omitempty"`
	Split    *splitSpec   `json:"split,omitempty"`   // split family: the scripted prefix the events came from
	XView    *xviewSpec   `json:"xview,omitempty"`   // xview family (ext_xview_test.go): the scripted prefix the events came from
	Catchup  *catchupSpec `json:"catchup,omitempty"` // catchup family (ext_catchup_test.go): the scripted prefix the events came from
	ReqTx    *reqSpec     `json:"reqtx,omitempty"`   // reqtx family (ext_reqtx_test.go): the scripted prefix the events came from
}

// probeRec is one execution in flight (a file in <dir>/inflight while it
// runs). When the explorer process dies (a panic in a goroutine of the subject
// cannot be recovered from outside) the supervisor re-runs the executions in
// flight one by one, each in a process of its own, and reports the one that
// dies again as the violation.
type probeRec struct {
	Kind    string       `json:"kind"` // sched | split | xview | catchup
	Scen    string       `json:"scenario"`
	Sched   *Sched       `json:"sched,omitempty"`
	Split   *splitSpec   `json:"split,omitempty"`
	XView   *xviewSpec   `json:"xview,omitempty"`
	Catchup *catchupSpec `json:"catchup,omitempty"`
	ReqTx   *reqSpec     `json:"reqtx,omitempty"`
}

func (p probeRec) label() string {
	switch p.Kind {
	case "split":
		return "split:" + p.Scen + ":" + p.Split.String()
	case "xview":
		return "xview:" + p.Scen + ":" + p.XView.String()
	case "catchup":
		return "catchup:" + p.Scen + ":" + p.Catchup.String()
	case "reqtx":
		return "reqtx:" + p.Scen + ":" + p.ReqTx.String()
	}
	return p.Scen + ":" + p.Sched.Compact()
}

var (
	inflightDir string
	inflightSeq atomic.Int64
)

// inflightBegin records an execution as running; the returned function removes the record.
func inflightBegin(p probeRec) func() {
	if inflightDir == "" {
		return func() {}
	}
	fl := filepath.Join(inflightDir, fmt.Sprintf("%s-%08d.json", p.Kind, inflightSeq.Add(1)))
	if bs, err := json.Marshal(p); err == nil {
		_ = os.WriteFile(fl, bs, 0o644)
	}
	return func() { _ = os.Remove(fl) }
}

type problem struct {
	Oracle string
	Text   string
	Step   int
}

type result struct {
	Events    []netx.Event
	Log       []string
	Warns     []string
	Problems  []problem
	Children  []Sched
	NewSt     int
	Steps     int
	End       string // done | pruned | stuck | limit | error
	Err       string
	Blocks    []string // per height: hash/view/primary/txs
	Views     []int
	MaxLive   int // longest default continuation that was needed to commit the next block everywhere
	CarryOK   int
	BlockSize int
	PrefixLen int // events of the scripted prefix (split families)
}

// visited maps state digest -> fewest deviations it was reached with.
type visited struct {
	mu sync.Mutex
	m  map[string]int
}

func (v *visited) visit(d string, devs int) (seenBetter bool) {
	v.mu.Lock()
	defer v.mu.Unlock()
	if p, ok := v.m[d]; ok && p <= devs {
		return true
	}
	v.m[d] = devs
	return false
}

const (
	prefixCap  = 200 // longest scripted prefix (events)
	liveBound4 = 160 // default-schedule steps allowed to commit the next block on all nodes (N=4)
	liveBound7 = 520 // N=7
)

type runOpts struct {
	gen      bool     // generate children (one more deviation)
	vis      *visited // nil: no pruning
	explicit []netx.Event
	keepLog  bool
	// prefix (ext_recovery_test.go): a scripted adversarial prefix. It is asked
	// for the next event until it answers more=false; its events count as
	// deviations (liveness is demanded of the states after the prefix only).
	prefix func(w *netx.World) (ev *netx.Event, more bool)
	// after is evaluated on the state after every applied event (extra oracles).
	after func(w *netx.World) []netx.Problem
	// maxPrefix overrides prefixCap (0: prefixCap).
	maxPrefix int
	// onBlocks is told about every applied composite hand-over (netx.EvBlocks).
	onBlocks func(w *netx.World, ev netx.Event, info netx.BlocksInfo)
}

// run executes one schedule inside its own bubble.
func run(t *testing.T, sc *scen, s Sched, o runOpts) (res *result) {
	res = &result{}
	liveBound := liveBound4
	if sc.setup.Fam.N > 4 {
		liveBound = liveBound7
	}
	if o.after == nil && sc.split {
		o.after = newConformer(newConfStats()).check // replays
	}
	pcap := prefixCap
	if o.maxPrefix > 0 {
		pcap = o.maxPrefix
	}
	body := func(t *testing.T) {
		t0 := realNano()
		w, err := netx.NewWorld(sc.setup, sc.Scenario)
		if err != nil {
			res.End, res.Err = "error", err.Error()
			return
		}
		t1 := realNano()
		tSetup.Add(t1 - t0)
		defer func() {
			t2 := realNano()
			tSteps.Add(t2 - t1)
			w.Close()
			tClose.Add(realNano() - t2)
		}()
		target := w.H0() + uint32(sc.Heights)
		add := func(step int, ps []netx.Problem) {
			for _, p := range ps {
				res.Problems = append(res.Problems, problem{p.Oracle, p.Text, step})
			}
		}
		add(0, w.CheckSafety())
		lastAt := -1
		if len(s.Devs) > 0 {
			lastAt = s.Devs[len(s.Devs)-1].At
		}
		if o.explicit != nil {
			lastAt = len(o.explicit) - 1
		}
		type obs struct {
			minH, maxH uint32
			silent     bool
		}
		var hist []obs // hist[i] = state after i events
		mn, mx := w.Heights()
		hist = append(hist, obs{mn, mx, w.AnySilent()})
		di := 0
		prefixing := o.prefix != nil && o.explicit == nil
		seenCommit := 0
		res.End = "limit"
		for step := 0; step < lastAt+1+liveBound*sc.Heights; step++ {
			mn, _ := w.Heights()
			if mn >= target && step > lastAt && !prefixing {
				res.End = "done"
				break
			}
			def := w.Default()
			var ev netx.Event
			isDev := false
			if prefixing {
				pe, more := o.prefix(w)
				if !more || pe == nil || step >= pcap {
					prefixing = false
					res.PrefixLen = step
					step--
					continue
				}
				ev, isDev, lastAt = *pe, true, step
			}
			switch {
			case isDev:
			case o.explicit != nil && step < len(o.explicit):
				ev, isDev = o.explicit[step], true
			case di < len(s.Devs) && s.Devs[di].At == step:
				ev, isDev = s.Devs[di].Ev, true
				di++
			case def == nil:
				res.End = "stuck"
			default:
				ev = *def
			}
			if res.End == "stuck" {
				break
			}
			if o.gen && !isDev && step > lastAt && def != nil {
				for _, a := range w.Alternatives(*def, sc.maxSil) {
					c := Sched{Scen: s.Scen, Devs: append(append([]Dev{}, s.Devs...), Dev{At: step, Ev: a})}
					res.Children = append(res.Children, c)
				}
			}
			var err error
			if ev.K == netx.EvBlocks { // composite hand-over (lib/netx/ext_c19_blocks.go)
				var info netx.BlocksInfo
				if info, err = w.ApplyBlocks(ev); err == nil && o.onBlocks != nil {
					o.onBlocks(w, ev, info)
				}
			} else {
				err = w.Apply(ev)
			}
			if err != nil {
				res.End, res.Err = "error", fmt.Sprintf("step %d: %v", step, err)
				res.Events = append(res.Events, ev)
				break
			}
			res.Events = append(res.Events, ev)
			res.Steps++
			add(step, w.CheckSafety())
			if os.Getenv("C19_NOCTX") == "" { // (development aid: what do the black-box oracles see on their own?)
				add(step, ctxHeightCheck(w)) // ext_catchup_test.go
			}
			if o.after != nil {
				add(step, o.after(w))
			}
			// carry oracle on new submissions
			for ; seenCommit < len(w.Commits); seenCommit++ {
				c := w.Commits[seenCommit]
				if c.Bytes == nil || (c.Err != "" && !c.Exists) {
					continue
				}
				var pr *netx.Payload
				for _, p := range w.Payloads {
					if p.Type == dbft.PrepareRequestType && p.Height == c.Height && uint16(c.Prim) == p.VIdx && strings.Join(p.TxHashes, ",") == strings.Join(c.Txs, ",") {
						pr = p
					}
				}
				if pr == nil {
					add(step, []netx.Problem{{Oracle: "carry", Text: fmt.Sprintf("block %d of node %d matches no PrepareRequest of its primary %d", c.Height, c.Node, c.Prim)}})
					continue
				}
				snap := map[string]bool{}
				for _, h := range pr.PoolSnap {
					snap[h] = true
				}
				for _, h := range c.Txs {
					if !snap[h] {
						add(step, []netx.Problem{{Oracle: "carry", Text: fmt.Sprintf("block %d (view %d) contains %s which was not in the primary's verified mempool", c.Height, pr.View, h[:12])}})
					}
				}
				if pr.View == 0 && strings.Join(c.Txs, ",") != strings.Join(pr.Expect, ",") {
					add(step, []netx.Problem{{Oracle: "carry", Text: fmt.Sprintf("block %d (view 0, primary %d) carries %d transactions %v; the limit-respecting prefix of the %d transactions pooled at the primary is %v", c.Height, c.Prim, len(c.Txs), shorts(c.Txs), len(pr.PoolSnap), shorts(pr.Expect))}})
				} else {
					res.CarryOK++
				}
				{
					tag := fmt.Sprintf("h+%d:view%d:primary%d:txs%d", c.Height-w.H0(), pr.View, c.Prim, len(c.Txs))
					dup := false
					for _, b := range res.Blocks {
						if b == tag {
							dup = true
						}
					}
					if !dup {
						res.Blocks = append(res.Blocks, tag)
						res.Views = append(res.Views, int(pr.View))
					}
				}
			}
			mn, mx := w.Heights()
			hist = append(hist, obs{mn, mx, w.AnySilent()})
			if len(res.Problems) > 0 {
				res.End = "violation"
				break
			}
			if o.vis != nil && step >= lastAt {
				if o.vis.visit(sc.Name+"|"+w.Digest(), len(s.Devs)) {
					if step > lastAt || len(s.Devs) > 0 {
						res.End = "pruned"
						break
					}
				} else {
					res.NewSt++
				}
			}
		}
		if res.End != "error" {
			add(res.Steps, w.CatchUp())
		}
		if sc.boundary && len(s.Devs) == 0 && o.explicit == nil {
			// All validators honest, every message delivered: the limits the
			// primary packs by and the limits the backups verify by must agree.
			lim := func(f string, a ...any) {
				res.Problems = append(res.Problems, problem{"limits", fmt.Sprintf(f, a...), max(res.Steps-1, 0)})
			}
			for _, p := range w.Payloads {
				if p.Type == dbft.ChangeViewType {
					lim("node %d asked for a view change at height %d view %d although all nodes are honest and all messages delivered (pool content %q)", p.From, p.Height, p.View, sc.Name)
					break
				}
			}
			cfg := w.Nodes[0].C.BC.GetConfig()
			var first *netx.Commit
			for _, c := range w.Commits {
				if c.Height == w.H0()+1 && c.Bytes != nil && (c.Err == "" || c.Exists) {
					first = c
					break
				}
			}
			if first == nil {
				lim("no block %d was produced (pool content %q)", w.H0()+1, sc.Name)
			} else {
				var names []string
				var fee int64
				for _, h := range first.Txs {
					if i := sc.setup.TxIndex(h); i >= 0 {
						names = append(names, sc.setup.Txs[i].Name)
						fee += sc.setup.Txs[i].SysFee
					} else {
						names = append(names, h[:8])
					}
				}
				sort.Strings(names)
				want := append([]string{}, sc.expect...)
				sort.Strings(want)
				if sc.expect == nil {
					if len(names) != int(cfg.MaxTransactionsPerBlock) {
						lim("block %d holds %d transactions %v although %d are pooled and MaxTransactionsPerBlock is %d", first.Height, len(names), names, len(sc.TxAt), cfg.MaxTransactionsPerBlock)
					}
				} else if fmt.Sprint(names) != fmt.Sprint(want) {
					lim("block %d holds %v, the limit-respecting prefix of the pool is %v", first.Height, names, want)
				}
				if len(res.Views) > 0 && res.Views[0] != 0 {
					lim("block %d was made at view %d", first.Height, res.Views[0])
				}
				if len(first.Bytes) > int(cfg.MaxBlockSize) {
					lim("block %d is %d bytes, MaxBlockSize is %d", first.Height, len(first.Bytes), cfg.MaxBlockSize)
				}
				if fee > cfg.MaxBlockSystemFee {
					lim("block %d has system fee %d, MaxBlockSystemFee is %d", first.Height, fee, cfg.MaxBlockSystemFee)
				}
				if len(first.Txs) > int(cfg.MaxTransactionsPerBlock) {
					lim("block %d has %d transactions, MaxTransactionsPerBlock is %d", first.Height, len(first.Txs), cfg.MaxTransactionsPerBlock)
				}
				res.BlockSize = len(first.Bytes)
			}
		}
		if res.End == "done" && sc.allTxs && !w.AnySilent() {
			if miss := w.MissingOnChain(0); len(miss) > 0 {
				res.Problems = append(res.Problems, problem{"carry", fmt.Sprintf("after %d blocks the pending valid transactions %v are still not on chain", sc.Heights, miss), res.Steps - 1})
			}
		}
		// liveness: every state owned by this schedule (after its last deviation)
		// in which nobody is silenced must be followed, within liveBound default
		// steps, by a state in which ALL nodes hold a block above the highest
		// one held then.
		if res.End == "done" || res.End == "stuck" || res.End == "limit" {
			for i := lastAt + 1; i < len(hist); i++ {
				if hist[i].silent || hist[i].maxH >= target {
					continue
				}
				found := -1
				for k := i; k < len(hist); k++ {
					if hist[k].silent {
						break
					}
					if hist[k].minH >= hist[i].maxH+1 {
						found = k
						break
					}
				}
				if found >= 0 && found-i > res.MaxLive {
					res.MaxLive = found - i
				}
				if found < 0 || found-i > liveBound {
					sil := false
					for k := i; k < len(hist); k++ {
						sil = sil || hist[k].silent
					}
					if !sil {
						res.Problems = append(res.Problems, problem{"liveness", fmt.Sprintf("from the state after event %d (%s) the synchronous default schedule does not commit block %d on all nodes within %d events (path end: %s after %d events, final %s)", i, stateNote(hist[i].minH, hist[i].maxH), hist[i].maxH+1, liveBound, res.End, res.Steps, w.Summary()), i})
					}
					break
				}
			}
		}
		res.Log = w.Log
		res.Warns = w.Warns
		if os.Getenv("C19_ONE") != "" {
			// supervisor probe: a service that died of a fatal log may leave its
			// ledger's notification dispatcher blocked (the bubble then cannot
			// end and the process dies); say why before that happens
			for _, f := range w.Fatals {
				fmt.Println("fatal-in-subject:", f)
			}
		}
	}
	synctest.Test(t, body)
	return res
}

// phase timing: time.Now is the fake clock inside a bubble, so the monotonic
// clock is read with a raw system call.
var tSetup, tSteps, tClose atomic.Int64

func realNano() int64 {
	var ts syscall.Timespec
	_, _, _ = syscall.Syscall(syscall.SYS_CLOCK_GETTIME, 1, uintptr(unsafe.Pointer(&ts)), 0)
	return ts.Nano()
}

func shorts(hs []string) []string {
	out := make([]string, len(hs))
	for i, h := range hs {
		out[i] = h[:min(8, len(h))]
	}
	return out
}

func stateNote(mn, mx uint32) string { return fmt.Sprintf("heights %d..%d", mn, mx) }

// ---- the check ----------------------------------------------------------------------------

func scenarios(r *vk.Run, dir string) ([]*scen, error) {
	var out []*scen
	fam4, err := netx.NewSetup(netx.Family{Name: "n4", N: 4}, dir)
	if err != nil {
		return nil, err
	}
	h := vk.Pick(r, 2, 3)
	all4 := []int{0, 1, 2, 3}
	out = append(out, &scen{setup: fam4, maxBound: 2, maxSil: 1, Scenario: netx.Scenario{
		Name: "n4-base", Family: "n4", Heights: h,
		TxAt: map[string][]int{"t0": {0}, "t1": {1}, "t2": all4, "t3": {2}, "t4": {2}}, // t4 conflicts with t0; t3 waits for the third primary
	}})
	out = append(out, &scen{setup: fam4, maxBound: 1, maxSil: 1, Scenario: netx.Scenario{
		Name: "n4-skew", Family: "n4", Heights: 2,
		Skew: []time.Duration{40 * time.Second, -40 * time.Second, 0, 7 * time.Second}, // the second primary's clock is behind the first block's timestamp
		TxAt: map[string][]int{"t0": {1}, "t2": all4, "t3": {0, 3}},
	}})
	famV, err := netx.NewSetup(netx.Family{Name: "n4vote", N: 4, Vote: true}, dir)
	if err != nil {
		return nil, err
	}
	out = append(out, &scen{setup: famV, maxBound: 1, maxSil: 1, Scenario: netx.Scenario{
		Name: "n4-epoch", Family: "n4vote", Heights: 2,
		TxAt: map[string][]int{"t0": {2}, "t2": all4},
	}})
	famS, err := netx.NewSetup(netx.Family{Name: "n4sat", N: 4, Sat: true}, dir)
	if err != nil {
		return nil, err
	}
	// Saturated pools: every validator holds the same two big transactions
	// (system fees sum to MaxBlockSystemFee+2) and a small one of its own. The
	// packing policy must stop before the limit, or honest backups reject every
	// proposal and no block is ever produced.
	out = append(out, &scen{setup: famS, maxBound: 1, maxSil: 1, allTxs: true, Scenario: netx.Scenario{
		Name: "n4-saturated", Family: "n4sat", Heights: 4,
		TxAt: map[string][]int{"bigA": all4, "bigB": all4, "s0": {0}, "s1": {1}, "s2": {2}, "s3": {3}},
	}})
	// Block-limit boundaries: small limits through the protocol configuration
	// (MaxBlockSystemFee 10 GAS, MaxBlockSize 2048, MaxTransactionsPerBlock 3),
	// with and without StateRootInHeader; every validator pools the same
	// content; exhaustive over contents x primaries (pad blocks slide the
	// primary); only the synchronous default schedule (bound 0).
	type content struct {
		name   string
		pool   []string
		expect []string
	}
	contents := []content{
		{"fee-1", []string{"fA", "fBm"}, []string{"fA", "fBm"}},
		{"fee=", []string{"fA", "fB0"}, []string{"fA", "fB0"}},
		{"fee+1", []string{"fA", "fBp"}, []string{"fA"}},
		{"fee-single=", []string{"fMax"}, []string{"fMax"}},
		{"count-1", []string{"c0", "c1"}, []string{"c0", "c1"}},
		{"count=", []string{"c0", "c1", "c2"}, []string{"c0", "c1", "c2"}},
		{"count+1", []string{"c0", "c1", "c2", "c3"}, nil}, // any 3 of the 4 (pool priority order): checked by the carry oracle
		{"size-1", []string{"zA", "zBm"}, []string{"zA", "zBm"}},
		{"size=", []string{"zA", "zB0"}, []string{"zA", "zB0"}},
		{"size+1", []string{"zA", "zBp"}, []string{"zA"}},
	}
	for _, srih := range []bool{false, true} {
		fname := "n4lim"
		if srih {
			fname = "n4limS"
		}
		famL, err := netx.NewSetup(netx.Family{Name: fname, N: 4, Lim: true, SRIH: srih}, dir)
		if err != nil {
			return nil, err
		}
		for _, c := range contents {
			for pad := 0; pad < 4 && pad <= len(famL.Pads); pad++ {
				at := map[string][]int{}
				for _, n := range c.pool {
					at[n] = all4
				}
				out = append(out, &scen{setup: famL, maxBound: 0, maxSil: 1, boundary: true, expect: c.expect, Scenario: netx.Scenario{
					Name: fmt.Sprintf("%s:%s:primary%d", fname, c.name, (int(famL.H0)+pad+1)%4), Family: fname, Heights: 1, Pad: pad, TxAt: at,
				}})
			}
		}
	}
	// Rotation: the base exploration starts with primary 0 (then 1). One height
	// with each of the other validators as primary (pad blocks slide it), bound 1;
	// a view change there makes primary-1 the speaker.
	for pad := 1; pad < 4 && pad <= len(fam4.Pads); pad++ {
		prim := (int(fam4.H0) + pad + 1) % 4
		out = append(out, &scen{setup: fam4, maxBound: 1, maxSil: 1, Scenario: netx.Scenario{
			Name: fmt.Sprintf("n4-rot:primary%d", prim), Family: "n4", Heights: 1, Pad: pad,
			TxAt: map[string][]int{"t0": {prim}, "t2": all4, "t3": {(prim + 2) % 4}, "t4": {(prim + 2) % 4}},
		}})
	}
	// The split family (ext_recovery_test.go): one scenario per primary index.
	out = append(out, splitScens(fam4, "", vk.Pick(r, 2, 3))...)
	fam4S, err := netx.NewSetup(netx.Family{Name: "n4S", N: 4, SRIH: true}, dir)
	if err != nil {
		return nil, err
	}
	for _, sc := range splitScens(fam4S, ":srih", vk.Pick(r, 2, 3)) {
		sc.deep = true // quick: only the recovery-algebra family uses them
		out = append(out, sc)
	}
	// The xview family (ext_xview_test.go): one scenario per primary index.
	out = append(out, xviewScens(fam4, "", vk.Pick(r, 2, 3))...)
	for _, sc := range xviewScens(fam4S, ":srih", vk.Pick(r, 2, 3)) {
		sc.deep = true
		out = append(out, sc)
	}
	// The catchup family (ext_catchup_test.go): one scenario per primary index and lag depth.
	out = append(out, catchupScens(fam4, "")...)
	for _, sc := range catchupScens(fam4S, ":srih") {
		sc.deep = true
		out = append(out, sc)
	}
	// The reqtx family (ext_reqtx_test.go): a setup of its own (its catalogue is
	// larger; the gossip alternatives of the other scenarios must not change).
	famR, err := netx.NewSetup(netx.Family{Name: "n4req", N: 4}, dir)
	if err != nil {
		return nil, err
	}
	if err := netx.ExtendReqCatalogue(famR); err != nil {
		return nil, err
	}
	out = append(out, reqScens(famR)...)
	if r.Thorough() || os.Getenv("C19_N7") != "" {
		fam7, err := netx.NewSetup(netx.Family{Name: "n7", N: 7}, dir)
		if err != nil {
			fmt.Println("note: N=7 family could not be built:", err)
		} else {
			out = append(out, &scen{setup: fam7, maxBound: 1, maxSil: 2, Scenario: netx.Scenario{
				Name: "n7-base", Family: "n7", Heights: 1,
				TxAt: map[string][]int{"t0": {4}, "t2": {0, 1, 2, 3, 4, 5, 6}},
			}})
		}
	}
	return out, nil
}

func scenByName(scs []*scen, name string) *scen {
	for _, s := range scs {
		if s.Name == name {
			return s
		}
	}
	return nil
}

func TestCheck(t *testing.T) {
	vk.UseT(t)
	if os.Getenv("C19_CHILD") == "" && os.Getenv("C19_NOSUP") == "" {
		supervise()
		return
	}
	// Every replay allocates four ledgers; collect less often (the live heap is small).
	debug.SetGCPercent(400)
	r := vk.Start("C19", "model_checking", 165*time.Second, 22*time.Minute)
	dir := os.Getenv("C19_DIR")
	if dir == "" { // development mode without the supervisor (C19_NOSUP=1)
		d, _ := vk.Scratch("c19")
		dir = d
		defer vk.CleanScratch()
	}
	scs, err := scenarios(r, dir)
	if err != nil {
		fmt.Println("CHECK-ERROR: setup:", err)
		os.Exit(3)
	}
	if r.Replay != "" {
		replay(t, r, scs)
		return
	}
	if pf := os.Getenv("C19_PROF"); pf != "" {
		// development aid: CPU profile of 150 sequential default-schedule runs
		f, _ := os.Create(pf)
		_ = pprof.StartCPUProfile(f)
		for i := 0; i < 150; i++ {
			run(t, scs[0], Sched{Scen: scs[0].Name}, runOpts{})
		}
		pprof.StopCPUProfile()
		f.Close()
		os.Exit(0)
	}
	if one := os.Getenv("C19_ONE"); one != "" {
		// supervisor probe: run a single execution (JSON probeRec) and exit 0
		var pr probeRec
		if err := json.Unmarshal([]byte(one), &pr); err != nil {
			os.Exit(3)
		}
		sc := scenByName(scs, pr.Scen)
		if sc == nil {
			os.Exit(3)
		}
		var res *result
		switch {
		case pr.Kind == "split" && pr.Split != nil:
			res, _, _ = runSplit(t, sc, *pr.Split, newConfStats())
		case pr.Kind == "xview" && pr.XView != nil:
			res, _, _ = runXView(t, sc, *pr.XView, newConfStats())
		case pr.Kind == "catchup" && pr.Catchup != nil:
			res, _, _ = runCatchup(t, sc, *pr.Catchup, newConfStats())
		case pr.Kind == "reqtx" && pr.ReqTx != nil:
			res, _, _ = runReqTx(t, sc, *pr.ReqTx, newConfStats())
		case pr.Sched != nil:
			res = run(t, sc, *pr.Sched, runOpts{})
		default:
			os.Exit(3)
		}
		if os.Getenv("C19_VERBOSE") != "" {
			for _, l := range res.Log {
				fmt.Println("   ", l)
			}
			for _, l := range res.Warns {
				fmt.Println("    warn:", l)
			}
			for _, p := range res.Problems {
				fmt.Println("    PROBLEM:", p.Oracle, p.Step, p.Text)
			}
			fmt.Println("    blocks:", res.Blocks, "first block bytes:", res.BlockSize, "maxlive:", res.MaxLive, "children:", len(res.Children))
		}
		fmt.Println("probe:", pr.label(), res.End, res.Err)
		os.Exit(0)
	}
	if one := os.Getenv("C19_REQTX"); one != "" {
		reqOne(t, scs, one) // development aid: one reqtx prefix, verbose
	}
	if one := os.Getenv("C19_CATCHUP"); one != "" {
		// development aid: one catchup prefix (JSON catchupSpec), verbose
		var sp catchupSpec
		if err := json.Unmarshal([]byte(one), &sp); err != nil {
			fmt.Println(err)
			os.Exit(3)
		}
		sc := scenByName(scs, catchupScenName(sp.Prim, sp.D)+os.Getenv("C19_SPLIT_TAG"))
		res, pol, _ := runCatchup(t, sc, sp, newConfStats())
		for _, l := range res.Log {
			fmt.Println("   ", l)
		}
		for _, l := range res.Warns {
			fmt.Println("    warn:", l)
		}
		for _, p := range res.Problems {
			fmt.Println("    PROBLEM:", p.Oracle, p.Step, p.Text)
		}
		fmt.Println("    catchup:", sp.String(), "end:", res.End, res.Err, "prefix:", res.PrefixLen, "events:", res.Steps, "blocks:", res.Blocks, "maxlive:", res.MaxLive, "onscript:", pol.onScript, pol.offReason, "info:", fmt.Sprintf("%+v", pol.info), "caught to h+", int(pol.caughtTo)-int(sc.setup.H0)-sc.Pad, "took part:", pol.took, "lag view:", pol.lagViews)
		os.Exit(0)
	}
	if one := os.Getenv("C19_XVIEW"); one != "" {
		// development aid: one xview prefix (JSON xviewSpec), verbose
		var sp xviewSpec
		if err := json.Unmarshal([]byte(one), &sp); err != nil {
			fmt.Println(err)
			os.Exit(3)
		}
		sc := scenByName(scs, xviewScenName(sp.Prim)+os.Getenv("C19_SPLIT_TAG"))
		if n := os.Getenv("C19_XVIEW_REPEAT"); n != "" { // development aid: the same prefix many times in parallel, logs compared
			var cnt int
			fmt.Sscan(n, &cnt)
			ref, _, _ := runXView(t, sc, sp, newConfStats())
			var wg sync.WaitGroup
			var bad atomic.Int64
			for g := 0; g < 16; g++ {
				wg.Add(1)
				go func() {
					defer wg.Done()
					for i := 0; i < cnt; i++ {
						x, _, _ := runXView(t, sc, sp, newConfStats())
						if normLog(x.Log) != normLog(ref.Log) && bad.Add(1) == 1 {
							logDiff(ref.Log, x.Log)
							_ = os.WriteFile(os.Getenv("VERIF_OUT")+"/ref.log", []byte(strings.Join(ref.Log, "\n")), 0o644)
							_ = os.WriteFile(os.Getenv("VERIF_OUT")+"/other.log", []byte(strings.Join(x.Log, "\n")), 0o644)
						}
					}
				}()
			}
			wg.Wait()
			fmt.Println("repeat:", 16*cnt, "runs,", bad.Load(), "with another log")
			os.Exit(0)
		}
		res, pol, cf := runXView(t, sc, sp, newConfStats())
		for _, l := range res.Log {
			fmt.Println("   ", l)
		}
		for _, l := range res.Warns {
			fmt.Println("    warn:", l)
		}
		for _, p := range res.Problems {
			fmt.Println("    PROBLEM:", p.Oracle, p.Step, p.Text)
		}
		wc, mixed := recoveryViews(cf)
		fmt.Println("    xview:", sp.String(), "end:", res.End, res.Err, "prefix:", res.PrefixLen, "events:", res.Steps, "blocks:", res.Blocks, "maxlive:", res.MaxLive, "onscript:", pol.onScript, "v:", pol.v, "drops:", pol.drops, "recovery msgs:", cf.nRec, "with commits:", wc, "mixed:", mixed)
		os.Exit(0)
	}
	if one := os.Getenv("C19_SPLIT"); one != "" {
		// development aid: one scripted prefix (JSON splitSpec), verbose
		var sp splitSpec
		if err := json.Unmarshal([]byte(one), &sp); err != nil {
			fmt.Println(err)
			os.Exit(3)
		}
		sc := scenByName(scs, splitScenName(sp.Prim)+os.Getenv("C19_SPLIT_TAG"))
		res, pol, cf := runSplit(t, sc, sp, newConfStats())
		for _, l := range res.Log {
			fmt.Println("   ", l)
		}
		for _, l := range res.Warns {
			fmt.Println("    warn:", l)
		}
		for _, p := range res.Problems {
			fmt.Println("    PROBLEM:", p.Oracle, p.Step, p.Text)
		}
		fmt.Println("    split:", sp.String(), "end:", res.End, res.Err, "prefix:", res.PrefixLen, "events:", res.Steps, "blocks:", res.Blocks, "maxlive:", res.MaxLive, "seen:", kindString(pol.seen), "recovery msgs:", cf.nRec, "cvs:", cf.nCV)
		os.Exit(0)
	}
	inflightDir = filepath.Join(dir, "inflight")
	_ = os.MkdirAll(inflightDir, 0o755)

	vis := &visited{m: map[string]int{}}
	var states, transitions, schedules, pruned vk.Counter
	var maxLive atomic.Int64
	var firstS, lastS *Sched
	var firstSc, lastSc *scen
	var lmu sync.Mutex
	completed := map[string]int{} // scenario -> highest completed bound
	levelSizes := map[string][]int{}
	stateDist := vk.NewSet()

	// watchdog: a run that does not finish is a deadlock of the subject (or of the harness)
	var running sync.Map
	go func() {
		for {
			time.Sleep(5 * time.Second)
			running.Range(func(k, v any) bool {
				if time.Since(v.(time.Time)) > 300*time.Second {
					fmt.Println("HANG: schedule did not reach quiescence:", k)
					os.Exit(4)
				}
				return true
			})
		}
	}()

	report := func(sc *scen, s Sched, res *result) {
		seen := map[string]bool{}
		for _, p := range res.Problems {
			if seen[p.Oracle] {
				continue
			}
			seen[p.Oracle] = true
			n := p.Step + 1
			if n > len(res.Events) {
				n = len(res.Events)
			}
			rec := caseRec{Oracle: p.Oracle, Scenario: sc.Name, N: sc.setup.Fam.N, Bound: len(s.Devs), Schedule: s.Compact(), Devs: s.Devs, Events: res.Events[:n], AtStep: p.Step, Text: p.Text, Log: tail(res.Log, 60)}
			r.Violation(fmt.Sprintf("%s:%d:%d:%s:%s", p.Oracle, sc.setup.Fam.N, len(s.Devs), sc.Name, s.Compact()), rec)
		}
	}

	level := map[string][]Sched{}
	for _, sc := range scs {
		level[sc.Name] = []Sched{{Scen: sc.Name}}
	}
	boundaryRuns := 0
	var splitCov, algebraCov, xviewCov, catchupCov, reqCov map[string]any
	for b := 0; b <= 2; b++ {
		if b == 1 && os.Getenv("C19_FAMILIES") != "off" {
			// the request family first (cheap): real network.Server between dBFT and the transactions
			reqCov = exploreReqTx(t, r, scs, &running)
			fmt.Printf("C19: reqtx family: %v of %v specs run, %v deliveries to real servers (%v handed to consensus, %v of them refused by the pool), %v distinct outcomes, %.0fs elapsed\n", reqCov["specs_run"], reqCov["specs"], reqCov["server_deliveries"], reqCov["deliveries_handed_to_consensus"], reqCov["of_them_refused_by_the_backups_own_pool"], reqCov["distinct_outcomes"], r.Elapsed())
			if n, ok := reqCov["specs_run"].(int); ok {
				schedules.Add(n)
			}
			if n, ok := reqCov["events"].(int); ok {
				transitions.Add(n)
			}
			if os.Getenv("C19_FAMILIES") == "reqtx" { // development aid
				break
			}
			// the recovery class (directed families; they always run, whatever level 0 found)
			if os.Getenv("C19_FAMILIES") != "catchup" { // (development aid: the catchup family alone)
				algebraCov = exploreAlgebra(t, r, scs)
				fmt.Printf("C19: recovery-algebra family: %v cases (%v cross-view), %.0fs elapsed\n", algebraCov["cases"], algebraCov["cross_cases"], r.Elapsed())
				xviewCov = exploreXView(t, r, scs, &running)
				fmt.Printf("C19: xview family: %v of %v specs run, %v with recovery messages carrying commits of two views, %.0fs elapsed\n", xviewCov["specs_run"], xviewCov["specs"], xviewCov["runs_with_recovery_carrying_two_views"], r.Elapsed())
			}
			if n, ok := xviewCov["specs_run"].(int); ok {
				schedules.Add(n)
			}
			if n, ok := xviewCov["events"].(int); ok {
				transitions.Add(n)
			}
			if os.Getenv("C19_FAMILIES") == "xview" { // development aid
				break
			}
			catchupCov = exploreCatchup(t, r, scs, &running)
			fmt.Printf("C19: catchup family: %v of %v specs run, %v on script, %v with the event loop held while blocks landed (%v with two), %.0fs elapsed\n", catchupCov["specs_run"], catchupCov["specs"], catchupCov["runs_on_script"], catchupCov["runs_with_loop_held"], catchupCov["runs_with_two_blocks_landed_while_held"], r.Elapsed())
			if n, ok := catchupCov["specs_run"].(int); ok {
				schedules.Add(n)
			}
			if n, ok := catchupCov["events"].(int); ok {
				transitions.Add(n)
			}
			if os.Getenv("C19_FAMILIES") == "catchup" { // development aid
				break
			}
			splitCov = exploreSplits(t, r, scs, &running)
			fmt.Printf("C19: split family: %v of %v specs run (%v identical to a smaller mask), %.0fs elapsed\n", splitCov["specs_run"], splitCov["specs_enumerated"], splitCov["specs_skipped_as_identical"], r.Elapsed())
			if n, ok := splitCov["specs_run"].(int); ok {
				schedules.Add(n) // every scripted run is an execution of the real code under all oracles
			}
			if n, ok := splitCov["events"].(int); ok {
				transitions.Add(n)
			}
			if os.Getenv("C19_FAMILIES") == "only" { // development aid
				break
			}
		}
		// all scenarios' schedules with exactly b deviations
		type job struct {
			sc *scen
			s  Sched
		}
		var jobs []job
		for _, sc := range scs {
			if b > sc.maxBound {
				continue
			}
			for _, s := range level[sc.Name] {
				jobs = append(jobs, job{sc, s})
			}
			if sc.boundary {
				boundaryRuns++
			} else {
				levelSizes[sc.Name] = append(levelSizes[sc.Name], len(level[sc.Name]))
			}
		}
		next := map[string][]Sched{}
		var nmu sync.Mutex
		done := r.Parallel(len(jobs), func(i int) {
			j := jobs[i]
			key := fmt.Sprintf("%s|%s", j.sc.Name, j.s.Compact())
			fdone := inflightBegin(probeRec{Kind: "sched", Scen: j.sc.Name, Sched: &j.s})
			running.Store(key, time.Now())
			res := run(t, j.sc, j.s, runOpts{gen: b < j.sc.maxBound, vis: vis})
			running.Delete(key)
			fdone()
			if res.End == "error" {
				fmt.Println("CHECK-ERROR: schedule", key, "could not be executed:", res.Err)
				os.Exit(3)
			}
			schedules.Inc()
			transitions.Add(res.Steps)
			states.Add(res.NewSt)
			if res.End == "pruned" {
				pruned.Inc()
			}
			for {
				cur := maxLive.Load()
				if int64(res.MaxLive) <= cur || maxLive.CompareAndSwap(cur, int64(res.MaxLive)) {
					break
				}
			}
			r.Outcome("end:" + res.End)
			for _, d := range j.s.Devs[max(0, len(j.s.Devs)-1):] {
				r.Outcome("deviation:" + d.Ev.K)
			}
			for _, bl := range res.Blocks {
				r.Outcome(j.sc.setup.Fam.Name + ":" + bl)
			}
			if res.End == "done" {
				stateDist.Add(j.sc.Name + fmt.Sprint(res.Blocks))
			}
			for _, wn := range res.Warns {
				if i := strings.Index(wn, ": "); i > 0 {
					r.Outcome("log:" + wn[i+2:])
				}
			}
			report(j.sc, j.s, res)
			if len(res.Children) > 0 {
				nmu.Lock()
				next[j.sc.Name] = append(next[j.sc.Name], res.Children...)
				nmu.Unlock()
			}
			if res.End == "done" {
				r.Sample(map[string]any{"scenario": j.sc.Name, "schedule": j.s.Compact(), "events": len(res.Events), "blocks": res.Blocks})
				lmu.Lock()
				if firstS == nil {
					s, c := j.s, j.sc
					firstS, firstSc = &s, c
				}
				s, c := j.s, j.sc
				lastS, lastSc = &s, c
				lmu.Unlock()
			}
		})
		fmt.Printf("C19: deviation level %d: %d of %d schedules run, %.0fs elapsed\n", b, done, len(jobs), r.Elapsed())
		if done == len(jobs) && !r.IsCapped() {
			for _, sc := range scs {
				if b <= sc.maxBound && !sc.split {
					completed[sc.Name] = b
				}
			}
		} else {
			break
		}
		for k := range next {
			// shortest prefixes first (cheapest replays, shortest counterexamples)
			sort.Slice(next[k], func(a, c int) bool {
				x, y := next[k][a], next[k][c]
				lx, ly := x.Devs[len(x.Devs)-1].At, y.Devs[len(y.Devs)-1].At
				if lx != ly {
					return lx < ly
				}
				return x.Compact() < y.Compact()
			})
		}
		level = next
		if r.NViolations() > 0 {
			break // the shortest counterexamples are in; deeper levels only repeat them
		}
	}
	// determinism self-check: the first and the last completed schedule, twice each
	for _, p := range []struct {
		s  *Sched
		sc *scen
	}{{firstS, firstSc}, {lastS, lastSc}} {
		if p.s == nil {
			continue
		}
		a := run(t, p.sc, *p.s, runOpts{})
		b := run(t, p.sc, *p.s, runOpts{})
		if normLog(a.Log) != normLog(b.Log) || fmt.Sprint(a.Blocks) != fmt.Sprint(b.Blocks) {
			fmt.Println("CHECK-ERROR: nondeterministic replay of", p.sc.Name, p.s.Compact())
			for i := range a.Log {
				if i >= len(b.Log) || a.Log[i] != b.Log[i] {
					fmt.Println("  first difference at log line", i, ":", a.Log[i])
					if i < len(b.Log) {
						fmt.Println("                               vs:", b.Log[i])
					}
					break
				}
			}
			os.Exit(3)
		}
	}
	fmt.Printf("C19: self-check done, %.0fs elapsed\n", r.Elapsed())
	minCompleted := 2
	var scNames []string
	var boundaryNames []string
	boundaryDone := 0
	for _, sc := range scs {
		if sc.split {
			delete(completed, sc.Name)
			continue
		}
		if sc.boundary {
			boundaryNames = append(boundaryNames, sc.Name)
			if _, ok := completed[sc.Name]; ok {
				boundaryDone++
			}
			delete(completed, sc.Name)
			continue
		}
		scNames = append(scNames, fmt.Sprintf("%s(N=%d,heights=%d,bound<=%d)", sc.Name, sc.setup.Fam.N, sc.Heights, sc.maxBound))
		c, ok := completed[sc.Name]
		if !ok {
			c = -1
		}
		if c < sc.maxBound && c < minCompleted {
			minCompleted = c
		}
	}
	n7 := "not run in this tier (thorough only)"
	if sc := scenByName(scs, "n7-base"); sc != nil {
		n7 = fmt.Sprintf("built with 7 generated standby validators; completed deviation bound %d over %d height(s)", completed["n7-base"], sc.Heights)
	}
	r.Finish(map[string]any{
		"states":                         int(states.Get()),
		"transitions":                    int(transitions.Get()),
		"traces_validated_against_impl":  int(schedules.Get()),
		"schedules":                      int(schedules.Get()),
		"schedules_pruned_by_state_hash": int(pruned.Get()),
		"completed_bound_per_scenario":   completed,
		"completed_bound_all":            minCompleted,
		"schedules_per_bound":            levelSizes,
		"distinct_final_outcomes":        stateDist.Len(),
		"scenarios":                      scNames,
		"boundary_scenarios":             boundaryNames,
		"boundary_scenarios_run":         boundaryRuns,
		"boundary_scenarios_completed":   boundaryDone,
		"boundary_limits":                map[string]int{"MaxBlockSystemFee": netx.LimMaxBlockSystemFee, "MaxBlockSize": netx.LimMaxBlockSize, "MaxTransactionsPerBlock": netx.LimMaxTxPerBlock},
		"boundary_rule":                  "families n4lim / n4limS (StateRootInHeader): every validator pools the same content; contents: total system fee limit-1 / = / +1, single tx = limit, tx count limit-1 / = / +1, packed block size limit-1 / = / +1; x every primary (0..3 pad blocks); default schedule only; oracle: no ChangeView at all, block at view 0 holding exactly the limit-respecting prefix, serialised block within the limits",
		"n7_status":                      n7,
		"family_split":                   splitCov,
		"family_xview":                   xviewCov,
		"family_catchup":                 catchupCov,
		"family_reqtx":                   reqCov,
		"reqtx_specs_run":                reqCov["specs_run"],
		"reqtx_distinct_outcomes":        reqCov["distinct_outcomes"],
		"reqtx_server_deliveries":        reqCov["server_deliveries"],
		"reqtx_deliveries_handed_to_consensus":         reqCov["deliveries_handed_to_consensus"],
		"reqtx_handed_to_consensus_but_refused_by_pool": reqCov["of_them_refused_by_the_backups_own_pool"],
		"catchup_specs_run":              catchupCov["specs_run"],
		"catchup_distinct_outcomes":      catchupCov["distinct_outcomes"],
		"catchup_runs_with_loop_held":    catchupCov["runs_with_loop_held"],
		"catchup_runs_with_two_blocks_landed_while_held": catchupCov["runs_with_two_blocks_landed_while_held"],
		"xview_specs_run":                             xviewCov["specs_run"],
		"xview_distinct_outcomes":                     xviewCov["distinct_outcomes"],
		"xview_runs_with_recovery_carrying_two_views": xviewCov["runs_with_recovery_carrying_two_views"],
		"algebra_cross_view_cases":                    algebraCov["cross_cases"],
		"algebra_distinct_outcomes":                   algebraCov["distinct_outcomes"],
		"family_recovery_algebra":                     algebraCov,
		"liveness_step_bound":                         map[string]int{"N=4": liveBound4, "N=7": liveBound7},
		"liveness_max_steps_observed":                 int(maxLive.Load()),
		"worker_seconds_setup_steps_close":            []float64{float64(tSetup.Load()) / 1e9, float64(tSteps.Load()) / 1e9, float64(tClose.Load()) / 1e9},
		"rule":                                        "schedule = synchronous default schedule (due timers, FIFO deliveries, block hand-over to laggards, earliest timer) with <= bound deviations (drop, reorder within a receiver, duplicate, early/other timer, unrequested tx relay, early block hand-over, silence <= f, un-silence); deviations only on events of the default event's owner (receiver independence); state = digest of per-node ledger/mempool/dBFT context/timer + ordered pending list; a schedule stops where it reaches a state already reached with no more deviations",
	}, []string{
		"network-layer filtering (extensible pool signature/height checks, deduplication) is not in the loop: payloads reach OnPayload directly after a serialise/parse round trip; all senders are honest (silent = crash/partition faults, no Byzantine payloads)",
		"the state digest abstracts from timestamps and signatures; pruning on it may merge states that differ only there",
		"receiver-independence reduction: a deviation is only tried at the moment the default event belongs to the same node; the creation order of other nodes' outputs may differ from an unreduced search",
		"liveness is demanded only of states without silenced nodes and of continuations without loss; carry oracle: view 0 block = the primary's verified mempool when it proposed, later views a subset (the service re-proposes the previous proposal by design)",
		"one shared bubble clock with fixed per-node skews; a timer event advances the clock to that timer's deadline",
		"catchup family: 'the consensus event loop is busy while blocks arrive' is modelled by the harness's own dbft.Timer taking long inside ONE Now/Reset/Extend call of the trigger turn (or, for a restarted service, by the blocks landing inside that call of dbft.Start); at most two blocks land while a running loop is held (a third AddBlock would wait behind the capacity-1 subscription channel); landings that race with an idle loop are not explored (not reproducible); context-height is the only oracle that reads the dBFT context (through hook H3)",
	})
}

// normLog is the event log as compared by the determinism self-checks. The
// line "AddBlock -> ..." of a block hand-over is written by the driver after
// AddBlock returned, while the receiving service may already be reacting to
// the block notification (its "out ..." lines): the relative order of those
// lines is not part of the execution.
func normLog(l []string) string {
	var sb strings.Builder
	for _, x := range l {
		if strings.HasPrefix(x, "  AddBlock -> ") {
			continue
		}
		sb.WriteString(x)
		sb.WriteByte('\n')
	}
	return sb.String()
}

func tail(s []string, n int) []string {
	if len(s) > n {
		return s[len(s)-n:]
	}
	return s
}

// ---- replay -----------------------------------------------------------------------------------

func replay(t *testing.T, r *vk.Run, scs []*scen) {
	var c caseRec
	if err := r.ReadReplay(&c); err != nil {
		fmt.Println("cannot read replay:", err)
		os.Exit(3)
	}
	if c.Oracle == "recovery-algebra" {
		for i := 0; i < 5; i++ {
			res, _ := algebraAll(t, nil, scs)
			found := false
			for _, p := range res.problems {
				if p.Schedule == c.Schedule {
					found = true
					fmt.Printf("replay %d: REPRODUCED %s: %s\n", i, p.Schedule, p.Text)
					r.Violation("replay:recovery-algebra:"+c.Schedule, p)
				}
			}
			if !found {
				fmt.Printf("replay %d: no violation for case %s (%d cases, %d failing)\n", i, c.Schedule, res.cases, len(res.problems))
			}
		}
		r.Finish(map[string]any{"states": 1, "transitions": 5, "traces_validated_against_impl": 5}, nil)
		return
	}
	sc := scenByName(scs, c.Scenario)
	if sc == nil {
		// scenarios of the other tier
		os.Setenv("C19_N7", "1")
		fmt.Println("replay: unknown scenario", c.Scenario)
		os.Exit(3)
	}
	var first []string
	for i := 0; i < 5; i++ {
		var res *result
		switch {
		case len(c.Events) == 0 && c.XView != nil: // recorded by the supervisor: the worker running this scripted prefix died
			res, _, _ = runXView(t, sc, *c.XView, newConfStats())
		case c.Catchup != nil: // the participation oracle needs the whole scripted run
			res, _, _ = runCatchup(t, sc, *c.Catchup, newConfStats())
		case c.ReqTx != nil:
			res, _, _ = runReqTx(t, sc, *c.ReqTx, newConfStats())
		case len(c.Events) == 0 && c.Split != nil:
			res, _, _ = runSplit(t, sc, *c.Split, newConfStats())
		default:
			res = run(t, sc, Sched{Scen: c.Scenario, Devs: c.Devs}, runOpts{explicit: c.Events})
		}
		if res.End == "error" {
			fmt.Printf("replay %d: the recorded event list does not fit: %s\n", i, res.Err)
			os.Exit(3)
		}
		if i == 0 {
			first = res.Log
			for _, l := range res.Log {
				fmt.Println("   ", l)
			}
		} else if normLog(first) != normLog(res.Log) {
			fmt.Println("CHECK-ERROR: replay is not deterministic")
			os.Exit(3)
		}
		if len(res.Problems) == 0 {
			fmt.Printf("replay %d: no violation (%s after %d events, blocks %v)\n", i, res.End, res.Steps, res.Blocks)
		}
		for _, p := range res.Problems {
			fmt.Printf("replay %d: REPRODUCED %s at event %d: %s\n", i, p.Oracle, p.Step, p.Text)
			r.Violation("replay:"+p.Oracle+":"+c.Schedule, caseRec{Oracle: p.Oracle, Scenario: c.Scenario, N: c.N, Schedule: c.Schedule, Devs: c.Devs, Events: c.Events, AtStep: p.Step, Text: p.Text})
		}
	}
	r.Finish(map[string]any{"states": 1, "transitions": 5, "traces_validated_against_impl": 5}, nil)
}

// ---- supervisor -----------------------------------------------------------------------------------

// supervise runs the exploration in a child process. A panic or fatal exit in
// the subject (any goroutine) or a hang kills the child; the supervisor then
// re-runs the schedules that were in flight one by one to find the culprit
// and reports it as a violation ("no panic, no deadlock" oracle).
func supervise() {
	dir, cleanup := vk.Scratch("c19")
	defer cleanup()
	var errb bytes.Buffer
	cmd := exec.Command(os.Args[0], "-test.run", "^TestCheck$", "-test.timeout", "0", "-test.count", "1")
	cmd.Env = append(os.Environ(), "C19_CHILD=1", "C19_DIR="+dir)
	cmd.Stdout = os.Stdout
	cmd.Stderr = io.MultiWriter(os.Stderr, &tailWriter{buf: &errb, max: 1 << 16})
	err := cmd.Run()
	code := 0
	if err != nil {
		code = 3
		if ee, ok := err.(*exec.ExitError); ok {
			code = ee.ExitCode()
		}
	}
	if code == 0 || code == 1 || code == 3 {
		cleanup()
		vk.CleanScratch()
		os.Exit(code)
	}
	if os.Getenv("VERIF_REPLAY") != "" {
		fmt.Printf("replay: REPRODUCED: the process running the recorded schedule died (exit %d; panic or hang in the subject, see the trace above)\n", code)
		cleanup()
		vk.CleanScratch()
		os.Exit(1)
	}
	// abnormal end: find the culprit among the schedules in flight
	fmt.Printf("supervisor: explorer ended abnormally (exit %d); probing the schedules in flight\n", code)
	r := vk.Start("C19", "model_checking", 10*time.Minute, 10*time.Minute)
	files, _ := filepath.Glob(filepath.Join(dir, "inflight", "*.json"))
	sort.Strings(files)
	found := false
	for _, f := range files {
		bs, err := os.ReadFile(f)
		if err != nil {
			continue
		}
		var pr probeRec
		if json.Unmarshal(bs, &pr) != nil || (pr.Sched == nil && pr.Split == nil && pr.XView == nil && pr.Catchup == nil && pr.ReqTx == nil) {
			continue
		}
		var out bytes.Buffer
		pc := exec.Command(os.Args[0], "-test.run", "^TestCheck$", "-test.timeout", "0", "-test.count", "1")
		pc.Env = append(os.Environ(), "C19_CHILD=1", "C19_DIR="+dir, "C19_ONE="+string(bs))
		pc.Stdout, pc.Stderr = &out, &out
		done := make(chan error, 1)
		_ = pc.Start()
		go func() { done <- pc.Wait() }()
		what := ""
		select {
		case err := <-done:
			if err != nil {
				what = "panic"
			}
		case <-time.After(330 * time.Second):
			_ = pc.Process.Kill()
			what = "deadlock"
		}
		if what != "" {
			found = true
			txt := out.String()
			var fatals []string
			for _, l := range strings.Split(txt, "\n") {
				if strings.HasPrefix(l, "fatal-in-subject:") {
					fatals = append(fatals, l)
				}
			}
			if i := strings.Index(txt, "panic:"); i >= 0 {
				txt = txt[i:]
			}
			if len(fatals) > 0 {
				txt = strings.Join(fatals, "\n") + "\n" + txt
			}
			if len(txt) > 3000 {
				txt = txt[:3000]
			}
			n := 4
			if strings.HasPrefix(pr.Scen, "n7") {
				n = 7
			}
			switch pr.Kind {
			case "split":
				r.Violation(fmt.Sprintf("%s:split:%s:%s", what, pr.Scen, pr.Split.String()), caseRec{Oracle: what, Scenario: pr.Scen, N: n, Schedule: pr.Split.String(), Text: txt, Split: pr.Split})
			case "xview":
				r.Violation(fmt.Sprintf("%s:xview:%s:%s", what, pr.Scen, pr.XView.String()), caseRec{Oracle: what, Scenario: pr.Scen, N: n, Schedule: pr.XView.String(), Text: txt, XView: pr.XView})
			case "catchup":
				r.Violation(fmt.Sprintf("%s:catchup:%s:%s", what, pr.Scen, pr.Catchup.String()), caseRec{Oracle: what, Scenario: pr.Scen, N: n, Schedule: pr.Catchup.String(), Text: txt, Catchup: pr.Catchup})
			case "reqtx":
				r.Violation(fmt.Sprintf("%s:reqtx:%s:%s", what, pr.Scen, pr.ReqTx.String()), caseRec{Oracle: what, Scenario: pr.Scen, N: n, Schedule: pr.ReqTx.String(), Text: txt, ReqTx: pr.ReqTx})
			default:
				s := *pr.Sched
				r.Violation(fmt.Sprintf("%s:%d:%d:%s:%s", what, n, len(s.Devs), s.Scen, s.Compact()), caseRec{Oracle: what, Scenario: s.Scen, N: n, Bound: len(s.Devs), Schedule: s.Compact(), Devs: s.Devs, Text: txt})
			}
		}
	}
	if !found {
		fmt.Println("CHECK-ERROR: explorer crashed and no schedule in flight reproduces it:\n", errb.String())
		cleanup()
		os.Exit(3)
	}
	cleanup()
	vk.CleanScratch()
	r.Finish(map[string]any{"states": 1, "transitions": 1, "traces_validated_against_impl": len(files), "exhaustive": false}, []string{"the explorer process died; only the culprit schedule is reported"})
}

type tailWriter struct {
	buf *bytes.Buffer
	max int
}

func (w *tailWriter) Write(p []byte) (int, error) {
	w.buf.Write(p)
	if w.buf.Len() > w.max {
		b := append([]byte{}, w.buf.Bytes()[w.buf.Len()-w.max/2:]...)
		w.buf.Reset()
		w.buf.Write(b)
	}
	return len(p), nil
}
