// C19 extension, family "recovery-algebra", cross-view part: the elements a
// RecoveryMessage carries need not be of the carrier's view. Commits keep the
// view they were sent in (dBFT keeps them across view changes) and ChangeViews
// carry their original view; both must come out of GetCommits / GetChangeViews
// byte-identical to what the validator broadcast, whatever the carrier's view
// (below, equal, above). Every element handed back must be a non-nil payload
// of the kind asked for with a valid signature: dBFT passes each one to
// OnReceive on the consensus event loop.
package c19

import (
	"bytes"
	"fmt"
	"sort"
	"testing"

	"github.com/nspcc-dev/dbft"
	"github.com/nspcc-dev/neo-go/pkg/consensus"
	"github.com/nspcc-dev/neo-go/pkg/crypto/keys"
	nio "github.com/nspcc-dev/neo-go/pkg/io"
	npayload "github.com/nspcc-dev/neo-go/pkg/network/payload"
	"github.com/nspcc-dev/neo-go/pkg/util"

	"verif/lib/netx"
	"verif/lib/vk"
)

// sigValid verifies the witness of a consensus payload given in wire form
// against the key of the validator it names (what the network layer checks
// before a payload reaches the service).
func (hs *harvest) sigValid(wire []byte, vidx uint16) bool {
	if hs.sigCache == nil {
		hs.sigCache = map[string]bool{}
	}
	if v, ok := hs.sigCache[string(wire)]; ok {
		return v
	}
	ok := func() bool {
		e := &npayload.Extensible{}
		br := nio.NewBinReaderFromBuf(bytes.Clone(wire))
		e.DecodeBinary(br)
		if br.Err != nil || int(vidx) >= len(hs.vals) {
			return false
		}
		pub := hs.vals[vidx].(*keys.PublicKey)
		inv := e.Witness.InvocationScript
		if len(inv) != 66 || inv[0] != 0x0c || inv[1] != 64 {
			return false
		}
		if e.Sender != pub.GetScriptHash() || !bytes.Equal(e.Witness.VerificationScript, pub.GetVerificationScript()) {
			return false
		}
		return pub.VerifyHashable(inv[2:], uint32(hs.magic), e)
	}()
	hs.sigCache[string(wire)] = ok
	return ok
}

// elements checks what one accessor returned: every element a non-nil payload
// of the wanted kind with a valid signature. It returns the wire forms sorted.
func (hs *harvest) elements(ps []dbft.ConsensusPayload[util.Uint256], want dbft.MessageType, checkSig bool) ([][]byte, string) {
	var out [][]byte
	for i, x := range ps {
		xp, bad := elemOf(x, want)
		if bad != "" {
			return nil, fmt.Sprintf("element %d of %d %s", i, len(ps), bad)
		}
		w := wireOf(xp)
		if checkSig && !hs.sigValid(w, xp.ValidatorIndex()) {
			return nil, fmt.Sprintf("element %d of %d (%s view %d of validator %d) does not carry a valid signature of that validator", i, len(ps), xp.Type(), xp.ViewNumber(), xp.ValidatorIndex())
		}
		out = append(out, w)
	}
	sort.Slice(out, func(a, b int) bool { return bytes.Compare(out[a], out[b]) < 0 })
	return out, ""
}

func viewsOf(ps []*netx.Payload, mask int) string {
	var b bytes.Buffer
	for i, p := range ps {
		if mask&(1<<i) != 0 {
			fmt.Fprintf(&b, "%d@%d,", p.VIdx, p.View)
		}
	}
	return b.String()
}

// algebraCross enumerates the cross-view part on one harvest.
func algebraCross(hs *harvest, res *algResult) {
	type hkey = uint32
	type lists struct {
		commits, cvs []*netx.Payload
		preps        map[byte][]*netx.Payload // per view, the request first
		maxView      byte
	}
	byH := map[hkey]*lists{}
	dec := map[int]*consensus.Payload{}
	get := func(p *netx.Payload) *consensus.Payload {
		if d, ok := dec[p.ID]; ok {
			return d
		}
		d, err := decodePayload(hs.magic, hs.srih, p.Bytes)
		if err != nil {
			panic(fmt.Sprintf("original payload p%d does not parse: %v", p.ID, err))
		}
		dec[p.ID] = d
		return d
	}
	has := func(l []*netx.Payload, p *netx.Payload) bool {
		for _, q := range l {
			if q.VIdx == p.VIdx && q.View == p.View {
				return true
			}
		}
		return false
	}
	var heights []uint32
	for _, p := range hs.all {
		l := byH[p.Height]
		if l == nil {
			l = &lists{preps: map[byte][]*netx.Payload{}}
			byH[p.Height] = l
			heights = append(heights, p.Height)
		}
		switch p.Type {
		case dbft.CommitType:
			if !has(l.commits, p) {
				l.commits = append(l.commits, p)
			}
		case dbft.ChangeViewType:
			// the compact form carries no reason: only a ChangeView by timeout can be rebuilt with its hash
			if get(p).GetChangeView().Reason() != dbft.CVTimeout {
				res.cvOtherReason++
				continue
			}
			if !has(l.cvs, p) {
				l.cvs = append(l.cvs, p)
			}
		case dbft.PrepareRequestType:
			if !has(l.preps[p.View], p) {
				l.preps[p.View] = append([]*netx.Payload{p}, l.preps[p.View]...)
			}
		case dbft.PrepareResponseType:
			if !has(l.preps[p.View], p) {
				l.preps[p.View] = append(l.preps[p.View], p)
			}
		default:
			continue
		}
		l.maxView = max(l.maxView, p.View)
	}
	sort.Slice(heights, func(a, b int) bool { return heights[a] < heights[b] })
	n := len(hs.vals)
	// the originals are validly signed (what byte identity of a rebuilt payload then implies)
	for _, p := range hs.all {
		if p.Type == dbft.RecoveryMessageType || p.Type == dbft.RecoveryRequestType {
			continue
		}
		res.origSigs++
		if !hs.sigValid(p.Bytes, p.VIdx) {
			res.problems = append(res.problems, caseRec{Oracle: "recovery-algebra", Scenario: hs.scen, N: n, Schedule: fmt.Sprintf("%s:cross:original-p%d:signature", hs.scen, p.ID), Text: fmt.Sprintf("the broadcast %s does not carry a valid signature of validator %d", p.Desc(), p.VIdx)})
		}
	}
	byView := func(l []*netx.Payload) {
		sort.SliceStable(l, func(a, b int) bool {
			if l[a].View != l[b].View {
				return l[a].View < l[b].View
			}
			return l[a].VIdx < l[b].VIdx
		})
	}
	for _, h := range heights {
		l := byH[h]
		byView(l.commits)
		byView(l.cvs)
		if len(l.commits) > 6 {
			l.commits = l.commits[:6]
		}
		if len(l.cvs) > 6 {
			l.cvs = l.cvs[:6]
		}
		if len(l.commits) == 0 && len(l.cvs) == 0 {
			continue
		}
		var prepViews []int
		for v, ps := range l.preps {
			if len(ps) > 0 && ps[0].Type == dbft.PrepareRequestType {
				prepViews = append(prepViews, int(v))
			}
		}
		sort.Ints(prepViews)
		allC, allV := 1<<len(l.commits)-1, 1<<len(l.cvs)-1
		type cs struct{ cm, vm, pv int } // pv: -1 no preparations, else all preparations of that view
		var cases []cs
		if (allC+1)*(allV+1) <= 256 {
			for cm := 0; cm <= allC; cm++ {
				for vm := 0; vm <= allV; vm++ {
					cases = append(cases, cs{cm, vm, -1})
				}
			}
		} else {
			seen := map[[2]int]bool{}
			add := func(cm, vm int) {
				if !seen[[2]int{cm, vm}] {
					seen[[2]int{cm, vm}] = true
					cases = append(cases, cs{cm, vm, -1})
				}
			}
			for cm := 0; cm <= allC; cm++ {
				add(cm, 0)
				add(cm, allV)
			}
			for vm := 0; vm <= allV; vm++ {
				add(0, vm)
				add(allC, vm)
			}
		}
		for _, pv := range prepViews {
			for _, cm := range []int{0, allC} {
				for _, vm := range []int{0, allV} {
					cases = append(cases, cs{cm, vm, pv})
				}
			}
		}
		for V := 0; V <= int(l.maxView)+1; V++ {
			for _, s := range []int{0, n - 1} {
				res.carriers++
				for _, c := range cases {
					res.cases++
					res.crossCases++
					id := fmt.Sprintf("%s:h+%d:cross:carrier-v%d:sender%d:commits[%s]:cvs[%s]:preps-v%d", hs.scen, h-hs.h1+1, V, s, viewsOf(l.commits, c.cm), viewsOf(l.cvs, c.vm), c.pv)
					fail := func(what, text string) {
						res.problems = append(res.problems, caseRec{Oracle: "recovery-algebra", Scenario: hs.scen, N: n, Schedule: id + ":" + what, Text: text})
					}
					func() {
						defer func() {
							if r := recover(); r != nil {
								fail("panic", fmt.Sprint(r))
							}
						}()
						car, err := hs.carrier(h, byte(V), s, nil)
						if err != nil {
							fail("carrier", err.Error())
							return
						}
						rec := car.GetRecoveryMessage()
						var preps []*netx.Payload
						if c.pv >= 0 {
							preps = l.preps[byte(c.pv)]
						}
						// the order dBFT's makeRecoveryMessage uses: preparations, change views, commits
						for _, p := range preps {
							rec.AddPayload(get(p))
						}
						for i, p := range l.cvs {
							if c.vm&(1<<i) != 0 {
								rec.AddPayload(get(p))
							}
						}
						for i, p := range l.commits {
							if c.cm&(1<<i) != 0 {
								rec.AddPayload(get(p))
							}
						}
						bw := nio.NewBufBinWriter()
						rec.(nio.Serializable).EncodeBinary(bw.BinWriter)
						if bw.Err != nil {
							fail("encode", bw.Err.Error())
							return
						}
						car2, err := hs.carrier(h, byte(V), s, bw.Bytes())
						if err != nil {
							fail("parse", fmt.Sprintf("the serialised message does not parse: %v", err))
							return
						}
						wantC := wiresOf(l.commits, c.cm)
						wantV := wiresOf(l.cvs, c.vm)
						otherC, otherV := 0, 0
						for i, p := range l.commits {
							if c.cm&(1<<i) != 0 && int(p.View) != V {
								otherC++
							}
						}
						for i, p := range l.cvs {
							if c.vm&(1<<i) != 0 && int(p.View) != V {
								otherV++
							}
						}
						for stage, cp := range []*consensus.Payload{car, car2} {
							st := [...]string{"built", "parsed"}[stage]
							rm := cp.GetRecoveryMessage()
							res.expansions++
							gotC, bad := hs.elements(rm.GetCommits(cp, hs.vals), dbft.CommitType, true)
							switch {
							case bad != "":
								fail(st+"-commits", "GetCommits: "+bad)
							case !sameWires(gotC, wantC):
								fail(st+"-commits", fmt.Sprintf("the %d Commits rebuilt by a carrier of view %d are not the %d broadcast ones (views/validators added: %s)", len(gotC), V, len(wantC), viewsOf(l.commits, c.cm)))
							}
							rcv := rm.GetChangeViews(cp, hs.vals)
							gotV, bad := hs.elements(rcv, dbft.ChangeViewType, true)
							switch {
							case bad != "":
								fail(st+"-changeviews", "GetChangeViews: "+bad)
							case !sameWires(gotV, wantV):
								fail(st+"-changeviews", fmt.Sprintf("the %d ChangeViews rebuilt by a carrier of view %d are not the %d broadcast ones (views/validators added: %s)", len(gotV), V, len(wantV), viewsOf(l.cvs, c.vm)))
							default:
								for _, x := range rcv {
									if nv := x.GetChangeView().NewViewNumber(); nv != x.ViewNumber()+1 {
										fail(st+"-changeviews", fmt.Sprintf("rebuilt ChangeView of validator %d sent in view %d asks for view %d", x.ValidatorIndex(), x.ViewNumber(), nv))
									}
								}
							}
							// preparations: the compact form carries no view of its own; identity only when the carrier is of their view
							nResp := 0
							if c.pv >= 0 {
								primary := (int(h)%n - c.pv%n + n) % n
								req := rm.GetPrepareRequest(cp, hs.vals, uint16(primary))
								if req == nil {
									fail(st+"-request", fmt.Sprintf("the PrepareRequest of view %d (primary %d) was added, GetPrepareRequest returns none", c.pv, primary))
								} else if rq, bad := elemOf(req, dbft.PrepareRequestType); bad != "" {
									fail(st+"-request", "GetPrepareRequest: "+bad)
								} else if c.pv == V && !bytes.Equal(wireOf(rq), preps[0].Bytes) {
									fail(st+"-request", "rebuilt PrepareRequest differs from the broadcast one")
								}
								if ph := rm.PreparationHash(); ph != nil || stage == 0 {
									resp, bad := hs.elements(rm.GetPrepareResponses(cp, hs.vals), dbft.PrepareResponseType, false)
									nResp = len(resp)
									switch {
									case bad != "":
										fail(st+"-responses", "GetPrepareResponses: "+bad)
									case len(resp) != len(preps):
										fail(st+"-responses", fmt.Sprintf("%d preparations added, GetPrepareResponses returns %d", len(preps), len(resp)))
									case c.pv == V:
										// all but the primary's entry (its signature is the request's) are the broadcast responses
										want := wiresOf(preps[1:], 1<<len(preps)-1)
										var got [][]byte
										for _, x := range rm.GetPrepareResponses(cp, hs.vals) {
											if int(x.ValidatorIndex()) != primary {
												got = append(got, wireOf(x.(*consensus.Payload)))
											}
										}
										sort.Slice(got, func(a, b int) bool { return bytes.Compare(got[a], got[b]) < 0 })
										if !sameWires(got, want) {
											fail(st+"-responses", "rebuilt PrepareResponses are not the broadcast ones")
										}
									}
								}
							} else {
								if req := rm.GetPrepareRequest(cp, hs.vals, uint16((int(h)%n-V%n+n)%n)); req != nil {
									fail(st+"-request", "GetPrepareRequest returns a payload although no PrepareRequest was added")
								}
								if resp := rm.GetPrepareResponses(cp, hs.vals); len(resp) != 0 {
									fail(st+"-responses", fmt.Sprintf("GetPrepareResponses returns %d payloads although no preparation was added", len(resp)))
								}
							}
							res.outcomes[fmt.Sprintf("cross:%s:carrier-v%d:commits=%d(other view %d):cvs=%d(other view %d):preps-v%d=%d", st, V, len(wantC), otherC, len(wantV), otherV, c.pv, nResp)]++
							if otherC > 0 {
								res.crossCommitCases++
							}
							if otherV > 0 {
								res.crossCVCases++
							}
						}
					}()
				}
			}
		}
	}
}

// xviewHarvests runs, per split scenario and per lone committer A, the xview
// prefix "every later-view Commit lost" and returns the payloads broadcast
// (commits of two or three views at the same height, change views of one or
// two views).
func xviewHarvests(t *testing.T, r *vk.Run, scs []*scen) ([]*harvest, []pendingViolation) {
	type hj struct {
		sc *scen
		a  int
	}
	var list []hj
	for _, sc := range scs {
		if sc.xview {
			for a := 0; a < 4; a++ {
				list = append(list, hj{sc, a})
			}
		}
	}
	out := make([]*harvest, len(list))
	pends := make([][]pendingViolation, len(list))
	run1 := func(i int) {
		j := list[i]
		sp := xviewSpec{Prim: j.sc.prim, A: j.a, Lost: 63, L: 1}
		fdone := inflightBegin(probeRec{Kind: "xview", Scen: j.sc.Name, XView: &sp})
		res, _, cf := runXView(t, j.sc, sp, newConfStats())
		fdone()
		if res.End != "done" || len(res.Problems) > 0 || cf.vals == nil {
			for _, p := range res.Problems {
				rec := caseRec{Oracle: p.Oracle, Scenario: j.sc.Name, N: 4, Schedule: sp.String(), Events: res.Events[:min(p.Step+1, len(res.Events))], AtStep: p.Step, Text: p.Text, Log: tail(res.Log, 60), XView: &sp}
				pends[i] = append(pends[i], pendingViolation{fmt.Sprintf("%s:xview:%s:%s", p.Oracle, j.sc.Name, sp.String()), rec})
			}
			if res.End != "violation" {
				fmt.Printf("C19: xview harvest run of %s %s ended %s %s\n", j.sc.Name, sp.String(), res.End, res.Err)
			}
			return
		}
		out[i] = &harvest{scen: fmt.Sprintf("%s:xview-A%d", j.sc.Name, j.a), prim: j.sc.prim, magic: cf.magic, srih: cf.srih, vals: cf.vals, h1: j.sc.setup.H0 + uint32(j.sc.Pad) + 1, all: cf.payloads}
	}
	if r != nil {
		r.Parallel(len(list), run1)
	} else {
		for i := range list {
			run1(i)
		}
	}
	var pend []pendingViolation
	for _, p := range pends {
		pend = append(pend, p...)
	}
	return out, pend
}
