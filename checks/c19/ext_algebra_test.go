// C19 extension, family "recovery-algebra": RecoveryMessages built from REAL
// payloads, serialised, parsed and expanded again (see ext_recovery_test.go).
package c19

import (
	"bytes"
	"encoding/binary"
	"fmt"
	"os"
	"sort"
	"strings"
	"sync"
	"testing"

	"github.com/nspcc-dev/dbft"
	"github.com/nspcc-dev/neo-go/pkg/config/netmode"
	"github.com/nspcc-dev/neo-go/pkg/consensus"
	"github.com/nspcc-dev/neo-go/pkg/core/transaction"
	"github.com/nspcc-dev/neo-go/pkg/crypto/keys"
	nio "github.com/nspcc-dev/neo-go/pkg/io"
	npayload "github.com/nspcc-dev/neo-go/pkg/network/payload"
	"github.com/nspcc-dev/neo-go/pkg/util"

	"verif/lib/netx"
	"verif/lib/vk"
)

type harvest struct {
	scen  string
	prim  int
	magic netmode.Magic
	srih  bool
	vals  []dbft.PublicKey
	h1    uint32
	all   []*netx.Payload

	sigCache map[string]bool // wire form -> witness valid (one worker per harvest)
}

type hv struct {
	h uint32
	v byte
}

// carrier makes an empty RecoveryMessage payload (height h, view v, sent by
// validator s) the way it comes off the wire.
func (hs *harvest) carrier(h uint32, v byte, s int, body []byte) (*consensus.Payload, error) {
	data := []byte{0x41, 0, 0, 0, 0, byte(s), v}
	binary.LittleEndian.PutUint32(data[1:5], h)
	if body == nil {
		body = []byte{0, 0, 0, 0, 0} // no change views, no request, no preparation hash, no preparations, no commits
	}
	data = append(data, body...)
	e := &npayload.Extensible{
		Category:      npayload.ConsensusCategory,
		ValidBlockEnd: h,
		Sender:        hs.vals[s].(*keys.PublicKey).GetScriptHash(),
		Data:          data,
		Witness:       transaction.Witness{InvocationScript: []byte{}, VerificationScript: []byte{}},
	}
	bw := nio.NewBufBinWriter()
	e.EncodeBinary(bw.BinWriter)
	if bw.Err != nil {
		return nil, bw.Err
	}
	return decodePayload(hs.magic, hs.srih, bw.Bytes())
}

type algResult struct {
	cases, expansions  int
	outcomes           map[string]int
	hashNotCarried     int
	problems           []caseRec
	requests, carriers int
	// cross-view part (ext_algebra_cross_test.go)
	crossCases, crossCommitCases, crossCVCases, cvOtherReason, origSigs int
	xviewHarvests                                                       int
	pending                                                             []pendingViolation // problems of the xview harvest runs themselves
}

type pendingViolation struct {
	key string
	rec caseRec
}

func sortedWires(ps []dbft.ConsensusPayload[util.Uint256], skip int) [][]byte {
	var out [][]byte
	for _, p := range ps {
		if int(p.ValidatorIndex()) == skip {
			continue
		}
		out = append(out, wireOf(p.(*consensus.Payload)))
	}
	sort.Slice(out, func(a, b int) bool { return bytes.Compare(out[a], out[b]) < 0 })
	return out
}

func wiresOf(ps []*netx.Payload, mask int) [][]byte {
	var out [][]byte
	for i, p := range ps {
		if mask&(1<<i) != 0 {
			out = append(out, p.Bytes)
		}
	}
	sort.Slice(out, func(a, b int) bool { return bytes.Compare(out[a], out[b]) < 0 })
	return out
}

func sameWires(a, b [][]byte) bool {
	if len(a) != len(b) {
		return false
	}
	for i := range a {
		if !bytes.Equal(a[i], b[i]) {
			return false
		}
	}
	return true
}

// algebraOn enumerates the family on one harvest.
func algebraOn(hs *harvest, res *algResult) {
	groups := map[hv]map[dbft.MessageType][]*netx.Payload{}
	for _, p := range hs.all {
		if p.Type == dbft.RecoveryMessageType || p.Type == dbft.RecoveryRequestType {
			continue
		}
		if p.Type == dbft.ChangeViewType {
			// the compact form carries no reason: only a ChangeView by timeout can be rebuilt with its hash
			if d, err := decodePayload(hs.magic, hs.srih, p.Bytes); err != nil || d.GetChangeView().Reason() != dbft.CVTimeout {
				continue
			}
		}
		k := hv{p.Height, p.View}
		if groups[k] == nil {
			groups[k] = map[dbft.MessageType][]*netx.Payload{}
		}
		// one payload per validator and type (a second ChangeView of the same validator has another timestamp)
		dup := false
		for _, q := range groups[k][p.Type] {
			if q.VIdx == p.VIdx {
				dup = true
			}
		}
		if !dup {
			groups[k][p.Type] = append(groups[k][p.Type], p)
		}
	}
	dec := map[int]*consensus.Payload{}
	get := func(p *netx.Payload) *consensus.Payload {
		if d, ok := dec[p.ID]; ok {
			return d
		}
		d, err := decodePayload(hs.magic, hs.srih, p.Bytes)
		if err != nil {
			panic(fmt.Sprintf("original payload p%d does not parse: %v", p.ID, err))
		}
		dec[p.ID] = d
		return d
	}
	n := len(hs.vals)
	var keys_ []hv
	for k := range groups {
		keys_ = append(keys_, k)
	}
	sort.Slice(keys_, func(a, b int) bool {
		if keys_[a].h != keys_[b].h {
			return keys_[a].h < keys_[b].h
		}
		return keys_[a].v < keys_[b].v
	})
	for _, k := range keys_ {
		g := groups[k]
		primary := (int(k.h)%n - int(k.v)%n + n) % n
		var preps []*netx.Payload // the request first
		preps = append(preps, g[dbft.PrepareRequestType]...)
		nq := len(preps)
		preps = append(preps, g[dbft.PrepareResponseType]...)
		commits := g[dbft.CommitType]
		// change views a recovery message of this view carries: those that led INTO it (sent in view-1), and, to cover
		// the view-0 carrier, the ones sent in this view
		var cvs []*netx.Payload
		if k.v > 0 {
			cvs = groups[hv{k.h, k.v - 1}][dbft.ChangeViewType]
		} else {
			cvs = g[dbft.ChangeViewType]
		}
		if nq > 0 {
			res.requests++
		}
		type cs struct{ pm, cm, vm int }
		var cases []cs
		allC, allV := 1<<len(commits)-1, 1<<len(cvs)-1
		for pm := 0; pm < 1<<len(preps); pm++ {
			for _, cm := range []int{0, allC} {
				for _, vm := range []int{0, allV} {
					cases = append(cases, cs{pm, cm, vm})
				}
			}
		}
		for cm := 1; cm < allC; cm++ {
			cases = append(cases, cs{1<<len(preps) - 1, cm, 0})
		}
		for vm := 1; vm < allV; vm++ {
			cases = append(cases, cs{0, 0, vm})
		}
		for s := 0; s < n; s++ {
			res.carriers++
			for _, c := range cases {
				res.cases++
				id := fmt.Sprintf("%s:h+%d:v%d:sender%d:preps%b:commits%b:cvs%b", hs.scen, k.h-hs.h1+1, k.v, s, c.pm, c.cm, c.vm)
				fail := func(what, text string) {
					res.problems = append(res.problems, caseRec{Oracle: "recovery-algebra", Scenario: hs.scen, N: n, Schedule: id + ":" + what, Text: text})
				}
				func() {
					defer func() {
						if r := recover(); r != nil {
							fail("panic", fmt.Sprint(r))
						}
					}()
					car, err := hs.carrier(k.h, k.v, s, nil)
					if err != nil {
						fail("carrier", err.Error())
						return
					}
					rec := car.GetRecoveryMessage()
					hasQ := false
					for i, p := range preps {
						if c.pm&(1<<i) != 0 {
							rec.AddPayload(get(p))
							if i < nq {
								hasQ = true
							}
						}
					}
					for i, p := range cvs {
						if c.vm&(1<<i) != 0 {
							rec.AddPayload(get(p))
						}
					}
					for i, p := range commits {
						if c.cm&(1<<i) != 0 {
							rec.AddPayload(get(p))
						}
					}
					bw := nio.NewBufBinWriter()
					rec.(nio.Serializable).EncodeBinary(bw.BinWriter)
					if bw.Err != nil {
						fail("encode", bw.Err.Error())
						return
					}
					car2, err := hs.carrier(k.h, k.v, s, bw.Bytes())
					if err != nil {
						fail("parse", fmt.Sprintf("the serialised message does not parse: %v", err))
						return
					}
					wantR := wiresOf(preps[nq:], c.pm>>nq)
					wantC := wiresOf(commits, c.cm)
					wantV := wiresOf(cvs, c.vm)
					for stage, cp := range []*consensus.Payload{car, car2} {
						st := [...]string{"built", "parsed"}[stage]
						rm := cp.GetRecoveryMessage()
						res.expansions++
						req := rm.GetPrepareRequest(cp, hs.vals, uint16(primary))
						switch {
						case hasQ && req == nil:
							fail(st+"-request", fmt.Sprintf("the PrepareRequest of primary %d was added, GetPrepareRequest returns none", primary))
						case !hasQ && req != nil:
							fail(st+"-request", "GetPrepareRequest returns a payload although no PrepareRequest was added")
						case hasQ:
							if w := wireOf(req.(*consensus.Payload)); !bytes.Equal(w, preps[0].Bytes) {
								o := get(preps[0])
								rp := *req.(*consensus.Payload)
								fail(st+"-request", fmt.Sprintf("rebuilt PrepareRequest differs from the broadcast one: validator %d/%d, hash %s/%s, witness equal %v", rp.ValidatorIndex(), o.ValidatorIndex(), rp.Hash().StringLE()[:16], o.Hash().StringLE()[:16], bytes.Equal(rp.Witness.InvocationScript, o.Witness.InvocationScript) && bytes.Equal(rp.Witness.VerificationScript, o.Witness.VerificationScript)))
							}
						}
						ph := rm.PreparationHash()
						if ph != nil && nq > 0 {
							if oh := get(preps[0]).Hash(); *ph != oh {
								fail(st+"-hash", fmt.Sprintf("preparation hash %s, the PrepareRequest has %s", ph.StringLE()[:16], oh.StringLE()[:16]))
							}
						}
						if stage == 0 && (ph != nil) != (c.pm != 0) {
							fail(st+"-hash", fmt.Sprintf("preparation hash present=%v with preparations %b", ph != nil, c.pm))
						}
						if stage == 1 && !hasQ && (ph != nil) != (c.pm != 0) {
							fail(st+"-hash", fmt.Sprintf("preparation hash present=%v after parsing, preparations %b, no request embedded", ph != nil, c.pm))
						}
						resp := sortedWires(rm.GetPrepareResponses(cp, hs.vals), primary)
						if ph == nil && stage == 1 && hasQ {
							// by design the hash is not serialised next to an embedded request (the
							// service fills it from the rebuilt request before dBFT sees the message)
							res.hashNotCarried++
							if len(resp) != 0 {
								fail(st+"-responses", "responses without a preparation hash")
							}
						} else if !sameWires(resp, wantR) {
							fail(st+"-responses", fmt.Sprintf("rebuilt PrepareResponses (%d) are not the broadcast ones (%d)", len(resp), len(wantR)))
						}
						if got := sortedWires(rm.GetCommits(cp, hs.vals), -1); !sameWires(got, wantC) {
							fail(st+"-commits", fmt.Sprintf("rebuilt Commits (%d) are not the broadcast ones (%d)", len(got), len(wantC)))
						}
						rcv := rm.GetChangeViews(cp, hs.vals)
						if got := sortedWires(rcv, -1); !sameWires(got, wantV) {
							fail(st+"-changeviews", fmt.Sprintf("rebuilt ChangeViews (%d) are not the broadcast ones (%d)", len(got), len(wantV)))
						}
						for _, x := range rcv {
							// not part of the wire form: derived from the view the ChangeView was sent in
							if nv := x.GetChangeView().NewViewNumber(); nv != x.ViewNumber()+1 {
								fail(st+"-changeviews", fmt.Sprintf("rebuilt ChangeView of validator %d sent in view %d asks for view %d", x.ValidatorIndex(), x.ViewNumber(), nv))
							}
						}
						res.outcomes[fmt.Sprintf("%s:v%d:primary%d:req=%v:resp=%d:commits=%d:cvs=%d:hash=%v", st, k.v, primary, req != nil, len(resp), len(wantC), len(wantV), ph != nil)]++
					}
				}()
			}
		}
	}
}

// harvests runs, per split scenario, the schedule "first PrepareRequest lost
// for everybody" (four ChangeViews in view 0, a full round in view 1, a full
// round at the next height) and returns the payloads broadcast.
func harvests(t *testing.T, r *vk.Run, scs []*scen) []*harvest {
	var list []*scen
	for _, sc := range scs {
		if sc.split && !sc.xview && !sc.catchup && !sc.reqtx {
			list = append(list, sc)
		}
	}
	out := make([]*harvest, len(list))
	run1 := func(i int) {
		sc := list[i]
		hsp := splitSpec{Prim: sc.prim, View1: true, Mode: "late", L: 1}
		fdone := inflightBegin(probeRec{Kind: "split", Scen: sc.Name, Split: &hsp})
		pol := newSplitPolicy(hsp)
		cf := newConformer(newConfStats())
		res := run(t, sc, Sched{Scen: sc.Name}, runOpts{prefix: pol.next, after: cf.check})
		fdone()
		if res.End != "done" || len(res.Problems) > 0 || cf.vals == nil {
			for _, p := range res.Problems {
				if r == nil {
					break
				}
				rec := caseRec{Oracle: p.Oracle, Scenario: sc.Name, N: 4, Schedule: "harvest", Events: res.Events[:min(p.Step+1, len(res.Events))], AtStep: p.Step, Text: p.Text, Log: tail(res.Log, 60)}
				r.Violation(fmt.Sprintf("%s:split:%s:harvest", p.Oracle, sc.Name), rec)
			}
			fmt.Printf("C19: harvest run of %s ended %s %s\n", sc.Name, res.End, res.Err)
			return
		}
		out[i] = &harvest{scen: sc.Name, prim: sc.prim, magic: cf.magic, srih: cf.srih, vals: cf.vals, h1: sc.setup.H0 + uint32(sc.Pad) + 1, all: cf.payloads}
	}
	if r != nil {
		r.Parallel(len(list), run1)
	} else {
		for i := range list {
			run1(i)
		}
	}
	return out
}

func algebraAll(t *testing.T, r *vk.Run, scs []*scen) (*algResult, int) {
	hs := harvests(t, r, scs)
	nStd := len(hs)
	xh, pend := xviewHarvests(t, r, scs)
	hs = append(hs, xh...)
	total := &algResult{outcomes: map[string]int{}, pending: pend}
	var mu sync.Mutex
	n := 0
	work := func(i int) {
		if hs[i] == nil {
			return
		}
		res := &algResult{outcomes: map[string]int{}}
		algebraOn(hs[i], res)
		algebraCross(hs[i], res)
		mu.Lock()
		n++
		if i >= nStd {
			total.xviewHarvests++
		}
		total.crossCases += res.crossCases
		total.crossCommitCases += res.crossCommitCases
		total.crossCVCases += res.crossCVCases
		total.cvOtherReason += res.cvOtherReason
		total.origSigs += res.origSigs
		total.cases += res.cases
		total.expansions += res.expansions
		total.hashNotCarried += res.hashNotCarried
		total.requests += res.requests
		total.carriers += res.carriers
		total.problems = append(total.problems, res.problems...)
		for k, v := range res.outcomes {
			total.outcomes[k] += v
		}
		mu.Unlock()
	}
	if r != nil {
		r.Parallel(len(hs), work)
	} else {
		for i := range hs {
			work(i)
		}
	}
	sort.Slice(total.problems, func(a, b int) bool { return total.problems[a].Schedule < total.problems[b].Schedule })
	return total, n
}

func exploreAlgebra(t *testing.T, r *vk.Run, scs []*scen) map[string]any {
	res, n := algebraAll(t, r, scs)
	if os.Getenv("C19_NOCONFORM") != "" {
		res.problems = nil
	}
	// one violation per (scenario, check) is enough: the smallest case
	seen := map[string]bool{}
	for _, p := range res.problems {
		what := p.Schedule[strings.LastIndex(p.Schedule, ":")+1:]
		k := p.Scenario + "|" + what
		if seen[k] {
			continue
		}
		seen[k] = true
		r.Violation("recovery-algebra:"+p.Schedule, p)
	}
	// the xview harvest runs themselves: the first failing run per oracle (the xview family reports the rest)
	for _, pv := range res.pending {
		if seen["pending|"+pv.rec.Oracle] {
			continue
		}
		seen["pending|"+pv.rec.Oracle] = true
		r.Violation(pv.key, pv.rec)
	}
	return map[string]any{
		"rule":               "per split scenario (primary 0..3, without and with StateRootInHeader) the payloads of the run 'first PrepareRequest lost for everybody' (4 ChangeViews in view 0, full rounds in view 1 and at the next height); per (height, view) and per sending validator 0..3: RecoveryMessage built through AddPayload from every subset of the preparations x {no, all} commits x {no, all} change views, every subset of commits, every subset of change views; expanded as built and after serialise + parse; oracle: GetPrepareRequest / GetPrepareResponses / GetCommits / GetChangeViews return exactly the broadcast payloads (wire form: hash, sender, witness), the preparation hash is the request's hash",
		"harvest_runs":       n,
		"harvest_runs_xview": res.xviewHarvests,
		"cross_rule":         "per harvest (the 8 above + per split scenario and lone committer A the xview run 'every later-view Commit lost': commits of two or three views at one height) and height: all Commits and all ChangeViews (reason Timeout) of the height by (validator, view); carriers of every view 0..max+1 (below, equal to, above the elements' views) x sending validators {0,3}; every subset of commits x every subset of change views (both {none, all} x every subset when more than 256 pairs), plus {none, all} x {none, all} x all preparations of each view with a request; as built and after serialise + parse; oracle: every element of GetCommits / GetChangeViews / GetPrepareResponses / GetPrepareRequest is a non-nil payload of that kind; Commits and ChangeViews byte-identical to the broadcast ones with a valid signature of the named validator; no element when nothing of the kind was added; preparations byte-identical when the carrier is of their view, else only counted (their compact form has no view)",
		"cross_cases":        res.crossCases,
		"cross_expansions_with_commits_of_another_view":      res.crossCommitCases,
		"cross_expansions_with_change_views_of_another_view": res.crossCVCases,
		"cross_original_signatures_verified":                 res.origSigs,
		"change_views_left_out_reason_not_timeout":           res.cvOtherReason,
		"carriers":                    res.carriers,
		"cases":                       res.cases,
		"expansions":                  res.expansions,
		"distinct_outcomes":           len(res.outcomes),
		"groups_with_request":         res.requests,
		"parsed_with_request_no_hash": res.hashNotCarried,
		"failing_cases":               len(res.problems),
	}
}
