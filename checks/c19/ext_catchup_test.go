// C19 extension (round 4), family "catchup": SEVERAL blocks reach a lagging
// validator's ledger between two turns of its consensus event loop.
//
// service.handleChainBlock is the only place the service calls dbft.Reset,
// i.e. the only way a validator moves on to the next height. The event loop
// keeps only the LATEST block notification it finds when a turn ends
// (eventLoop, "syncLoop"), so a validator that catches up is handed a block
// whose index is ABOVE its dBFT height. Every other family hands blocks over
// one at a time with a quiescence wait after each: there the notified block is
// always exactly the dBFT height, and a service that reacts to "==" only is
// indistinguishable from the real one. If the jump is mishandled the validator
// stays at a stale height for ever: it treats live payloads as future-height,
// never proposes / prepares / commits / answers recovery again (an honest
// validator silently turned into a faulty one).
//
// The family scripts a prefix and then lets the synchronous default schedule
// continue under all the ordinary oracles (safety, accept, carry, liveness,
// recovery-conform):
//
//  1. validator L lags from the start: it is silenced ("silent": what it sends
//     is lost, what it should get waits) or merely late ("late": it sends, but
//     payloads, transactions and blocks for it wait), while the other three
//     produce D blocks (view changes included when L is a primary on the way);
//  2. the lag ends at a moment WHEN of the others' next round: "between" (all
//     three hold block D, nobody has proposed yet), "req" (the next
//     PrepareRequest is out), "commit" (the first Commit of the next height
//     is out);
//  3. (silent: L is resumed) W warm-up events (the oldest late payloads reach
//     L first: it answers them, W = 4 makes it assemble the first block by
//     itself), then ONE event blocks(K): K consecutive blocks land in L's
//     ledger while its event loop is provably busy (lib/netx/
//     ext_c19_blocks.go): held inside the Reset caused by the first block
//     (reset) / inside its timeout handling (timer) / inside the handling of
//     its oldest late payload (msg) / inside the handling of a late Commit
//     that overtook the PrepareResponses (commit: with W = 3 it is the M-th
//     Commit, and L assembles in the same turn a block its ledger has got
//     meanwhile - the "already exists" branch of service.processBlock); or
//     while L's service is being RESTARTED (start: inside service.Start,
//     before the new event loop subscribes for blocks - the window the
//     "manually sync up with potentially missed fresh blocks" lines of
//     eventLoop are for); or one by one as the control shape (seq);
//  4. synchronous continuation for two more heights.
//
// Additional oracles:
//
//	context-height  at every quiescent state every live service's dBFT context
//	                works on its ledger's height + 1 (dbft.Reset: "the height is
//	                to be derived from the configured CurrentHeight callback");
//	                evaluated by run() after every event of EVERY family;
//	participation   in the continuation the caught-up validator broadcasts a
//	                payload of a height above the one it was caught up to
//	                (it takes part in consensus again).
package c19

import (
	"fmt"
	"os"
	"sort"
	"sync"
	"sync/atomic"
	"testing"
	"time"

	"github.com/nspcc-dev/dbft"

	"verif/lib/netx"
	"verif/lib/vk"
)

type catchupSpec struct {
	Prim  int    `json:"primary"` // primary index of the first height
	L     int    `json:"laggard"`
	D     int    `json:"lag"`   // blocks the others produce while L lags
	Mode  string `json:"mode"`  // silent | late
	When  string `json:"when"`  // between | req | commit
	Shape int    `json:"shape"` // netx.BlkSeq | BlkReset | BlkTimer | BlkMsg | BlkStart | BlkCommit
	K     int    `json:"k"`     // blocks handed over in the one event
	W     int    `json:"warm"`  // warm-up events (late payloads for L) between the end of the lag and the blocks event
}

func (sp catchupSpec) String() string {
	s := fmt.Sprintf("L%d:lag%d:%s:%s:%s%d", sp.L, sp.D, sp.Mode, sp.When, netx.BlkShapeName(sp.Shape), sp.K)
	if sp.W > 0 {
		s += fmt.Sprintf(":w%d", sp.W)
	}
	return s
}

const catchupPrefixCap = 900

type catchupPolicy struct {
	sp         catchupSpec
	phase      int // 0 lag, 1 resume, 2 warm-up, 3 blocks, 4 over
	warm       int
	silenced   bool
	onScript   bool   // the blocks event was applied
	caughtTo   uint32 // L's ledger height right after the blocks event
	info       netx.BlocksInfo
	lagViews   int // L's view when the lag ended
	blocksStep int // world step of the blocks event (huge before it)
	offReason  string
	// participation
	took bool
	// blocks L's own service assembled: accepted by its ledger / already there
	ownOK, ownExists int
}

func (p *catchupPolicy) lagOver(w *netx.World) bool {
	hT := w.H0() + uint32(p.sp.D)
	switch p.sp.When {
	case "between":
		for _, n := range w.Nodes {
			if n.Idx != p.sp.L && n.C.BC.BlockHeight() < hT {
				return false
			}
		}
		return true
	case "req", "commit":
		want := dbft.PrepareRequestType
		if p.sp.When == "commit" {
			want = dbft.CommitType
		}
		for _, pl := range w.Payloads {
			if pl.Type == want && pl.Height == hT+1 && !pl.Lost && pl.From != p.sp.L {
				return true
			}
		}
	}
	return false
}

func (p *catchupPolicy) next(w *netx.World) (*netx.Event, bool) {
	L := p.sp.L
	off := func(why string) (*netx.Event, bool) {
		p.phase, p.offReason = 4, why
		if w.Nodes[L].Silent {
			return &netx.Event{K: netx.EvResume, N: L}, true
		}
		return nil, false
	}
	switch p.phase {
	case 0:
		if p.sp.Mode == "silent" && !p.silenced {
			p.silenced = true
			return &netx.Event{K: netx.EvSilence, N: L}, true
		}
		if p.lagOver(w) {
			p.lagViews = viewAt(w, L, w.Nodes[L].C.BC.BlockHeight()+1)
			p.phase = 1
			return p.next(w)
		}
		if _, mx := w.Heights(); mx > w.H0()+uint32(p.sp.D)+1 {
			return off("the others ran past the moment")
		}
		var held func(netx.Item) bool
		var noBlock func(int) bool
		if p.sp.Mode == "late" {
			held = func(it netx.Item) bool { return it.N == L }
			noBlock = func(j int) bool { return j == L }
		}
		ev := w.DefaultHeld(held, noBlock)
		if ev == nil {
			return off("nothing enabled during the lag")
		}
		return ev, true
	case 1:
		p.phase = 2
		if w.Nodes[L].Silent {
			return &netx.Event{K: netx.EvResume, N: L}, true
		}
		return p.next(w)
	case 2:
		if p.warm < p.sp.W {
			p.warm++
			if p.sp.Shape == netx.BlkCommit {
				// payloads overtake each other: the proposal, then the Commits
				if x := w.PendingRequest(L); x >= 0 {
					return &netx.Event{K: netx.EvDeliver, P: x, N: L}, true
				}
				if x := w.PendingCommit(L); x >= 0 {
					return &netx.Event{K: netx.EvDeliver, P: x, N: L}, true
				}
			}
			ev := w.DefaultHeld(nil, func(j int) bool { return j == L })
			if ev == nil {
				return off("nothing enabled during the warm-up")
			}
			return ev, true
		}
		p.phase = 3
		return p.next(w)
	case 3:
		p.phase = 4
		h := w.Nodes[L].C.BC.BlockHeight() + 1
		for x := h; x < h+uint32(p.sp.K); x++ {
			ok := false
			for _, c := range w.Commits {
				if c.Height == x && c.Bytes != nil && (c.Err == "" || c.Exists) {
					ok = true
				}
			}
			if !ok {
				return off(fmt.Sprintf("block %d not available", x-w.H0()))
			}
		}
		if p.sp.Shape == netx.BlkTimer {
			if a, _, _, _ := w.Nodes[L].Timer.Armed(); !a {
				return off("laggard's timer not armed")
			}
		}
		return &netx.Event{K: netx.EvBlocks, N: L, H: h, P: p.sp.K, T: p.sp.Shape}, true
	}
	return nil, false
}

// ctxHeightCheck is the context-height oracle (run() evaluates it after every
// event of every family).
func ctxHeightCheck(w *netx.World) []netx.Problem {
	var ps []netx.Problem
	ledger, ctx := w.CtxHeights()
	for i := range ledger {
		if w.Nodes[i].Dead || ctx[i] == 0 {
			continue
		}
		if ctx[i] != ledger[i]+1 {
			ps = append(ps, netx.Problem{Oracle: "context-height", Text: fmt.Sprintf("node %d: the ledger holds block %d (h+%d) and everything is quiet, but the dBFT context works on height %d (h+%d): the service never moved on to height %d", i, ledger[i], int(ledger[i])-int(w.H0()), ctx[i], int(ctx[i])-int(w.H0()), ledger[i]+1)})
		}
	}
	return ps
}

func runCatchup(t *testing.T, sc *scen, sp catchupSpec, st *confStats) (*result, *catchupPolicy, *conformer) {
	pol := &catchupPolicy{sp: sp, blocksStep: 1 << 30}
	cf := newConformer(st)
	nPay := 0
	after := func(w *netx.World) []netx.Problem {
		var ps []netx.Problem
		if os.Getenv("C19_NOCONFORM") != "" { // development aid
			cf.check(w)
		} else {
			ps = cf.check(w)
		}
		pol.ownOK, pol.ownExists = 0, 0
		for _, c := range w.Commits {
			if c.Node == sp.L && c.Bytes != nil {
				if c.Exists {
					pol.ownExists++
				} else if c.Err == "" && c.Step <= pol.blocksStep {
					pol.ownOK++
				}
			}
		}
		if pol.onScript {
			for ; nPay < len(w.Payloads); nPay++ {
				if pl := w.Payloads[nPay]; pl.From == sp.L && !pl.Lost && pl.Height > pol.caughtTo {
					pol.took = true
				}
			}
		} else {
			nPay = len(w.Payloads)
		}
		return ps
	}
	onBlocks := func(w *netx.World, ev netx.Event, info netx.BlocksInfo) {
		pol.onScript, pol.info = true, info
		pol.caughtTo = w.Nodes[sp.L].C.BC.BlockHeight()
		pol.blocksStep = w.Step
	}
	res := run(t, sc, Sched{Scen: sc.Name}, runOpts{prefix: pol.next, after: after, maxPrefix: catchupPrefixCap, onBlocks: onBlocks})
	if pol.onScript && res.End == "done" && len(res.Problems) == 0 && !pol.took {
		res.Problems = append(res.Problems, problem{"participation", fmt.Sprintf("validator %d was caught up to block h+%d by %s; in the synchronous continuation (%d events, blocks %v) it never broadcast a payload of a later height", sp.L, int(pol.caughtTo)-int(sc.setup.H0)-sc.Pad, netx.BlocksString(netx.Event{K: netx.EvBlocks, N: sp.L, H: pol.caughtTo - uint32(sp.K) + 1, P: sp.K, T: sp.Shape}), res.Steps-res.PrefixLen, res.Blocks), max(res.Steps-1, 0)})
		res.End = "violation"
	}
	return res, pol, cf
}

func catchupScenName(prim, d int) string { return fmt.Sprintf("n4-catchup:primary%d:lag%d", prim, d) }

// catchupScens: one scenario per primary index of the first height and lag
// depth (the run is D + 2 heights long). Every transaction is pooled
// everywhere: a validator that lags replays its cache of future messages in Go
// map order, with a transaction missing that order would show (see xviewScens).
func catchupScens(fam *netx.Setup, tag string) []*scen {
	var out []*scen
	all4 := []int{0, 1, 2, 3}
	for pad := 0; pad < 4 && pad <= len(fam.Pads); pad++ {
		prim := (int(fam.H0) + pad + 1) % 4
		for d := 2; d <= 3; d++ {
			out = append(out, &scen{setup: fam, maxBound: -1, maxSil: 1, split: true, catchup: true, prim: prim, lag: d, allTxs: true, Scenario: netx.Scenario{
				Name: catchupScenName(prim, d) + tag, Family: fam.Fam.Name, Heights: d + 2, Pad: pad,
				TxAt: map[string][]int{"t1": all4, "t2": all4},
			}})
		}
	}
	return out
}

type catchupJob struct {
	sc *scen
	sp catchupSpec
}

func catchupJobs(r *vk.Run, scs []*scen) []catchupJob {
	var out []catchupJob
	type sk struct{ shape, k int }
	shapes := []sk{{netx.BlkReset, 3}, {netx.BlkTimer, 2}, {netx.BlkMsg, 2}, {netx.BlkCommit, 2}, {netx.BlkStart, 3}, {netx.BlkStart, 2}, {netx.BlkStart, 1}, {netx.BlkReset, 2}, {netx.BlkSeq, 2}, {netx.BlkSeq, 3}}
	for _, sc := range scs {
		if !sc.catchup || (sc.deep && !r.Thorough()) {
			continue
		}
		for _, when := range []string{"between", "req", "commit"} {
			for _, mode := range []string{"silent", "late"} {
				for L := 0; L < 4; L++ {
					for _, s := range shapes {
						if s.k > sc.lag || (s.shape == netx.BlkSeq && s.k != sc.lag) {
							continue
						}
						// warm-up: the first W late payloads reach L before the blocks
						// do (W = 4: the next one completes block h+1 on L itself).
						// quick: only for the shape whose trigger is the next payload.
						maxW := 0
						if s.shape == netx.BlkMsg || r.Thorough() {
							maxW = catchupMaxW
						}
						if s.shape == netx.BlkCommit {
							maxW = 3 // proposal, Commit, Commit; the trigger is the M-th Commit
						}
						for w := 0; w <= maxW; w++ {
							out = append(out, catchupJob{sc, catchupSpec{Prim: sc.prim, L: L, D: sc.lag, Mode: mode, When: when, Shape: s.shape, K: s.k, W: w}})
						}
					}
				}
			}
		}
	}
	return out
}

const catchupMaxW = 6

func exploreCatchup(t *testing.T, r *vk.Run, scs []*scen, running *sync.Map) map[string]any {
	st := newConfStats()
	jobs := catchupJobs(r, scs)
	var mu sync.Mutex
	var nRun, steps, prefixSteps vk.Counter
	var maxLive, maxPrefix atomic.Int64
	outcomes := vk.NewSet()
	ends := map[string]int{}
	offs := map[string]int{}
	holds := map[string]int{}
	byShape := map[string]int{}
	onScript, engaged, degenerate, landed2, ownExists, ownOK, nondet := 0, 0, 0, 0, 0, 0, 0
	done := r.Parallel(len(jobs), func(i int) {
		j := jobs[i]
		key := "catchup|" + j.sc.Name + "|" + j.sp.String()
		fdone := inflightBegin(probeRec{Kind: "catchup", Scen: j.sc.Name, Catchup: &j.sp})
		running.Store(key, time.Now())
		t0 := realNano()
		res, pol, _ := runCatchup(t, j.sc, j.sp, st)
		if dt := realNano() - t0; dt > 2e9 && os.Getenv("C19_SLOW") != "" { // development aid
			fmt.Printf("slow: %s %.1fs (%d events)\n", key, float64(dt)/1e9, res.Steps)
		}
		running.Delete(key)
		fdone()
		if os.Getenv("C19_CATCHUP_DET") != "" { // development aid: every spec twice, logs compared
			again, _, _ := runCatchup(t, j.sc, j.sp, newConfStats())
			if normLog(again.Log) != normLog(res.Log) {
				mu.Lock()
				nondet++
				if nondet <= 3 {
					fmt.Println("nondeterministic:", key)
					logDiff(res.Log, again.Log)
				}
				mu.Unlock()
			}
		}
		if res.End == "error" {
			fmt.Println("CHECK-ERROR: catchup", key, "could not be executed:", res.Err)
			os.Exit(3)
		}
		nRun.Inc()
		steps.Add(res.Steps)
		prefixSteps.Add(res.PrefixLen)
		for {
			cur := maxLive.Load()
			if int64(res.MaxLive) <= cur || maxLive.CompareAndSwap(cur, int64(res.MaxLive)) {
				break
			}
		}
		for {
			cur := maxPrefix.Load()
			if int64(res.PrefixLen) <= cur || maxPrefix.CompareAndSwap(cur, int64(res.PrefixLen)) {
				break
			}
		}
		script := "off-script"
		if pol.onScript {
			script = "held"
			switch {
			case j.sp.Shape == netx.BlkSeq:
				script = "one-by-one"
			case j.sp.Shape == netx.BlkStart:
				script = "restart"
			case pol.info.Degenerate:
				script = "degenerate"
			}
		}
		outcomes.Add(fmt.Sprintf("%s|%s|%s|%v|%s|%d|x%d|o%d", j.sc.Name, j.sp.When, res.End, res.Blocks, script, pol.info.Landed, pol.ownExists, pol.ownOK))
		r.Outcome("catchup:" + script + ":" + netx.BlkShapeName(j.sp.Shape) + ":" + res.End)
		mu.Lock()
		ends[res.End]++
		if pol.onScript {
			onScript++
			byShape[fmt.Sprintf("%s%d", netx.BlkShapeName(j.sp.Shape), j.sp.K)]++
			if pol.info.Engaged {
				engaged++
				holds[netx.BlkShapeName(j.sp.Shape)+"@"+pol.info.Where]++
				if pol.info.Landed >= 2 {
					landed2++
				}
			}
			if pol.info.Degenerate {
				degenerate++
			}
			if pol.ownExists > 0 {
				ownExists++
			}
			if pol.ownOK > 0 {
				ownOK++
			}
		} else {
			offs[pol.offReason]++
		}
		mu.Unlock()
		seen := map[string]bool{}
		for _, p := range res.Problems {
			if seen[p.Oracle] {
				continue
			}
			seen[p.Oracle] = true
			n := min(p.Step+1, len(res.Events))
			if n < res.PrefixLen && (p.Oracle == "liveness" || p.Oracle == "participation") {
				n = res.PrefixLen
			}
			sp := j.sp
			rec := caseRec{Oracle: p.Oracle, Scenario: j.sc.Name, N: 4, Schedule: sp.String(), Events: res.Events[:n], AtStep: p.Step, Text: p.Text, Log: tail(res.Log, 80), Catchup: &sp}
			r.Violation(fmt.Sprintf("%s:catchup:%s:%s", p.Oracle, j.sc.Name, sp.String()), rec)
		}
		if res.End == "done" && pol.info.Engaged {
			r.Sample(map[string]any{"scenario": j.sc.Name, "catchup": j.sp.String(), "prefix_events": res.PrefixLen, "events": len(res.Events), "blocks": res.Blocks, "blocks_landed_while_loop_held": pol.info.Landed, "held_in": pol.info.Where})
		}
	})
	capped := done != len(jobs) || r.IsCapped()
	if os.Getenv("C19_CATCHUP_DET") != "" {
		fmt.Println("catchup determinism aid:", nondet, "of", len(jobs), "specs gave another log the second time")
	}
	// determinism self-check: two held runs, twice each
	if len(jobs) > 0 && !capped {
		for _, j := range []catchupJob{jobs[0], jobs[len(jobs)/2+1]} {
			a, _, _ := runCatchup(t, j.sc, j.sp, newConfStats())
			b, _, _ := runCatchup(t, j.sc, j.sp, newConfStats())
			if normLog(a.Log) != normLog(b.Log) || fmt.Sprint(a.Blocks) != fmt.Sprint(b.Blocks) {
				fmt.Println("CHECK-ERROR: nondeterministic scripted run", j.sc.Name, j.sp.String())
				logDiff(a.Log, b.Log)
				os.Exit(3)
			}
		}
	}
	var hs []string
	for k, v := range holds {
		hs = append(hs, fmt.Sprintf("%s=%d", k, v))
	}
	sort.Strings(hs)
	return map[string]any{
		"rule":   "families n4-catchup:primary0..3:lag2..3 (pad blocks slide the primary; t1, t2 pooled everywhere): scripted prefix = validator L lags from the start (silent: silenced; late: payloads, transactions and blocks for it wait) while the other three produce D blocks; the lag ends between rounds / after the next PrepareRequest / after the next first Commit; then W default events (the oldest late payloads reach L), then ONE event blocks(K) hands K consecutive blocks to L's ledger while its consensus event loop is held in a timer call of the turn caused by the first block (reset), by its timer (timer) or by its oldest late payload (msg) or its oldest late Commit after the proposal and W-1 Commits overtook the PrepareResponses (commit), or inside service.Start of a restarted service before its loop subscribes (start), or one by one (seq, control); then the synchronous continuation for two more heights with the safety, accept, carry, liveness, recovery-conform, context-height (dBFT height = ledger height + 1 at every quiescent state) and participation (L broadcasts a payload of a later height) oracles",
		"bounds": map[string]any{"primaries": 4, "laggards": 4, "lag_D": "2, 3", "modes": "silent, late", "moments": "between, req, commit", "shapes_K": "reset3 timer2 msg2 commit2 start3 start2 start1 reset2 seq2 seq3 (K <= D; seq: K = D)", "warm_up_events_W": vk.Pick(r, "msg: 0..6, commit: 0..3, other shapes: 0", "0..6 (commit: 0..3)"), "prefix_cap_events": catchupPrefixCap},
		"specs":  len(jobs), "specs_run": int(nRun.Get()), "completed": !capped,
		"run_ends":                               ends,
		"runs_on_script":                         onScript,
		"runs_by_shape":                          byShape,
		"runs_off_script_by_reason":              offs,
		"runs_with_loop_held":                    engaged,
		"runs_with_two_blocks_landed_while_held": landed2,
		"held_in_timer_call":                     hs,
		"runs_degenerate_no_timer_call":          degenerate,
		"runs_where_laggard_assembled_a_block_that_had_landed_meanwhile": ownExists,
		"runs_where_laggard_committed_a_block_itself_before_the_event":   ownOK,
		"distinct_outcomes":                  outcomes.Len(),
		"events":                             int(steps.Get()),
		"prefix_events":                      int(prefixSteps.Get()),
		"longest_prefix":                     int(maxPrefix.Load()),
		"liveness_max_steps_observed":        int(maxLive.Load()),
		"conform_context_payloads_checked":   int(st.ctxChecked.Load()),
		"conform_recovery_messages_expanded": int(st.recExpanded.Load()),
	}
}
