// C19 extension: the recovery class. Everything that goes through
// RecoveryRequest / RecoveryMessage (compact payloads rebuilt into full ones)
// is out of reach of a search that stays within two deviations of the
// synchronous schedule: a recovery is only NEEDED after a split (some
// validators committed or changed view, the others were cut off), and a split
// takes many coordinated deviations. Three additions:
//
//  1. family "split": scripted adversarial prefixes (a set S of impaired
//     validators x the kinds of traffic that do not reach them x late / lost /
//     silent x view 0 or 1 x every primary index), followed by the bounded
//     synchronous continuation with the ordinary safety, carry and liveness
//     oracles. Exhaustive over the stated parameter space, reduced by a sound
//     equivalence (a kind that never occurs during the prefix is not held).
//  2. oracle "recovery-conform" on every state of those runs: every payload a
//     service holds in its dBFT context (also the ones REBUILT from a recovery
//     message) and every payload an independent expansion of a broadcast
//     RecoveryMessage yields must be byte-identical (hence same hash, same
//     valid signature) to the payload the named validator really broadcast.
//  3. family "recovery-algebra": RecoveryMessages built from real payloads
//     (all subsets of preparations, commits, change views; every sender; every
//     primary index; views 0 and 1; with and without StateRootInHeader),
//     serialised, parsed and expanded again.
package c19

import (
	"bytes"
	"fmt"
	"os"
	"sort"
	"strings"
	"sync"
	"sync/atomic"
	"testing"
	"time"

	"github.com/nspcc-dev/dbft"
	"github.com/nspcc-dev/neo-go/pkg/config/netmode"
	"github.com/nspcc-dev/neo-go/pkg/consensus"
	nio "github.com/nspcc-dev/neo-go/pkg/io"
	npayload "github.com/nspcc-dev/neo-go/pkg/network/payload"
	"github.com/nspcc-dev/neo-go/pkg/util"

	"verif/lib/netx"
	"verif/lib/vk"
)

// ---- traffic kinds ---------------------------------------------------------------------

const (
	kQ   = 1 << iota // PrepareRequest
	kR               // PrepareResponse
	kC               // Commit
	kV               // ChangeView
	kY               // RecoveryRequest, RecoveryMessage
	kT               // answers to transaction requests (always late, never lost)
	kAll = kQ | kR | kC | kV | kY | kT
)

const kindLetters = "QRCVYT"

func kindString(k int) string {
	if k == 0 {
		return "-"
	}
	var sb strings.Builder
	for i := 0; i < len(kindLetters); i++ {
		if k&(1<<i) != 0 {
			sb.WriteByte(kindLetters[i])
		}
	}
	return sb.String()
}

func popcount(k int) int {
	c := 0
	for ; k != 0; k &= k - 1 {
		c++
	}
	return c
}

// splitSpec is one scripted prefix.
type splitSpec struct {
	Prim  int    `json:"primary"`  // primary index of the first height (scenario n4-split:primary<Prim>)
	S     []int  `json:"impaired"` // impaired validators
	K     int    `json:"kinds"`    // traffic kinds that do not reach them during the prefix
	Mode  string `json:"mode"`     // late (delivered after the prefix, creation order) | lost | silent (the node is silenced, then resumed)
	View1 bool   `json:"view1"`    // the view-0 PrepareRequest of the first height is lost for everybody: the split happens in view 1
	L     int    `json:"timeouts"` // the prefix ends when every impaired validator's timer has fired L times (or a block exists, or nothing is enabled)
	Out   bool   `json:"out"`      // impaired direction: what S SENDS does not reach anybody (default: what S should RECEIVE)
	Iso   bool   `json:"isolated"` // every member of S is cut off on its own (default: S is one side of a partition, traffic inside S flows)
}

func (sp splitSpec) group() string {
	v := 0
	if sp.View1 {
		v = 1
	}
	dir := "in"
	if sp.Out {
		dir = "out"
	}
	var s strings.Builder
	for _, x := range sp.S {
		fmt.Fprintf(&s, "%d", x)
	}
	if sp.Iso {
		dir += "-iso"
	}
	return fmt.Sprintf("S%s:%s:%s:v%d:L%d", s.String(), dir, sp.Mode, v, sp.L)
}

func (sp splitSpec) String() string {
	return fmt.Sprintf("%s:K%s", sp.group(), kindString(sp.K))
}

type splitPolicy struct {
	sp      splitSpec
	inS     [8]bool
	fired   [8]int
	seen    int // kinds that were pending for the impaired side during the prefix
	silence int // silent mode: 0 = not yet silenced, 1 = silenced, 2 = resumed
	stopped bool
}

func newSplitPolicy(sp splitSpec) *splitPolicy {
	p := &splitPolicy{sp: sp}
	for _, x := range sp.S {
		p.inS[x] = true
	}
	return p
}

func kindOf(w *netx.World, it netx.Item) int {
	if it.K == netx.EvTxReq {
		return kT
	}
	switch w.Payloads[it.P].Type {
	case dbft.PrepareRequestType:
		return kQ
	case dbft.PrepareResponseType:
		return kR
	case dbft.CommitType:
		return kC
	case dbft.ChangeViewType:
		return kV
	default:
		return kY
	}
}

func (p *splitPolicy) target(w *netx.World, it netx.Item) bool {
	if it.K == netx.EvTxReq {
		return p.inS[it.N]
	}
	from := w.Payloads[it.P].From
	if !p.sp.Iso && p.inS[from] == p.inS[it.N] {
		return false // same side of the partition
	}
	if p.sp.Out {
		return p.inS[from]
	}
	return p.inS[it.N]
}

func (p *splitPolicy) held(w *netx.World, it netx.Item) bool {
	return p.sp.Mode != "silent" && p.target(w, it) && p.sp.K&kindOf(w, it) != 0
}

// next is the prefix policy (runOpts.prefix).
func (p *splitPolicy) next(w *netx.World) (*netx.Event, bool) {
	if p.stopped {
		return nil, false
	}
	stop := func() (*netx.Event, bool) {
		if p.silence == 1 {
			p.silence = 2
			return &netx.Event{K: netx.EvResume, N: p.sp.S[0]}, true
		}
		p.stopped = true
		return nil, false
	}
	h1 := w.H0() + 1
	if len(p.sp.S) == 0 {
		// no impaired set: the plain synchronous run (no prefix), or "view1"
		// alone: the prefix is over once nobody is left in view 0 of the first height
		v0 := false
		for _, n := range w.Nodes {
			if ctx := consensus.VerifContext(n.Svc); ctx != nil && ctx.BlockIndex == h1 && ctx.ViewNumber == 0 {
				v0 = true
			}
		}
		if !p.sp.View1 || !v0 {
			p.stopped = true
			return nil, false
		}
	}
	if p.sp.Mode == "silent" && p.silence == 0 {
		p.silence = 1
		return &netx.Event{K: netx.EvSilence, N: p.sp.S[0]}, true
	}
	if p.silence == 2 {
		return stop()
	}
	if _, mx := w.Heights(); mx > w.H0() {
		return stop()
	}
	all := len(p.sp.S) > 0
	for _, x := range p.sp.S {
		if p.fired[x] < p.sp.L {
			all = false
		}
	}
	if all {
		return stop()
	}
	pend := w.PendingSnapshot()
	// stage "view 1": the first proposal never arrives anywhere
	if p.sp.View1 {
		for _, it := range pend {
			if it.K == netx.EvDeliver {
				if pl := w.Payloads[it.P]; pl.Type == dbft.PrepareRequestType && pl.View == 0 && pl.Height == h1 {
					return &netx.Event{K: netx.EvDrop, P: it.P, N: it.N}, true
				}
			}
		}
	}
	for _, it := range pend {
		if p.target(w, it) {
			p.seen |= kindOf(w, it)
		}
	}
	if p.sp.Mode == "lost" {
		for _, it := range pend {
			if it.K == netx.EvDeliver && p.held(w, it) {
				return &netx.Event{K: netx.EvDrop, P: it.P, N: it.N}, true
			}
		}
	}
	var noBlock func(int) bool
	if p.sp.Mode != "silent" {
		noBlock = func(j int) bool { return p.inS[j] }
	}
	ev := w.DefaultHeld(func(it netx.Item) bool { return p.held(w, it) }, noBlock)
	if ev == nil {
		return stop()
	}
	if ev.K == netx.EvTimer && p.inS[ev.N] {
		p.fired[ev.N]++
	}
	return ev, true
}

// ---- the conformance oracle ---------------------------------------------------------------

type confStats struct {
	ctxChecked, ctxRebuilt    atomic.Int64
	recSeen, recExpanded      atomic.Int64
	reqs, resps, commits, cvs atomic.Int64
	cvReasonLost              atomic.Int64
	commitOtherView           atomic.Int64 // commits rebuilt from a recovery message whose own view is not the carrier's
	ctxCommitOtherView        atomic.Int64 // commit payloads held by a dBFT context of another view
	ctxCommitOtherViewRebuilt atomic.Int64 // ... rebuilt from a recovery message
	hashOnly                  atomic.Int64
	mu                        sync.Mutex
	rebuiltByType             map[string]int
	payloadsByType            map[string]int
}

func (c *confStats) typ(m map[string]int, k string) {
	c.mu.Lock()
	m[k]++
	c.mu.Unlock()
}

func newConfStats() *confStats {
	return &confStats{rebuiltByType: map[string]int{}, payloadsByType: map[string]int{}}
}

type origKey struct {
	t    dbft.MessageType
	h    uint32
	v    byte
	vidx uint16
}

// conformer checks one world (one run).
type conformer struct {
	st       *confStats
	magic    netmode.Magic
	srih     bool
	vals     []dbft.PublicKey
	orig     map[origKey][]*netx.Payload
	next     int
	seenObj  map[*consensus.Payload]bool
	seenOV   map[*consensus.Payload]bool // commits seen in a context of another view
	payloads []*netx.Payload             // the world's payload list as last seen (harvest)
	nRec     int
	nCV      int
	byType   [8]int // payloads broadcast in this run: Q R C V recovery-request recovery-message
}

func newConformer(st *confStats) *conformer {
	return &conformer{st: st, orig: map[origKey][]*netx.Payload{}, seenObj: map[*consensus.Payload]bool{}, seenOV: map[*consensus.Payload]bool{}}
}

func wireOf(p *consensus.Payload) []byte {
	cp := *p // the hash cache and the lazily encoded Data of the service's object stay untouched
	bw := nio.NewBufBinWriter()
	cp.EncodeBinary(bw.BinWriter)
	return bw.Bytes()
}

func decodePayload(magic netmode.Magic, srih bool, wire []byte) (*consensus.Payload, error) {
	p := consensus.NewPayload(magic, srih)
	br := nio.NewBinReaderFromBuf(bytes.Clone(wire))
	p.DecodeBinary(br)
	return p, br.Err
}

// dataOf returns the Data field of an Extensible given in wire form.
func dataOf(wire []byte) []byte {
	e := &npayload.Extensible{}
	br := nio.NewBinReaderFromBuf(bytes.Clone(wire))
	e.DecodeBinary(br)
	if br.Err != nil {
		return nil
	}
	return e.Data
}

const cvReasonOff = 1 + 4 + 1 + 1 + 8 // type, block index, validator, view, timestamp

// same compares a payload (rebuilt or not) with the originals the validator
// really broadcast for that type/height/view. Empty result = conforms.
func (c *conformer) same(p *consensus.Payload, where string) string {
	k := origKey{p.Type(), p.Height(), p.ViewNumber(), p.ValidatorIndex()}
	wire := wireOf(p)
	os := c.orig[k]
	desc := fmt.Sprintf("%s h%d v%d of validator %d", p.Type(), k.h, k.v, k.vidx)
	for _, o := range os {
		if bytes.Equal(o.Bytes, wire) {
			if k.t == dbft.ChangeViewType {
				// the new view number is not part of the wire form (it is derived from the view)
				if op, err := decodePayload(c.magic, c.srih, o.Bytes); err == nil && op.GetChangeView().NewViewNumber() != p.GetChangeView().NewViewNumber() {
					return fmt.Sprintf("%s: %s asks for view %d, the broadcast payload asks for view %d", where, desc, p.GetChangeView().NewViewNumber(), op.GetChangeView().NewViewNumber())
				}
			}
			return ""
		}
	}
	// (A Commit of another view inside a recovery message keeps its own view
	// number in the compact form and must come out with it: no tolerance.)
	if len(os) == 0 {
		return fmt.Sprintf("%s: %s was never broadcast by that validator", where, desc)
	}
	if k.t == dbft.ChangeViewType {
		// The compact form does not carry the reason (nor rejected hashes): a
		// ChangeView with a reason other than Timeout cannot be rebuilt with its
		// hash. Demand what the format can carry: timestamp, view, validator, sender, witness.
		data := dataOf(wire)
		for _, o := range os {
			od := dataOf(o.Bytes)
			if len(od) > cvReasonOff && len(data) > cvReasonOff && od[cvReasonOff] != byte(dbft.CVTimeout) &&
				bytes.Equal(od[:cvReasonOff], data[:cvReasonOff]) && data[cvReasonOff] == byte(dbft.CVTimeout) {
				op, err := decodePayload(c.magic, c.srih, o.Bytes)
				if err == nil && op.Sender == p.Sender && bytes.Equal(op.Witness.InvocationScript, p.Witness.InvocationScript) &&
					bytes.Equal(op.Witness.VerificationScript, p.Witness.VerificationScript) {
					c.st.cvReasonLost.Add(1)
					return ""
				}
			}
		}
	}
	// diagnose
	o := os[0]
	op, err := decodePayload(c.magic, c.srih, o.Bytes)
	if err != nil {
		return fmt.Sprintf("%s: original %s does not parse: %v", where, desc, err)
	}
	cp := *p
	var diffs []string
	if cp.Hash() != op.Hash() {
		diffs = append(diffs, fmt.Sprintf("hash %s, the broadcast payload has %s", cp.Hash().StringLE()[:16], op.Hash().StringLE()[:16]))
		if cp.Sender != op.Sender {
			diffs = append(diffs, "sender differs")
		}
		if cp.ValidBlockStart != op.ValidBlockStart || cp.ValidBlockEnd != op.ValidBlockEnd {
			diffs = append(diffs, "validity range differs")
		}
		if !bytes.Equal(dataOf(wire), op.Data) {
			diffs = append(diffs, fmt.Sprintf("message bytes differ (%x vs %x)", head(dataOf(wire), 12), head(op.Data, 12)))
		}
	}
	if !bytes.Equal(cp.Witness.InvocationScript, op.Witness.InvocationScript) {
		diffs = append(diffs, "invocation script (signature) differs")
	}
	if !bytes.Equal(cp.Witness.VerificationScript, op.Witness.VerificationScript) {
		diffs = append(diffs, "verification script differs")
	}
	if len(diffs) == 0 {
		diffs = append(diffs, "wire form differs")
	}
	return fmt.Sprintf("%s: %s is not the payload that validator broadcast: %s", where, desc, strings.Join(diffs, "; "))
}

func head(b []byte, n int) []byte {
	if len(b) > n {
		return b[:n]
	}
	return b
}

func pubsOf(w *netx.World) []dbft.PublicKey {
	vals, err := w.Nodes[0].C.BC.GetNextBlockValidators()
	if err != nil {
		return nil
	}
	out := make([]dbft.PublicKey, len(vals))
	for i := range vals {
		out[i] = vals[i]
	}
	return out
}

// check is the runOpts.after hook.
func (c *conformer) check(w *netx.World) (ps []netx.Problem) {
	if c.vals == nil {
		cfg := w.Nodes[0].C.BC.GetConfig()
		c.magic, c.srih = cfg.Magic, cfg.StateRootInHeader
		c.vals = pubsOf(w)
	}
	bad := func(s string) {
		if s != "" && len(ps) < 4 {
			ps = append(ps, netx.Problem{Oracle: "recovery-conform", Text: s})
		}
	}
	defer func() {
		if r := recover(); r != nil {
			bad(fmt.Sprintf("panic while expanding a recovery message: %v", r))
		}
	}()
	first := c.next
	c.payloads = w.Payloads
	for ; c.next < len(w.Payloads); c.next++ {
		p := w.Payloads[c.next]
		c.st.typ(c.st.payloadsByType, p.Type.String())
		switch p.Type {
		case dbft.PrepareRequestType:
			c.byType[0]++
		case dbft.PrepareResponseType:
			c.byType[1]++
		case dbft.CommitType:
			c.byType[2]++
		case dbft.ChangeViewType:
			c.byType[3]++
		}
		switch p.Type {
		case dbft.RecoveryMessageType:
			c.nRec++
			c.byType[5]++
		case dbft.RecoveryRequestType:
			c.byType[4]++
		default:
			if p.Type == dbft.ChangeViewType {
				c.nCV++
			}
			k := origKey{p.Type, p.Height, p.View, p.VIdx}
			c.orig[k] = append(c.orig[k], p)
		}
	}
	// independent expansion of every RecoveryMessage that was broadcast
	for i := first; i < len(w.Payloads); i++ {
		p := w.Payloads[i]
		if p.Type != dbft.RecoveryMessageType {
			continue
		}
		c.st.recSeen.Add(1)
		bad(c.expand(p.Bytes, fmt.Sprintf("RecoveryMessage p%d (h%d v%d from %d)", p.ID, p.Height, p.View, p.From)))
	}
	// what the services hold
	for _, n := range w.Nodes {
		if n.Dead {
			continue
		}
		ctx := consensus.VerifContext(n.Svc)
		if ctx == nil {
			continue
		}
		for ai, arr := range [][]dbft.ConsensusPayload[util.Uint256]{ctx.PreparationPayloads, ctx.CommitPayloads, ctx.ChangeViewPayloads, ctx.LastChangeViewPayloads} {
			for slot, x := range arr {
				if x == nil {
					continue
				}
				cp, ok := x.(*consensus.Payload)
				if ok && ai == 1 && cp.Height() == ctx.BlockIndex && cp.ViewNumber() != ctx.ViewNumber && !c.seenOV[cp] {
					c.seenOV[cp] = true
					c.st.ctxCommitOtherView.Add(1)
					if cp.Extensible.Data == nil {
						c.st.ctxCommitOtherViewRebuilt.Add(1)
					}
				}
				if !ok || c.seenObj[cp] {
					continue
				}
				c.seenObj[cp] = true
				c.st.ctxChecked.Add(1)
				if cp.Extensible.Data == nil {
					c.st.ctxRebuilt.Add(1)
					c.st.typ(c.st.rebuiltByType, cp.Type().String())
				}
				where := fmt.Sprintf("node %d context (%s slot %d)", n.Idx, [...]string{"preparations", "commits", "change views", "last change views"}[ai], slot)
				if int(cp.ValidatorIndex()) != slot {
					bad(fmt.Sprintf("%s holds a payload of validator %d", where, cp.ValidatorIndex()))
					continue
				}
				if cp.Height() != ctx.BlockIndex {
					continue // the context is being reset; checked when it was current
				}
				bad(c.same(cp, where))
			}
		}
	}
	return ps
}

// elemOf: what dBFT hands to OnReceive must be a payload of the kind asked for
// (a nil element is dereferenced on the consensus event loop).
func elemOf(x dbft.ConsensusPayload[util.Uint256], want dbft.MessageType) (*consensus.Payload, string) {
	if x == nil {
		return nil, "is nil (dBFT passes every element to OnReceive: nil dereference on the consensus event loop)"
	}
	xp, ok := x.(*consensus.Payload)
	if !ok || xp == nil {
		return nil, "is a nil or foreign payload"
	}
	if xp.Payload() == nil {
		return nil, "has no message body"
	}
	if xp.Type() != want {
		return nil, fmt.Sprintf("is a %s, not a %s", xp.Type(), want)
	}
	return xp, ""
}

// expand parses a RecoveryMessage from its wire form and checks everything
// that can be rebuilt from it against the broadcast originals.
func (c *conformer) expand(wire []byte, where string) string {
	p, err := decodePayload(c.magic, c.srih, wire)
	if err != nil {
		return fmt.Sprintf("%s does not parse: %v", where, err)
	}
	rec := p.GetRecoveryMessage()
	n := len(c.vals)
	if n == 0 {
		return ""
	}
	c.st.recExpanded.Add(1)
	primary := uint16((int(p.Height())%n - int(p.ViewNumber())%n + n) % n)
	if req := rec.GetPrepareRequest(p, c.vals, primary); req != nil {
		c.st.reqs.Add(1)
		rp := req.(*consensus.Payload)
		if s := c.same(rp, where+" -> PrepareRequest"); s != "" {
			return s
		}
	}
	if ph := rec.PreparationHash(); ph != nil {
		for _, o := range c.orig[origKey{dbft.PrepareRequestType, p.Height(), p.ViewNumber(), primary}] {
			op, err := decodePayload(c.magic, c.srih, o.Bytes)
			if err == nil && op.Hash() != *ph {
				return fmt.Sprintf("%s: preparation hash %s, the PrepareRequest of validator %d has %s", where, ph.StringLE()[:16], primary, op.Hash().StringLE()[:16])
			}
		}
		for i, r := range rec.GetPrepareResponses(p, c.vals) {
			rp, bad := elemOf(r, dbft.PrepareResponseType)
			if bad != "" {
				return fmt.Sprintf("%s -> PrepareResponse: element %d %s", where, i, bad)
			}
			if rp.ValidatorIndex() == primary {
				continue // the primary's entry is the request's signature; dBFT ignores a response of the primary
			}
			c.st.resps.Add(1)
			if s := c.same(rp, where+" -> PrepareResponse"); s != "" {
				return s
			}
		}
	}
	for i, x := range rec.GetCommits(p, c.vals) {
		xp, bad := elemOf(x, dbft.CommitType)
		if bad != "" {
			return fmt.Sprintf("%s -> Commit: element %d %s", where, i, bad)
		}
		c.st.commits.Add(1)
		if xp.ViewNumber() != p.ViewNumber() {
			c.st.commitOtherView.Add(1)
		}
		if s := c.same(xp, where+" -> Commit"); s != "" {
			return s
		}
	}
	for i, x := range rec.GetChangeViews(p, c.vals) {
		xp, bad := elemOf(x, dbft.ChangeViewType)
		if bad != "" {
			return fmt.Sprintf("%s -> ChangeView: element %d %s", where, i, bad)
		}
		c.st.cvs.Add(1)
		if s := c.same(xp, where+" -> ChangeView"); s != "" {
			return s
		}
	}
	return ""
}

// ---- the split family ---------------------------------------------------------------------

type splitFamily struct {
	scens   map[int]*scen // by primary index
	stats   *confStats
	results map[string]any
}

func splitScenName(prim int) string { return fmt.Sprintf("n4-split:primary%d", prim) }

// splitScens adds the four scenarios (one per primary index of the first
// height) to the list; they take no part in the deviation levels.
func splitScens(fam *netx.Setup, tag string, heights int) []*scen {
	var out []*scen
	for pad := 0; pad < 4 && pad <= len(fam.Pads); pad++ {
		prim := (int(fam.H0) + pad + 1) % 4
		all4 := []int{0, 1, 2, 3}
		out = append(out, &scen{setup: fam, maxBound: -1, maxSil: 1, split: true, prim: prim, Scenario: netx.Scenario{
			Name: splitScenName(prim) + tag, Family: fam.Fam.Name, Heights: heights, Pad: pad,
			// t0 only at the first primary (every backup has to fetch it), t1 only at the second one
			TxAt: map[string][]int{"t2": all4, "t0": {prim}, "t1": {(prim + 1) % 4}},
		}})
	}
	return out
}

func subsetsOf(n, minSize, maxSize int) [][]int {
	var out [][]int
	for sz := minSize; sz <= maxSize; sz++ {
		for m := 0; m < 1<<n; m++ {
			if popcount(m) != sz {
				continue
			}
			var s []int
			for i := 0; i < n; i++ {
				if m&(1<<i) != 0 {
					s = append(s, i)
				}
			}
			out = append(out, s)
		}
	}
	return out
}

type splitJob struct {
	sc *scen
	sp splitSpec
}

// splitGroups lists the groups (everything but the kinds mask) of the tier.
func splitGroups(r *vk.Run, scs []*scen) []splitJob {
	var out []splitJob
	full := r.Thorough() || os.Getenv("C19_SPLIT_L") == "2" // the env is a development aid
	// quick slice of the L dimension: "lost" with one timeout; "late" (nothing is
	// ever lost) with one timeout for a single impaired validator and two
	// timeouts for a pair (one timeout of a pair heals as soon as the late
	// traffic arrives: the second one is what makes recovery NECESSARY); silent
	// with one timeout. thorough: L = 1 and 2 everywhere.
	inTier := func(mode string, nS, L int) bool {
		if full {
			return true
		}
		switch mode {
		case "late":
			return (nS == 1 && L == 1) || (nS > 1 && L == 2)
		default:
			return L == 1
		}
	}
	maxS := vk.Pick(r, 2, 3)
	dirs := vk.Pick(r, []bool{false}, []bool{false, true})
	for _, sc := range scs {
		if !sc.split || sc.xview || sc.catchup || sc.reqtx || (sc.deep && !r.Thorough()) {
			continue
		}
		for _, v1 := range []bool{false, true} {
			for L := 1; L <= 2; L++ {
				for _, S := range subsetsOf(4, 1, maxS) {
					for _, mode := range []string{"late", "lost"} {
						if m := os.Getenv("C19_SPLIT_MODE"); (m != "" && m != mode) || !inTier(mode, len(S), L) { // the env is a development aid
							continue
						}
						for _, out_ := range dirs {
							if len(S) == 3 && out_ {
								continue // three impaired validators: only as the big side of a partition, receiving direction
							}
							out = append(out, splitJob{sc, splitSpec{Prim: sc.prim, S: S, Mode: mode, View1: v1, L: L, Out: out_}})
							if len(S) == 2 {
								out = append(out, splitJob{sc, splitSpec{Prim: sc.prim, S: S, Mode: mode, View1: v1, L: L, Out: out_, Iso: true}})
							}
						}
					}
					if len(S) == 1 && inTier("silent", 1, L) {
						out = append(out, splitJob{sc, splitSpec{Prim: sc.prim, S: S, Mode: "silent", View1: v1, L: L, K: kAll}})
					}
				}
			}
		}
	}
	return out
}

func runSplit(t *testing.T, sc *scen, sp splitSpec, st *confStats) (*result, *splitPolicy, *conformer) {
	pol := newSplitPolicy(sp)
	cf := newConformer(st)
	after := cf.check
	if os.Getenv("C19_NOCONFORM") != "" { // development aid: what do safety/carry/liveness see on their own?
		after = func(w *netx.World) []netx.Problem { cf.check(w); return nil }
	}
	res := run(t, sc, Sched{Scen: sc.Name}, runOpts{prefix: pol.next, after: after})
	return res, pol, cf
}

// exploreSplits runs the family. Masks are processed by size; a mask K+x is
// skipped when the run for K never saw traffic of kind x towards the impaired
// side during its prefix (the two executions are identical).
func exploreSplits(t *testing.T, r *vk.Run, scs []*scen, running *sync.Map) map[string]any {
	st := newConfStats()
	groups := splitGroups(r, scs)
	type gstate struct {
		seen map[int]int // mask -> kinds seen (own run or the run it is equivalent to)
	}
	gs := make([]gstate, len(groups))
	for i := range gs {
		gs[i].seen = map[int]int{}
	}
	var mu sync.Mutex
	var nRun, nSkip, nEnum, steps, prefixSteps vk.Counter
	var maxLive, maxPrefix atomic.Int64
	outcomes := vk.NewSet()
	traffic := vk.NewSet()
	ends := map[string]int{}
	byMode := map[string]int{}
	withRec, withCV, view1Blocks := 0, 0, 0
	primSeen := map[string]int{}
	capped := false
	for level := 0; level <= 6 && !capped; level++ {
		type job struct {
			g int
			k int
		}
		var jobs []job
		for gi, g := range groups {
			if g.sp.Mode == "silent" {
				if level == 0 {
					jobs = append(jobs, job{gi, kAll})
					nEnum.Inc()
				}
				continue
			}
			for k := 0; k <= kAll; k++ {
				if popcount(k) != level {
					continue
				}
				nEnum.Inc()
				skip := false
				for x := 1; x <= kAll && !skip; x <<= 1 {
					if k&x == 0 {
						continue
					}
					if s, ok := gs[gi].seen[k&^x]; ok && s&x == 0 {
						gs[gi].seen[k] = s
						skip = true
					}
				}
				if skip {
					nSkip.Inc()
					continue
				}
				jobs = append(jobs, job{gi, k})
			}
		}
		done := r.Parallel(len(jobs), func(i int) {
			j := jobs[i]
			g := groups[j.g]
			sp := g.sp
			sp.K = j.k
			key := g.sc.Name + "|" + sp.String()
			fdone := inflightBegin(probeRec{Kind: "split", Scen: g.sc.Name, Split: &sp})
			running.Store(key, time.Now())
			res, pol, cf := runSplit(t, g.sc, sp, st)
			running.Delete(key)
			fdone()
			if res.End == "error" {
				fmt.Println("CHECK-ERROR: split", key, "could not be executed:", res.Err)
				os.Exit(3)
			}
			nRun.Inc()
			steps.Add(res.Steps)
			prefixSteps.Add(res.PrefixLen)
			for {
				cur := maxLive.Load()
				if int64(res.MaxLive) <= cur || maxLive.CompareAndSwap(cur, int64(res.MaxLive)) {
					break
				}
			}
			for {
				cur := maxPrefix.Load()
				if int64(res.PrefixLen) <= cur || maxPrefix.CompareAndSwap(cur, int64(res.PrefixLen)) {
					break
				}
			}
			rec, cv := "noRecovery", "noCV"
			if cf.nRec > 0 {
				rec = "recovery"
			}
			if cf.nCV > 0 {
				cv = "CV"
			}
			outcomes.Add(fmt.Sprintf("%s|%s|%v|%s|%s", g.sc.Name, res.End, res.Blocks, rec, cv))
			traffic.Add(fmt.Sprintf("%s|%v|%v", g.sc.Name, res.Blocks, cf.byType))
			mu.Lock()
			gs[j.g].seen[j.k] = pol.seen
			ends[res.End]++
			byMode[sp.Mode]++
			if cf.nRec > 0 {
				withRec++
			}
			if cf.nCV > 0 {
				withCV++
			}
			for _, b := range res.Blocks {
				if i := strings.Index(b, ":view"); i >= 0 {
					primSeen[b[i+1:strings.LastIndex(b, ":")]]++
					if !strings.HasPrefix(b[i+1:], "view0") {
						view1Blocks++
					}
				}
			}
			mu.Unlock()
			seen := map[string]bool{}
			for _, p := range res.Problems {
				if seen[p.Oracle] {
					continue
				}
				seen[p.Oracle] = true
				n := min(p.Step+1, len(res.Events))
				if n < res.PrefixLen && (p.Oracle == "liveness") {
					n = res.PrefixLen
				}
				rec := caseRec{Oracle: p.Oracle, Scenario: g.sc.Name, N: 4, Schedule: sp.String(), Events: res.Events[:n], AtStep: p.Step, Text: p.Text, Log: tail(res.Log, 80), Split: &sp}
				r.Violation(fmt.Sprintf("%s:split:%s:%s", p.Oracle, g.sc.Name, sp.String()), rec)
			}
			if res.End == "done" && sp.K != 0 {
				r.Sample(map[string]any{"scenario": g.sc.Name, "split": sp.String(), "prefix_events": res.PrefixLen, "events": len(res.Events), "blocks": res.Blocks, "recovery_messages": cf.nRec})
			}
		})
		if done != len(jobs) || r.IsCapped() {
			capped = true
		}
	}
	// determinism self-check: one scripted run with a long prefix, twice
	if len(groups) > 0 && !capped {
		g := groups[len(groups)/2]
		sp := g.sp
		sp.K = kR | kC | kV
		a, _, _ := runSplit(t, g.sc, sp, newConfStats())
		b, _, _ := runSplit(t, g.sc, sp, newConfStats())
		if normLog(a.Log) != normLog(b.Log) || fmt.Sprint(a.Blocks) != fmt.Sprint(b.Blocks) {
			fmt.Println("CHECK-ERROR: nondeterministic scripted run", g.sc.Name, sp.String())
			os.Exit(3)
		}
	}
	var prims []string
	for k, v := range primSeen {
		prims = append(prims, fmt.Sprintf("%s=%d", k, v))
	}
	sort.Strings(prims)
	st.mu.Lock()
	defer st.mu.Unlock()
	return map[string]any{
		"rule":                                          "families n4-split:primary0..3 (pad blocks slide the primary; t0 pooled only at the first primary, t1 only at the second): scripted prefix = synchronous default schedule in which traffic of the kinds K (Q PrepareRequest, R PrepareResponse, C Commit, V ChangeView, Y RecoveryRequest+RecoveryMessage, T transaction replies) does not reach the impaired set S (late: delivered after the prefix; lost: dropped; T is always late) and no block is handed to S; silent: the node is silenced, then resumed; view1: the first PrepareRequest is lost for everybody; the prefix ends when every member of S has timed out L times, or a block exists, or nothing is enabled; then the synchronous continuation with the safety, carry, liveness and recovery-conform oracles. All S with 1..maxS members x all 64 masks K x modes x view 0/1 x L; a mask K+x is skipped iff the run for K saw no traffic of kind x towards S (identical executions)",
		"bounds":                                        map[string]any{"impaired_set_sizes": []int{1, vk.Pick(r, 2, 3)}, "timeouts_L": vk.Pick(r, "lost, silent: 1; late: 1 (single impaired validator), 2 (pair)", "1, 2"), "directions": vk.Pick(r, "in", "in,out"), "heights": vk.Pick(r, 2, 3)},
		"groups":                                        len(groups),
		"specs_enumerated":                              int(nEnum.Get()),
		"specs_run":                                     int(nRun.Get()),
		"specs_skipped_as_identical":                    int(nSkip.Get()),
		"completed":                                     !capped,
		"runs_by_mode":                                  byMode,
		"run_ends":                                      ends,
		"distinct_outcomes":                             outcomes.Len(),
		"distinct_traffic_signatures":                   traffic.Len(),
		"runs_with_recovery_messages":                   withRec,
		"runs_with_change_views":                        withCV,
		"blocks_by_view_and_primary":                    prims,
		"blocks_made_above_view0":                       view1Blocks,
		"events":                                        int(steps.Get()),
		"prefix_events":                                 int(prefixSteps.Get()),
		"longest_prefix":                                int(maxPrefix.Load()),
		"liveness_max_steps_observed":                   int(maxLive.Load()),
		"payloads_broadcast_by_type":                    st.payloadsByType,
		"conform_context_payloads_checked":              int(st.ctxChecked.Load()),
		"conform_context_payloads_rebuilt":              int(st.ctxRebuilt.Load()),
		"conform_rebuilt_in_context_by_type":            st.rebuiltByType,
		"conform_recovery_messages_expanded":            int(st.recExpanded.Load()),
		"conform_expanded_prepare_requests":             int(st.reqs.Load()),
		"conform_expanded_prepare_responses":            int(st.resps.Load()),
		"conform_expanded_commits":                      int(st.commits.Load()),
		"conform_expanded_change_views":                 int(st.cvs.Load()),
		"conform_change_view_reason_not_kept":           int(st.cvReasonLost.Load()),
		"conform_expanded_commits_of_other_view":        int(st.commitOtherView.Load()),
		"conform_context_commits_of_other_view":         int(st.ctxCommitOtherView.Load()),
		"conform_context_commits_of_other_view_rebuilt": int(st.ctxCommitOtherViewRebuilt.Load()),
	}
}
