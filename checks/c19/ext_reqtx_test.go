package c19

// Family reqtx (round 5): "differing mempools" through the REAL network.Server.
//
// In every other family the harness itself plays the node's Server between
// "dBFT asks for the transactions of the proposal it misses" and "a
// transaction arrives" (a map of wanted hashes). Here every validator's
// service is wired to a real network.Server (lib/netx/ext_c19_server.go):
// dBFT's RequestTx(MissingTransactions...) goes to (*Server).RequestTx with the
// very slice dBFT passes, StopTxFlow to (*Server).StopTxFlow, and an incoming
// transaction goes through handleTxCmd -> txHandlerLoop -> request-list lookup
// -> consensus OnTransaction -> PoolTx.
//
// Case = primary of the height x which backups miss (one / all three) x k = 1..3
// transactions of the proposal missing there x every order of delivering them
// x whether they can enter the backup's own pool (plain / a pooled conflicting
// transaction of the same sender with a higher fee / a pooled transaction of
// the same sender that leaves no funds) x an extra (every requested transaction
// twice; an unrequested transaction before / between; the first one relayed
// before the proposal arrives; a requested one once more after the answer).
//
// Oracles: all of run()'s (agreement, accept, carry, liveness after the
// prefix, recovery-conform, context-height) plus, in lib/netx:
//   requested-tx        a transaction the service asked for, delivered to the
//                       server while the request is in force (and not pooled
//                       already), reaches the service exactly once
//   requested-response  once everything asked for has been delivered the
//                       backup has answered the proposal (PrepareResponse, or
//                       ChangeView)

import (
	"encoding/json"
	"fmt"
	"os"
	"sort"
	"strings"
	"sync"
	"testing"
	"time"

	"verif/lib/netx"
	"verif/lib/vk"
)

type reqSpec struct {
	Prim  int    `json:"primary"`
	Who   string `json:"who"`   // one | all
	K     int    `json:"k"`     // transactions of the proposal the backups miss: t1..tK
	Mode  string `json:"mode"`  // plain | conflict | funds
	Order []int  `json:"order"` // delivery order (permutation of 1..K: catalogue t<i>)
	Extra string `json:"extra"` // none | dup | unreq-first | unreq-mid | pre | late
}

func (sp reqSpec) String() string {
	var o []string
	for _, x := range sp.Order {
		o = append(o, fmt.Sprint(x))
	}
	return fmt.Sprintf("order%s:%s", strings.Join(o, ""), sp.Extra)
}

const reqPrefixCap = 120

var (
	reqModes  = []string{"plain", "conflict", "funds"}
	reqWhos   = []string{"one", "all"}
	reqExtras = []string{"none", "dup", "unreq-first", "unreq-mid", "pre", "late"}
)

func reqScenName(prim int, who string, k int, mode string) string {
	return fmt.Sprintf("n4-reqtx:primary%d:%s:k%d:%s", prim, who, k, mode)
}

func reqMissing(prim int, who string) []int {
	if who == "one" {
		return []int{(prim + 1) % 4}
	}
	return []int{(prim + 1) % 4, (prim + 2) % 4, (prim + 3) % 4}
}

// reqScens: one scenario per primary, set of backups that miss, k and mode.
// t0 is pooled everywhere (the proposal is a proper superset of what is
// missing); t1..tK at the primary and at the backups that miss nothing; the
// backups that miss hold the blockers of the mode.
func reqScens(fam *netx.Setup) []*scen {
	var out []*scen
	all4 := []int{0, 1, 2, 3}
	for pad := 0; pad < 4 && pad <= len(fam.Pads); pad++ {
		prim := (int(fam.H0) + pad + 1) % 4
		for _, who := range reqWhos {
			miss := reqMissing(prim, who)
			var have []int
			for _, n := range all4 {
				m := false
				for _, x := range miss {
					m = m || x == n
				}
				if !m {
					have = append(have, n)
				}
			}
			for k := 1; k <= 3; k++ {
				for _, mode := range reqModes {
					at := map[string][]int{"t0": all4}
					for i := 1; i <= k; i++ {
						at[fmt.Sprintf("t%d", i)] = have
						switch mode {
						case "conflict":
							at[fmt.Sprintf("x%d", i)] = miss
						case "funds":
							at[fmt.Sprintf("y%d", i)] = miss
						}
					}
					out = append(out, &scen{setup: fam, maxBound: -1, maxSil: 1, split: true, reqtx: true, prim: prim, Scenario: netx.Scenario{
						Name: reqScenName(prim, who, k, mode), Family: fam.Fam.Name, Heights: 2, Pad: pad, TxAt: at, Server: all4,
					}})
				}
			}
		}
	}
	return out
}

func perms(k int) [][]int {
	var out [][]int
	var rec func(cur []int, used int)
	rec = func(cur []int, used int) {
		if len(cur) == k {
			out = append(out, append([]int{}, cur...))
			return
		}
		for i := 1; i <= k; i++ {
			if used&(1<<i) == 0 {
				rec(append(cur, i), used|1<<i)
			}
		}
	}
	rec(nil, 0)
	return out
}

type reqPolicy struct {
	sp      reqSpec
	miss    []int
	queue   []netx.Event
	preDone int
	done    map[int]int // node -> requested deliveries made
	first   map[int]int // node -> catalogue index delivered first
	served  int
}

func (p *reqPolicy) isMiss(n int) bool {
	for _, x := range p.miss {
		if x == n {
			return true
		}
	}
	return false
}

func catIndex(w *netx.World, name string) int {
	for i, t := range w.S.Txs {
		if t.Name == name {
			return i
		}
	}
	return -1
}

// next: the synchronous default schedule, except that the transactions a
// missing backup asked for reach it in the spec's order, with the extra's
// deliveries around them. The scripted prefix ends with the first block.
func (p *reqPolicy) next(w *netx.World) (*netx.Event, bool) {
	if len(p.queue) > 0 {
		ev := p.queue[0]
		p.queue = p.queue[1:]
		return &ev, true
	}
	if p.sp.Extra == "pre" && p.preDone < len(p.miss) {
		n := p.miss[p.preDone]
		p.preDone++
		return &netx.Event{K: netx.EvGossip, T: catIndex(w, fmt.Sprintf("t%d", p.sp.Order[0])), N: n}, true
	}
	if len(w.Commits) > 0 {
		return nil, false
	}
	def := w.Default()
	if def == nil {
		return nil, false
	}
	if def.K != netx.EvTxReq || !p.isMiss(def.N) {
		return def, true
	}
	n := def.N
	pend := w.PendingTxReqs(n)
	ti := -1
	for _, o := range p.sp.Order {
		c := catIndex(w, fmt.Sprintf("t%d", o))
		for _, x := range pend {
			if x == c && ti < 0 {
				ti = c
			}
		}
	}
	if ti < 0 {
		return def, true // something else was asked for: not this family's business
	}
	i := p.done[n]
	p.done[n]++
	p.served++
	if i == 0 {
		p.first[n] = ti
	}
	u0 := catIndex(w, "u0")
	var evs []netx.Event
	if p.sp.Extra == "unreq-first" && i == 0 {
		evs = append(evs, netx.Event{K: netx.EvGossip, T: u0, N: n})
	}
	evs = append(evs, netx.Event{K: netx.EvTxReq, T: ti, N: n})
	if p.sp.Extra == "dup" {
		evs = append(evs, netx.Event{K: netx.EvGossip, T: ti, N: n})
	}
	if p.sp.Extra == "unreq-mid" && i == 0 {
		evs = append(evs, netx.Event{K: netx.EvGossip, T: u0, N: n})
	}
	if p.sp.Extra == "late" && len(pend) == 1 {
		evs = append(evs, netx.Event{K: netx.EvGossip, T: p.first[n], N: n})
	}
	p.queue = evs[1:]
	return &evs[0], true
}

type reqObs struct {
	requests, stops int
	ds              []netx.SrvDelivery
}

func runReqTx(t *testing.T, sc *scen, sp reqSpec, st *confStats) (*result, *reqPolicy, *reqObs) {
	pol := &reqPolicy{sp: sp, miss: reqMissing(sp.Prim, sp.Who), done: map[int]int{}, first: map[int]int{}}
	cf := newConformer(st)
	obs := &reqObs{}
	after := func(w *netx.World) []netx.Problem {
		ps := cf.check(w)
		obs.requests, obs.stops, obs.ds = w.SrvStats()
		return ps
	}
	res := run(t, sc, Sched{Scen: sc.Name}, runOpts{prefix: pol.next, after: after, maxPrefix: reqPrefixCap})
	return res, pol, obs
}

type reqJob struct {
	sc *scen
	sp reqSpec
}

func reqJobs(r *vk.Run, scs []*scen) []reqJob {
	var out []reqJob
	// simplest first: k ascending, extras in menu order
	for k := 1; k <= 3; k++ {
		for _, sc := range scs {
			if !sc.reqtx {
				continue
			}
			var who, mode string
			var kk, prim int
			parts := strings.Split(sc.Name, ":")
			fmt.Sscanf(parts[1], "primary%d", &prim)
			who = parts[2]
			fmt.Sscanf(parts[3], "k%d", &kk)
			mode = parts[4]
			if kk != k {
				continue
			}
			for _, extra := range reqExtras {
				for _, o := range perms(k) {
					out = append(out, reqJob{sc, reqSpec{Prim: prim, Who: who, K: k, Mode: mode, Order: o, Extra: extra}})
				}
			}
		}
	}
	return out
}

func exploreReqTx(t *testing.T, r *vk.Run, scs []*scen, running *sync.Map) map[string]any {
	st := newConfStats()
	jobs := reqJobs(r, scs)
	only := os.Getenv("C19_REQTX_ONLY") // development aid: substring of scenario|spec
	var mu sync.Mutex
	var nRun, steps, deliveries, viaCb, refusedByPool, dropped, unreqCb, requests vk.Counter
	outcomes := vk.NewSet()
	classes := map[string]bool{}
	ends := map[string]int{}
	maxMissing := 0
	nondet := 0
	done := r.Parallel(len(jobs), func(i int) {
		j := jobs[i]
		key := "reqtx|" + j.sc.Name + "|" + j.sp.String()
		if only != "" && !strings.Contains(key, only) {
			return
		}
		fdone := inflightBegin(probeRec{Kind: "reqtx", Scen: j.sc.Name, ReqTx: &j.sp})
		running.Store(key, time.Now())
		res, pol, obs := runReqTx(t, j.sc, j.sp, st)
		running.Delete(key)
		fdone()
		if os.Getenv("C19_REQTX_DET") != "" { // development aid: every spec twice, logs compared
			again, _, _ := runReqTx(t, j.sc, j.sp, newConfStats())
			if normLog(again.Log) != normLog(res.Log) {
				mu.Lock()
				nondet++
				if nondet <= 3 {
					fmt.Println("nondeterministic:", key)
					logDiff(res.Log, again.Log)
				}
				mu.Unlock()
			}
		}
		if res.End == "error" {
			fmt.Println("CHECK-ERROR: reqtx", key, "could not be executed:", res.Err)
			os.Exit(3)
		}
		nRun.Inc()
		steps.Add(res.Steps)
		requests.Add(obs.requests)
		var sig []string
		for _, d := range obs.ds {
			deliveries.Inc()
			cl := fmt.Sprintf("requested=%v/in-list=%v/pooled-before=%v/callback=%d/pooled-after=%v", d.Requested, d.InList, d.Pooled, d.Calls, d.Entered)
			mu.Lock()
			classes[cl] = true
			mu.Unlock()
			r.Outcome("reqtx:delivery:" + cl)
			sig = append(sig, fmt.Sprintf("%d:%s:%s", d.Node, d.Tx, cl))
			if d.Calls > 0 && d.Requested {
				viaCb.Inc()
				if !d.Entered {
					refusedByPool.Inc()
				}
			}
			if d.Pooled {
				dropped.Inc()
			}
			if d.Calls > 0 && !d.InList {
				unreqCb.Inc()
			}
		}
		outcomes.Add(fmt.Sprintf("%s|%s|%v|%v", j.sc.Name, res.End, res.Blocks, sig))
		r.Outcome("reqtx:end:" + res.End)
		mu.Lock()
		ends[res.End]++
		if pol.served > maxMissing {
			maxMissing = pol.served
		}
		mu.Unlock()
		if pol.served == 0 && res.End == "done" && !(j.sp.Extra == "pre" && j.sp.Mode == "plain" && j.sp.K == 1) {
			fmt.Println("CHECK-ERROR: reqtx", key, ": no backup ever asked for a transaction (the family is off its script)")
			os.Exit(3)
		}
		seen := map[string]bool{}
		for _, p := range res.Problems {
			if seen[p.Oracle] {
				continue
			}
			seen[p.Oracle] = true
			n := min(p.Step+1, len(res.Events))
			if n < res.PrefixLen && p.Oracle == "liveness" {
				n = res.PrefixLen
			}
			sp := j.sp
			rec := caseRec{Oracle: p.Oracle, Scenario: j.sc.Name, N: 4, Schedule: sp.String(), Events: res.Events[:n], AtStep: p.Step, Text: p.Text, Log: tail(res.Log, 80), ReqTx: &sp}
			r.Violation(fmt.Sprintf("%s:reqtx:%s:%s", p.Oracle, j.sc.Name, sp.String()), rec)
		}
		if res.End == "done" && i%97 == 0 {
			r.Sample(map[string]any{"scenario": j.sc.Name, "reqtx": j.sp.String(), "prefix_events": res.PrefixLen, "events": len(res.Events), "blocks": res.Blocks, "server_deliveries": len(obs.ds)})
		}
	})
	capped := done != len(jobs) || r.IsCapped()
	if os.Getenv("C19_REQTX_DET") != "" {
		fmt.Println("reqtx determinism aid:", nondet, "of", len(jobs), "specs gave another log the second time")
	}
	if len(jobs) > 0 && !capped && only == "" {
		for _, j := range []reqJob{jobs[0], jobs[len(jobs)-1]} {
			a, _, _ := runReqTx(t, j.sc, j.sp, newConfStats())
			b, _, _ := runReqTx(t, j.sc, j.sp, newConfStats())
			if normLog(a.Log) != normLog(b.Log) || fmt.Sprint(a.Blocks) != fmt.Sprint(b.Blocks) {
				fmt.Println("CHECK-ERROR: nondeterministic scripted run", j.sc.Name, j.sp.String())
				logDiff(a.Log, b.Log)
				os.Exit(3)
			}
		}
	}
	var cls []string
	for k := range classes {
		cls = append(cls, k)
	}
	sort.Strings(cls)
	return map[string]any{
		"rule":      "families n4-reqtx:primary0..3:{one,all}:k1..3:{plain,conflict,funds}: every validator's service is wired to a real, never started network.Server (RequestTx gets dBFT's own MissingTransactions slice; transactions enter through handleTxCmd -> txHandlerLoop -> request-list lookup -> consensus callback -> PoolTx); t0 pooled everywhere, t1..tK at the primary and the backups that miss nothing, the missing backups hold nothing / a conflicting same-sender transaction with a higher fee per t_i / a same-sender transaction that eats the balance per t_i; scripted prefix = default schedule with the requested transactions delivered in the spec's order plus the extra's deliveries, until the first block; then the synchronous continuation to height 2; oracles: all of run()'s + requested-tx (delivered while requested and not pooled -> reaches the service exactly once) + requested-response (all requested delivered -> PrepareResponse or ChangeView broadcast for that round)",
		"bounds":    map[string]any{"primaries": 4, "missing_backups": "one (primary+1), all three", "k": "1..3", "orders": "all k! permutations", "modes": reqModes, "extras": reqExtras, "prefix_cap_events": reqPrefixCap},
		"specs":     len(jobs),
		"specs_run": int(nRun.Get()), "completed": !capped,
		"run_ends":                                   ends,
		"events":                                     int(steps.Get()),
		"server_requests":                            int(requests.Get()),
		"server_deliveries":                          int(deliveries.Get()),
		"deliveries_handed_to_consensus":             int(viaCb.Get()),
		"of_them_refused_by_the_backups_own_pool":    int(refusedByPool.Get()),
		"deliveries_dropped_as_pooled_already":       int(dropped.Get()),
		"unrequested_deliveries_reaching_consensus":  int(unreqCb.Get()),
		"delivery_classes":                           cls,
		"distinct_outcomes":                          outcomes.Len(),
		"max_requested_deliveries_scripted_in_a_run": maxMissing,
	}
}

// reqOne: development aid C19_REQTX='{"scenario":"...","spec":{...}}' is handled in TestCheck.
func reqOne(t *testing.T, scs []*scen, one string) {
	var in struct {
		Scenario string  `json:"scenario"`
		Spec     reqSpec `json:"spec"`
	}
	if err := json.Unmarshal([]byte(one), &in); err != nil {
		fmt.Println(err)
		os.Exit(3)
	}
	sc := scenByName(scs, in.Scenario)
	if sc == nil {
		fmt.Println("no scenario", in.Scenario)
		os.Exit(3)
	}
	res, pol, obs := runReqTx(t, sc, in.Spec, newConfStats())
	for _, l := range res.Log {
		fmt.Println("   ", l)
	}
	for _, l := range res.Warns {
		fmt.Println("    warn:", l)
	}
	for _, p := range res.Problems {
		fmt.Println("    PROBLEM:", p.Oracle, p.Step, p.Text)
	}
	fmt.Println("    reqtx:", in.Spec.String(), "end:", res.End, res.Err, "prefix:", res.PrefixLen, "events:", res.Steps, "blocks:", res.Blocks, "served:", pol.served, "requests:", obs.requests, "stops:", obs.stops, "deliveries:", len(obs.ds))
	os.Exit(0)
}
