// C19 extension, family "xview": a commit split ACROSS TWO VIEWS.
//
// dBFT keeps the Commit payloads it has received when it changes view (a
// commit is irrevocable). So after
//
//  1. validator A alone collects M preparations in view u and commits, its
//     Commit reaches everybody (the PrepareResponses and the recovery answers
//     of view u do not reach the other three),
//  2. the other three time out, change to a view v > u (v = u+2 when A is the
//     primary of u+1) and commit there,
//  3. some of the view-v Commits are lost among them,
//
// every recovery message a committed validator of view v broadcasts carries
// A's view-u Commit NEXT TO the view-v ones, and every receiver rebuilds both
// kinds from the compact form on its consensus event loop. Neither the
// deviation-bounded search nor the split family gets there (three validators
// have to miss the same traffic kind while traffic among them flows, then two
// timeouts each, then a second loss pattern).
//
// The family enumerates: every primary rotation (4) x every lone committer A
// (4) x every subset of the 6 directed view-v Commit deliveries among the
// other three being lost (64) [x the whole thing one view later (u=1), x one
// or two timeouts, thorough tier]. After the scripted prefix the synchronous
// continuation follows with the ordinary safety, carry, liveness and
// recovery-conform oracles. A panic of a service goroutine kills the explorer
// process; the supervisor (check_test.go) then re-runs the executions in
// flight in processes of their own and reports the one that dies.
package c19

import (
	"fmt"
	"os"
	"sort"
	"sync"
	"sync/atomic"
	"testing"
	"time"

	"github.com/nspcc-dev/dbft"
	"github.com/nspcc-dev/neo-go/pkg/consensus"

	"verif/lib/netx"
	"verif/lib/vk"
)

type xviewSpec struct {
	Prim  int  `json:"primary"`   // primary index of the first height (scenario n4-split:primary<Prim>)
	A     int  `json:"committer"` // the validator that commits alone in view u
	Lost  int  `json:"lost"`      // bit s*2+r': the Commit sent in a view > u by others[s] never reaches others[r] (r' = position of r among the other two)
	ALost int  `json:"alost"`     // bit i: A's own Commit never reaches others[i] directly (it gets there inside recovery messages only)
	Shift bool `json:"shift"`     // the view-0 PrepareRequest is lost for everybody: u = 1
	L     int  `json:"timeouts"`  // the prefix ends when every committed validator without the block has timed out L times
}

func (sp xviewSpec) u() byte {
	if sp.Shift {
		return 1
	}
	return 0
}

func (sp xviewSpec) String() string {
	if sp.ALost != 0 {
		return fmt.Sprintf("A%d:u%d:lost%06b:alost%03b:L%d", sp.A, sp.u(), sp.Lost, sp.ALost, sp.L)
	}
	return fmt.Sprintf("A%d:u%d:lost%06b:L%d", sp.A, sp.u(), sp.Lost, sp.L)
}

const xviewPrefixCap = 600

type xviewPolicy struct {
	sp       xviewSpec
	others   []int
	pos      [8]int // validator -> position among the others (-1: the lone committer)
	fired    [8]int // timeouts of a validator that committed in a view > u and has no block yet
	stopped  bool
	drops    [5]int // PrepareRequest (shift), PrepareResponse, RecoveryMessage, Commit of the later view, A's own Commit
	onScript bool   // A committed alone in view u and the other three committed in a later view
	v        int    // the view the others committed in (-1: they did not)
}

func newXViewPolicy(sp xviewSpec) *xviewPolicy {
	p := &xviewPolicy{sp: sp, v: -1}
	for i := range p.pos {
		p.pos[i] = -1
	}
	for i := 0; i < 4; i++ {
		if i != sp.A {
			p.pos[i] = len(p.others)
			p.others = append(p.others, i)
		}
	}
	return p
}

// lostBit: is the later-view Commit from validator s to validator r (both among the others) lost?
func (p *xviewPolicy) lostBit(s, r int) bool {
	ps, pr := p.pos[s], p.pos[r]
	if ps < 0 || pr < 0 || ps == pr {
		return false
	}
	if pr > ps {
		pr--
	}
	return p.sp.Lost&(1<<(ps*2+pr)) != 0
}

func viewAt(w *netx.World, n int, h uint32) int {
	if ctx := consensus.VerifContext(w.Nodes[n].Svc); ctx != nil && ctx.BlockIndex == h {
		return int(ctx.ViewNumber)
	}
	return -1
}

// next is the prefix policy (runOpts.prefix).
func (p *xviewPolicy) next(w *netx.World) (*netx.Event, bool) {
	if p.stopped {
		return nil, false
	}
	h1 := w.H0() + 1
	u := p.sp.u()
	// where are we?
	committed := [8]int{-1, -1, -1, -1, -1, -1, -1, -1}
	for _, pl := range w.Payloads {
		if pl.Type == dbft.CommitType && pl.Height == h1 && committed[pl.From] < 0 {
			committed[pl.From] = int(pl.View)
		}
	}
	all, v := true, -1
	for _, x := range p.others {
		if committed[x] <= int(u) {
			all = false
		} else {
			v = max(v, committed[x])
		}
	}
	if all {
		p.v = v
		p.onScript = committed[p.sp.A] == int(u)
		need := false
		for _, x := range p.others {
			if w.Nodes[x].C.BC.BlockHeight() < h1 && p.fired[x] < p.sp.L {
				need = true
			}
		}
		if !need {
			p.stopped = true
			return nil, false
		}
	}
	if mn, _ := w.Heights(); mn >= h1 {
		p.stopped = true // everybody has the block (not on script)
		return nil, false
	}
	for _, it := range w.PendingSnapshot() {
		if it.K != netx.EvDeliver {
			continue
		}
		pl := w.Payloads[it.P]
		if pl.Height != h1 {
			continue
		}
		k := -1
		switch {
		case p.sp.Shift && pl.Type == dbft.PrepareRequestType && pl.View == 0:
			k = 0
		case pl.Type == dbft.PrepareResponseType && pl.View == u && it.N != p.sp.A:
			k = 1
		case pl.Type == dbft.RecoveryMessageType && pl.View <= u && it.N != p.sp.A && viewAt(w, it.N, h1) <= int(u):
			k = 2
		case pl.Type == dbft.CommitType && pl.View > u && p.lostBit(pl.From, it.N):
			k = 3
		case pl.Type == dbft.CommitType && pl.View == u && pl.From == p.sp.A && p.pos[it.N] >= 0 && p.sp.ALost&(1<<p.pos[it.N]) != 0:
			k = 4
		}
		if k >= 0 {
			p.drops[k]++
			return &netx.Event{K: netx.EvDrop, P: it.P, N: it.N}, true
		}
	}
	ev := w.DefaultHeld(nil, func(int) bool { return true }) // no block is handed over during the prefix
	if ev == nil {
		p.stopped = true
		return nil, false
	}
	if ev.K == netx.EvTimer && p.pos[ev.N] >= 0 && committed[ev.N] > int(u) && w.Nodes[ev.N].C.BC.BlockHeight() < h1 {
		p.fired[ev.N]++
	}
	return ev, true
}

func runXView(t *testing.T, sc *scen, sp xviewSpec, st *confStats) (*result, *xviewPolicy, *conformer) {
	pol := newXViewPolicy(sp)
	cf := newConformer(st)
	after := cf.check
	if os.Getenv("C19_NOCONFORM") != "" { // development aid
		after = func(w *netx.World) []netx.Problem { cf.check(w); return nil }
	}
	if os.Getenv("C19_DEBUG_TIMERS") != "" { // development aid: armed deadlines after every event
		inner := after
		after = func(w *netx.World) []netx.Problem {
			line := "  timers:"
			for _, n := range w.Nodes {
				a, dl, h, v := n.Timer.Armed()
				line += fmt.Sprintf(" n%d[%v h%d v%d %s]", n.Idx, a, h, v, dl.Sub(time.Now()))
			}
			w.Log = append(w.Log, line)
			return inner(w)
		}
	}
	res := run(t, sc, Sched{Scen: sc.Name}, runOpts{prefix: pol.next, after: after, maxPrefix: xviewPrefixCap})
	return res, pol, cf
}

// recoveryViews lists, for every RecoveryMessage of the run, the views of the commits it carries.
func recoveryViews(cf *conformer) (withCommits, mixed int) {
	defer func() { _ = recover() }() // a broken expansion is the conformance oracle's business
	for _, p := range cf.payloads {
		if p.Type != dbft.RecoveryMessageType {
			continue
		}
		cp, err := decodePayload(cf.magic, cf.srih, p.Bytes)
		if err != nil {
			continue
		}
		views := map[byte]bool{}
		for _, c := range cp.GetRecoveryMessage().GetCommits(cp, cf.vals) {
			if c != nil {
				views[c.ViewNumber()] = true
			}
		}
		if len(views) > 0 {
			withCommits++
		}
		if len(views) > 1 {
			mixed++
		}
	}
	return
}

func xviewScenName(prim int) string { return fmt.Sprintf("n4-xview:primary%d", prim) }

// xviewScens: one scenario per primary index of the first height (pad blocks
// slide it). t0 is pooled at the first primary only (every backup has to fetch
// it in view u); everything else is pooled everywhere: a validator that lags a
// height behind replays its cache of future messages in Go map order (dBFT
// keeps them in maps), and with a transaction missing that order decides
// whether its timer restarts - the runs would not be reproducible.
func xviewScens(fam *netx.Setup, tag string, heights int) []*scen {
	var out []*scen
	for pad := 0; pad < 4 && pad <= len(fam.Pads); pad++ {
		prim := (int(fam.H0) + pad + 1) % 4
		all4 := []int{0, 1, 2, 3}
		out = append(out, &scen{setup: fam, maxBound: -1, maxSil: 1, split: true, xview: true, prim: prim, Scenario: netx.Scenario{
			Name: xviewScenName(prim) + tag, Family: fam.Fam.Name, Heights: heights, Pad: pad,
			TxAt: map[string][]int{"t2": all4, "t0": {prim}, "t1": all4},
		}})
	}
	return out
}

type xviewJob struct {
	sc *scen
	sp xviewSpec
}

func xviewJobs(r *vk.Run, scs []*scen) []xviewJob {
	var out []xviewJob
	for _, sc := range scs {
		if !sc.xview || (sc.deep && !r.Thorough()) {
			continue
		}
		for _, shift := range []bool{false, true} {
			for L := 1; L <= vk.Pick(r, 1, 2); L++ {
				for a := 0; a < 4; a++ {
					for lost := 0; lost < 64; lost++ {
						if shift && !r.Thorough() && lost != 0 && lost != 63 && popcount(lost) != 1 {
							continue // quick, one view later: nothing lost, one delivery lost, everything lost
						}
						out = append(out, xviewJob{sc, xviewSpec{Prim: sc.prim, A: a, Lost: lost, Shift: shift, L: L}})
					}
					// A's own Commit reaches only a subset of the others directly
					for alost := 1; alost < 8 && !shift; alost++ {
						for _, lost := range vk.Pick(r, []int{0, 63}, []int{0, 1, 2, 4, 8, 16, 32, 63}) {
							out = append(out, xviewJob{sc, xviewSpec{Prim: sc.prim, A: a, Lost: lost, ALost: alost, L: L}})
						}
					}
				}
			}
		}
	}
	return out
}

func exploreXView(t *testing.T, r *vk.Run, scs []*scen, running *sync.Map) map[string]any {
	st := newConfStats()
	jobs := xviewJobs(r, scs)
	var mu sync.Mutex
	var nRun, steps, prefixSteps vk.Counter
	var maxLive, maxPrefix atomic.Int64
	outcomes := vk.NewSet()
	traffic := vk.NewSet()
	ends := map[string]int{}
	views := map[string]int{}
	drops := [5]int{}
	onScript, withMixed, recMixed, recCommits, capHit, nondet := 0, 0, 0, 0, 0, 0
	done := r.Parallel(len(jobs), func(i int) {
		j := jobs[i]
		key := "xview|" + j.sc.Name + "|" + j.sp.String()
		fdone := inflightBegin(probeRec{Kind: "xview", Scen: j.sc.Name, XView: &j.sp})
		running.Store(key, time.Now())
		res, pol, cf := runXView(t, j.sc, j.sp, st)
		running.Delete(key)
		fdone()
		if os.Getenv("C19_XVIEW_DET") != "" { // development aid: every spec twice, logs compared
			again, _, _ := runXView(t, j.sc, j.sp, newConfStats())
			if normLog(again.Log) != normLog(res.Log) {
				mu.Lock()
				nondet++
				if nondet == 1 {
					fmt.Println("nondeterministic:", key)
					logDiff(res.Log, again.Log)
				}
				mu.Unlock()
			}
		}
		if res.End == "error" {
			fmt.Println("CHECK-ERROR: xview", key, "could not be executed:", res.Err)
			os.Exit(3)
		}
		nRun.Inc()
		steps.Add(res.Steps)
		prefixSteps.Add(res.PrefixLen)
		for {
			cur := maxLive.Load()
			if int64(res.MaxLive) <= cur || maxLive.CompareAndSwap(cur, int64(res.MaxLive)) {
				break
			}
		}
		for {
			cur := maxPrefix.Load()
			if int64(res.PrefixLen) <= cur || maxPrefix.CompareAndSwap(cur, int64(res.PrefixLen)) {
				break
			}
		}
		wc, mixed := recoveryViews(cf)
		script := "off-script"
		if pol.onScript {
			script = fmt.Sprintf("u%d->v%d", j.sp.u(), pol.v)
		}
		mx := "noMixedRecovery"
		if mixed > 0 {
			mx = "mixedRecovery"
		}
		outcomes.Add(fmt.Sprintf("%s|%s|%v|%s|%s", j.sc.Name, res.End, res.Blocks, script, mx))
		traffic.Add(fmt.Sprintf("%s|%v|%v|%d", j.sc.Name, res.Blocks, cf.byType, mixed))
		mu.Lock()
		ends[res.End]++
		views[script]++
		if pol.onScript {
			onScript++
		}
		if mixed > 0 {
			withMixed++
		}
		recMixed += mixed
		recCommits += wc
		for k := range drops {
			drops[k] += pol.drops[k]
		}
		if res.PrefixLen >= xviewPrefixCap {
			capHit++
		}
		mu.Unlock()
		seen := map[string]bool{}
		for _, p := range res.Problems {
			if seen[p.Oracle] {
				continue
			}
			seen[p.Oracle] = true
			n := min(p.Step+1, len(res.Events))
			if n < res.PrefixLen && p.Oracle == "liveness" {
				n = res.PrefixLen
			}
			sp := j.sp
			rec := caseRec{Oracle: p.Oracle, Scenario: j.sc.Name, N: 4, Schedule: sp.String(), Events: res.Events[:n], AtStep: p.Step, Text: p.Text, Log: tail(res.Log, 80), XView: &sp}
			r.Violation(fmt.Sprintf("%s:xview:%s:%s", p.Oracle, j.sc.Name, sp.String()), rec)
		}
		if res.End == "done" && mixed > 0 {
			r.Sample(map[string]any{"scenario": j.sc.Name, "xview": j.sp.String(), "prefix_events": res.PrefixLen, "events": len(res.Events), "blocks": res.Blocks, "recovery_messages_with_commits_of_two_views": mixed})
		}
	})
	capped := done != len(jobs) || r.IsCapped()
	if os.Getenv("C19_XVIEW_DET") != "" {
		fmt.Println("xview determinism aid:", nondet, "of", len(jobs), "specs gave another log the second time")
	}
	// determinism self-check: one run with a long prefix, twice
	if len(jobs) > 0 && !capped {
		j := jobs[len(jobs)/3]
		a, _, _ := runXView(t, j.sc, j.sp, newConfStats())
		b, _, _ := runXView(t, j.sc, j.sp, newConfStats())
		if normLog(a.Log) != normLog(b.Log) || fmt.Sprint(a.Blocks) != fmt.Sprint(b.Blocks) {
			fmt.Println("CHECK-ERROR: nondeterministic scripted run", j.sc.Name, j.sp.String())
			logDiff(a.Log, b.Log)
			os.Exit(3)
		}
	}
	var vs []string
	for k, v := range views {
		vs = append(vs, fmt.Sprintf("%s=%d", k, v))
	}
	sort.Strings(vs)
	st.mu.Lock()
	defer st.mu.Unlock()
	return map[string]any{
		"rule":                                  "families n4-xview:primary0..3 (pad blocks slide the primary; t0 pooled only at the first primary, t1 and t2 everywhere): scripted prefix = synchronous default schedule in which (1) the view-u PrepareResponses and the RecoveryMessages of views <= u do not reach anybody but validator A (lost), so A alone commits in view u and its Commit reaches the others, who time out, change view (dBFT keeps A's commit) and commit in a view v > u; (2) the view-v Commits of the subset 'lost' of the 6 directed deliveries among the other three are lost (and A's own Commit towards the subset 'alost' of the others: it reaches them inside recovery messages only); (3) no block is handed over; the prefix ends when every committed validator without the block has timed out L times (its recovery message carries the commits of both views); then the synchronous continuation with the safety, carry, liveness and recovery-conform oracles; a panic of a service goroutine is attributed by re-running the executions in flight in separate processes",
		"bounds":                                map[string]any{"primaries": 4, "lone_committers": 4, "lost_subsets": vk.Pick(r, "u=0: all 64; u=1: none, each single delivery, all", "all 64 for u=0 and u=1"), "a_commit_lost_subsets": vk.Pick(r, "u=0: all 7 non-empty x lost in {none, all}", "u=0: all 7 non-empty x lost in {none, singles, all}"), "timeouts_L": vk.Pick(r, "1", "1, 2"), "prefix_cap_events": xviewPrefixCap},
		"specs":                                 len(jobs),
		"specs_run":                             int(nRun.Get()),
		"completed":                             !capped,
		"run_ends":                              ends,
		"runs_on_script":                        onScript,
		"runs_by_view_pair":                     vs,
		"runs_with_recovery_carrying_two_views": withMixed,
		"recovery_messages_carrying_two_views":  recMixed,
		"recovery_messages_carrying_commits":    recCommits,
		"prefix_drops_request_response_recovery_commit_acommit": drops[:],
		"runs_that_hit_the_prefix_cap":                          capHit,
		"distinct_outcomes":                                     outcomes.Len(),
		"distinct_traffic_signatures":                           traffic.Len(),
		"events":                                                int(steps.Get()),
		"prefix_events":                                         int(prefixSteps.Get()),
		"longest_prefix":                                        int(maxPrefix.Load()),
		"liveness_max_steps_observed":                           int(maxLive.Load()),
		"conform_context_payloads_checked":                      int(st.ctxChecked.Load()),
		"conform_context_payloads_rebuilt":                      int(st.ctxRebuilt.Load()),
		"conform_rebuilt_in_context_by_type":                    st.rebuiltByType,
		"conform_recovery_messages_expanded":                    int(st.recExpanded.Load()),
		"conform_expanded_commits":                              int(st.commits.Load()),
		"conform_expanded_commits_of_other_view":                int(st.commitOtherView.Load()),
		"conform_context_commits_of_other_view":                 int(st.ctxCommitOtherView.Load()),
		"conform_context_commits_of_other_view_rebuilt":         int(st.ctxCommitOtherViewRebuilt.Load()),
	}
}

func logDiff(a, b []string) {
	for i := range a {
		if i >= len(b) || a[i] != b[i] {
			for k := max(0, i-6); k < i; k++ {
				fmt.Println("   ", a[k])
			}
			fmt.Println("  first difference at log line", i, ":", a[i])
			if i < len(b) {
				fmt.Println("                               vs:", b[i])
			}
			return
		}
	}
	fmt.Println("  the second log is longer:", len(a), len(b))
}
