// C20, ledger entry part: the real core.Blockchain (built with the coreledger
// overlay: package sync of pkg/core/blockchain.go and headerhashes.go goes
// through the verif shims, so addLock / lock / the header list lock are
// scheduling points) under the controlled scheduler: several producers hand
// their own copies of the same blocks to Blockchain.AddBlock at the same time;
// all schedules up to a preemption bound.
package ledger

import (
	"os"
	"testing"
	"time"

	"verif/checks/c20/lh"
	"verif/lib/sched"
	"verif/lib/vk"
)

func configs() []*sched.Config {
	thorough := os.Getenv("VERIF_TIER") == "thorough"
	var cfgs []*sched.Config
	for _, sc := range lh.Scenarios(thorough) {
		sc := sc
		c := &sched.Config{
			Name: sc.FullName(),
			Body: func(r *sched.Run) { lh.Run(sc, r) },
		}
		// thorough: preemption bound 3 on the scenarios of the quick tier, bound
		// 2 on the two large ones (three blocks x three producers, five threads)
		if thorough && !sc.Large {
			c.MaxBound = 3
		}
		cfgs = append(cfgs, c)
	}
	return cfgs
}

func TestCheck(t *testing.T) {
	vk.UseT(t)
	cfgs := configs()
	var names []string
	for _, c := range cfgs {
		names = append(names, c.Name)
	}
	// the source chains are built outside of any controlled execution
	lh.BuildAll()
	sched.WorkerMain(cfgs)
	r := vk.Start("C20", "model_checking", 60*time.Second, 8*time.Minute)
	sched.RunCheck(r, cfgs, sched.CheckOpts{
		MaxBound:  2,
		JobMillis: vk.Pick(r, 3000, 8000),
		What:      "all schedules of 2-3 producers calling Blockchain.AddBlock with their own copies of the same next blocks (duplicates, N and N+1, ahead of the tip, stale), optionally a thread calling AddHeaders and one calling PoolTx, on the real core.Blockchain (MemoryStore) up to the preemption bound, per scenario x {plain, StateRootInHeader}",
		Extra: map[string]any{
			"ledger_scenarios":        len(cfgs),
			"ledger_families":         lh.Families,
			"ledger_scenario_names":   names,
			"ledger_blocks":           "H0+1 empty, H0+2 and H0+3 with two transfers each (NEO and GAS), H0 = stale",
			"ledger_oracles":          []string{"accepted-not-next", "exists-but-missing", "next-block-rejected", "add-error", "applied-twice", "applied-out-of-order", "accepted-count", "accepted-vs-applied", "stale-accepted", "headers-rejected", "headers-not-added", "no-convergence", "state-differs", "store-differs", "deadlock", "panic"},
			"ledger_switch_points":    "Mutex/RWMutex/Cond operations of pkg/core/blockchain.go and headerhashes.go + header-added hook in AddBlock",
			"ledger_reference_checks": "height, top hash, state roots of every height and the flushed raw store (TokenTransferInfo decoded) equal those of a node fed each block once",
		},
		Assumptions: []string{
			"ledger part: context switches are explored at the mutex/rwmutex/cond operations of pkg/core/blockchain.go and headerhashes.go and at the header-added hook inside AddBlock; the code between two of them (atomics included) runs without interruption; unsynchronised accesses are covered by the -race part",
			"ledger part: storeBlock's AER writer goroutine and the event dispatcher are free-running real goroutines that meet the block-adding thread only on real channels",
		},
	})
}
