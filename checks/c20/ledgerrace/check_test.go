// C20, ledger entry, data-race part: the harness bodies of checks/c20/ledger
// (producers calling Blockchain.AddBlock with their own copies of the same
// blocks, AddHeaders, PoolTx) run free (real goroutines) on the UNMODIFIED
// pkg/core under -race.
package ledgerrace

import (
	"sync"
	"testing"
	"time"

	"verif/checks/c20/lh"
	"verif/lib/sched"
	"verif/lib/vk"
)

func child(deadline time.Time) *sched.RaceSummary {
	s := &sched.RaceSummary{PerConfig: map[string]int{}, Fails: map[string]string{}, Notes: map[string]int{}}
	obs := map[string]bool{}
	var mu sync.Mutex
	lh.BuildAll()
	scs := lh.Scenarios(false)
	var wg sync.WaitGroup
	sem := make(chan struct{}, 16)
	// round-robin over the scenarios so that a deadline cuts all of them evenly
	const rounds = 40
loop:
	for i := 0; i < rounds; i++ {
		for _, sc := range scs {
			if time.Now().After(deadline) {
				s.Capped = true
				break loop
			}
			sem <- struct{}{}
			wg.Add(1)
			go func() {
				defer func() { <-sem; wg.Done() }()
				out := lh.Run(sc, nil)
				mu.Lock()
				defer mu.Unlock()
				s.Iterations++
				s.PerConfig[sc.FullName()]++
				obs[sc.FullName()+" "+out.Obs] = true
				for _, f := range out.Fails {
					if _, ok := s.Fails[f.Key]; !ok {
						s.Fails[f.Key] = f.Msg + " | " + out.Obs
					}
				}
			}()
		}
	}
	wg.Wait()
	s.Distinct = len(obs)
	return s
}

func TestCheck(t *testing.T) {
	vk.UseT(t)
	sched.RaceChild(child)
	r := vk.Start("C20", "model_checking", 60*time.Second, 5*time.Minute)
	sched.RunRaceParent(r, vk.Pick(r, 15, 120),
		"data-race pass: the ledger-entry harness bodies (producers calling Blockchain.AddBlock with copies of the same blocks + AddHeaders + PoolTx) free-running on the unmodified pkg/core under the Go race detector; a race report or an oracle failure is a violation",
		[]string{"the ledger race pass is a sample of free-running schedules (the exhaustive part is the scheduler part)"})
}
