// Package lh is the C20 ledger-entry harness shared by the model-checking part
// (checks/c20/ledger: the real core.Blockchain built with the coreledger
// overlay - the mutexes of blockchain.go and headerhashes.go are scheduling
// points - under the controlled scheduler) and the data-race part
// (checks/c20/ledgerrace: the same bodies free-running on the unmodified
// package under -race).
//
// Several logical producers (network queue, consensus, a second peer...) hand
// their own decoded copies of the same blocks to Blockchain.AddBlock at the
// same time, optionally next to a thread delivering the headers with
// Blockchain.AddHeaders and a thread pooling a transaction. The property (C20):
// "blocks arriving from the network and from consensus in any order,
// duplicated or far ahead of the tip, are applied to the ledger strictly in
// index order and each at most once, and the node reaches the highest
// contiguous block it was given".
package lh

import (
	"crypto/sha256"
	"encoding/hex"
	"errors"
	"fmt"
	"sort"
	"strings"
	"sync"

	"github.com/nspcc-dev/neo-go/pkg/config"
	"github.com/nspcc-dev/neo-go/pkg/core"
	"github.com/nspcc-dev/neo-go/pkg/core/block"
	"github.com/nspcc-dev/neo-go/pkg/core/mempool"
	"github.com/nspcc-dev/neo-go/pkg/core/native/nativehashes"
	"github.com/nspcc-dev/neo-go/pkg/core/state"
	"github.com/nspcc-dev/neo-go/pkg/core/storage"
	"github.com/nspcc-dev/neo-go/pkg/core/transaction"
	"github.com/nspcc-dev/neo-go/pkg/io"
	"github.com/nspcc-dev/neo-go/pkg/neotest"

	"verif/lib/chainx"
	"verif/lib/sched"
)

const gas = 100000000

// NBlocks is the number of blocks after the start height the fixture holds.
const NBlocks = 3

// Fixture is one source chain: the raw store content of a node at height H0
// and the next NBlocks blocks with the reference observations of a node that
// was fed each block exactly once, in order.
type Fixture struct {
	Family string
	SRIH   bool
	H0     uint32
	Snap   map[string][]byte // flushed store at height H0
	Stale  []byte            // wire bytes of block H0 (already on chain)
	Blocks [][]byte          // wire bytes of blocks H0+1 ..
	Ref    []RefObs          // Ref[k]: reference node at height H0+k (k = 0..NBlocks)
}

// RefObs is what is compared with the reference node.
type RefObs struct {
	Height uint32
	Top    string
	Roots  string // state roots of the heights H0..Height
	Digest string // sha256 over the flushed raw store
	Dump   []string
}

var (
	fixMu sync.Mutex
	fixes = map[string]*Fixture{}
)

// Families: "plain" and "srih" (StateRootInHeader) verify the transactions of
// a block again when it is added (VerifyTransactions, the neotest default);
// "novt" is the main-net setting VerifyTransactions=false.
var Families = []string{"plain", "srih", "novt"}

// BuildAll builds every fixture (must be called outside of a controlled execution).
func BuildAll() {
	for _, f := range Families {
		Fix(f)
	}
}

func opts(family string, st storage.Store) chainx.Opts {
	o := chainx.Opts{SRIH: family == "srih", Store: st}
	if family == "novt" {
		o.Proto = func(c *config.Blockchain) { c.VerifyTransactions = false }
	}
	return o
}

// Fix returns (building it once per process) the fixture of a family.
func Fix(family string) *Fixture {
	fixMu.Lock()
	defer fixMu.Unlock()
	if f := fixes[family]; f != nil {
		return f
	}
	if sched.Cur() != nil {
		panic("c20 ledger: fixture " + family + " must be built before the controlled execution starts")
	}
	f, err := buildFixture(family)
	if err != nil {
		panic("c20 ledger fixture: " + err.Error())
	}
	fixes[family] = f
	return f
}

func observe(n *chainx.Node, h0 uint32, withDump bool) (RefObs, error) {
	var o RefObs
	if err := n.Persist(); err != nil {
		return o, err
	}
	bc := n.BC
	o.Height = bc.BlockHeight()
	o.Top = bc.CurrentBlockHash().StringLE()
	var roots []string
	for i := h0; i <= o.Height; i++ {
		sr, err := bc.GetStateModule().GetStateRoot(i)
		if err != nil {
			roots = append(roots, fmt.Sprintf("%d:err(%v)", i, err))
			continue
		}
		roots = append(roots, fmt.Sprintf("%d:%s", i, sr.Root.StringLE()[:12]))
	}
	o.Roots = strings.Join(roots, ",")
	d := chainx.Dump(n.Store)
	for i, l := range d {
		// TokenTransferInfo serialises its LastUpdated map in Go map iteration
		// order: the raw bytes are not canonical, the decoded value is compared.
		if strings.HasPrefix(l, ttiPrefix) {
			d[i] = canonTTI(l)
		}
	}
	hs := sha256.New()
	for _, l := range d {
		hs.Write([]byte(l))
		hs.Write([]byte{'\n'})
	}
	o.Digest = hex.EncodeToString(hs.Sum(nil))[:16]
	if withDump {
		o.Dump = d
	}
	return o, nil
}

func buildFixture(family string) (*Fixture, error) {
	st := storage.NewMemoryStore()
	n, err := chainx.New(opts(family, st))
	if err != nil {
		return nil, err
	}
	defer n.Close()
	f := &Fixture{Family: family, SRIH: family == "srih"}
	owner := []neotest.Signer{n.Validator}
	sender := n.Validator.ScriptHash()
	for i := 1; i <= 3; i++ {
		chainx.RegisterKey(chainx.Acc(i))
	}
	// block 1: funding
	var txs []*transaction.Transaction
	for i := 1; i <= 3; i++ {
		tx, err := n.CallTx(owner, nativehashes.GasToken, "transfer", sender, chainx.Acc(i).ScriptHash(), int64(1000*gas), nil)
		if err != nil {
			return nil, err
		}
		txs = append(txs, tx)
		tx, err = n.CallTx(owner, nativehashes.NeoToken, "transfer", sender, chainx.Acc(i).ScriptHash(), int64(1000*i), nil)
		if err != nil {
			return nil, err
		}
		txs = append(txs, tx)
	}
	if _, err := n.AddBlock(txs...); err != nil {
		return nil, fmt.Errorf("block 1: %w", err)
	}
	one := func(from, to int, neo bool, amount int64) (*transaction.Transaction, error) {
		h := nativehashes.GasToken
		if neo {
			h = nativehashes.NeoToken
		}
		return n.CallTx([]neotest.Signer{chainx.Signer(from)}, h, "transfer", chainx.Acc(from).ScriptHash(), chainx.Acc(to).ScriptHash(), amount, nil)
	}
	// block 2 (= H0, the stale block)
	tx, err := one(1, 2, false, 7*gas)
	if err != nil {
		return nil, err
	}
	b, err := n.AddBlock(tx)
	if err != nil {
		return nil, fmt.Errorf("block 2: %w", err)
	}
	if f.Stale, err = chainx.BlockBytes(b); err != nil {
		return nil, err
	}
	f.H0 = n.BC.BlockHeight()
	o, err := observe(n, f.H0, false)
	if err != nil {
		return nil, err
	}
	f.Ref = append(f.Ref, o)
	f.Snap = map[string][]byte{}
	for k, v := range chainx.DumpMap(st) {
		f.Snap[k] = []byte(v)
	}
	// the blocks the producers deliver: every one changes balances (a second
	// application of the same block would change them again: even the empty one
	// mints the block reward), the NEO transfers also distribute GAS. The first
	// one is empty: nothing but the index check keeps it from being applied
	// twice (a block with transactions is also stopped by their verification
	// unless VerifyTransactions is off).
	plan := [][]struct {
		from, to int
		neo      bool
		amt      int64
	}{
		{},
		{{1, 2, false, 3 * gas}, {2, 3, true, 5}},
		{{3, 1, true, 1}, {2, 1, false, 2 * gas}},
	}
	for k := 0; k < NBlocks; k++ {
		var txs []*transaction.Transaction
		for _, p := range plan[k] {
			tx, err := one(p.from, p.to, p.neo, p.amt)
			if err != nil {
				return nil, err
			}
			txs = append(txs, tx)
		}
		b, err := n.AddBlock(txs...)
		if err != nil {
			return nil, fmt.Errorf("block H0+%d: %w", k+1, err)
		}
		for _, tx := range txs {
			if err := n.CheckHalt(tx.Hash()); err != nil {
				return nil, err
			}
		}
		w, err := chainx.BlockBytes(b)
		if err != nil {
			return nil, err
		}
		f.Blocks = append(f.Blocks, w)
		o, err := observe(n, f.H0, true)
		if err != nil {
			return nil, err
		}
		f.Ref = append(f.Ref, o)
	}
	return f, nil
}

// Scenario is one harness configuration. Offsets are relative to H0: 1 is the
// next block, 0 the stale block that is already on chain.
type Scenario struct {
	Name      string
	Family    string
	Producers [][]int // per producer thread: offsets of the blocks it hands to AddBlock, in order
	Headers   []int   // a thread calls AddHeaders with the headers of these offsets (one call)
	Pooled    bool    // the transactions of block H0+2 sit in the node's mempool (relayed before the block)
	PoolTx    bool    // a thread calls PoolTx with the first transaction of block H0+3
	Large     bool    // thorough tier only
}

// FullName includes the family.
func (sc *Scenario) FullName() string { return sc.Name + "/" + sc.Family }

func (sc *Scenario) maxOff() int {
	m := 0
	for _, p := range sc.Producers {
		for _, o := range p {
			if o > m {
				m = o
			}
		}
	}
	return m
}

// Scenarios returns the configurations, simplest first.
func Scenarios(thorough bool) []*Scenario {
	base := []Scenario{
		{Name: "dup2", Producers: [][]int{{1}, {1}}},
		{Name: "dup3", Producers: [][]int{{1}, {1}, {1}}},
		{Name: "chain2", Producers: [][]int{{1, 2}, {1, 2}}},
		{Name: "ahead", Producers: [][]int{{2, 1}, {1, 2}}},
		{Name: "stale", Producers: [][]int{{0, 1}, {1, 0}}},
		{Name: "hdrs", Producers: [][]int{{1}, {1, 2}}, Headers: []int{1, 2}},
		{Name: "pooled", Producers: [][]int{{1, 2}, {1}}, Pooled: true, PoolTx: true},
	}
	if thorough {
		base = append(base,
			Scenario{Name: "chain3x3", Large: true, Producers: [][]int{{1, 2, 3}, {1, 2, 3}, {2, 1}}},
			Scenario{Name: "hdrs3", Large: true, Producers: [][]int{{1, 2}, {2, 1}, {3}}, Headers: []int{1, 2, 3}},
		)
	}
	var out []*Scenario
	for _, b := range base {
		for _, fam := range Families {
			// the main-net setting differs from "plain" only in what stops a second
			// application of a block with transactions: duplicate-block families only
			if fam == "novt" && (len(b.Headers) > 0 || b.Pooled || b.Name == "stale") {
				continue
			}
			s := b
			s.Family = fam
			out = append(out, &s)
		}
	}
	return out
}

// Outcome is what one run of the body produced.
type Outcome struct {
	Fails []sched.Fail
	Obs   string
}

type callRec struct {
	thread string
	off    int
	hBefor uint32
	hAfter uint32
	class  string
}

type harness struct {
	sc      *Scenario
	f       *Fixture
	r       *sched.Run
	n       *chainx.Node
	mu      sync.Mutex
	fails   []sched.Fail
	calls   []callRec
	applied []uint32 // block indices in the order storeBlock completed them (post-block hook)
	okCnt   map[int]int
	extra   []string
	wg      sync.WaitGroup
}

func (h *harness) fail(key, msg string) {
	h.mu.Lock()
	defer h.mu.Unlock()
	for _, f := range h.fails {
		if f.Key == key {
			return
		}
	}
	h.fails = append(h.fails, sched.Fail{Key: key, Msg: msg})
}

func (h *harness) logf(format string, a ...any) {
	if h.r != nil {
		h.r.Logf(format, a...)
	}
}

func (h *harness) spawn(name string, fn func()) {
	if h.r != nil {
		h.r.Go(name, fn)
		return
	}
	h.wg.Add(1)
	go func() {
		defer h.wg.Done()
		fn()
	}()
}

func (h *harness) block(off int) *block.Block {
	w := h.f.Stale
	if off > 0 {
		w = h.f.Blocks[off-1]
	}
	b, err := chainx.DecodeBlock(w, h.f.SRIH)
	if err != nil {
		panic(err)
	}
	return b
}

func classOf(err error) string {
	switch {
	case err == nil:
		return "ok"
	case errors.Is(err, core.ErrAlreadyExists):
		return "exists"
	case errors.Is(err, core.ErrInvalidBlockIndex):
		return "ahead"
	}
	return "error"
}

// add hands block H0+off to the ledger and judges the answer against the
// heights this very thread read right before and right after the call.
func (h *harness) add(thread string, off int, b *block.Block, concurrent bool) {
	bc := h.n.BC
	name := h.sc.FullName()
	h0 := bc.BlockHeight()
	h.logf("%s: AddBlock(%d) at height %d ...", thread, b.Index, h0)
	err := bc.AddBlock(b)
	h1 := bc.BlockHeight()
	cl := classOf(err)
	h.logf("%s: AddBlock(%d) -> %s (height %d)", thread, b.Index, cl, h1)
	h.mu.Lock()
	h.calls = append(h.calls, callRec{thread, off, h0, h1, cl})
	if cl == "ok" {
		h.okCnt[off]++
	}
	h.mu.Unlock()
	ph := "seq"
	if concurrent {
		ph = "conc"
	}
	switch cl {
	case "ok":
		// accepted => it was the next one and it is the tip now (AddBlock holds
		// the add lock until it returns; in the free-running pass other threads
		// may already have added the successors)
		if h1 < b.Index || (h.r != nil && h1 != b.Index) || h0 >= b.Index {
			h.fail(fmt.Sprintf("accepted-not-next:%s:%s:b%d", name, ph, off), fmt.Sprintf("AddBlock(%d) returned nil, height before the call %d, after %d", b.Index, h0, h1))
		}
	case "exists":
		if h1 < b.Index {
			h.fail(fmt.Sprintf("exists-but-missing:%s:%s:b%d", name, ph, off), fmt.Sprintf("AddBlock(%d) returned ErrAlreadyExists at height %d", b.Index, h1))
		}
	case "ahead":
		// legitimate only for a block beyond the next one
		if b.Index <= h0+1 {
			h.fail(fmt.Sprintf("next-block-rejected:%s:%s:b%d", name, ph, off), fmt.Sprintf("AddBlock(%d) returned ErrInvalidBlockIndex although the height was already %d before the call: %v", b.Index, h0, err))
		}
	default:
		h.fail(fmt.Sprintf("add-error:%s:%s:b%d", name, ph, off), fmt.Sprintf("AddBlock(%d) of a valid block returned %v (height before %d, after %d)", b.Index, err, h0, h1))
	}
}

// Run executes the scenario once. r == nil: free-running.
func Run(sc *Scenario, r *sched.Run) *Outcome {
	f := Fix(sc.Family)
	h := &harness{sc: sc, f: f, r: r, okCnt: map[int]int{}}
	name := sc.FullName()
	out := &Outcome{}
	st := chainx.ApplyBatches([]chainx.Batch{{Kind: "put", Put: f.Snap}}, 1)
	n, err := chainx.New(opts(sc.Family, st))
	if err != nil {
		panic("c20 ledger: cannot open the node on the snapshot: " + err.Error())
	}
	h.n = n
	bc := n.BC
	if bc.BlockHeight() != f.H0 {
		panic(fmt.Sprintf("c20 ledger: node opened at height %d, snapshot is of height %d", bc.BlockHeight(), f.H0))
	}
	// every completed application of a block, in order (runs under the ledger lock)
	bc.RegisterPostBlock(func(_ func(*transaction.Transaction, *mempool.Pool, bool) bool, _ *mempool.Pool, b *block.Block) {
		h.mu.Lock()
		h.applied = append(h.applied, b.Index)
		h.mu.Unlock()
		h.logf("    ledger: block %d applied", b.Index)
	})
	if r != nil {
		// one more switch point inside AddBlock: header stored, block not yet processed
		bc.VerifSetPointHook(func(int) { r.Yield(1000) })
	}
	closed := false
	closeNode := func() {
		if !closed {
			closed = true
			bc.VerifSetPointHook(nil)
			_ = chainx.Try(n.Close)
		}
	}
	finish := func(end string) {
		h.mu.Lock()
		defer h.mu.Unlock()
		var b strings.Builder
		fmt.Fprintf(&b, "end=%s applied=%v calls=[", end, h.applied)
		per := map[string][]string{}
		var names []string
		for _, c := range h.calls {
			if _, ok := per[c.thread]; !ok {
				names = append(names, c.thread)
			}
			per[c.thread] = append(per[c.thread], fmt.Sprintf("b%d@%d:%s@%d", c.off, c.hBefor-f.H0, c.class, c.hAfter-f.H0))
		}
		sort.Strings(names)
		for _, t := range names {
			fmt.Fprintf(&b, "%s{%s} ", t, strings.Join(per[t], " "))
		}
		fmt.Fprintf(&b, "] %s", strings.Join(h.extra, " "))
		out.Obs = b.String()
		out.Fails = h.fails
	}
	if r != nil {
		r.OnEnd(func(end sched.EndKind) {
			switch end {
			case sched.EndFinished:
			case sched.EndDeadlock, sched.EndQuiescent, sched.EndHorizon:
				h.fail("deadlock:"+name, "no thread can move and not all have finished ("+end.String()+")")
			case sched.EndPanic:
				msg := r.PanicMsg()
				first := msg
				if i := strings.Index(first, "\n"); i > 0 {
					first = first[:i]
				}
				if i := strings.Index(first, "panic: "); i >= 0 {
					first = first[i+7:]
				}
				if len(first) > 120 {
					first = first[:120]
				}
				h.fail("panic:"+name+":"+first, msg)
			}
			if end == sched.EndFinished {
				closeNode()
			}
			// otherwise a thread was unwound inside the ledger: the instance is
			// dropped without a shutdown (its flush could see a half-applied block)
			finish(end.String())
			for _, f := range h.fails {
				r.Fail(f.Key, f.Msg)
			}
			r.SetObs(out.Obs)
		})
	}

	if sc.Pooled {
		b := h.block(2)
		for _, tx := range b.Transactions {
			if err := bc.PoolTx(tx); err != nil {
				panic("c20 ledger: cannot pool a transaction of the next block: " + err.Error())
			}
		}
	}
	// ---- concurrent phase ---------------------------------------------------------
	for i, offs := range sc.Producers {
		tn := fmt.Sprintf("P%d", i+1)
		var blocks []*block.Block
		for _, o := range offs {
			blocks = append(blocks, h.block(o))
		}
		offs := offs
		h.spawn(tn, func() {
			for k, b := range blocks {
				h.add(tn, offs[k], b, true)
			}
		})
	}
	if len(sc.Headers) > 0 {
		var hdrs []*block.Header
		for _, o := range sc.Headers {
			hdrs = append(hdrs, &h.block(o).Header)
		}
		h.spawn("H", func() {
			err := bc.AddHeaders(hdrs...)
			h.logf("H: AddHeaders(%v) -> %v", sc.Headers, err)
			if err != nil {
				h.fail("headers-rejected:"+name, fmt.Sprintf("AddHeaders with the valid headers %v (in order) returned %v", sc.Headers, err))
			}
			hh := bc.HeaderHeight()
			if want := f.H0 + uint32(sc.Headers[len(sc.Headers)-1]); hh < want {
				h.fail("headers-not-added:"+name, fmt.Sprintf("after AddHeaders(%v) returned nil the header height is %d", sc.Headers, hh))
			}
		})
	}
	if sc.PoolTx {
		tx := h.block(3).Transactions[0]
		h.spawn("T", func() {
			err := bc.PoolTx(tx)
			cl := "ok"
			if err != nil {
				cl = "rejected"
				if errors.Is(err, core.ErrAlreadyExists) {
					cl = "onchain"
				}
			}
			h.logf("T: PoolTx -> %v", err)
			h.mu.Lock()
			h.extra = append(h.extra, "pooltx="+cl)
			h.mu.Unlock()
		})
	}
	if r != nil {
		r.WaitIdle()
		r.NoBranch()
		h.logf("---- concurrent phase over; sequential re-offer ----")
	} else {
		h.wg.Wait()
	}
	// ---- sequential phase: what re-requesting peers do: every block again, in order --
	maxOff := sc.maxOff()
	for o := 1; o <= maxOff; o++ {
		h.add("main", o, h.block(o), false)
	}
	// ---- oracles -----------------------------------------------------------------
	h.mu.Lock()
	applied := append([]uint32{}, h.applied...)
	okCnt := map[int]int{}
	for k, v := range h.okCnt {
		okCnt[k] = v
	}
	h.mu.Unlock()
	// applied strictly in index order, each at most once
	last := f.H0
	seen := map[uint32]int{}
	for _, idx := range applied {
		seen[idx]++
		if seen[idx] >= 2 {
			h.fail(fmt.Sprintf("applied-twice:%s:b%d", name, idx-f.H0), fmt.Sprintf("block %d was applied to the ledger twice (applications in order: %v)", idx, applied))
		} else if idx != last+1 {
			h.fail(fmt.Sprintf("applied-out-of-order:%s:b%d", name, idx-f.H0), fmt.Sprintf("block %d applied after %d (applications in order: %v)", idx, last, applied))
		}
		if idx > last {
			last = idx
		}
	}
	for o := 1; o <= maxOff; o++ {
		if okCnt[o] != 1 {
			h.fail(fmt.Sprintf("accepted-count:%s:b%d", name, o), fmt.Sprintf("block H0+%d was handed over by several producers and once more sequentially: AddBlock returned nil %d times (exactly one call must accept it, the others get ErrAlreadyExists)", o, okCnt[o]))
		}
		if okCnt[o] != seen[f.H0+uint32(o)] {
			h.fail(fmt.Sprintf("accepted-vs-applied:%s:b%d", name, o), fmt.Sprintf("block H0+%d: AddBlock returned nil %d times but the block was applied %d times", o, okCnt[o], seen[f.H0+uint32(o)]))
		}
	}
	if okCnt[0] != 0 {
		h.fail("stale-accepted:"+name, "AddBlock accepted the block that was already on chain")
	}
	// the node reached the highest contiguous block given and equals the reference
	got, err := observe(n, f.H0, true)
	h.mu.Lock()
	clean := len(h.fails) == 0
	h.mu.Unlock()
	if err != nil {
		h.fail("observe:"+name, err.Error())
	} else {
		ref := f.Ref[maxOff]
		if got.Height != ref.Height {
			h.fail("no-convergence:"+name, fmt.Sprintf("every block up to %d was given (concurrently, then once more in order), height is %d", ref.Height, got.Height))
		} else if !clean {
			// the cause is already reported (a block applied twice, a call that
			// failed...): what exactly the state looks like then is not judged
		} else if got.Top != ref.Top || got.Roots != ref.Roots {
			h.fail("state-differs:"+name, fmt.Sprintf("top %s roots %s, reference node fed each block once: top %s roots %s", got.Top, got.Roots, ref.Top, ref.Roots))
		} else if got.Digest != ref.Digest {
			h.fail("store-differs:"+name, "same height, hash and state roots, but the flushed store differs from the reference node's: "+diffDump(got.Dump, ref.Dump))
		}
		h.mu.Lock()
		h.extra = append(h.extra, fmt.Sprintf("final=h%d", got.Height-f.H0))
		h.mu.Unlock()
	}
	if r == nil {
		closeNode()
		finish("free")
	}
	return out
}

var ttiPrefix = hex.EncodeToString([]byte{byte(storage.STTokenTransferInfo)})

func canonTTI(line string) string {
	i := strings.IndexByte(line, '=')
	raw, err := hex.DecodeString(line[i+1:])
	if err != nil {
		return line
	}
	var info state.TokenTransferInfo
	r := io.NewBinReaderFromBuf(raw)
	info.DecodeBinary(r)
	if r.Err != nil {
		return line
	}
	var ks []int
	for k := range info.LastUpdated {
		ks = append(ks, int(k))
	}
	sort.Ints(ks)
	var lu []string
	for _, k := range ks {
		lu = append(lu, fmt.Sprintf("%d:%d", k, info.LastUpdated[int32(k)]))
	}
	return fmt.Sprintf("%s=tti{%d %d %d %d %v %v [%s]}", line[:i], info.NextNEP11Batch, info.NextNEP17Batch, info.NextNEP11NewestTimestamp, info.NextNEP17NewestTimestamp, info.NewNEP11Batch, info.NewNEP17Batch, strings.Join(lu, " "))
}

func diffDump(a, b []string) string {
	in := func(l []string) map[string]bool {
		m := map[string]bool{}
		for _, x := range l {
			m[x] = true
		}
		return m
	}
	ma, mb := in(a), in(b)
	var d []string
	for _, x := range a {
		if !mb[x] && len(d) < 6 {
			d = append(d, "+"+clip(x))
		}
	}
	for _, x := range b {
		if !ma[x] && len(d) < 12 {
			d = append(d, "-"+clip(x))
		}
	}
	return strings.Join(d, " ")
}

func clip(s string) string {
	if len(s) > 100 {
		return s[:100] + "..."
	}
	return s
}
