// Package qh is the C20 block-queue harness shared by the model-checking part
// (checks/c20/queue: real bqueue code under the controlled scheduler, built
// with the bqueue overlay) and the data-race part (checks/c20/queuerace: the
// same bodies free-running on the unmodified package under -race).
package qh

import (
	"errors"
	"fmt"
	"sort"
	"strings"
	"sync"
	"time"

	"github.com/nspcc-dev/neo-go/pkg/network/bqueue"
	"go.uber.org/zap"

	"verif/lib/sched"
	"verif/shim/vatomic"
	"verif/shim/vsync"
)

// Blk is the queue element.
type Blk struct {
	Idx uint32
	Tag string
}

func (b *Blk) GetIndex() uint32 { return b.Idx }

func (b *Blk) String() string { return fmt.Sprintf("%d%s", b.Idx, b.Tag) }

// AddRec is one AddItem call on the ledger.
type AddRec struct {
	Blk     *Blk
	Caller  string // "queue" or "cons"
	OK      bool
	HBefore uint32
}

// Ledger is the model ledger: accepts exactly height+1 (as Blockchain.AddBlock
// does under its add lock) and logs every call. Its synchronisation uses the
// shim types, so under the scheduler every ledger access is a scheduling
// point and outside of it the real primitives are used.
type Ledger struct {
	addLock vsync.Mutex
	height  vatomic.Uint32
	h       uint32 // protected by addLock
	hm      sync.Mutex
	Log     []AddRec
	logf    func(string, ...any)
	// tid (scheduler runs only) identifies the calling logical thread; seen
	// keeps, per thread, the heights Height() served it since the last reset,
	// so that the harness knows which height each Put call observed.
	tid  func() int
	seen map[int][]uint32
}

var errBadIndex = errors.New("invalid block index")

func NewLedger(h0 uint32) *Ledger {
	l := &Ledger{h: h0}
	l.height.Store(h0)
	return l
}

func (l *Ledger) Height() uint32 {
	v := l.height.Load()
	if l.tid != nil {
		l.hm.Lock()
		if l.seen == nil {
			l.seen = map[int][]uint32{}
		}
		t := l.tid()
		l.seen[t] = append(l.seen[t], v)
		l.hm.Unlock()
	}
	return v
}

// takeSeen returns and clears the heights served to thread t.
func (l *Ledger) takeSeen(t int) []uint32 {
	l.hm.Lock()
	defer l.hm.Unlock()
	v := l.seen[t]
	delete(l.seen, t)
	return v
}

func (l *Ledger) add(caller string, b *Blk) error {
	l.addLock.Lock()
	defer l.addLock.Unlock()
	ok := b.Idx == l.h+1
	l.hm.Lock()
	l.Log = append(l.Log, AddRec{Blk: b, Caller: caller, OK: ok, HBefore: l.h})
	l.hm.Unlock()
	if l.logf != nil {
		l.logf("%s: AddItem(%v) at height %d -> %v", caller, b, l.h, ok)
	}
	if !ok {
		return errBadIndex
	}
	l.h++
	l.height.Store(l.h)
	return nil
}

func (l *Ledger) AddItem(b *Blk) error { return l.add("queue", b) }

func (l *Ledger) AddItems(bs ...*Blk) error {
	for _, b := range bs {
		if err := l.add("queue", b); err != nil {
			return err
		}
	}
	return nil
}

// ConsAdd is the consensus path: a block added directly.
func (l *Ledger) ConsAdd(b *Blk) error { return l.add("cons", b) }

// Far is the offset code for "far ahead": h0+cap+1.
const Far = 100

// Scenario describes one harness configuration.
type Scenario struct {
	Name      string
	Cap       int
	Mode      bqueue.OperationMode
	H0        uint32
	Producers [][]int // offsets from H0 (0 and negative = stale, Far = H0+cap+1)
	Cons      []int   // offsets of the blocks the consensus thread adds directly
	Discard   bool    // a thread calls Discard concurrently
	Observer  bool    // producer 0 calls LastQueued after each Put
}

func (sc *Scenario) index(off int) uint32 {
	if off == Far {
		return sc.H0 + uint32(sc.Cap) + 1
	}
	return uint32(int(sc.H0) + off)
}

// FullName includes capacity and mode.
func (sc *Scenario) FullName() string {
	m := "nb"
	if sc.Mode == bqueue.Blocking {
		m = "bl"
	}
	return fmt.Sprintf("%s/cap%d/%s", sc.Name, sc.Cap, m)
}

// Outcome is what one run of the body produced.
type Outcome struct {
	Fails []sched.Fail
	Notes []sched.Fail
	Obs   string
}

type harness struct {
	sc       *Scenario
	r        *sched.Run // nil when free-running
	L        *Ledger
	q        *bqueue.Queue[*Blk]
	hm       sync.Mutex
	relay    []*Blk
	lens     []int
	lq       []string
	fails    []sched.Fail
	notes    []sched.Fail
	offered  map[uint32]bool
	seq      int
	accepted []offerRec // Put calls that returned and, by the height they observed, had to take the element
	consDone []offerRec // successful consensus adds (seq taken after the call returned)
	thr      map[string][]string
	wg       sync.WaitGroup
	runDone  chan struct{}
}

func (h *harness) logf(format string, a ...any) {
	if h.r != nil {
		h.r.Logf(format, a...)
	}
}

func (h *harness) fail(key, msg string) {
	h.hm.Lock()
	defer h.hm.Unlock()
	for _, f := range h.fails {
		if f.Key == key {
			return
		}
	}
	h.fails = append(h.fails, sched.Fail{Key: key, Msg: msg})
}

// anomaly: measured and reported, but not demanded by the C20 property text
// (lead's decision: the len/capacity counters are informational).
func (h *harness) anomaly(key, msg string) {
	h.hm.Lock()
	defer h.hm.Unlock()
	for _, f := range h.notes {
		if f.Key == key {
			return
		}
	}
	h.notes = append(h.notes, sched.Fail{Key: key, Msg: msg})
}

func (h *harness) note(thread, s string) {
	h.hm.Lock()
	h.thr[thread] = append(h.thr[thread], s)
	h.hm.Unlock()
}

func (h *harness) spawn(name string, fn func()) {
	if h.r != nil {
		h.r.Go(name, fn)
		return
	}
	h.wg.Add(1)
	go func() {
		defer h.wg.Done()
		fn()
	}()
}

// quiesce: the concurrent phase is over (model: nothing else can move).
func (h *harness) quiesce() {
	if h.r != nil {
		h.r.WaitIdle()
		return
	}
	h.wg.Wait()
}

// drain: wait until the Run loop has nothing more to do.
func (h *harness) drain(target uint32) {
	if h.r != nil {
		h.r.WaitIdle()
		return
	}
	for i := 0; i < 2000 && h.L.Height() < target; i++ {
		time.Sleep(100 * time.Microsecond)
	}
}

// offerRec: an index given to the node, with its position in the harness's
// global order of events.
type offerRec struct {
	idx uint32
	seq int
}

func (h *harness) nextSeq() int {
	h.hm.Lock()
	defer h.hm.Unlock()
	h.seq++
	return h.seq
}

func (h *harness) put(thread string, b *Blk) {
	h.hm.Lock()
	h.offered[b.Idx] = true
	h.hm.Unlock()
	start := h.nextSeq()
	tid := -1
	if h.r != nil {
		tid = h.r.ThreadID()
		h.L.takeSeen(tid)
	}
	h.logf("%s: Put(%v) ...", thread, b)
	err := h.q.Put(b)
	h.logf("%s: Put(%v) returned", thread, b)
	if err != nil {
		h.fail("put-error:"+h.sc.FullName(), fmt.Sprintf("Put(%v) returned %v", b, err))
	}
	if h.r != nil && !h.sc.Discard {
		// Which height did this Put call observe? (It is racy from outside,
		// so it is taken from what the ledger served to this thread.) The
		// first one decides "stale", in NonBlocking mode also "beyond range";
		// a Blocking Put that returned has waited until the element fitted.
		if seen := h.L.takeSeen(tid); len(seen) > 0 {
			first := seen[0]
			acc := b.Idx > first
			if h.sc.Mode == bqueue.NonBlocking && b.Idx > first+uint32(h.sc.Cap) {
				acc = false
			}
			if acc {
				h.hm.Lock()
				h.accepted = append(h.accepted, offerRec{b.Idx, start})
				h.hm.Unlock()
				h.logf("%s: Put(%v) observed height %d: accepted in range", thread, b, first)
			}
		}
	}
}

// checkAccepted is evaluated at the quiescence of the concurrent phase, before
// anything is re-offered: every element a Put had to take (by the height that
// very call observed) must have been applied once all its predecessors were
// given too. Consensus adds only count if they had completed before the last
// accepted Put call started: a block added directly to the chain does not wake
// the queue (only a Put does), so a held successor of a later consensus block
// legitimately waits for the next Put.
func (h *harness) checkAccepted(height uint32) {
	h.hm.Lock()
	defer h.hm.Unlock()
	if len(h.accepted) == 0 {
		return
	}
	lastStart := 0
	for _, a := range h.accepted {
		if a.seq > lastStart {
			lastStart = a.seq
		}
	}
	given := map[uint32]bool{}
	for _, a := range h.accepted {
		given[a.idx] = true
	}
	for _, c := range h.consDone {
		if c.seq < lastStart {
			given[c.idx] = true
		}
	}
	want := h.sc.H0
	for given[want+1] {
		want++
	}
	if height < want {
		// fail() takes hm itself
		msg := fmt.Sprintf("at quiescence of the concurrent phase (before any re-offer) the height is %d, but every index up to %d was added by consensus or accepted in range by a Put call (accepted %v, consensus before the last accepted Put %v): an accepted element was dropped from the queue", height, want, h.accepted, h.consDone)
		// Mechanism: was the first missing element handed to the chain by the
		// queue while it was not the next one (Run used a height it had read
		// before taking the lock), which fails and makes Run drop it?
		lost := height + 1
		kind := "accepted-offer-lost:"
		h.L.hm.Lock()
		for _, a := range h.L.Log {
			if a.Caller == "queue" && !a.OK && a.Blk.Idx == lost && a.Blk.Idx > a.HBefore+1 {
				kind = "accepted-offer-lost-after-early-add:"
				msg += fmt.Sprintf("; the queue had called AddItem(%d) at height %d", a.Blk.Idx, a.HBefore)
				break
			}
		}
		h.L.hm.Unlock()
		h.hm.Unlock()
		h.fail(kind+h.sc.FullName(), msg)
		h.hm.Lock()
	}
}

// observe calls LastQueued and checks what its documentation and use promise.
func (h *harness) observe(thread string, final bool) {
	lq, capLeft := h.q.LastQueued()
	h.note(thread, fmt.Sprintf("lq=%d,%d", lq, capLeft))
	h.logf("%s: LastQueued() = %d, capacity left %d", thread, lq, capLeft)
	sc := h.sc
	if capLeft < 0 || capLeft > sc.Cap {
		h.anomaly("capacity_counter_anomalies:capacity-left:"+sc.FullName(), fmt.Sprintf("LastQueued returned capacity left %d, cache size %d (sequential repro: cap 2, Put(1), Put(2), consensus adds 1, Put(3) -> len 3 > cap 2: Run's clean-up of consensus-added blocks compares GetIndex() with i instead of i+1)", capLeft, sc.Cap))
	}
	if lq != 0 {
		// last queued element: an index that was actually offered, and (the
		// contiguity test in Put) every index between the start height and it
		// was offered too
		h.hm.Lock()
		bad := uint32(0)
		for i := sc.H0 + 1; i <= lq; i++ {
			if !h.offered[i] {
				bad = i
				break
			}
		}
		h.hm.Unlock()
		if lq <= sc.H0 || bad != 0 {
			h.fail("last-queued-not-contiguous:"+sc.FullName(), fmt.Sprintf("LastQueued=%d but index %d was never offered (start height %d)", lq, bad, sc.H0))
		}
	}
}

// Run executes the scenario once. r == nil: free-running.
func Run(sc *Scenario, r *sched.Run) *Outcome {
	h := &harness{sc: sc, r: r, offered: map[uint32]bool{}, thr: map[string][]string{}, runDone: make(chan struct{})}
	h.L = NewLedger(sc.H0)
	if r != nil {
		h.L.logf = r.Logf
		h.L.tid = r.ThreadID
	}
	relayF := func(b *Blk) {
		h.logf("relay(%v)", b)
		h.hm.Lock()
		h.relay = append(h.relay, b)
		h.hm.Unlock()
	}
	lenF := func(l int) {
		h.logf("length metric = %d", l)
		h.hm.Lock()
		h.lens = append(h.lens, l)
		h.hm.Unlock()
	}
	h.q = bqueue.New[*Blk](h.L, zap.NewNop(), relayF, sc.Cap, lenF, sc.Mode)
	if h.q.Cap() != sc.Cap {
		h.fail("cap:"+sc.FullName(), "Cap() differs from the cache size given")
	}
	var hMid uint32
	final := ""
	// ---- safety oracles on the logs (evaluated at the end) -------------------
	eval := func() {
		h.L.hm.Lock()
		log := append([]AddRec{}, h.L.Log...)
		h.L.hm.Unlock()
		// applied strictly in index order, each at most once
		last := sc.H0
		var qOK []*Blk
		for _, a := range log {
			if !a.OK {
				continue
			}
			if a.Blk.Idx != last+1 {
				h.fail("applied-out-of-order:"+sc.FullName(), fmt.Sprintf("block %d applied after %d", a.Blk.Idx, last))
			}
			last = a.Blk.Idx
			if a.Caller == "queue" {
				qOK = append(qOK, a.Blk)
			}
		}
		// relay: called exactly for the items the queue added, once each
		h.hm.Lock()
		relay := append([]*Blk{}, h.relay...)
		lens := append([]int{}, h.lens...)
		h.hm.Unlock()
		if fmt.Sprint(relay) != fmt.Sprint(qOK) {
			h.fail("relay-mismatch:"+sc.FullName(), fmt.Sprintf("relayed %v, queue-added %v", relay, qOK))
		}
		for _, l := range lens {
			if l < 0 || l > sc.Cap {
				h.anomaly("capacity_counter_anomalies:length:"+sc.FullName(), fmt.Sprintf("length metric %d reported, cache size %d (sequential repro: cap 2, Put(1), Put(2), consensus adds 1, Put(3) -> len 3 > cap 2)", l, sc.Cap))
				break
			}
		}
	}
	out := &Outcome{}
	finish := func(end string) {
		eval()
		var b strings.Builder
		fmt.Fprintf(&b, "end=%s mid=%d %s adds=[", end, hMid, final)
		h.L.hm.Lock()
		for _, a := range h.L.Log {
			fmt.Fprintf(&b, "%s:%v:%v ", a.Caller[:1], a.Blk.Idx, a.OK)
		}
		h.L.hm.Unlock()
		b.WriteString("]")
		var names []string
		for n := range h.thr {
			names = append(names, n)
		}
		sort.Strings(names)
		for _, n := range names {
			fmt.Fprintf(&b, " %s=%v", n, h.thr[n])
		}
		fmt.Fprintf(&b, " relay=%v lens=%v", h.relay, h.lens)
		out.Obs = b.String()
		out.Fails = h.fails
		out.Notes = h.notes
	}
	if r != nil {
		r.OnEnd(func(end sched.EndKind) {
			switch end {
			case sched.EndFinished:
			case sched.EndDeadlock:
				h.fail("deadlock:"+sc.FullName(), "no thread can move and not all have finished")
			case sched.EndPanic:
				msg := r.PanicMsg()
				first := msg
				if i := strings.Index(first, "\n"); i > 0 {
					first = first[:i]
				}
				if i := strings.Index(first, "panic: "); i >= 0 {
					first = first[i+7:]
				}
				h.fail("panic:"+sc.FullName()+":"+first, msg)
			case sched.EndHorizon, sched.EndQuiescent:
				h.fail("stuck:"+sc.FullName(), "threads still blocked after Discard: "+end.String())
			}
			finish(end.String())
			for _, f := range h.fails {
				r.Fail(f.Key, f.Msg)
			}
			for _, f := range h.notes {
				r.Note(f.Key, f.Msg)
			}
			r.SetObs(out.Obs)
		})
	}

	if r != nil {
		r.Go("run", h.q.Run)
	} else {
		go func() { h.q.Run(); close(h.runDone) }()
	}
	for i, items := range sc.Producers {
		name := fmt.Sprintf("P%d", i+1)
		items := items
		obs := sc.Observer && i == 0
		h.spawn(name, func() {
			for k, off := range items {
				h.put(name, &Blk{Idx: sc.index(off), Tag: fmt.Sprintf("%s.%d", strings.ToLower(name), k)})
				if obs {
					h.observe(name, false)
				}
			}
		})
	}
	if len(sc.Cons) > 0 {
		h.spawn("cons", func() {
			for k, off := range sc.Cons {
				b := &Blk{Idx: sc.index(off), Tag: fmt.Sprintf("c.%d", k)}
				err := h.L.ConsAdd(b)
				if err == nil {
					q := h.nextSeq()
					h.hm.Lock()
					h.consDone = append(h.consDone, offerRec{b.Idx, q})
					h.hm.Unlock()
				}
				h.note("cons", fmt.Sprintf("add%d:%v", b.Idx, err == nil))
			}
		})
	}
	if sc.Discard {
		h.spawn("disc", h.q.Discard)
	}
	h.quiesce()

	// ---- sequential phase: what re-requesting peers do ---------------------
	h.logf("---- concurrent phase over; sequential re-offer ----")
	if r != nil {
		r.NoBranch()
		r.SetHorizon(1000)
	}
	hMid = h.L.Height()
	if r != nil && !sc.Discard {
		h.checkAccepted(hMid)
	}
	if !sc.Discard {
		var maxOff uint32
		h.hm.Lock()
		for i := range h.offered {
			if i > maxOff {
				maxOff = i
			}
		}
		h.hm.Unlock()
		target := func() uint32 { // highest contiguous index given (offers + consensus successes)
			h.hm.Lock()
			defer h.hm.Unlock()
			given := map[uint32]bool{}
			for i := range h.offered {
				given[i] = true
			}
			h.L.hm.Lock()
			for _, a := range h.L.Log {
				if a.OK {
					given[a.Blk.Idx] = true
				}
			}
			h.L.hm.Unlock()
			t := sc.H0
			for given[t+1] {
				t++
			}
			return t
		}
		for round := 0; round < int(maxOff)+3; round++ {
			cur := h.L.Height()
			if cur >= target() {
				break
			}
			for i := cur + 1; i <= maxOff; i++ {
				h.put("main", &Blk{Idx: i, Tag: fmt.Sprintf("r%d", round)})
			}
			h.drain(target())
		}
		h.drain(target())
		got, want := h.L.Height(), target()
		if r != nil && got != want {
			h.fail("no-convergence:"+sc.FullName(), fmt.Sprintf("after re-offering every block and draining, height is %d, highest contiguous index given is %d", got, want))
		}
		if r != nil {
			h.observe("main", true)
		}
		final = fmt.Sprintf("h=%d", got)
	}
	h.q.Discard()
	if r == nil {
		<-h.runDone
	}

	if r == nil {
		finish("free")
	}
	return out
}

// Scenarios returns the configurations (simplest first).
func Scenarios(thorough bool) []*Scenario {
	base := []Scenario{
		{Name: "dup-cons", Producers: [][]int{{1, 2}, {1, 3}}, Cons: []int{1}, Observer: true},
		{Name: "reverse", Producers: [][]int{{2, 1}, {3, 4}}, Cons: []int{2}},
		{Name: "far-ahead", Producers: [][]int{{Far, 1}, {2, 3}}, Cons: []int{1}},
		{Name: "stale-far", Producers: [][]int{{0, 1, Far}, {2, 1}}, Cons: []int{1, 2}, Observer: true},
		{Name: "three-producers", Producers: [][]int{{1, 4}, {2}, {3, 1}}},
		{Name: "discard", Producers: [][]int{{1, 2}, {Far, 3}}, Cons: []int{1}, Discard: true},
		{Name: "wrap-h5", H0: 5, Producers: [][]int{{2, 1, 3}, {1, 4}}, Cons: []int{1}, Observer: true},
	}
	var out []*Scenario
	for _, b := range base {
		for _, c := range []int{2, 3} {
			// quick: the two largest families only with cache size 2
			if !thorough && c == 3 && (b.Discard || len(b.Producers) == 3) {
				continue
			}
			for _, m := range []bqueue.OperationMode{bqueue.NonBlocking, bqueue.Blocking} {
				s := b
				s.Cap, s.Mode = c, m
				out = append(out, &s)
			}
		}
	}
	return out
}
