// C20, block queue part: the real pkg/network/bqueue code (built with the
// bqueue overlay: sync, sync/atomic, time and the channel forms go through the
// verif shims) under the controlled scheduler, all schedules up to a
// preemption bound (DESIGN.md section 2.1 and "### C20").
package queue

import (
	"os"
	"testing"
	"time"

	"github.com/nspcc-dev/neo-go/pkg/network/bqueue"

	"verif/checks/c20/qh"
	"verif/lib/sched"
	"verif/lib/vk"
)

func configs() []*sched.Config {
	thorough := os.Getenv("VERIF_TIER") == "thorough"
	var cfgs []*sched.Config
	for _, sc := range qh.Scenarios(thorough) {
		sc := sc
		c := &sched.Config{
			Name:    sc.FullName(),
			Horizon: 2,
			Body:    func(r *sched.Run) { qh.Run(sc, r) },
		}
		// thorough: preemption bound 3 on the cache-size-2 NonBlocking variants
		// of the scenarios without a Discard thread and on three Blocking ones
		// (bound 3 on everything is ~2*10^8 schedules); bound 2 on all.
		deeperBlocking := map[string]bool{"dup-cons": true, "reverse": true, "far-ahead": true}
		if thorough && sc.Cap == 2 && !sc.Discard && (sc.Mode == bqueue.NonBlocking || deeperBlocking[sc.Name]) {
			c.MaxBound = 3
		}
		cfgs = append(cfgs, c)
	}
	return cfgs
}

func TestCheck(t *testing.T) {
	vk.UseT(t)
	cfgs := configs()
	sched.WorkerMain(cfgs)
	r := vk.Start("C20", "model_checking", 170*time.Second, 19*time.Minute)
	sched.RunCheck(r, cfgs, sched.CheckOpts{
		MaxBound:  2,
		JobMillis: vk.Pick(r, 1500, 5000),
		What:      "all schedules of Run + producers + consensus (+Discard) threads on the real bqueue.Queue up to the preemption bound, per scenario x cache size {2,3} x mode {NonBlocking, Blocking with a 2-tick horizon}",
		Extra: map[string]any{
			"ticker_horizon": 2,
			"cache_sizes":    []int{2, 3},
		},
		Assumptions: []string{
			"cooperative scheduling: interleavings are explored at synchronisation operations (mutex, atomic, channel, ticker) only; unsynchronised accesses are covered by the separate -race part",
			"the ledger model accepts exactly height+1 under an add lock, like Blockchain.AddBlock",
			"RWMutex writer preference is not modelled (RLock is enabled iff no writer holds the lock)",
			"a ticker delivers at most 2 ticks during the concurrent phase; in the final sequential phase time only advances when nothing else can move",
			"during the concurrent phase only safety is asserted; convergence is asserted after a sequential re-offer of every block (DESIGN 4.x precision note)",
		},
	})
}
