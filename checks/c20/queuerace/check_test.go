// C20, block queue, data-race part: the harness bodies of checks/c20/queue run
// free (real goroutines) on the UNMODIFIED bqueue package under -race.
package queuerace

import (
	"sync"
	"testing"
	"time"

	"github.com/nspcc-dev/neo-go/pkg/network/bqueue"

	"verif/checks/c20/qh"
	"verif/lib/sched"
	"verif/lib/vk"
)

func child(deadline time.Time) *sched.RaceSummary {
	s := &sched.RaceSummary{PerConfig: map[string]int{}, Fails: map[string]string{}, Notes: map[string]int{}}
	obs := map[string]bool{}
	var mu sync.Mutex
	scs := qh.Scenarios(false)
	var wg sync.WaitGroup
	sem := make(chan struct{}, 16)
	// Blocking-mode scenarios wait on a real one-second ticker: few iterations,
	// started first so that they overlap with the NonBlocking ones.
	type item struct {
		sc    *qh.Scenario
		iters int
	}
	var items []item
	for _, sc := range scs {
		if sc.Mode == bqueue.Blocking {
			items = append(items, item{sc, 2})
		}
	}
	for _, sc := range scs {
		if sc.Mode == bqueue.NonBlocking {
			items = append(items, item{sc, 1500})
		}
	}
	for _, it := range items {
		sc := it.sc
		for i := 0; i < it.iters; i++ {
			if time.Now().After(deadline) {
				s.Capped = true
				break
			}
			sem <- struct{}{}
			wg.Add(1)
			go func() {
				defer func() { <-sem; wg.Done() }()
				out := qh.Run(sc, nil)
				mu.Lock()
				defer mu.Unlock()
				s.Iterations++
				s.PerConfig[sc.FullName()]++
				obs[sc.FullName()+" "+out.Obs] = true
				for _, f := range out.Fails {
					if _, ok := s.Fails[f.Key]; !ok {
						s.Fails[f.Key] = f.Msg + " | " + out.Obs
					}
				}
				for _, f := range out.Notes {
					s.Notes[f.Key]++
				}
			}()
		}
	}
	wg.Wait()
	s.Distinct = len(obs)
	return s
}

func TestCheck(t *testing.T) {
	vk.UseT(t)
	sched.RaceChild(child)
	r := vk.Start("C20", "model_checking", 100*time.Second, 5*time.Minute)
	sched.RunRaceParent(r, vk.Pick(r, 25, 150),
		"data-race pass: the block-queue harness bodies (Run + producers + consensus + Discard) free-running on the unmodified bqueue package under the Go race detector; a race report or a safety-oracle failure is a violation",
		[]string{"the race pass is a sample of free-running schedules (the exhaustive part is the scheduler part); it exists because unsynchronised accesses are invisible to a cooperative scheduler"})
}
