// C20, state-sync part: a node bootstrapping by state synchronisation.
//
// The real statesync.Module and core.Blockchain of a fresh node (recording
// store) are driven one environment event at a time: a batch of headers, one
// or several trie nodes, a batch of raw storage items, a block, a flush, a
// graceful restart, a crash at a prefix of the batch log. The state space is
// explored in state mode (key: stage getters, unknown-node set, heights,
// digest of the raw database), bounded by a deviation budget from a default
// delivery order and exhaustive over all orders once few nodes are missing.
// At every new state the wrong-data menu (corrupted / duplicate / unrequested /
// out-of-stage deliveries) is applied and must leave the state unchanged.
// Complete traces are compared with the source chain at the sync point and at
// every later height (DESIGN.md "### C20", State sync; "### C02" state jump).
package sync

import (
	"fmt"
	"os"
	"slices"
	"sort"
	"testing"
	"time"

	"verif/lib/vk"
)

type ptT struct {
	H uint32 // height given to Module.Init (selects the sync point)
	T uint32 // TrustedHeader index of the syncing node (0: none)
}

type planT struct {
	fam    famT
	names  []string
	points []ptT
	modes  []string
	orders []string
	prof   profT
}

func plans(thorough bool) []planT {
	i2 := famT{Name: "single-i2-mtb2", I: 2, MTB: 2}
	q := profT{Budget: 1, Tail: 6, Sub: true, RestartTip: true, ItemBatch: 3}
	qi := q
	qi.ItemsFree = true
	hA := []string{"u-storage", "u-storage2", "destroy-ub", "u-storage", "vote1", "u-storage2", "u-storage"}
	hB := []string{"vote1", "u-storage2", "max-traceable", "u-storage", "u-storage2", "unvote1", "u-storage"}
	hC := []string{"deploy-uc", "u-storage", "deploy-uc", "destroy-ub", "u-storage2", "u-storage", "deploy-uc"}
	// hS: UB = {a:1} and UC = {a:1} at heights 6..7 (a shared inner node), UC changes at 8, UB dies at 9
	// (a shared inner node under ONE parent); ua-shared-inner adds one under TWO different parents
	hS := []string{"deploy-uc", "ub-a1", "uc-a1", "ua-shared-inner", "uc-a2", "ua-unshare", "u-storage2"}
	// ext_init: StateRootInHeader off (storage-based mode only): the announced root can only be checked
	// against the checkpoint / an earlier announcement; qw/tw announce a witnessed root
	i2n := famT{Name: "single-i2-mtb2-nosrih", I: 2, MTB: 2, NoSRIH: true}
	qw := q // default batches of 7 items; every other batch size is a deviation
	qw.RootWitness, qw.ItemBatch = true, 7
	if !thorough {
		return []planT{
			{i2, hA, []ptT{{7, 5}}, []string{"mpt"}, []string{"lo", "rdfs"}, q},
			{i2, hA, []ptT{{5, 0}}, []string{"mpt"}, []string{"lo"}, q},
			{i2, hB, []ptT{{9, 5}}, []string{"mpt"}, []string{"dfs"}, q},
			{i2, hS, []ptT{{9, 5}}, []string{"mpt"}, []string{"bfs"}, q},
			{i2, hS, []ptT{{7, 5}}, []string{"mpt"}, []string{"hi"}, q},
			{i2, hA, []ptT{{7, 5}}, []string{"items"}, []string{"-"}, qi},
			// (default batches of 3 resp. 7 items, other batch sizes are deviations: restarts at every 3rd / 7th
			// position; all positions in thorough)
			{i2n, hA, []ptT{{7, 5}}, []string{"items"}, []string{"-"}, q},
			{i2n, hB, []ptT{{9, 0}}, []string{"items"}, []string{"-"}, qw},
		}
	}
	t := profT{Budget: 1, Tail: 9, Sub: true, SubTrunc: true, RestartTip: true, AllBytes: true, ItemBatch: 3}
	ti := t
	ti.ItemsFree = true
	// two environment deviations (flush/restart/crash/header split) per trace, or one order deviation
	t2 := t
	t2.Budget, t2.OrderCost = 2, 2
	ti2 := t // default batches of 3 items, two environment deviations
	ti2.Budget, ti2.OrderCost = 2, 2
	i3 := famT{Name: "single-i3-mtb3", I: 3, MTB: 3, Pad: 1}
	i4 := famT{Name: "single-i4-mtb2", I: 4, MTB: 2, Pad: 3}
	m2 := famT{Name: "multi-i2-mtb2", I: 2, MTB: 2, Multi: true}
	all := []string{"lo", "hi", "dfs", "rdfs", "bfs"}
	tw := ti
	tw.RootWitness = true
	i3n := famT{Name: "single-i3-mtb3-nosrih", I: 3, MTB: 3, Pad: 1, NoSRIH: true}
	hD := []string{"fault-between", "caught-callee", "u-storage2", "gas-to-contract", "u-storage", "destroy-ub", "u-storage"}
	hE := []string{"u-storage", "vote2+transfer", "policy-fee+tx", "u-storage2", "unvote1", "u-storage", "u-storage2", "vote1"}
	return []planT{
		{i2, hA, []ptT{{7, 5}, {9, 5}, {9, 7}, {5, 0}, {7, 0}}, []string{"mpt"}, all, t},
		{i2, hB, []ptT{{7, 5}, {9, 5}, {5, 0}}, []string{"mpt"}, all, t},
		{i2, hC, []ptT{{7, 5}, {9, 7}, {5, 0}}, []string{"mpt"}, all, t},
		{i2, hS, []ptT{{7, 5}, {9, 7}}, []string{"mpt"}, all, t},
		{i2, hD, []ptT{{7, 5}, {9, 5}}, []string{"mpt"}, []string{"lo", "rdfs"}, t},
		{i3, hE, []ptT{{10, 7}, {7, 0}}, []string{"mpt"}, []string{"lo", "rdfs"}, t},
		{i4, hA, []ptT{{13, 9}, {9, 0}}, []string{"mpt"}, []string{"lo", "dfs"}, t},
		{m2, hA, []ptT{{7, 5}, {5, 0}}, []string{"mpt"}, []string{"lo", "rdfs"}, t},
		{i2, hA, []ptT{{9, 7}}, []string{"mpt"}, []string{"lo"}, t2},
		{i2, hS, []ptT{{9, 5}}, []string{"mpt"}, []string{"rdfs"}, t2},
		{i2, hA, []ptT{{7, 5}}, []string{"items"}, []string{"-"}, ti2},
		{i2, hA, []ptT{{9, 5}, {5, 0}}, []string{"items"}, []string{"-"}, ti},
		{i2, hB, []ptT{{9, 5}}, []string{"items"}, []string{"-"}, ti},
		{i3, hE, []ptT{{10, 7}}, []string{"items"}, []string{"-"}, ti},
		{i2n, hA, []ptT{{7, 5}, {9, 5}, {5, 0}}, []string{"items"}, []string{"-"}, ti},
		{i2n, hA, []ptT{{7, 5}}, []string{"items"}, []string{"-"}, ti2},
		{i2n, hB, []ptT{{9, 0}, {9, 5}}, []string{"items"}, []string{"-"}, tw},
		{i2n, hC, []ptT{{9, 7}}, []string{"items"}, []string{"-"}, tw},
		{i3n, hE, []ptT{{10, 7}}, []string{"items"}, []string{"-"}, ti},
		{i2, hB, []ptT{{9, 5}}, []string{"items"}, []string{"-"}, tw},
	}
}

func buildConfs(r *vk.Run, ps []planT) []*confT {
	srcs := make([]*srcT, len(ps))
	errs := make([]error, len(ps))
	pts := func(p planT) []uint32 {
		var out []uint32
		for _, pt := range p.points {
			out = append(out, pt.H/uint32(p.fam.I)*uint32(p.fam.I))
		}
		return out
	}
	r.Parallel(len(ps), func(i int) { srcs[i], errs[i] = buildSource(ps[i].fam, ps[i].names, pts(ps[i])) })
	var confs []*confT
	for i, p := range ps {
		if errs[i] != nil || srcs[i] == nil {
			fmt.Println("CHECK-ERROR: source", p.fam.Name, p.names, errs[i])
			os.Exit(3)
		}
		s := srcs[i]
		for _, pt := range p.points {
			P := pt.H / uint32(p.fam.I) * uint32(p.fam.I)
			if P < 2*uint32(p.fam.I) || P+1 > s.tip || pt.H > s.tip {
				fmt.Println("CHECK-ERROR: inadmissible sync point", P, "tip", s.tip)
				os.Exit(3)
			}
			for _, m := range p.modes {
				if m != "items" && p.fam.NoSRIH {
					fmt.Println("CHECK-ERROR: the MPT mode needs state roots in headers:", p.fam.Name)
					os.Exit(3)
				}
				for _, o := range p.orders {
					c := &confT{src: s, HInit: pt.H, P: P, Trust: pt.T, Mode: m, Order: o, prof: p.prof, trie: s.tries[P], items: s.items[P]}
					if m == "items" {
						if _, err := c.prefixRoots(); err != nil {
							fmt.Println("CHECK-ERROR:", c.name(), err)
							os.Exit(3)
						}
					}
					confs = append(confs, c)
				}
			}
		}
	}
	return confs
}

func TestCheck(t *testing.T) {
	vk.UseT(t)
	r := vk.Start("C20", "model_checking", 170*time.Second, 22*time.Minute)
	defer vk.CleanScratch()
	if r.Replay != "" {
		replay(r)
		return
	}
	r.SetSampleCap(8)
	ps := plans(r.Thorough())
	if os.Getenv("VERIF_ID") != "C02" {
		// ext_epoch: sync points at every position of a dBFT epoch, native caches rebuilt at the jump
		ps = append(ps, epochPlans(r.Thorough())...)
	}
	if os.Getenv("VERIF_ID") == "C02" {
		// part `jump` of C02 (crash points of the state jump): the configurations
		// without state roots in headers are about the announced root, a C20 matter
		ps = slices.DeleteFunc(ps, func(p planT) bool { return p.fam.NoSRIH })
	}
	confs := buildConfs(r, ps)
	confs, filtered := devFilter(confs)
	if filtered {
		r.Capped()
	}
	st := newStats(r)
	x := newExplorer(r, st)
	var cfgNames []string
	trieInfo := map[string]any{}
	for i, c := range confs {
		x.push(job{c: c, ci: i, budget: c.prof.Budget})
		cfgNames = append(cfgNames, fmt.Sprintf("%s budget=%d order-cost=%d tail=%d", c.name(), c.prof.Budget, max(1, c.prof.OrderCost), c.prof.Tail))
		trieInfo[fmt.Sprintf("%s/P%d", c.src.id, c.P)] = map[string]int{"trie_nodes": len(c.trie.Nodes), "nodes_on_several_paths": c.trie.Multi, "inner_nodes_on_several_paths": c.trie.MultiInner, "inner_nodes_with_two_parents": c.trie.MultiParent, "storage_items": len(c.items), "tip": int(c.src.tip)}
	}
	fmt.Printf("c20/sync: %d configurations, sources built in %.1fs\n", len(confs), r.Elapsed())
	noSRIH := 0
	for _, c := range confs {
		if c.src.fam.NoSRIH {
			noSRIH++
		}
	}
	epochConfs, epochChanges := 0, 0
	epochPos := vk.NewSet()
	for _, c := range confs {
		if !c.prof.Lean {
			continue
		}
		epochConfs++
		epochPos.Add(fmt.Sprint((c.P + 1) % 6))
		// measured: boundaries after P at which the committee / validators of the source change
		for h := c.P + 1; h <= c.src.tip; h++ {
			if c.src.lite[h]["committee"] != c.src.lite[h-1]["committee"] || c.src.lite[h]["next_validators"] != c.src.lite[h-1]["next_validators"] {
				epochChanges++
			}
		}
	}
	x.run(r.Workers())
	multiFinal := 0
	st.mu.Lock()
	var finals []string
	for g, m := range st.finals {
		if len(m) > 1 {
			multiFinal++
		}
		finals = append(finals, fmt.Sprintf("%s:%d", g, len(m)))
	}
	st.mu.Unlock()
	sort.Strings(finals)
	fmt.Printf("c20/sync: states=%d transitions=%d jobs=%d complete=%d merged=%d probes=%d rejected-with-error=%d restarts=%d crashes=%d crash-states=%d jumps=%d orders=%d stages=%d violations=%d (%.1fs)\n",
		st.states.Get(), st.transitions.Get(), st.jobs.Get(), st.completed.Get(), st.merged.Get(), st.probes.Get(), st.rejected.Get(), st.restarts.Get(), st.crashes.Get(), st.crashStates.Len(), st.jumps.Get(), st.orders.Len(), st.stages.Len(), st.violations.Get(), r.Elapsed())
	r.Finish(map[string]any{
		"states":                                          int(st.states.Get()),
		"transitions":                                     int(st.transitions.Get()),
		"traces_validated_against_impl":                   int(st.jobs.Get()),
		"complete_traces":                                 int(st.completed.Get()),
		"traces_merged_into_known_state":                  int(st.merged.Get()),
		"distinct_delivery_orders":                        st.orders.Len(),
		"wrong_data_probes":                               int(st.probes.Get()),
		"wrong_data_rejected_with_error":                  int(st.rejected.Get()),
		"restarts":                                        int(st.restarts.Get()),
		"crash_points":                                    int(st.crashes.Get()),
		"distinct_crash_databases":                        st.crashStates.Len(),
		"state_jumps":                                     int(st.jumps.Get()),
		"outdated_point_refusals":                         int(st.outdated.Get()),
		"nodes_not_closable_after_panic":                  int(st.leaked.Get()),
		"distinct_stage_getter_vectors":                   st.stages.Len(),
		"root_announcements_genuine_events":               int(st.initEvents.Get()),
		"root_announcement_probes":                        int(st.initProbes.Get()),
		"root_announcement_probes_refused":                int(st.initRefused.Get()),
		"root_announcement_kind_x_context":                st.initCtx.Len(),
		"root_announcement_kinds_and_contexts":            st.initCtx.Sorted(),
		"configurations_without_state_root_in_header":     noSRIH,
		"epoch_family_configurations":                     epochConfs,
		"epoch_family_sync_point_positions_in_epoch":      epochPos.Len(),
		"epoch_family_committee_changes_after_sync_point": epochChanges,
		"epoch_family_native_getter_comparisons":          int(st.nativeReads.Get()),
		"inline_child_deliveries":                         int(st.inlines.Get()),
		"configurations":                                  cfgNames,
		"tries":                                           trieInfo,
		"distinct_final_databases_per_source_point":       finals,
		"bounds":          "per configuration: one default delivery order (lowest hash | highest hash | pre-order | reverse pre-order | level by level) + every trace with at most <budget> deviations from it (a deviation = another unknown node, a subtree answer, an all-unknown batch, a good+corrupted batch, another item batch size / wrong / omitted item, a header batch that stops short of the tip or overlaps, flush, restart, restart with the tip as peer height, crash at a batch prefix); on traces without other deviations additionally ALL header splits below the sync point, ALL item batch sizes and ALL node orders once at most <tail> trie nodes are missing; thorough adds budget 2 for flush/restart/crash on three configurations; storage-based mode also on chains without state roots in headers (left out when the package runs as part `jump` of C02), there with a plain and with a witnessed announced root; epoch family (multi-i5-mtb2: 4 validators / 6 committee members, one 42-block programme whose committee and validators change at every epoch boundary and whose Policy / Notary / Oracle / NEO / RoleManagement / ContractManagement values change at P-1 and P and are used at P+1): sync points 10..35 = all six positions of an epoch, lean profile = one default line (all requested nodes per message, one item batch) + flush / restart / restart-with-tip / crash at every batch in the blocks stage, at the jump and at each of the first 7 heights after P, lockstep to the tip (several later boundaries)",
		"events":          "hdr(k) / hdr(overlap), node(x) for every currently unknown x, sub(x[,3]) = (truncated) subtree answer of a peer, all(asc|desc), mix(good+corrupted), nodedup (a later duplicate MPT message when nothing is requested any more), inl(x) = the requested inner node x with one child serialised in full instead of by hash (same hash as the canonical form; must be refused leaving x requested, or handled so that the child is requested or stored), init = the state source announces the genuine root of the sync point (InitContractStorageSync; first event of the storage stage on every module instance, i.e. again after each restart/crash), items(k | bad | gap | redo), blk = Module.AddBlock(next), pblk = Blockchain.AddBlock(next) after the jump, flush, restart (same peer height | source tip), crash(i) = database cut after the i-th batch of the last event (every stage batch of the state jump included)",
		"wrong_data_menu": "per new state (full menu on the default line and after a deviation, two rotating entries elsewhere): duplicate / far-ahead / gapped / 6 kinds of tampered headers / good+tampered batch; headers, nodes, blocks outside their stage; already restored node, valid node below an unknown one, nodes of the trie of another height, requested node with one byte changed (4 positions; all positions of short nodes in thorough), truncated, garbage; empty / duplicate item batch, wrong root or height for InitContractStorageSync; foreign announced roots wherever the node has a header, an earlier announcement or a loaded checkpoint to compare with (zero, root of all items but the last, root of the items stored so far = the checkpoint's intermediate root, root after the next default batch, roots of heights P-1 and P+1, genuine root under height P-1, previous sync point with its own root, witness with a foreign verification script): error required, state key unchanged, and the genuine root must still be accepted right afterwards; the genuine root announced again (must be accepted); announcements in the headers stage, the blocks stage and after the jump (nothing may change, foreign ones refused); duplicate / next-but-one / far-ahead / 3 kinds of tampered blocks for Module.AddBlock, duplicate / next-but-one / 4 kinds of tampered blocks for Blockchain.AddBlock",
		"final_oracle":    "at the jump and after every restart on a jumped database (epoch family: also after every later block): ~25 native getters answered by test invocations (committee, validators, candidates, GAS per block, register price, unclaimed GAS, policy values, blocked account, notary delta, oracle price, designated roles, contract methods) and CalculateClaimable equal to the source; height, block hash, GetStateRoot, local root, full contract storage dump, committee, validators, policy, natives, contracts, candidates equal to the source at that height; traceable blocks and their transactions readable; the key-value pairs enumerated through the stored state trie equal to the source's; every later block accepted with an observation (incl. execution results) equal to the source's; at the tip again after flush + garbage collection and after a restart",
		"state_key":       "stage getters (IsActive, IsInitialized, NeedHeaders, NeedStorageData, NeedBlocks), sync point, header height, block height, Module.BlockHeight, unknown-node set, digest of the raw database, restarts so far, peer height given to Init, last stored key and harness flags (items mode)",
	}, []string{
		"equal state keys have equal futures: the part of the state that is only in memory is represented by the header height, the unknown-node set (which, for a fixed source trie, determines the restored set), the module's block height and the item stream position; the digest covers the flushed part",
		"a corrupted trie node has another hash and is therefore not a requested node: the module ignores it (documented in restoreNode) - the oracle demands 'error or ignored' and an unchanged state for node data, an error for corrupted headers/blocks",
		"raw storage items carry no per-item hash: a wrong or omitted item is only detectable through the final root; the oracle demands that the sync never completes on a wrong root and completes correctly once the right items are delivered again",
		"one PutChangeSet is atomic and durable (backend trusted, as C02 states); a crash loses exactly the unflushed memory layer",
		"the peer height given to Init is the same after a restart, or the source's tip (restart-with-new-height)",
		"without state roots in headers, without a checkpoint and without an earlier announcement on the module instance nothing identifies the right root: the first announcement of the state source is trusted and foreign roots are not offered in that state",
	})
}

func replay(r *vk.Run) {
	var c caseRec
	if _, err := os.Stat(r.Replay); err != nil {
		fmt.Println("cannot read replay:", err)
		os.Exit(3)
	}
	// A record of another part (of C20 or, for part `jump`, of C02) may use the
	// same field names with other types: whatever does not decode as a
	// state-sync case is somebody else's.
	if err := r.ReadReplay(&c); err != nil {
		fmt.Println("c20/sync: the replay file does not decode as a state-sync case:", err)
		c = caseRec{}
	}
	if c.Fam.Name == "" || len(c.Names) == 0 || c.Mode == "" {
		fmt.Println("c20/sync: the replay file is not a state-sync case (another part of C20 owns it); nothing to do")
		r.Finish(map[string]any{"states": 1, "transitions": 1, "traces_validated_against_impl": 1}, nil)
		return
	}
	P := c.P
	src, err := buildSource(c.Fam, c.Names, []uint32{P})
	if err != nil {
		fmt.Println("replay: source:", err)
		os.Exit(3)
	}
	conf := &confT{src: src, HInit: c.HInit, P: P, Trust: c.Trust, Mode: c.Mode, Order: c.Order, prof: c.Prof, trie: src.tries[P], items: src.items[P]}
	for i := 0; i < 5; i++ {
		st := newStats(nil)
		v := replayOnce(conf, c.Events, st)
		if v != nil {
			fmt.Printf("replay %d: REPRODUCED %s: %s %v\n", i, v.Oracle, v.What, v.Diff)
			c.Oracle, c.What, c.Diff = v.Oracle, v.What, v.Diff
			r.Violation("replay:"+v.Oracle+":"+c.Trace, c)
		} else {
			fmt.Printf("replay %d: no violation\n", i)
		}
	}
	r.Finish(map[string]any{"states": 1, "transitions": len(c.Events), "traces_validated_against_impl": 5}, nil)
}

func replayOnce(conf *confT, evs []Ev, st *statsT) *viol {
	r, v := newRunner(conf, st)
	defer func() { r.close() }()
	if v != nil {
		return v
	}
	for _, e := range evs {
		if e.P {
			key, kv := r.tokey()
			if kv != nil {
				return kv
			}
			found := false
			for _, p := range r.probes() {
				if p.e.K == e.K && p.e.N == e.N {
					found = true
					if pv := r.probe(p, key); pv != nil {
						return pv
					}
					break
				}
			}
			if !found {
				return &viol{Oracle: "harness", What: "replay: probe " + e.String() + " is not applicable in this state"}
			}
			continue
		}
		if v := r.do(e); v != nil {
			return v
		}
	}
	// follow the default events to the end, as the exploration does
	for {
		if r.complete() {
			fv, _ := r.final()
			return fv
		}
		def, _, sv := r.succ(1)
		if sv != nil {
			return sv
		}
		if def == nil {
			return &viol{Oracle: "stuck", What: "no event is enabled and the node has not reached the source's tip"}
		}
		if v := r.do(*def); v != nil {
			return v
		}
	}
}
