package sync

import (
	"encoding/json"
	"fmt"
	"os"
	"testing"
)

func TestDbg2(t *testing.T) {
	f := os.Getenv("DBG_FILE")
	b, _ := os.ReadFile(f)
	var w struct{ Detail caseRec }
	if err := json.Unmarshal(b, &w); err != nil {
		t.Fatal(err)
	}
	c := w.Detail
	src, err := buildSource(c.Fam, c.Names, []uint32{c.P})
	if err != nil {
		t.Fatal(err)
	}
	conf := &confT{src: src, HInit: c.HInit, P: c.P, Trust: c.Trust, Mode: c.Mode, Order: c.Order, prof: c.Prof, trie: src.tries[c.P], items: src.items[c.P]}
	tr := conf.trie
	parents := map[string][]string{}
	for h, ks := range tr.Kids {
		for _, k := range ks {
			parents[k.StringBE()[:8]] = append(parents[k.StringBE()[:8]], h.StringBE()[:8])
		}
	}
	for _, e := range c.Events {
		if e.P {
			continue
		}
		if e.K == "node" {
			h := unhx(e.H)
			n, _ := decodeNode(tr.Nodes[h])
			fmt.Printf("%s type=%v len=%d kids=%d parents=%v bytes=%.80x\n", e, n.Type(), len(tr.Nodes[h]), len(tr.Kids[h]), parents[h.StringBE()[:8]], tr.Nodes[h])
		} else {
			fmt.Println(e)
		}
	}
}
