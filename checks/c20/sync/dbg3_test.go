package sync

import (
	"fmt"
	"testing"
)

func TestDbg3(t *testing.T) {
	f := famT{Name: "single-i2-mtb2", I: 2, MTB: 2}
	src, err := buildSource(f, []string{"u-storage", "u-storage2", "destroy-ub", "u-storage", "vote1"}, []uint32{6})
	if err != nil {
		t.Fatal(err)
	}
	fmt.Println("genesis", src.lite[0]["hash"])
	conf := &confT{src: src, HInit: 7, P: 6, Mode: "mpt", Order: "lo", prof: profT{}, trie: src.tries[6], items: src.items[6]}
	v := replayOnce(conf, nil, newStats(nil))
	fmt.Println(v)
	// restart right after the jump, no GC
	r, _ := newRunner(conf, newStats(nil))
	for !r.complete() {
		def, _, _ := r.succ(1)
		if def.K == "pblk" {
			break
		}
		if v := r.do(*def); v != nil {
			t.Fatal(v)
		}
	}
	fmt.Println("jumped, height", r.n.BC.BlockHeight())
	fmt.Println("restart:", r.do(Ev{K: "restart"}))
}
