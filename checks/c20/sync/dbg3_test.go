package sync

import (
	"fmt"
	"testing"
)

func TestDbg3(t *testing.T) {
	f := famT{Name: "single-i2-mtb2", I: 2, MTB: 2}
	src, err := buildSource(f, []string{"deploy-uc", "ub-a1", "uc-a1", "u-storage", "uc-a2", "destroy-ub", "u-storage2"}, []uint32{6})
	if err != nil {
		t.Fatal(err)
	}
	tr := src.tries[6]
	parents := map[string]int{}
	for _, ks := range tr.Kids {
		for _, k := range ks {
			parents[k.StringBE()]++
		}
	}
	fmt.Println("nodes", len(tr.Nodes), "multi", tr.Multi, "inner", tr.MultiInner)
	for h, b := range tr.Nodes {
		n, _ := decodeNode(b)
		if len(tr.Kids[h]) > 0 && parents[h.StringBE()] > 1 {
			fmt.Println("shared inner (2 parents)", h.StringBE()[:8], n.Type())
		}
	}
	for k, v := range src.stor[6] {
		if k[0] != '-' {
			fmt.Println(k, v)
		}
	}
}
