package sync

import (
	"encoding/json"
	"fmt"
	"os"
	"testing"
)

func TestDbg(t *testing.T) {
	f := os.Getenv("DBG_FILE")
	b, _ := os.ReadFile(f)
	var w struct{ Detail caseRec }
	if err := json.Unmarshal(b, &w); err != nil {
		t.Fatal(err)
	}
	c := w.Detail
	src, err := buildSource(c.Fam, c.Names, []uint32{c.P})
	if err != nil {
		t.Fatal(err)
	}
	conf := &confT{src: src, HInit: c.HInit, P: c.P, Trust: c.Trust, Mode: c.Mode, Order: c.Order, prof: c.Prof, trie: src.tries[c.P], items: src.items[c.P]}
	r, v := newRunner(conf, newStats(nil))
	if v != nil {
		t.Fatal(v)
	}
	evs := c.Events
	for _, e := range evs[:len(evs)-1] {
		if e.P {
			continue
		}
		if v := r.do(e); v != nil {
			t.Fatal(v)
		}
	}
	u := r.unknown()
	d := conf.pick(u)
	nb := conf.trie.Nodes[d]
	fmt.Printf("unknown %d, pick %s bytes %x\n", len(u), d.StringBE(), nb)
	cb := corrupt(nb, evs[len(evs)-1].N)
	n, err := decodeNode(cb)
	fmt.Printf("corrupted %x\n decode err %v\n", cb, err)
	if err == nil {
		fmt.Printf("type %v hash %s bytes %x\n", n.Type(), n.Hash().StringBE(), n.Bytes())
		for _, h := range u {
			if h == n.Hash() {
				fmt.Println("IN UNKNOWN SET")
			}
		}
	}
	fmt.Println(r.m.AddMPTNodes([][]byte{cb}))
	u2 := r.unknown()
	fmt.Println("before", u, "\nafter", u2)
}
