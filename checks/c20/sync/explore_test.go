package sync

import (
	"crypto/sha256"
	"fmt"
	"strings"
	"sync"

	"verif/lib/vk"
)

// profT bounds the exploration of one configuration.
type profT struct {
	Budget     int  `json:"deviation_budget"`               // non-default state-changing events per trace
	OrderCost  int  `json:"order_deviation_cost,omitempty"` // cost of a delivery-order/batching deviation (default 1); flush/restart/crash/header splits cost 1
	Tail       int  `json:"exhaustive_tail"`                // all delivery orders once at most this many trie nodes are missing
	Sub        bool `json:"subtree_batches"`                // multi-node batches: subtree answers, all-unknown batches, good+bad batch
	SubTrunc   bool `json:"truncated_subtrees"`             // subtree answers cut after 3 nodes
	RestartTip bool `json:"restart_with_new_height"`
	AllBytes   bool `json:"all_byte_positions"`
	ItemBatch  int  `json:"default_item_batch"`
	ItemsFree  bool `json:"all_item_batch_sizes"`
	// ext_init: the announced root carries the witness of header P (meaningful with StateRootInHeader off)
	RootWitness bool `json:"witnessed_root,omitempty"`
	// ext_epoch: one default line (all requested nodes per message), deviations (flush / restart / crash) only
	// in the blocks stage and during the first epoch after the sync point; native getters compared after every block
	Lean bool `json:"lean,omitempty"`
}

type statsT struct {
	states, transitions, jobs, completed, merged, probes, rejected, restarts, crashes, jumps, forks, violations, outdated, leaked, initProbes, initRefused, initEvents, nativeReads, inlines vk.Counter
	stages, orders, crashStates                                                                                                                                                              *vk.Set
	initCtx                                                                                                                                                                                  *ctxSet
	mu                                                                                                                                                                                       sync.Mutex
	finals                                                                                                                                                                                   map[string]map[string]int
	run                                                                                                                                                                                      *vk.Run
}

func newStats(r *vk.Run) *statsT {
	return &statsT{stages: vk.NewSet(), orders: vk.NewSet(), crashStates: vk.NewSet(), initCtx: &ctxSet{m: map[string]int{}}, finals: map[string]map[string]int{}, run: r}
}

func (s *statsT) outcome(c string) {
	if s.run != nil {
		s.run.Outcome(c)
	}
}

func (s *statsT) final(group, dig string) {
	s.mu.Lock()
	defer s.mu.Unlock()
	m := s.finals[group]
	if m == nil {
		m = map[string]int{}
		s.finals[group] = m
	}
	m[dig]++
}

// pnode is a shared, immutable prefix of state-changing events (jobs of a
// subtree share their common part instead of copying it).
type pnode struct {
	parent *pnode
	e      Ev
	n      int
}

func (p *pnode) push(e Ev) *pnode {
	n := 1
	if p != nil {
		n = p.n + 1
	}
	return &pnode{parent: p, e: e, n: n}
}

func (p *pnode) list() []Ev {
	if p == nil {
		return nil
	}
	out := make([]Ev, p.n)
	for q := p; q != nil; q = q.parent {
		out[q.n-1] = q.e
	}
	return out
}

type job struct {
	c      *confT
	ci     int
	prefix *pnode
	budget int
	used   int // deviation cost spent
	devs   int // non-default events in the prefix (queue priority: simplest traces first)
}

// caseRec is the replayable description of one trace.
type caseRec struct {
	Fam    famT     `json:"family"`
	Names  []string `json:"history"`
	HInit  uint32   `json:"init_height"`
	P      uint32   `json:"sync_point"`
	Trust  uint32   `json:"trusted_header,omitempty"`
	Mode   string   `json:"mode"`
	Order  string   `json:"default_order"`
	Prof   profT    `json:"profile"`
	Events []Ev     `json:"events"`
	Trace  string   `json:"sync_trace"`
	Oracle string   `json:"oracle"`
	What   string   `json:"what"`
	Diff   []string `json:"diff,omitempty"`
}

type explorer struct {
	r       *vk.Run
	st      *statsT
	mu      sync.Mutex
	cond    *sync.Cond
	queues  [][]job
	active  int
	queued  int
	visited map[[12]byte]int8
	seenV   map[string]bool
	stop    bool
}

func newExplorer(r *vk.Run, st *statsT) *explorer {
	x := &explorer{r: r, st: st, visited: map[[12]byte]int8{}, seenV: map[string]bool{}}
	x.cond = sync.NewCond(&x.mu)
	return x
}

const maxQueued = 3_000_000 // memory guard: beyond this the run is reported as not exhaustive

func (x *explorer) push(j job) {
	x.mu.Lock()
	if x.queued >= maxQueued {
		x.mu.Unlock()
		x.r.Capped()
		return
	}
	x.queued++
	for len(x.queues) <= j.devs {
		x.queues = append(x.queues, nil)
	}
	x.queues[j.devs] = append(x.queues[j.devs], j)
	x.mu.Unlock()
	x.cond.Signal()
}

func (x *explorer) pop() (job, bool) {
	x.mu.Lock()
	defer x.mu.Unlock()
	for {
		if x.stop {
			return job{}, false
		}
		for l := range x.queues {
			if q := x.queues[l]; len(q) > 0 {
				j := q[0]
				q[0] = job{}
				x.queues[l] = q[1:]
				x.queued--
				x.active++
				return j, true
			}
		}
		if x.active == 0 {
			x.cond.Broadcast()
			return job{}, false
		}
		x.cond.Wait()
	}
}

func (x *explorer) finish() {
	x.mu.Lock()
	x.active--
	x.mu.Unlock()
	x.cond.Broadcast()
}

// visit records that key is being expanded with the given remaining budget;
// false if it was already expanded with at least that budget.
func (x *explorer) visit(ci int, key string, budget int) (first, ok bool) {
	sum := sha256.Sum256([]byte(fmt.Sprintf("%d|%s", ci, key)))
	var k [12]byte
	copy(k[:], sum[:12])
	x.mu.Lock()
	defer x.mu.Unlock()
	b, seen := x.visited[k]
	if seen && int(b) >= budget {
		return false, false
	}
	x.visited[k] = int8(budget)
	return !seen, true
}

func (x *explorer) run(workers int) {
	var wg sync.WaitGroup
	for w := 0; w < workers; w++ {
		wg.Add(1)
		go func() {
			defer wg.Done()
			for {
				if x.r.Expired() || x.r.TooMany() {
					x.mu.Lock()
					x.stop = true
					x.mu.Unlock()
					x.cond.Broadcast()
					return
				}
				j, ok := x.pop()
				if !ok {
					return
				}
				x.runJob(j)
				x.finish()
			}
		}()
	}
	wg.Wait()
	x.mu.Lock()
	left := 0
	for _, q := range x.queues {
		left += len(q)
	}
	x.mu.Unlock()
	if left > 0 {
		x.r.Capped()
	}
}

func stateEvents(tr []Ev) []Ev {
	out := make([]Ev, 0, len(tr))
	for _, e := range tr {
		if !e.P {
			out = append(out, e)
		}
	}
	return out
}

func shortKey(s string) string {
	if len(s) <= 150 {
		return s
	}
	h := sha256.Sum256([]byte(s))
	return fmt.Sprintf("%s..%x", s[:130], h[:4])
}

func (x *explorer) report(c *confT, r *runner, v *viol) {
	x.st.violations.Inc()
	x.st.outcome("violation:" + v.Oracle)
	lastDev := ""
	for _, e := range r.tr {
		if !e.P && !e.D {
			lastDev = e.K
		}
	}
	// one report per oracle and kind of the last deviation (the queue hands out
	// the simplest traces first); all occurrences are counted
	if v.Oracle != "inline-child-lost" {
		for _, e := range r.tr {
			if e.K == "inl" && !e.P {
				// ext_inline: whatever goes wrong after a node with an inline child was taken
				v.Oracle = "after-inline-child:" + v.Oracle
				break
			}
		}
	}
	group := v.Oracle + "|" + lastDev
	x.mu.Lock()
	dup := x.seenV[group]
	x.seenV[group] = true
	x.mu.Unlock()
	if dup {
		return
	}
	tr := compact(r.tr)
	if n := len(r.tr); n > 0 && r.tr[n-1].P {
		tr += "|" + r.tr[n-1].String()
	}
	rec := caseRec{Fam: c.src.fam, Names: c.src.names, HInit: c.HInit, P: c.P, Trust: c.Trust, Mode: c.Mode, Order: c.Order, Prof: c.prof, Events: r.tr, Trace: tr, Oracle: v.Oracle, What: v.What, Diff: v.Diff}
	key := fmt.Sprintf("%s:%s:P%d/T%d/%s/%s:%s", v.Oracle, c.src.id, c.P, c.Trust, c.modeName(), c.Order, shortKey(tr))
	x.r.Violation(key, rec)
}

func orderDigest(tr []Ev) string {
	h := sha256.New()
	for _, e := range tr {
		if e.P {
			continue
		}
		switch e.K {
		case "node", "sub", "all", "mix", "items", "hdr":
			h.Write([]byte(e.String()))
			h.Write([]byte{0})
		}
	}
	return fmt.Sprintf("%x", h.Sum(nil)[:12])
}

// runJob replays the prefix on a fresh node and then follows the default
// events to the end, forking a job for every alternative within the budget at
// every state that was not expanded before.
func (x *explorer) runJob(j job) {
	c := j.c
	x.st.jobs.Inc()
	r, v := newRunner(c, x.st)
	defer func() { r.close() }()
	if v != nil {
		x.report(c, r, v)
		return
	}
	cur := j.prefix
	pre := j.prefix.list()
	for _, e := range pre {
		if v = r.do(e); v != nil {
			break
		}
	}
	if len(pre) > 0 {
		x.st.transitions.Inc()
		last := pre[len(pre)-1]
		x.st.outcome("event:" + last.K)
		if last.K == "crash" {
			x.st.crashStates.Add(fmt.Sprintf("%d|%s", j.ci, r.persistedDigest()))
		}
	}
	budget := j.budget
	fresh := true // first new state of this job: full wrong-data menu
	for {
		if v != nil {
			if v.Oracle == "outdated" {
				// documented refusal: the stored sync point is too old for the new height
				last := r.tr[len(r.tr)-1]
				tipP := c.src.tip / uint32(c.src.fam.I) * uint32(c.src.fam.I)
				if last.K == "restart" && last.H == "tip" && c.P+uint32(c.src.fam.I) < tipP {
					x.st.outdated.Inc()
					x.st.outcome("restart-with-new-height->outdated-point-refused")
					return
				}
				v.Oracle = "init-failed"
			}
			x.report(c, r, v)
			return
		}
		if r.complete() {
			fv, dig := r.final()
			if fv != nil {
				x.report(c, r, fv)
				return
			}
			x.st.completed.Inc()
			x.st.orders.Add(fmt.Sprintf("%d|%s", j.ci, orderDigest(r.tr)))
			x.st.final(c.group(), dig)
			x.st.outcome("trace:complete-and-equal-to-source")
			if j.used > 0 {
				x.r.Sample(map[string]any{"config": c.name(), "trace": compact(r.tr), "events": len(r.tr), "result": "state at P and at every later height equal to the source; equal after flush+GC+restart"})
			}
			return
		}
		fork := func(a altT) {
			if a.cost > budget {
				return
			}
			pf := cur.push(a.e)
			x.st.forks.Inc()
			x.st.outcome(fmt.Sprintf("fork:%s:cost%d:from-used%d", a.e.K, a.cost, j.used))
			x.push(job{c: c, ci: j.ci, prefix: pf, budget: budget - a.cost, used: j.used + a.cost, devs: j.devs + 1})
		}
		for _, a := range r.crashAlts() {
			fork(a)
		}
		key, kv := r.tokey()
		if kv != nil {
			x.report(c, r, kv)
			return
		}
		first, ok := x.visit(j.ci, key, budget)
		if !ok {
			x.st.merged.Inc()
			return
		}
		if first {
			n := x.st.states.Get()
			x.st.states.Inc()
			ps := r.probes()
			if !(fresh || j.used == 0) && len(ps) > 2 {
				// off the default line the menu rotates: two entries per state
				k := int(n) % len(ps)
				ps = []probeT{ps[k], ps[(k+len(ps)/2)%len(ps)]}
			}
			fresh = false
			for _, p := range ps {
				if pv := r.probe(p, key); pv != nil {
					x.report(c, r, pv)
					return
				}
			}
		}
		def, alts, sv := r.succ(j.used)
		if sv != nil {
			x.report(c, r, sv)
			return
		}
		if def == nil {
			x.report(c, r, &viol{Oracle: "stuck", What: "no event is enabled and the node has not reached the source's tip"})
			return
		}
		for _, a := range alts {
			fork(a)
		}
		v = r.do(*def)
		cur = cur.push(*def)
		x.st.transitions.Inc()
		x.st.outcome("event:" + def.K)
	}
}

func join(ss []string) string { return strings.Join(ss, ",") }
