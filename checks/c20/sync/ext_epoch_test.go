package sync

// Extension round 5, part 2: sync points at every position of a dBFT epoch on a
// chain whose elected committee changes at epoch boundaries, and native caches
// that are rebuilt from storage at the jump.
//
// After the state jump the native contracts' caches are rebuilt from the synced
// storage (Blockchain.jumpToStateInternal -> initializeNativeCache). NEO's cache
// holds, besides the committee in office, the committee of the NEXT epoch
// (newEpoch*), which PostPersist of the last block of an epoch computes from the
// votes and OnPersist of the first block of the next epoch installs. A node that
// jumps to a sync point P that is the LAST block of an epoch never ran that
// PostPersist: InitializeCache has to recompute the election, else block P+1
// installs a stale committee (same root and storage at P, different committee,
// validators, rewards and root from P+1 on). The same holds for Policy, Notary,
// Oracle, RoleManagement and ContractManagement caches: they must reflect values
// written shortly before P when the first blocks after P use them.
//
// Family multi-i5-mtb2: 4 validators / 6 committee members (epoch = 6 blocks),
// StateSyncInterval 5: the sync points 10, 15, 20, 25, 30, 35 of one 42-block
// chain sit at all six positions of an epoch (P+1 mod 6 = 5, 4, 3, 2, 1, 0).
// History by height (period 5, see epochHistory): votes move in every epoch so
// that committee and validators change at EVERY boundary (standby -> elected ->
// reordered -> standby -> elected ...); committee setters of Policy / Notary /
// Oracle / NEO at P-1; role designations (+ an oracle request) at P; at P+1 a
// reader transaction calling ~20 native getters through contract U (results land
// in the execution result) plus the oracle response / a deployment.
//
// Profile `Lean`: one default line (all requested nodes per message; one item
// batch), deviations only where this family adds something: flush / restart /
// crash in the blocks stage, at the jump and at every height of the first epoch
// after P. Oracles: the ordinary ones + native getters read by test invocations
// (nativeReads) at P, after every later block and after every restart.

import (
	"fmt"
	"os"
	"strconv"
	"strings"

	"github.com/nspcc-dev/neo-go/pkg/core/interop"
	"github.com/nspcc-dev/neo-go/pkg/core/native/nativehashes"
	"github.com/nspcc-dev/neo-go/pkg/core/native/noderoles"
	"github.com/nspcc-dev/neo-go/pkg/core/transaction"
	"github.com/nspcc-dev/neo-go/pkg/crypto/keys"
	"github.com/nspcc-dev/neo-go/pkg/neotest"
	"github.com/nspcc-dev/neo-go/pkg/smartcontract"
	"github.com/nspcc-dev/neo-go/pkg/smartcontract/callflag"
	"github.com/nspcc-dev/neo-go/pkg/smartcontract/trigger"
	"github.com/nspcc-dev/neo-go/pkg/util"
	"github.com/nspcc-dev/neo-go/pkg/wallet"

	"verif/lib/chainx"
)

const egas = 100000000

func epub(i int) []byte       { return chainx.Acc(i).PublicKey().Bytes() }
func eacc(i int) util.Uint160 { return chainx.Acc(i).ScriptHash() }

// electedSigner: majority multi-signature account of a committee made of the
// candidate accounts in members.
func electedSigner(members ...int) neotest.Signer {
	var pubs keys.PublicKeys
	for _, i := range members {
		pubs = append(pubs, chainx.Acc(i).PublicKey())
	}
	m := smartcontract.GetMajorityHonestNodeCount(len(pubs))
	var accs []*wallet.Account
	for _, i := range members {
		a := wallet.NewAccountFromPrivateKey(chainx.Acc(i).PrivateKey())
		if err := a.ConvertMultisig(m, pubs.Copy()); err != nil {
			panic(err)
		}
		accs = append(accs, a)
	}
	return neotest.NewMultiSigner(accs...)
}

// committeeTx: sent by account 5, witnessed by the standby committee AND by the
// committee of the six candidates, so that it is valid whichever is in office
// when it executes (also in the first block of an epoch).
func committeeTx(w *chainx.World, h util.Uint160, method string, args ...any) (*transaction.Transaction, error) {
	sg := []neotest.Signer{chainx.Signer(5), w.N.Committee}
	if w.N.Opts.Multi {
		sg = append(sg, electedSigner(1, 2, 3, 4, 5, 6))
	} else {
		sg = append(sg, electedSigner(1))
	}
	return w.N.MakeTx(chainx.CallScript(h, method, args...), sg)
}

type txList = []*transaction.Transaction

func seq(fs ...func() (*transaction.Transaction, error)) (txList, error) {
	var out txList
	for _, f := range fs {
		tx, err := f()
		if err != nil {
			return nil, err
		}
		out = append(out, tx)
	}
	return out, nil
}

// epochTpl resolves the parametric block templates of this file:
//
//	e-vote:<a>:<c>  account a votes for candidate c (0: withdraws its vote)
//	e-unreg:<c> / e-reg:<c>
//	e-set:<k>       committee setters, round k (every value differs from round to round)
//	e-des:<k>       role designations, round k
//	e-read          contract U calls the native getters (results in the execution result)
func epochTpl(name string) (chainx.Tpl, bool) {
	f := strings.Split(name, ":")
	arg := func(i int) int {
		if i >= len(f) {
			return 0
		}
		v, _ := strconv.Atoi(f[i])
		return v
	}
	neo, pol := nativehashes.NeoToken, nativehashes.PolicyContract
	var build func(w *chainx.World) (txList, error)
	switch f[0] {
	case "e-vote":
		a, c := arg(1), arg(2)
		build = func(w *chainx.World) (txList, error) {
			var to any
			if c != 0 {
				to = epub(c)
			}
			return seq(func() (*transaction.Transaction, error) {
				return w.N.CallTx([]neotest.Signer{chainx.Signer(a)}, neo, "vote", eacc(a), to)
			})
		}
	case "e-unreg":
		c := arg(1)
		build = func(w *chainx.World) (txList, error) {
			return seq(func() (*transaction.Transaction, error) {
				return w.N.CallTx([]neotest.Signer{chainx.Signer(c)}, neo, "unregisterCandidate", epub(c))
			})
		}
	case "e-reg":
		c := arg(1)
		build = func(w *chainx.World) (txList, error) {
			return seq(func() (*transaction.Transaction, error) {
				return w.N.MakeTx(chainx.CallScript(neo, "registerCandidate", epub(c)), []neotest.Signer{chainx.Signer(c)}, chainx.SysFee(1010*egas))
			})
		}
	case "e-set":
		k := int64(arg(1))
		build = func(w *chainx.World) (txList, error) {
			ct := func(h util.Uint160, m string, a ...any) func() (*transaction.Transaction, error) {
				return func() (*transaction.Transaction, error) { return committeeTx(w, h, m, a...) }
			}
			blk := "blockAccount"
			if k%2 == 0 {
				blk = "unblockAccount"
			}
			// fees only go down (transactions built with fixed fees, e.g. the oracle
			// response, stay payable); the exec fee factor last: it reprices the
			// transactions after it in the same block
			return seq(
				ct(pol, "setFeePerByte", 1000-50*k),
				ct(pol, "setStoragePrice", 100000-1000*k),
				ct(pol, blk, eacc(4)),
				ct(nativehashes.Notary, "setMaxNotValidBeforeDelta", 10+k),
				ct(nativehashes.OracleContract, "setPrice", int64(egas/2)-k*1000),
				ct(neo, "setGasPerBlock", (k%5+1)*egas),
				ct(neo, "setRegisterPrice", (1000-k)*egas),
				ct(pol, "setExecFeeFactor", 30-k),
			)
		}
	case "e-des":
		k := arg(1)
		build = func(w *chainx.World) (txList, error) {
			des := func(role noderoles.Role, accs ...int) func() (*transaction.Transaction, error) {
				var ks []any
				for _, a := range accs {
					ks = append(ks, epub(a))
				}
				return func() (*transaction.Transaction, error) {
					return committeeTx(w, nativehashes.RoleManagement, "designateAsRole", int64(role), ks)
				}
			}
			return seq(des(noderoles.Oracle, 3), des(noderoles.P2PNotary, 4+k%2), des(noderoles.StateValidator, 1+k%3, 6))
		}
	case "e-read":
		build = func(w *chainx.World) (txList, error) {
			next := int64(w.N.Height() + 1)
			call := func(h util.Uint160, m string, a ...any) []any {
				if a == nil {
					a = []any{}
				}
				return []any{chainx.OpCall, h.BytesBE(), m, int(callflag.ReadOnly), a}
			}
			prog := []any{
				call(neo, "getGasPerBlock"), call(neo, "getRegisterPrice"), call(neo, "getCommittee"), call(neo, "getNextBlockValidators"),
				call(neo, "getCandidates"), call(neo, "getCommitteeAddress"),
				call(neo, "unclaimedGas", eacc(1).BytesBE(), next), call(neo, "unclaimedGas", eacc(2).BytesBE(), next),
				call(neo, "getAccountState", eacc(1).BytesBE()), call(neo, "getCandidateVote", epub(2)),
				call(pol, "getFeePerByte"), call(pol, "getExecFeeFactor"), call(pol, "getStoragePrice"), call(pol, "isBlocked", eacc(4).BytesBE()),
				call(nativehashes.Notary, "getMaxNotValidBeforeDelta"), call(nativehashes.Notary, "balanceOf", eacc(1).BytesBE()),
				call(nativehashes.OracleContract, "getPrice"),
				call(nativehashes.RoleManagement, "getDesignatedByRole", int64(noderoles.Oracle), next),
				call(nativehashes.RoleManagement, "getDesignatedByRole", int64(noderoles.P2PNotary), next),
				call(nativehashes.RoleManagement, "getDesignatedByRole", int64(noderoles.StateValidator), next),
				call(nativehashes.ContractManagement, "getMinimumDeploymentFee"), call(nativehashes.ContractManagement, "hasMethod", w.UC.Hash.BytesBE(), "run", 1),
				call(nativehashes.ContractManagement, "isContract", w.UB.Hash.BytesBE()),
				[]any{chainx.OpPut, []byte("r"), []byte(strconv.Itoa(int(next)))},
			}
			return seq(func() (*transaction.Transaction, error) {
				tx, err := w.URun(2, w.UA, prog)
				if err == nil && epochDebug {
					if ic, e := w.N.BC.GetTestVM(trigger.Application, tx, nil); e == nil {
						ic.VM.SetGasLimit(50 * egas)
						ic.VM.LoadScriptWithFlags(tx.Script, callflag.All)
						fmt.Printf("epoch-debug: e-read at %d: run error %v, sysfee %d\n", next, ic.VM.Run(), tx.SystemFee)
						ic.Finalize()
					}
				}
				return tx, err
			})
		}
	default:
		return chainx.Tpl{}, false
	}
	return chainx.Tpl{Name: name, Build: func(w *chainx.World) ([]*transaction.Transaction, error) { return build(w) }}, true
}

// resolveTpl: a name is a `+`-joined list of template names (own parametric
// ones, this check's extra ones, the shared alphabet): their transactions, in
// that order, make one block.
func resolveTpl(name string) (chainx.Tpl, bool) {
	if !strings.Contains(name, "+") {
		return epochTpl(name)
	}
	var parts []chainx.Tpl
	for _, p := range strings.Split(name, "+") {
		if t, ok := epochTpl(p); ok {
			parts = append(parts, t)
			continue
		}
		ts := tplByName(p)
		if len(ts) != 1 {
			return chainx.Tpl{}, false
		}
		parts = append(parts, ts[0])
	}
	return chainx.Tpl{Name: name, Build: func(w *chainx.World) ([]*transaction.Transaction, error) {
		var out []*transaction.Transaction
		for _, p := range parts {
			txs, err := p.Build(w)
			if err != nil {
				return nil, fmt.Errorf("%s: %w", p.Name, err)
			}
			out = append(out, txs...)
		}
		return out, nil
	}}, true
}

// epochHistory: the block names of heights 4..tip (3 preamble blocks).
func epochHistory(tip int) []string {
	votes := map[int]string{1: "e-vote:2:5", 2: "e-vote:1:3", 3: "e-vote:1:0", 4: "e-vote:2:0", 5: "e-vote:1:2", 6: "e-vote:2:6", 7: "e-vote:1:4", 8: "e-vote:2:1"}
	var out []string
	for h := 4; h <= tip; h++ {
		k := h / 5
		var n string
		switch {
		case h == 4:
			n = "vote1"
		case h == 5:
			n = "designate-oracle"
		case h == 6:
			n = "u-storage"
		case h == 7:
			n = "u-storage2"
		case h%5 == 3:
			n = votes[k]
		case h%5 == 4:
			n = fmt.Sprintf("e-set:%d", k)
		case h%5 == 0 && k%2 == 0:
			n = fmt.Sprintf("e-des:%d+oracle-request", k)
		case h%5 == 0:
			n = fmt.Sprintf("e-des:%d+destroy-ub", k)
			if k > 3 {
				n = fmt.Sprintf("e-des:%d", k)
			}
		case h%5 == 1 && k%2 == 0:
			n = "e-read+oracle-respond"
		case h%5 == 1:
			n = "e-read+deploy-uc"
		case h%5 == 2 && k%2 == 0:
			n = "u-storage+gas-to-contract"
		default:
			n = "u-storage2"
		}
		out = append(out, n)
	}
	return out
}

// histAlias: the 38-block programme has a short name in configuration names and violation keys.
func histAlias(names []string) string {
	if len(names) > 20 {
		if e := epochHistory(len(names) + 3); strings.Join(e, ",") == strings.Join(names, ",") {
			return fmt.Sprintf("epoch-programme(%d)", len(names)+3)
		}
	}
	return strings.Join(names, ",")
}

// nativeReads asks the native contracts through test invocations at the node's
// current state (what an RPC client would see): every getter is served by the
// native caches.
func nativeReads(n *chainx.Node, hashes []util.Uint160) (string, error) {
	bc := n.BC
	next := int64(bc.BlockHeight() + 1)
	type q struct {
		h util.Uint160
		m string
		a []any
	}
	neo, pol := nativehashes.NeoToken, nativehashes.PolicyContract
	qs := []q{
		{neo, "getGasPerBlock", nil}, {neo, "getRegisterPrice", nil}, {neo, "getCommittee", nil}, {neo, "getNextBlockValidators", nil},
		{neo, "getCandidates", nil}, {neo, "getCommitteeAddress", nil},
		{neo, "unclaimedGas", []any{eacc(1), next}}, {neo, "unclaimedGas", []any{eacc(2), next}}, {neo, "getAccountState", []any{eacc(2)}},
		{pol, "getFeePerByte", nil}, {pol, "getExecFeeFactor", nil}, {pol, "getStoragePrice", nil}, {pol, "isBlocked", []any{eacc(4)}},
		{nativehashes.Notary, "getMaxNotValidBeforeDelta", nil}, {nativehashes.OracleContract, "getPrice", nil},
		{nativehashes.RoleManagement, "getDesignatedByRole", []any{int64(noderoles.Oracle), next}},
		{nativehashes.RoleManagement, "getDesignatedByRole", []any{int64(noderoles.P2PNotary), next}},
		{nativehashes.RoleManagement, "getDesignatedByRole", []any{int64(noderoles.StateValidator), next}},
		{nativehashes.ContractManagement, "getMinimumDeploymentFee", nil},
	}
	for _, h := range hashes {
		qs = append(qs, q{nativehashes.ContractManagement, "hasMethod", []any{h, "run", 1}})
	}
	var sb strings.Builder
	for _, x := range qs {
		script := chainx.CallScript(x.h, x.m, x.a...)
		tx := transaction.New(script, 0)
		tx.Signers = []transaction.Signer{{Account: eacc(1), Scopes: transaction.CalledByEntry}}
		tx.Scripts = []transaction.Witness{{}}
		var ic *interop.Context
		ic, err := bc.GetTestVM(trigger.Application, tx, nil)
		if err != nil {
			return "", err
		}
		ic.VM.SetGasLimit(20 * egas)
		ic.VM.LoadScriptWithFlags(script, callflag.All)
		fault := ""
		if e := ic.VM.Run(); e != nil {
			fault = reason(e.Error())
		}
		fmt.Fprintf(&sb, "%s=%s/%d/%s[", x.m, ic.VM.State().String(), ic.VM.GasConsumed(), fault)
		for _, it := range ic.VM.Estack().ToArray() {
			sb.WriteString(chainx.ItemString(it))
		}
		sb.WriteString("] ")
		ic.Finalize()
	}
	for i := 1; i <= 2; i++ {
		c, err := bc.CalculateClaimable(eacc(i), uint32(next))
		fmt.Fprintf(&sb, "claimable%d=%v/%v ", i, c, err)
	}
	fmt.Fprintf(&sb, "notary-fee=%d deposit-exp=%d", bc.GetNotaryServiceFeePerKey(), bc.GetNotaryDepositExpiration(eacc(1)))
	return sb.String(), nil
}

func epochPlans(thorough bool) []planT {
	m5 := famT{Name: "multi-i5-mtb2", I: 5, MTB: 2, Multi: true}
	lean := profT{Budget: 1, Lean: true, RestartTip: true}
	h42 := epochHistory(42)
	if !thorough {
		return []planT{
			// P+1 mod 6 = 0 (P is the last block of an epoch), 1 (first block), 2, 3, 4, 5
			{m5, h42, []ptT{{37, 0}, {32, 28}, {27, 0}, {22, 0}, {17, 13}, {12, 0}}, []string{"mpt"}, []string{"all"}, lean},
			{m5, h42, []ptT{{37, 33}, {27, 0}, {12, 0}}, []string{"items"}, []string{"-"}, lean},
		}
	}
	m7 := famT{Name: "multi-i7-mtb3", I: 7, MTB: 3, Multi: true}
	m5p := famT{Name: "multi-i5-mtb2-pad1", I: 5, MTB: 2, Multi: true, Pad: 1}
	return []planT{
		{m5, h42, []ptT{{37, 0}, {32, 28}, {27, 0}, {22, 0}, {17, 13}, {12, 0}}, []string{"mpt"}, []string{"all"}, lean},
		{m5, h42, []ptT{{37, 33}, {32, 0}, {27, 0}, {22, 0}, {17, 0}, {12, 0}}, []string{"items"}, []string{"-"}, lean},
		// interval 7: P = 14, 21, 28, 35 (P+1 mod 6 = 3, 4, 5, 0)
		{m7, h42, []ptT{{36, 0}, {29, 0}, {22, 0}, {15, 0}}, []string{"mpt"}, []string{"all"}, lean},
		{m7, h42, []ptT{{36, 0}, {29, 0}}, []string{"items"}, []string{"-"}, lean},
		// the same block programme one height later (every block of the programme at another epoch position)
		{m5p, epochHistory(41), []ptT{{37, 0}, {32, 0}, {27, 0}}, []string{"mpt"}, []string{"all"}, lean},
	}
}

// leanWindow: deviations of a Lean profile are offered in the blocks stage and
// up to one epoch after the sync point.
func (r *runner) leanWindow() bool {
	m := r.m
	if m.IsActive() {
		return m.NeedBlocks()
	}
	return r.n.BC.BlockHeight() <= r.c.P+7
}

var epochDebug = os.Getenv("C20_EPOCH_DEBUG") != ""
