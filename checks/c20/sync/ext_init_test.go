package sync

// Extension round 4: the root the state source announces (storage-based mode).
//
// statefetcher calls Module.InitContractStorageSync(root) on every start, before
// any item. The module has up to three things to hold the announced root
// against: the header of P+1 (StateRootInHeader on), the root of an earlier
// announcement on this instance, and - after a restart - the root kept in the
// persisted checkpoint. In ContractStorageBased sync the storage stage ends when
// the locally rebuilt root equals the announced one, so a foreign root that gets
// through (say the root of the same storage without its last key) makes the node
// finish early and jump to a wrong state.
//
// What this file adds to the explorer:
//   - the announcement is an explicit default event `init` (own state: root known,
//     no item stored, nothing persisted), repeated after every restart / crash;
//   - a menu of foreign roots offered in every storage-stage state of the items
//     mode whenever the node has something to compare with (probes p-init-*):
//     zero, the roots of the neighbouring heights, the root of the items stored
//     so far (= the checkpoint's intermediate root), of the items after the next
//     default batch, of all items but the last, the genuine root under height
//     P-1, the previous sync point with its own root, a witness with a foreign
//     verification script; each must be refused
//     with an error, must leave the state key unchanged and must not displace the
//     genuine root (follow-up: the genuine announcement is still accepted);
//   - the genuine root announced again (must be accepted, changes nothing), and
//     announcements outside the storage stage (headers stage, blocks stage, after
//     the jump: no demand but "no panic, nothing changes");
//   - families with StateRootInHeader off (no header to check against: only the
//     checkpoint / the earlier announcement protect the node), optionally with a
//     witnessed root (the checkpoint then carries the witness over a restart).
//
// Not demanded: on a StateRootInHeader-off node WITHOUT a checkpoint and without
// an earlier announcement nothing identifies the right root, so foreign roots are
// not offered there (the state source is trusted for the first announcement).

import (
	"fmt"
	"os"
	"sort"
	"strings"
	gosync "sync"

	"github.com/nspcc-dev/neo-go/pkg/core/mpt"
	"github.com/nspcc-dev/neo-go/pkg/core/state"
	"github.com/nspcc-dev/neo-go/pkg/core/storage"
	"github.com/nspcc-dev/neo-go/pkg/core/transaction"
	"github.com/nspcc-dev/neo-go/pkg/util"
)

// prefixRoots returns, for every k, the root of the trie that holds exactly the
// first k storage items of the sync point (k = len: the genuine root).
func (c *confT) prefixRoots() ([]util.Uint256, error) {
	c.preOnce.Do(func() {
		tr := mpt.NewTrie(nil, mpt.ModeAll, storage.NewMemCachedStore(storage.NewMemoryStore()))
		c.pre = []util.Uint256{tr.StateRoot()}
		for i, kv := range c.items {
			if err := tr.Put(kv.Key, kv.Value); err != nil {
				c.preErr = fmt.Errorf("prefix trie, item %d: %w", i, err)
				return
			}
			c.pre = append(c.pre, tr.StateRoot())
		}
		if got := c.pre[len(c.items)]; !got.Equals(c.trie.Root) {
			c.preErr = fmt.Errorf("the trie rebuilt from the %d storage items has root %s, the source's root at %d is %s", len(c.items), got.StringLE(), c.P, c.trie.Root.StringLE())
		}
	})
	return c.pre, c.preErr
}

// witness of the announced root: the witness of header P (its verification
// script is what InitContractStorageSync compares with when state roots are not
// in headers).
func (c *confT) rootWitness() []transaction.Witness {
	if !c.prof.RootWitness {
		return nil
	}
	h := c.src.block(c.P).Header
	return []transaction.Witness{{
		InvocationScript:   append([]byte{}, h.Script.InvocationScript...),
		VerificationScript: append([]byte{}, h.Script.VerificationScript...),
	}}
}

func (r *runner) genuineRoot() state.MPTRoot {
	return state.MPTRoot{Index: r.c.P, Root: r.c.trie.Root, Witness: r.c.rootWitness()}
}

// rootExpected tells whether the node holds anything an announced root can be
// checked against: the header of P+1, an earlier announcement on this module
// instance, or a checkpoint loaded by Init.
func (r *runner) rootExpected() bool {
	return r.c.src.fam.srih() || r.itemsOK || r.announced || len(r.m.GetLastStoredKey()) > 0
}

type foreignRoot struct {
	name string
	root state.MPTRoot
}

// foreignRoots is the menu of wrong announcements for the current state.
func (r *runner) foreignRoots() []foreignRoot {
	c := r.c
	pre, err := c.prefixRoots()
	if err != nil {
		return nil
	}
	var out []foreignRoot
	seen := map[util.Uint256]bool{c.trie.Root: true}
	add := func(name string, h util.Uint256) {
		if seen[h] {
			return
		}
		seen[h] = true
		out = append(out, foreignRoot{name, state.MPTRoot{Index: c.P, Root: h, Witness: c.rootWitness()}})
	}
	n := len(c.items)
	pos := r.itemPos()
	// simplest first
	add("zero", util.Uint256{})
	if n >= 2 {
		add("prefix-allbutlast", pre[n-1])
	}
	if pos > 0 && pos < n {
		add("prefix-stored", pre[pos])
	}
	if dk := c.prof.ItemBatch; pos >= 0 && dk > 0 && pos+dk < n {
		add("prefix-next", pre[pos+dk])
	}
	if c.P >= 1 {
		add("height-1-root", c.src.roots[c.P-1])
	}
	if int(c.P+1) < len(c.src.roots) {
		add("height+1-root", c.src.roots[c.P+1])
	}
	return out
}

func (r *runner) announce(root state.MPTRoot) error { return r.m.InitContractStorageSync(root) }

// stillGenuine is the follow-up of a refused announcement: the genuine root is
// accepted afterwards (a refused root that nevertheless replaced the held one
// would make the module refuse the genuine one now).
func (r *runner) stillGenuine(after string) func() *viol {
	return func() *viol {
		if err := r.announce(r.genuineRoot()); err != nil {
			return &viol{Oracle: "genuine-root-refused-after:" + after, What: fmt.Sprintf("InitContractStorageSync(%d, source root) right after the refused %s: %v", r.c.P, after, err)}
		}
		r.announced = true
		return nil
	}
}

func (r *runner) initCtx() string {
	ck := "no-ckpt"
	if len(r.m.GetLastStoredKey()) > 0 {
		ck = "ckpt"
	}
	re := "first-run"
	if r.nRestart > 0 {
		re = "restarted"
	}
	an := "unannounced"
	if r.itemsOK || r.announced {
		an = "announced"
	}
	sr := "srih"
	if !r.c.src.fam.srih() {
		sr = "no-srih"
	}
	return strings.Join([]string{sr, re, ck, an}, "/")
}

// initProbes: announcements in the storage stage of the items mode.
func (r *runner) initProbes() []probeT {
	c := r.c
	var ps []probeT
	ctx := r.initCtx()
	note := func(kind string) { r.stats.initCtx.Add(kind + "@" + ctx) }
	if r.rootExpected() {
		for _, fr := range r.foreignRoots() {
			k := "p-init-" + fr.name
			ps = append(ps, probeT{e: Ev{K: k, P: true}, needErr: true, f: func() error { note(k); return r.announce(fr.root) }, post: r.stillGenuine(k)})
		}
		if !c.src.fam.srih() && c.prof.RootWitness {
			k := "p-init-witness-script"
			ps = append(ps, probeT{e: Ev{K: k, P: true}, needErr: true, f: func() error {
				note(k)
				g := r.genuineRoot()
				g.Witness[0].VerificationScript = corrupt(g.Witness[0].VerificationScript, 3)
				return r.announce(g)
			}, post: r.stillGenuine(k)})
		}
	}
	if c.P >= 1 {
		k := "p-init-height-1"
		ps = append(ps, probeT{e: Ev{K: k, P: true}, needErr: true, f: func() error {
			note(k)
			g := r.genuineRoot()
			g.Index--
			return r.announce(g)
		}})
	}
	if iv := uint32(c.src.fam.I); c.P >= iv {
		// a self-consistent announcement for the previous sync point
		k := "p-init-prev-point"
		ps = append(ps, probeT{e: Ev{K: k, P: true}, needErr: true, f: func() error {
			note(k)
			return r.announce(state.MPTRoot{Index: c.P - iv, Root: c.src.roots[c.P-iv], Witness: c.rootWitness()})
		}})
	}
	k := "p-init-genuine"
	ps = append(ps, probeT{e: Ev{K: k, P: true}, mustOK: true, f: func() error {
		note(k)
		err := r.announce(r.genuineRoot())
		if err == nil {
			r.announced = true
		}
		return err
	}})
	return ps
}

// initProbesEarly: the announcement arrives while headers are still needed.
func (r *runner) initProbesEarly() []probeT {
	if r.c.Mode != "items" {
		return nil
	}
	k := "p-init-early"
	return []probeT{{e: Ev{K: k, P: true}, f: func() error {
		r.stats.initCtx.Add(k + "@" + r.initCtx())
		err := r.announce(r.genuineRoot())
		if err == nil {
			r.announced = true
		}
		return err
	}}}
}

// initProbesLate: announcements after the storage stage has ended.
func (r *runner) initProbesLate() []probeT {
	if r.c.Mode != "items" {
		return nil
	}
	var ps []probeT
	if r.rootExpected() {
		for _, fr := range r.foreignRoots() {
			if fr.name != "prefix-allbutlast" && fr.name != "zero" {
				continue
			}
			k := "p-init-late-" + fr.name
			ps = append(ps, probeT{e: Ev{K: k, P: true}, needErr: true, f: func() error {
				r.stats.initCtx.Add(k + "@" + r.initCtx())
				return r.announce(fr.root)
			}})
		}
	}
	k := "p-init-late"
	ps = append(ps, probeT{e: Ev{K: k, P: true}, f: func() error {
		r.stats.initCtx.Add(k + "@" + r.initCtx())
		return r.announce(r.genuineRoot())
	}})
	return ps
}

// initProbesDone: an announcement reaches a node that is not syncing (any more).
func (r *runner) initProbesDone() []probeT {
	if r.c.Mode != "items" {
		return nil
	}
	k := "p-init-done"
	return []probeT{{e: Ev{K: k, P: true}, f: func() error {
		r.stats.initCtx.Add(k + "@" + r.initCtx())
		return r.announce(r.genuineRoot())
	}}}
}

// devFilter keeps the configurations whose name contains $C20_SYNC_CONF
// (development aid; the run then reports itself as not exhaustive).
func devFilter(confs []*confT) ([]*confT, bool) {
	f := os.Getenv("C20_SYNC_CONF")
	if f == "" {
		return confs, false
	}
	var out []*confT
	for _, c := range confs {
		for _, s := range strings.Split(f, ";") {
			if strings.Contains(c.name(), s) {
				out = append(out, c)
				break
			}
		}
	}
	return out, true
}

func (c *confT) modeName() string {
	if c.prof.RootWitness {
		return c.Mode + "+witness"
	}
	return c.Mode
}

// ctxSet counts announcement kinds per context (evidence).
type ctxSet struct {
	mu gosync.Mutex
	m  map[string]int
}

func (s *ctxSet) Add(k string) {
	s.mu.Lock()
	s.m[k]++
	s.mu.Unlock()
}

func (s *ctxSet) Len() int {
	s.mu.Lock()
	defer s.mu.Unlock()
	return len(s.m)
}

func (s *ctxSet) Sorted() []string {
	s.mu.Lock()
	defer s.mu.Unlock()
	var out []string
	for k, n := range s.m {
		out = append(out, fmt.Sprintf("%s:%d", k, n))
	}
	sort.Strings(out)
	return out
}

// itemsOffStage: raw storage items reach a node that does not ask for them (the
// state source keeps streaming after the stage ended - "refuses the remaining
// items" - or starts before the headers are there). The code answers with an
// error today; demanded here is only that nothing changes and nothing panics.
func (r *runner) itemsOffStage(kind string) []probeT {
	c := r.c
	if c.Mode != "items" || len(c.items) == 0 {
		return nil
	}
	n := len(c.items)
	dk := c.prof.ItemBatch
	if dk <= 0 || dk > n {
		dk = n
	}
	mk := func(k string, from, to int) probeT {
		return probeT{e: Ev{K: k, P: true}, f: func() error {
			r.stats.initCtx.Add(k + "@" + r.initCtx())
			return r.m.AddContractStorageItems(c.items[from:to])
		}}
	}
	return []probeT{mk("p-items-"+kind+"-first", 0, 1), mk("p-items-"+kind+"-last-batch", n-dk, n)}
}

// moduleInitAgain: Module.Init on an initialised module (a second start of the
// service on the same instance) must not re-derive anything.
func (r *runner) moduleInitAgain() probeT {
	return probeT{e: Ev{K: "p-module-init-again", P: true}, f: func() error { return r.m.Init(r.initH) }}
}

// batchLimits: GetUnknownMPTNodesBatch(limit) "returns set of currently unknown
// MPT nodes (`limit` at max)": exactly min(limit, unknown) distinct members of
// the unknown set.
func (r *runner) batchLimits() *viol {
	if r.c.Mode != "mpt" || !r.m.IsActive() || !r.m.NeedStorageData() {
		return nil
	}
	all := map[util.Uint256]bool{}
	for _, h := range r.m.GetUnknownMPTNodesBatch(1 << 20) {
		all[h] = true
	}
	n := len(all)
	for _, lim := range []int{0, 1, n - 1, n, n + 1} {
		if lim < 0 {
			continue
		}
		got := r.m.GetUnknownMPTNodesBatch(lim)
		seen := map[util.Uint256]bool{}
		for _, h := range got {
			if !all[h] || seen[h] {
				return &viol{Oracle: "unknown-batch-wrong-member", What: fmt.Sprintf("GetUnknownMPTNodesBatch(%d) with %d unknown nodes returned %s (foreign or repeated)", lim, n, h.StringBE())}
			}
			seen[h] = true
		}
		if len(got) != min(lim, n) {
			return &viol{Oracle: "unknown-batch-size", What: fmt.Sprintf("GetUnknownMPTNodesBatch(%d) with %d unknown nodes returned %d hashes", lim, n, len(got))}
		}
	}
	return nil
}
