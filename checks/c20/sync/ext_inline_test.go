package sync

// Extension round 5, part 1: trie nodes whose children are serialised INLINE.
//
// mpt.NodeObject.DecodeBinary accepts, at a child position of a branch or
// extension node, any node object - not only the hash node (0x03 + 32 bytes) or
// the empty node a peer's canonical serialisation carries. Such a parent hashes
// like the canonical one (the hash is computed over the re-encoded, canonical
// form), so it passes the hash comparison of the state sync module; but
// GetChildrenPaths schedules hash-node children only, so the written-out child
// and its subtree were never requested, never stored and their leaves never
// reached the contract storage: the sync "completed" without them (finding of
// this round, fixed in /repo fe191d6: AddMPTNodes refuses bytes that do not start
// with the node's canonical encoding).
//
// Probe `p-node-inline` (every requested inner node of every explored state of
// the MPT mode, one child written out in full): error required, state unchanged;
// the canonical delivery that follows on the trace must still be accepted.
// Event `inl(x)` (deviation): the same delivery as a step of the trace; if it is
// refused x must stay requested; if it is taken, the written-out child must be
// requested or stored afterwards (key inline-child-lost) and the missing error
// is reported (bad-data-no-error:inl); violations later on such a trace carry
// the prefix after-inline-child.

import (
	"bytes"
	"fmt"
	"os"
	"testing"

	"github.com/nspcc-dev/neo-go/pkg/core/mpt"
	"github.com/nspcc-dev/neo-go/pkg/util"
)

// inlineOn: the event is offered by the C20 runs (part `jump` of C02 is about
// crash points; its cost stays as it was).
var inlineOn = os.Getenv("VERIF_ID") != "C02" && os.Getenv("C20_NO_INLINE") == ""

// inlineBytes returns the serialisation of inner node h with one child written
// out in full instead of by hash (nil if h has no such child).
func (c *confT) inlineBytes(h util.Uint256) []byte {
	b, _ := c.inlineForm(h)
	return b
}

// inlineForm also names the child that was written out.
func (c *confT) inlineForm(h util.Uint256) ([]byte, util.Uint256) {
	b := c.trie.Nodes[h]
	for _, k := range c.trie.Kids[h] {
		kb := c.trie.Nodes[k]
		if kb == nil {
			continue
		}
		pat := append([]byte{0x03}, k[:]...)
		i := bytes.Index(b, pat)
		if i < 0 {
			continue
		}
		out := append([]byte{}, b[:i]...)
		out = append(out, kb...)
		out = append(out, b[i+len(pat):]...)
		if n, err := decodeNode(out); err != nil || n.Hash() != h {
			continue
		}
		return out, k
	}
	return nil, util.Uint256{}
}

// inlineLost is the immediate oracle of event inl(x): the module took x (it is
// no longer requested). Its written-out child must then be requested or be in
// the node's store - otherwise nobody will ever deliver it and the sync ends
// without that subtree.
func (r *runner) inlineLost(x util.Uint256) *viol {
	_, k := r.c.inlineForm(x)
	for _, u := range r.unknown() {
		if u == x || u == k {
			return nil
		}
	}
	if err := r.m.Traverse(k, func(mpt.Node, []byte) bool { return true }); err != nil {
		return &viol{Oracle: "inline-child-lost", What: fmt.Sprintf("AddMPTNodes accepted node %s whose child %s was serialised in full (not as a hash node); the child is neither requested nor stored afterwards (%v)", x.StringBE(), k.StringBE(), err)}
	}
	return nil
}

// TestDevInline (development aid, C20_DEV=inline): default line of one
// configuration with the first possible inline delivery.
func TestDevInline(t *testing.T) {
	if os.Getenv("C20_DEV") != "inline" {
		t.Skip()
	}
	fam := famT{Name: "single-i2-mtb2", I: 2, MTB: 2}
	names := []string{"u-storage", "u-storage2", "destroy-ub", "u-storage", "vote1", "u-storage2", "u-storage"}
	src, err := buildSource(fam, names, []uint32{6})
	if err != nil {
		t.Fatal(err)
	}
	conf := &confT{src: src, HInit: 7, P: 6, Trust: 5, Mode: "mpt", Order: "lo", prof: profT{Budget: 1, Sub: true}, trie: src.tries[6], items: src.items[6]}
	for skip := 0; skip < 6; skip++ {
		st := newStats(nil)
		r, v := newRunner(conf, st)
		if v != nil {
			t.Fatal(v)
		}
		done := false
		seen := 0
		for v == nil && !r.complete() {
			if !done && r.m.IsActive() && r.m.NeedStorageData() && !r.m.NeedHeaders() {
				for _, h := range r.unknown() {
					if conf.inlineBytes(h) != nil {
						if seen++; seen <= skip {
							break
						}
						done = true
						fmt.Printf("skip=%d: inline delivery of %s (%d kids) with %d nodes unknown\n", skip, h.StringBE()[:8], len(conf.trie.Kids[h]), len(r.unknown()))
						v = r.do(Ev{K: "inl", H: hx(h)})
						break
					}
				}
				if done {
					continue
				}
			}
			def, _, sv := r.succ(1)
			if sv != nil {
				v = sv
				break
			}
			if def == nil {
				v = &viol{Oracle: "stuck", What: "no event"}
				break
			}
			v = r.do(*def)
		}
		if v == nil {
			v, _ = r.final()
		}
		fmt.Printf("skip=%d: trace %s -> %+v\n", skip, compact(r.tr), v)
		r.close()
	}
}
