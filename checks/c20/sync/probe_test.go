package sync

import (
	"fmt"
	"testing"
	"time"

	"github.com/nspcc-dev/neo-go/pkg/config"
	"github.com/nspcc-dev/neo-go/pkg/core/block"
	"github.com/nspcc-dev/neo-go/pkg/core/mpt"
	"github.com/nspcc-dev/neo-go/pkg/util"

	"verif/lib/chainx"
)

func TestProbe(t *testing.T) {
	fam := chainx.Family{Name: "sync-i2", SRIH: true, MTB: 2, Extra: func(c *config.Blockchain) {
		c.P2PStateExchangeExtensions = true
		c.StateSyncInterval = 2
	}}
	t0 := time.Now()
	sc, err := chainx.NewScenario(fam, 0, chainx.TplByName("u-storage", "u-storage2", "destroy-ub", "vote1"))
	if err != nil {
		t.Fatal(err)
	}
	fmt.Println("scenario", time.Since(t0))
	h := []int{0, 1, 3, 0}
	for i := 1; i <= len(h); i++ {
		if err := sc.Grow(h[:i]); err != nil {
			t.Fatal(i, err)
		}
	}
	fmt.Println("grown", time.Since(t0))
	src, _, err := sc.RefNode(h)
	if err != nil {
		t.Fatal(err)
	}
	defer src.Close()
	tip := src.Height()
	fmt.Println("tip", tip, "cfg", src.BC.GetConfig().Hardforks, src.BC.GetConfig().MaxTraceableBlocks, src.BC.GetMaxTraceableBlocks())
	for P := uint32(4); P < tip; P += 2 {
		hdr, _ := src.BC.GetHeader(src.BC.GetHeaderHash(P + 1))
		nodes := map[util.Uint256][]byte{}
		types := map[string]int{}
		err = src.BC.GetStateSyncModule().Traverse(hdr.PrevStateRoot, func(n mpt.Node, b []byte) bool {
			nodes[n.Hash()] = b
			types[fmt.Sprint(n.Type())]++
			return false
		})
		fmt.Println("P", P, "nodes", len(nodes), types, err)
	}
	// syncing node
	o := fam.Opts()
	o.Cfg = func(c *config.Blockchain) { c.Ledger.RemoveUntraceableBlocks = true }
	t1 := time.Now()
	n, err := chainx.New(o)
	if err != nil {
		t.Fatal(err)
	}
	fmt.Println("new node", time.Since(t1))
	m := n.BC.GetStateSyncModule()
	fmt.Println("init", m.Init(tip), m.IsActive(), m.NeedHeaders(), m.GetStateSyncPoint())
	P := m.GetStateSyncPoint()
	var hdrs []*block.Header
	for i := uint32(1); i <= tip; i++ {
		hd, _ := src.BC.GetHeader(src.BC.GetHeaderHash(i))
		hdrs = append(hdrs, hd)
	}
	fmt.Println("hdrs", m.AddHeaders(hdrs...), m.NeedStorageData(), n.BC.HeaderHeight())
	hdr, _ := src.BC.GetHeader(src.BC.GetHeaderHash(P + 1))
	nodes := map[util.Uint256][]byte{}
	_ = src.BC.GetStateSyncModule().Traverse(hdr.PrevStateRoot, func(n mpt.Node, b []byte) bool {
		nodes[n.Hash()] = b
		return false
	})
	t2 := time.Now()
	steps, maxU := 0, 0
	for {
		u := m.GetUnknownMPTNodesBatch(1000)
		if len(u) == 0 {
			break
		}
		if len(u) > maxU {
			maxU = len(u)
		}
		if err := m.AddMPTNodes([][]byte{nodes[u[0]]}); err != nil {
			t.Fatal(err)
		}
		steps++
	}
	fmt.Println("mpt steps", steps, "max unknown", maxU, time.Since(t2), "needblocks", m.NeedBlocks(), "bh", m.BlockHeight())
	rs := n.Store.(*chainx.RecStore)
	fmt.Println("batches so far", len(rs.Batches()))
	for i := m.BlockHeight() + 1; i <= P; i++ {
		b, _ := src.BC.GetBlock(src.BC.GetHeaderHash(i))
		fmt.Println("blk", i, m.AddBlock(b), len(rs.Batches()))
	}
	fmt.Println("active", m.IsActive(), "height", n.BC.BlockHeight())
	for i := P + 1; i <= tip; i++ {
		b, _ := src.BC.GetBlock(src.BC.GetHeaderHash(i))
		fmt.Println("blk", i, n.BC.AddBlock(b))
	}
	t3 := time.Now()
	ob, err := n.Observe(4, sc.World.Hashes())
	fmt.Println("observe", time.Since(t3), err)
	_, obs := sc.Blocks(h)
	fmt.Println("diff", obs[len(obs)-1].Diff(ob))
	t4 := time.Now()
	d := chainx.Dump(rs)
	fmt.Println("dump", len(d), time.Since(t4))
	n.Close()
}
