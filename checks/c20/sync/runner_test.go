package sync

import (
	"bytes"
	"crypto/sha256"
	"encoding/hex"
	"fmt"
	"regexp"
	"sort"
	"strings"
	gosync "sync"
	"time"

	"github.com/nspcc-dev/neo-go/pkg/config"
	"github.com/nspcc-dev/neo-go/pkg/core/block"
	"github.com/nspcc-dev/neo-go/pkg/core/state"
	"github.com/nspcc-dev/neo-go/pkg/core/statesync"
	"github.com/nspcc-dev/neo-go/pkg/core/storage"
	"github.com/nspcc-dev/neo-go/pkg/core/transaction"
	nio "github.com/nspcc-dev/neo-go/pkg/io"
	"github.com/nspcc-dev/neo-go/pkg/util"

	"verif/lib/chainx"
)

// Ev is one environment event handed to the syncing node.
type Ev struct {
	K string `json:"k"`           // kind
	N int    `json:"n,omitempty"` // count / index / variant
	H string `json:"h,omitempty"` // node hash (BE hex) or variant name
	D bool   `json:"d,omitempty"` // it was the default choice in its state
	P bool   `json:"p,omitempty"` // probe: must not change the state
}

func (e Ev) String() string {
	s := e.K
	if e.H != "" {
		h := e.H
		if len(h) > 8 {
			h = h[:8]
		}
		s += ":" + h
	}
	if e.N != 0 || e.K == "crash" {
		s += fmt.Sprintf(":%d", e.N)
	}
	return s
}

// compact renders the state-changing events: default choices are collapsed
// into dN, deviations are spelled out.
func compact(evs []Ev) string {
	var out []string
	d := 0
	flush := func() {
		if d > 0 {
			out = append(out, fmt.Sprintf("d%d", d))
			d = 0
		}
	}
	for _, e := range evs {
		if e.P {
			continue
		}
		if e.D {
			d++
			continue
		}
		flush()
		out = append(out, e.String())
	}
	flush()
	return strings.Join(out, ",")
}

type viol struct {
	Oracle string   `json:"oracle"`
	What   string   `json:"what"`
	Diff   []string `json:"diff,omitempty"`
}

// confT is one exploration: source, sync point (through the height given to
// Init), data mode, default delivery order and deviation profile.
type confT struct {
	src   *srcT
	HInit uint32
	P     uint32
	Mode  string // mpt | items
	Order string // lo | hi | dfs | rdfs | bfs
	Trust uint32 // index of the TrustedHeader of the syncing node (0: none)
	prof  profT
	trie  *trieT
	items []storage.KeyValue
	// ext_init: roots of the tries holding the first k items (foreign roots for InitContractStorageSync)
	preOnce gosync.Once
	pre     []util.Uint256
	preErr  error
}

func (c *confT) name() string {
	t := ""
	if c.Trust != 0 {
		t = fmt.Sprintf("/T%d", c.Trust)
	}
	return fmt.Sprintf("%s/P%d%s/%s/%s", c.src.id, c.P, t, c.modeName(), c.Order)
}

// group identifies source, sync point and node configuration (not the order).
func (c *confT) group() string {
	return fmt.Sprintf("%s/P%d/T%d/%s", c.src.id, c.P, c.Trust, c.modeName())
}

func (c *confT) opts(st storage.Store) chainx.Opts {
	o := c.src.cf.Opts()
	o.Store = st
	mode := c.Mode
	trust := c.Trust
	var th util.Uint256
	if trust != 0 {
		th = c.src.block(trust).Hash()
	}
	o.Cfg = func(cc *config.Blockchain) {
		cc.Ledger.RemoveUntraceableBlocks = true
		cc.Ledger.GarbageCollectionPeriod = 1
		if trust != 0 {
			cc.TrustedHeader = config.HashIndex{Hash: th, Index: trust}
		}
		if mode == "items" {
			cc.P2PStateExchangeExtensions = false
			cc.NeoFSStateSyncExtensions = true
			cc.NeoFSStateFetcher.Enabled = true
			cc.NeoFSBlockFetcher.Enabled = true
		}
	}
	return o
}

// runner is one live syncing node plus the trace that led to its state.
type runner struct {
	c         *confT
	n         *chainx.Node
	m         *statesync.Module
	rs        *chainx.RecStore
	base      []chainx.Batch // batches that made the initial content of rs (after a crash)
	tr        []Ev
	initH     uint32
	nRestart  int
	prevLog   int // log length before the last state-changing event
	postLog   int // log length right after it (probes may append content-neutral batches later)
	digN      int
	dig       string
	digRS     *chainx.RecStore
	itemsOK   bool // InitContractStorageSync done on this module instance
	announced bool // ext_init: a probe announced the genuine root to this module instance
	redone    bool // the full item list was delivered again after a mismatch
	dirty     int  // items mode: wrong/omitted data delivered since the last full redelivery
	lastFrom  int  // items mode: last batch (for the duplicate probe)
	lastTo    int
	poisoned  bool // a panic happened: locks may be held, do not Close
	stats     *statsT
}

var hexRe = regexp.MustCompile(`[0-9a-fA-F]{16,}`)

// reason turns an error text into a short stable tag (hashes removed).
func reason(s string) string {
	if i := strings.Index(s, "Received unexpected error:"); i >= 0 {
		s = s[i+len("Received unexpected error:"):]
		if j := strings.Index(s, "Test:"); j >= 0 {
			s = s[:j]
		}
	}
	s = hexRe.ReplaceAllString(s, "#")
	s = strings.Join(strings.Fields(s), "_")
	if len(s) > 60 {
		s = s[:60]
	}
	return s
}

func cleanErr(s string) string {
	if i := strings.Index(s, "Received unexpected error:"); i >= 0 {
		t := s[i+len("Received unexpected error:"):]
		if j := strings.Index(t, "Test:"); j >= 0 {
			t = t[:j]
		}
		return strings.Join(strings.Fields(t), " ")
	}
	return s
}

func guard(f func() error) (err error, pan any) {
	defer func() {
		if r := recover(); r != nil {
			pan = r
		}
	}()
	return f(), nil
}

func (r *runner) open() *viol {
	var n *chainx.Node
	var err error
	_, pan := guard(func() error {
		n, err = chainx.NewWithLogger(r.c.opts(r.rs), chainx.FatalPanicLogger())
		return nil
	})
	if pan != nil {
		return &viol{Oracle: "panic", What: fmt.Sprintf("opening the node: panic: %v", pan)}
	}
	if err != nil {
		or := "restart-failed:" + reason(err.Error())
		if g := r.c.src.lite[0]["hash"]; strings.Contains(err.Error(), "could not get header "+g) {
			or = "restart-failed:genesis-header-missing"
		}
		return &viol{Oracle: or, What: "new Blockchain on the node's database failed: " + cleanErr(err.Error())}
	}
	r.n = n
	r.m = n.BC.GetStateSyncModule()
	r.itemsOK = false
	r.announced = false
	ierr, pan := guard(func() error { return r.m.Init(r.initH) })
	if pan != nil {
		r.poisoned = true
		return &viol{Oracle: "init-panic:" + reason(fmt.Sprint(pan)), What: fmt.Sprintf("Module.Init(%d): panic: %v", r.initH, pan)}
	}
	if ierr != nil {
		if strings.Contains(ierr.Error(), "point is outdated") {
			return &viol{Oracle: "outdated", What: ierr.Error()}
		}
		return &viol{Oracle: "init-failed", What: fmt.Sprintf("Module.Init(%d) failed: %v", r.initH, ierr)}
	}
	return nil
}

func newRunner(c *confT, st *statsT) (*runner, *viol) {
	r := &runner{c: c, rs: chainx.NewRecStore(storage.NewMemoryStore()), initH: c.HInit, stats: st}
	return r, r.open()
}

// close stops the node. After a recovered panic a lock of the subject may
// still be held, so Close runs aside with a liveness guard (a node that cannot
// be closed is leaked and counted).
func (r *runner) close() {
	n := r.n
	r.n = nil
	if n == nil {
		return
	}
	if !r.poisoned {
		n.Close()
		return
	}
	done := make(chan struct{})
	go func() {
		defer func() { _ = recover(); close(done) }()
		n.Close()
	}()
	select {
	case <-done:
	case <-time.After(5 * time.Second):
		r.stats.leaked.Inc()
	}
}

func (r *runner) logLen() int { return len(r.rs.Batches()) }

func (r *runner) persistedDigest() string {
	n := r.logLen()
	if r.digRS != r.rs || r.digN != n || r.dig == "" {
		r.dig = digestStore(r.rs.Inner)
		r.digN = n
		r.digRS = r.rs
	}
	return r.dig
}

func (r *runner) unknown() []util.Uint256 {
	if r.c.Mode != "mpt" {
		return nil
	}
	u := r.m.GetUnknownMPTNodesBatch(1 << 20)
	sort.Slice(u, func(i, j int) bool { return u[i].Compare(u[j]) < 0 })
	return u
}

func (r *runner) stage() string {
	m := r.m
	s := ""
	for _, b := range []bool{m.IsActive(), m.IsInitialized(), m.NeedHeaders(), m.NeedStorageData(), m.NeedBlocks()} {
		if b {
			s += "1"
		} else {
			s += "0"
		}
	}
	return s
}

// key identifies the state: module stage getters, sync point, unknown-node
// set, heights, position of the item stream and the digest of the raw
// database; the number of restarts so far keeps a module that re-derived its
// state from the database apart from one that carried it in memory.
func (r *runner) key() string {
	m, bc := r.m, r.n.BC
	st := r.stage()
	mbh := "-"
	if !m.IsActive() || m.NeedBlocks() {
		mbh = fmt.Sprint(m.BlockHeight())
	}
	h := sha256.New()
	for _, u := range r.unknown() {
		h.Write(u[:])
	}
	extra := ""
	if r.c.Mode == "items" {
		extra = fmt.Sprintf("/lk%x/ok%v/re%v/dirty%d", m.GetLastStoredKey(), r.itemsOK, r.redone, r.dirty)
	}
	return fmt.Sprintf("%s/sp%d/hh%d/bh%d/mbh%s/u%x/db%s/r%d/i%d%s", st, m.GetStateSyncPoint(), bc.HeaderHeight(), bc.BlockHeight(), mbh, h.Sum(nil)[:10], r.persistedDigest(), r.nRestart, r.initH, extra)
}

func (r *runner) tokey() (k string, v *viol) {
	_, pan := guard(func() error { k = r.key(); return nil })
	if pan != nil {
		r.poisoned = true
		return "", &viol{Oracle: "panic", What: fmt.Sprintf("reading the module getters: panic: %v", pan)}
	}
	return k, nil
}

func hx(h util.Uint256) string { return hex.EncodeToString(h[:]) }

func unhx(s string) util.Uint256 {
	var h util.Uint256
	b, _ := hex.DecodeString(s)
	copy(h[:], b)
	return h
}

// pick is the default delivery order over the unknown set.
func (c *confT) pick(u []util.Uint256) util.Uint256 {
	best := u[0]
	for _, h := range u[1:] {
		switch c.Order {
		case "lo":
			if h.Compare(best) < 0 {
				best = h
			}
		case "hi":
			if h.Compare(best) > 0 {
				best = h
			}
		case "dfs":
			if c.trie.Pre[h] < c.trie.Pre[best] {
				best = h
			}
		case "rdfs":
			if c.trie.Pre[h] > c.trie.Pre[best] {
				best = h
			}
		case "bfs": // level by level: all parents of a level before any node of the next
			dh, db := c.trie.Depth[h], c.trie.Depth[best]
			if dh < db || (dh == db && c.trie.Pre[h] < c.trie.Pre[best]) {
				best = h
			}
		}
	}
	return best
}

func (r *runner) itemPos() int {
	lk := r.m.GetLastStoredKey()
	if len(lk) == 0 {
		return 0
	}
	for i, kv := range r.c.items {
		if bytes.Equal(kv.Key, lk) {
			return i + 1
		}
	}
	return -1
}

func (r *runner) complete() bool {
	return !r.m.IsActive() && r.n.BC.BlockHeight() >= r.c.src.tip
}

// altT is an alternative to the default event with its deviation cost.
type altT struct {
	e    Ev
	cost int
}

// succ returns the default event of the current state and the alternatives.
// used is the number of deviations the trace already contains: the "all batch
// sizes" regime of the item stream applies to traces without other deviations.
func (r *runner) succ(used int) (def *Ev, alts []altT, v *viol) {
	m, bc, c := r.m, r.n.BC, r.c
	tip := c.src.tip
	pr := c.prof
	oc := pr.OrderCost
	if oc <= 0 {
		oc = 1
	}
	switch {
	case !m.IsActive():
		if bc.BlockHeight() < tip {
			def = &Ev{K: "pblk"}
		}
	case m.NeedHeaders():
		hh := bc.HeaderHeight()
		if hh >= tip {
			return nil, nil, &viol{Oracle: "stuck", What: fmt.Sprintf("all %d headers of the source are stored but the module still needs headers (sync point %d)", tip, m.GetStateSyncPoint())}
		}
		def = &Ev{K: "hdr", N: int(tip - hh)}
		for k := 1; k < int(tip-hh) && !pr.Lean; k++ {
			// Every split of the headers below the sync point is free on a trace
			// without other deviations (all compositions, with dedupe on the
			// header height); a batch that crosses P but stops short of the tip
			// is a deviation (the trie stage then starts on another header height).
			cost := 1
			if used == 0 && hh+uint32(k) <= m.GetStateSyncPoint() {
				cost = 0
			}
			alts = append(alts, altT{Ev{K: "hdr", N: k}, cost})
		}
		if hh >= 1 && !pr.Lean {
			alts = append(alts, altT{Ev{K: "hdr", N: int(tip - hh), H: "ov"}, 1})
		}
	case m.NeedStorageData() && c.Mode == "mpt":
		u := r.unknown()
		if len(u) == 0 {
			// Nothing is requested any more but the stage did not advance: this
			// happens when the last missing node came in a batch that then failed
			// on a later (undecodable) node. Any further MPT message (a second
			// peer's duplicate answer) lets the module notice the empty pool.
			def = &Ev{K: "nodedup"}
			break
		}
		for _, h := range u {
			if _, ok := c.trie.Nodes[h]; !ok {
				return nil, nil, &viol{Oracle: "unknown-node-not-in-source-trie", What: "the module requests node " + h.StringBE() + " which is not part of the state trie at the sync point"}
			}
		}
		if pr.Lean {
			def = &Ev{K: "all", H: "asc"}
			break
		}
		d := c.pick(u)
		def = &Ev{K: "node", H: hx(d)}
		free := pr.Tail > 0 && used == 0 && c.trie.closure(u) <= pr.Tail
		for _, h := range u {
			if h == d {
				continue
			}
			cost := oc
			if free {
				cost = 0
			}
			alts = append(alts, altT{Ev{K: "node", H: hx(h)}, cost})
		}
		if pr.Sub {
			for _, h := range u {
				if len(c.trie.Kids[h]) == 0 {
					continue
				}
				alts = append(alts, altT{Ev{K: "sub", H: hx(h)}, oc})
				if pr.SubTrunc && len(c.trie.Sub[h]) > 3 {
					alts = append(alts, altT{Ev{K: "sub", H: hx(h), N: 3}, oc})
				}
			}
			if len(u) > 1 {
				alts = append(alts, altT{Ev{K: "all", H: "asc"}, oc}, altT{Ev{K: "all", H: "desc"}, oc})
			}
			alts = append(alts, altT{Ev{K: "mix", H: hx(d)}, oc})
			// ext_inline: the requested inner node with one child serialised in full
			if inlineOn {
				for _, h := range u {
					if len(c.trie.Kids[h]) > 0 && c.inlineBytes(h) != nil {
						alts = append(alts, altT{Ev{K: "inl", H: hx(h)}, oc})
					}
				}
			}
		}
	case m.NeedStorageData() && c.Mode == "items" && !r.itemsOK:
		// the state source announces the root of the sync point before any item
		// (statefetcher does so on every start); wrong roots are in the probe menu
		def = &Ev{K: "init"}
	case m.NeedStorageData() && c.Mode == "items":
		pos := r.itemPos()
		if pos < 0 {
			return nil, nil, &viol{Oracle: "bad-last-stored-key", What: fmt.Sprintf("GetLastStoredKey %x is not a key of the source", m.GetLastStoredKey())}
		}
		rem := len(c.items) - pos
		if rem == 0 {
			if r.dirty == 0 {
				return nil, nil, &viol{Oracle: "stuck", What: "all storage items were delivered in key order, unmodified, and the module still needs storage data"}
			}
			def = &Ev{K: "items", H: "redo"}
			break
		}
		dk := pr.ItemBatch
		if dk <= 0 || dk > rem {
			dk = rem
		}
		def = &Ev{K: "items", N: dk}
		for k := 1; k <= rem && !pr.Lean; k++ {
			if k == dk {
				continue
			}
			cost := oc
			if pr.ItemsFree && used == 0 {
				cost = 0
			}
			alts = append(alts, altT{Ev{K: "items", N: k}, cost})
		}
		if pr.Lean {
			break
		}
		alts = append(alts, altT{Ev{K: "items", N: 1, H: "bad"}, oc})
		if rem >= 2 {
			alts = append(alts, altT{Ev{K: "items", N: 2, H: "gap"}, oc})
		}
	case m.NeedBlocks():
		def = &Ev{K: "blk"}
	default:
		return nil, nil, &viol{Oracle: "stuck", What: "the module is active but needs neither headers, nor state data, nor blocks (stage getters " + r.stage() + ")"}
	}
	if def == nil {
		return nil, nil, nil
	}
	def.D = true
	if pr.Lean && !r.leanWindow() {
		return def, alts, nil
	}
	alts = append(alts, altT{Ev{K: "flush"}, 1}, altT{Ev{K: "restart"}, 1})
	if pr.RestartTip && c.HInit != tip {
		alts = append(alts, altT{Ev{K: "restart", H: "tip"}, 1})
	}
	return def, alts, nil
}

// rewire re-encodes a tampered header/block and decodes it again, so that the
// object handed to the node is what it would have parsed from the wire (the
// hash is computed while decoding).
func rewireHeader(h *block.Header) *block.Header {
	w := nio.NewBufBinWriter()
	h.EncodeBinary(w.BinWriter)
	if w.Err != nil {
		panic(w.Err)
	}
	n := &block.Header{StateRootEnabled: h.StateRootEnabled}
	r := nio.NewBinReaderFromBuf(w.Bytes())
	n.DecodeBinary(r)
	if r.Err != nil {
		panic(r.Err)
	}
	return n
}

func rewireBlock(b *block.Block) *block.Block {
	bb, err := chainx.BlockBytes(b)
	if err != nil {
		panic(err)
	}
	n, err := chainx.DecodeBlock(bb, b.StateRootEnabled)
	if err != nil {
		panic(err)
	}
	return n
}

// crashAlts are the crash points of the transition that led to the current
// state: the database keeps the batches issued before the last event plus the
// first N batches of that event (N = all of them: only the memory layer is
// lost). They belong to the transition, not to the state, so they are forked
// even when the state itself was expanded before.
func (r *runner) crashAlts() []altT {
	var alts []altT
	if r.c.prof.Lean && !r.leanWindow() {
		return nil
	}
	for i := 1; i <= r.postLog-r.prevLog; i++ {
		alts = append(alts, altT{Ev{K: "crash", N: i}, 1})
	}
	return alts
}

func corrupt(b []byte, pos int) []byte {
	c := append([]byte{}, b...)
	if len(c) == 0 {
		return []byte{0x7f}
	}
	c[pos%len(c)] ^= 0x01
	return c
}

// do applies one state-changing event and checks its immediate oracle.
func (r *runner) do(e Ev) (v *viol) {
	r.tr = append(r.tr, e)
	c := r.c
	src := c.src
	before := r.logLen()
	var err error
	var pan any
	fail := func(or, f string, a ...any) *viol { return &viol{Oracle: or, What: fmt.Sprintf(f, a...)} }
	switch e.K {
	case "hdr":
		hh := r.n.BC.HeaderHeight()
		from, to := hh+1, hh+uint32(e.N)
		if e.H == "ov" && hh >= 1 {
			from = hh
			if hh >= 2 {
				from = hh - 1
			}
		}
		if to > src.tip {
			return fail("harness", "header batch beyond the tip")
		}
		err, pan = guard(func() error { return r.m.AddHeaders(src.headers(from, to)...) })
		if pan == nil && err != nil {
			v = fail("valid-headers-rejected", "AddHeaders(%d..%d) on header height %d: %v", from, to, hh, err)
		} else if pan == nil && r.n.BC.HeaderHeight() != to {
			v = fail("valid-headers-not-stored", "AddHeaders(%d..%d) returned nil but the header height is %d", from, to, r.n.BC.HeaderHeight())
		}
	case "node", "sub", "all", "mix", "inl":
		var batch [][]byte
		var must []util.Uint256
		switch e.K {
		case "inl": // ext_inline: the requested inner node with one child serialised in full
			r.stats.inlines.Inc()
			batch = [][]byte{c.inlineBytes(unhx(e.H))}
			must = []util.Uint256{unhx(e.H)}
		case "node":
			batch = [][]byte{c.trie.Nodes[unhx(e.H)]}
			must = []util.Uint256{unhx(e.H)}
		case "sub":
			l := c.trie.Sub[unhx(e.H)]
			if e.N > 0 && len(l) > e.N {
				l = l[:e.N]
			}
			for _, h := range l {
				batch = append(batch, c.trie.Nodes[h])
			}
			must = []util.Uint256{unhx(e.H)}
		case "all":
			u := r.unknown()
			if e.H == "desc" {
				for i, j := 0, len(u)-1; i < j; i, j = i+1, j-1 {
					u[i], u[j] = u[j], u[i]
				}
			}
			for _, h := range u {
				batch = append(batch, c.trie.Nodes[h])
			}
			must = u
		case "mix":
			b := c.trie.Nodes[unhx(e.H)]
			batch = [][]byte{b, corrupt(b, len(b)-1)}
			must = []util.Uint256{unhx(e.H)}
		}
		for _, b := range batch {
			if b == nil {
				return fail("harness", "no such node in the source trie: %s", e.H)
			}
		}
		err, pan = guard(func() error { return r.m.AddMPTNodes(batch) })
		if pan == nil && err != nil && e.K == "inl" {
			// a module that refuses the non-canonical form must leave the node requested
			r.stats.outcome("inl->refused")
			still := false
			for _, h := range r.unknown() {
				still = still || h == must[0]
			}
			if !still {
				v = fail("inline-child-lost", "AddMPTNodes(%s) returned %v but %s is no longer requested", e, err, must[0].StringBE())
			}
		} else if pan == nil && err != nil && e.K != "mix" {
			v = fail("valid-node-rejected", "AddMPTNodes(%s, %d nodes): %v", e, len(batch), err)
		} else if pan == nil {
			left := map[util.Uint256]bool{}
			for _, h := range r.unknown() {
				left[h] = true
			}
			for _, h := range must {
				if left[h] {
					v = fail("node-still-unknown", "AddMPTNodes(%s) returned %v but %s is still requested", e, err, h.StringBE())
				}
			}
			if e.K == "inl" && v == nil && err == nil {
				// not refused: say what became of the written-out child, else report the missing error
				var iv *viol
				if _, p2 := guard(func() error { iv = r.inlineLost(unhx(e.H)); return nil }); p2 != nil {
					pan = p2
				}
				if v = iv; v == nil && pan == nil {
					v = fail("bad-data-no-error:inl", "AddMPTNodes(%s): a node with a child serialised in place of its hash was accepted without an error", e)
				}
				r.stats.outcome("inl->accepted")
			}
		}
	case "nodedup":
		err, pan = guard(func() error { return r.m.AddMPTNodes([][]byte{c.trie.Nodes[c.trie.Root]}) })
		if pan == nil && err != nil {
			v = fail("duplicate-node-rejected", "AddMPTNodes(root again): %v", err)
		} else if pan == nil && r.m.NeedStorageData() {
			v = fail("stuck", "no trie node is requested any more, a further (duplicate) MPT message was delivered, and the module still needs MPT data")
		} else {
			r.stats.outcome("mpt-stage-advanced-only-by-a-later-duplicate-message")
		}
	case "init":
		err, pan = guard(func() error { return r.m.InitContractStorageSync(r.genuineRoot()) })
		if pan == nil && err != nil {
			v = fail("storage-sync-init-failed", "InitContractStorageSync(%d, source root) after %d restarts: %v", c.P, r.nRestart, err)
		} else if pan == nil {
			r.itemsOK = true
			r.stats.initEvents.Inc()
		}
	case "items":
		v, pan = r.doItems(e)
	case "blk":
		var next uint32
		err, pan = guard(func() error {
			next = r.m.BlockHeight() + 1
			return r.m.AddBlock(src.block(next))
		})
		if pan == nil && err != nil {
			v = fail("valid-block-rejected", "Module.AddBlock(%d): %v", next, err)
		} else if pan == nil {
			if got := r.m.BlockHeight(); got != next {
				v = fail("valid-block-not-stored", "Module.AddBlock(%d) returned nil but Module.BlockHeight is %d", next, got)
			} else if next == r.m.GetStateSyncPoint() {
				if r.m.IsActive() {
					v = fail("no-jump", "the last block %d was stored but the module is still active (stage getters %s)", next, r.stage())
				} else {
					r.stats.jumps.Inc()
					v = r.checkAt(next, "after the state jump")
				}
			}
		}
	case "pblk":
		next := r.n.BC.BlockHeight() + 1
		err, pan = guard(func() error { return r.n.BC.AddBlock(src.block(next)) })
		if pan == nil && err != nil {
			v = fail("lockstep-block-rejected", "Blockchain.AddBlock(%d) on the synced node: %v", next, err)
		} else if pan == nil {
			var got *chainx.Obs
			got, err = r.n.Observe(src.maxID, src.hashes)
			if err != nil {
				v = fail("lockstep-observe", "the synced node cannot answer at height %d: %v", next, err)
			} else if d := src.obs[next-1].Diff(got); len(d) != 0 {
				v = &viol{Oracle: "lockstep-diverged", What: fmt.Sprintf("after block %d the synced node differs from the source", next), Diff: d}
			} else if c.prof.Lean {
				// ext_epoch: the native getters an RPC client reads (native caches)
				nr, e := nativeReads(r.n, src.hashes)
				if e != nil {
					v = fail("lockstep-observe", "the synced node cannot answer native getters at height %d: %v", next, e)
				} else if want := src.lite[next]["native_reads"]; nr != want {
					v = &viol{Oracle: "lockstep-natives-diverged", What: fmt.Sprintf("after block %d the native getters of the synced node differ from the source's", next), Diff: diffLite(map[string]string{"native_reads": want}, map[string]string{"native_reads": nr}, nil, nil)}
				}
				r.stats.nativeReads.Inc()
			}
		}
	case "flush":
		err, pan = guard(func() error { return r.n.Persist() })
		if pan == nil && err != nil {
			v = fail("flush-failed", "persist: %v", err)
		}
	case "restart":
		_, pan = guard(func() error { r.n.Close(); return nil })
		if pan != nil {
			break
		}
		r.nRestart++
		r.stats.restarts.Inc()
		r.initH = c.HInit
		if e.H == "tip" {
			r.initH = src.tip
		}
		v = r.open()
	case "crash":
		log := r.rs.Batches()
		cut := r.prevLog + e.N
		if cut > len(log) || cut > r.postLog {
			return fail("harness", "crash point %d+%d beyond the log (%d)", r.prevLog, e.N, len(log))
		}
		_, pan = guard(func() error { r.n.Close(); return nil })
		if pan != nil {
			break
		}
		// the crashed database = everything this lineage of stores ever persisted
		// (a store created by an earlier crash does not log its initial content)
		r.base = append(append([]chainx.Batch{}, r.base...), log[:cut]...)
		r.rs = chainx.NewRecStore(chainx.ApplyBatches(r.base, len(r.base)))
		r.nRestart++
		r.stats.crashes.Inc()
		before = 0
		v = r.open()
	default:
		return fail("harness", "unknown event %v", e)
	}
	if pan != nil {
		r.poisoned = true
		return fail("panic:"+e.K+":"+reason(fmt.Sprint(pan)), "%s: panic: %v", e, pan)
	}
	r.prevLog = before
	r.postLog = r.logLen()
	if v != nil {
		return v
	}
	if v = r.invariants(); v != nil {
		return v
	}
	if (e.K == "restart" || e.K == "crash") && !r.m.IsActive() {
		// the node came up on a jumped (or resumed-jump) database
		v = r.checkAt(r.n.BC.BlockHeight(), "after "+e.String())
	}
	return v
}

func (r *runner) doItems(e Ev) (v *viol, pan any) {
	c := r.c
	fail := func(or, f string, a ...any) *viol { return &viol{Oracle: or, What: fmt.Sprintf(f, a...)} }
	if !r.itemsOK {
		var err error
		err, pan = guard(func() error {
			return r.m.InitContractStorageSync(r.genuineRoot())
		})
		if pan != nil {
			return nil, pan
		}
		if err != nil {
			return fail("storage-sync-init-failed", "InitContractStorageSync(%d, source root): %v", c.P, err), nil
		}
		r.itemsOK = true
	}
	pos := r.itemPos()
	var batch []storage.KeyValue
	switch e.H {
	case "":
		batch = c.items[pos : pos+e.N]
		r.lastFrom, r.lastTo = pos, pos+e.N
	case "bad":
		kv := c.items[pos]
		batch = []storage.KeyValue{{Key: kv.Key, Value: corrupt(kv.Value, 0)}}
		r.dirty++
	case "gap":
		batch = []storage.KeyValue{c.items[pos+1]}
		r.dirty++
	case "redo":
		batch = c.items
		r.redone = true
		r.dirty = 0
	}
	var err error
	err, pan = guard(func() error { return r.m.AddContractStorageItems(batch) })
	if pan != nil {
		return nil, pan
	}
	if err != nil && e.H != "bad" && e.H != "gap" {
		return fail("valid-items-rejected", "AddContractStorageItems(%s, %d items at %d): %v", e, len(batch), pos, err), nil
	}
	return nil, nil
}

// invariants hold in every state.
func (r *runner) invariants() *viol {
	var v *viol
	_, pan := guard(func() error {
		m, bc := r.m, r.n.BC
		if !m.IsActive() && bc.BlockHeight() < r.c.P {
			how := "start"
			for _, e := range r.tr {
				if !e.P && (e.K == "restart" || e.K == "crash") {
					how = e.K
				}
			}
			v = &viol{Oracle: "inactive-without-jump:after-" + how, What: fmt.Sprintf("the module reports the state sync as finished/unnecessary (stage getters %s, sync point %d) but the ledger is at height %d, below the sync point %d", r.stage(), m.GetStateSyncPoint(), bc.BlockHeight(), r.c.P)}
		}
		if bc.HeaderHeight() < bc.BlockHeight() {
			v = &viol{Oracle: "header-below-block", What: fmt.Sprintf("header height %d < block height %d", bc.HeaderHeight(), bc.BlockHeight())}
		}
		return nil
	})
	if pan != nil {
		r.poisoned = true
		return &viol{Oracle: "panic", What: fmt.Sprintf("getters: panic: %v", pan)}
	}
	r.stats.stages.Add(r.stage())
	return v
}

// checkAt compares the synced node at height h (its current height) with the source.
func (r *runner) checkAt(h uint32, when string) *viol {
	src := r.c.src
	if got := r.n.BC.BlockHeight(); got != h {
		return &viol{Oracle: "wrong-height", What: fmt.Sprintf("%s: block height %d, expected %d", when, got, h)}
	}
	lo, st, err := liteObs(r.n, src.maxID, src.hashes)
	if err != nil {
		return &viol{Oracle: "synced-node-cannot-answer", What: fmt.Sprintf("%s at height %d: %v", when, h, err)}
	}
	if d := diffLite(src.lite[h], lo, src.stor[h], st); len(d) != 0 {
		return &viol{Oracle: "state-differs", What: fmt.Sprintf("%s: the synced node at height %d differs from the source at that height", when, h), Diff: d}
	}
	// the traceable blocks (what the blocks stage is for): bodies and transactions
	// must be there, as on the source
	var bv *viol
	_, pan := guard(func() error {
		bc := r.n.BC
		mtb := bc.GetMaxTraceableBlocks()
		for i := h; i >= 1 && i+mtb > h; i-- {
			want := src.block(i)
			got, err := bc.GetBlock(bc.GetHeaderHash(i))
			if err != nil {
				bv = &viol{Oracle: "traceable-block-missing", What: fmt.Sprintf("%s at height %d: GetBlock(%d): %v", when, h, i, err)}
				return nil
			}
			if got.Hash() != want.Hash() || len(got.Transactions) != len(want.Transactions) {
				bv = &viol{Oracle: "traceable-block-differs", What: fmt.Sprintf("%s at height %d: block %d has %d transactions (hash %s), the source's has %d (hash %s)", when, h, i, len(got.Transactions), got.Hash().StringLE(), len(want.Transactions), want.Hash().StringLE())}
				return nil
			}
			for _, tx := range want.Transactions {
				_, th, err := bc.GetTransaction(tx.Hash())
				if err != nil || th != i {
					bv = &viol{Oracle: "traceable-transaction-missing", What: fmt.Sprintf("%s at height %d: GetTransaction(%s of block %d) = height %d, %v", when, h, tx.Hash().StringLE(), i, th, err)}
					return nil
				}
			}
		}
		return nil
	})
	if pan != nil {
		return &viol{Oracle: "panic:traceable-blocks", What: fmt.Sprintf("%s: reading blocks: panic: %v", when, pan)}
	}
	if bv != nil {
		return bv
	}
	md, err := mptDigest(r.n)
	if err != nil {
		return &viol{Oracle: "state-trie-unreadable", What: fmt.Sprintf("%s at height %d: enumerating the state trie from the local root failed: %v", when, h, err)}
	}
	if md != src.mptd[h] {
		return &viol{Oracle: "state-trie-differs", What: fmt.Sprintf("%s: the key-value pairs reachable through the stored state trie at height %d (digest/count %s) differ from the source's (%s)", when, h, md, src.mptd[h])}
	}
	return nil
}

// final is evaluated when the node reached the source's tip: flush, garbage
// collection as Run does after a flush, comparison, restart, comparison.
func (r *runner) final() (*viol, string) {
	src := r.c.src
	var v *viol
	var dig string
	_, pan := guard(func() error {
		if v = r.checkAt(src.tip, "at the tip"); v != nil {
			return nil
		}
		old := r.n.BC.VerifPersistedHeight()
		if err := r.n.Persist(); err != nil {
			v = &viol{Oracle: "flush-failed", What: "final flush: " + err.Error()}
			return nil
		}
		r.n.BC.VerifTryRunGC(old)
		if v = r.checkAt(src.tip, "after flush and garbage collection"); v != nil {
			return nil
		}
		r.n.Close()
		dig = digestStore(r.rs.Inner)
		r.initH = src.tip
		if v = r.open(); v != nil {
			if v.Oracle == "outdated" {
				v.Oracle = "init-failed:sync-point-outdated-on-a-synchronised-node"
			}
			return nil
		}
		if r.m.IsActive() {
			v = &viol{Oracle: "active-after-sync", What: "after a restart of the fully synchronised node the module is active again (stage getters " + r.stage() + ")"}
			return nil
		}
		v = r.checkAt(src.tip, "after restarting the synchronised node")
		return nil
	})
	if pan != nil {
		r.poisoned = true
		return &viol{Oracle: "panic", What: fmt.Sprintf("final checks: panic: %v", pan)}, ""
	}
	return v, dig
}

// ---- probes: deliveries that must not change anything ------------------------------

type probeT struct {
	e       Ev
	needErr bool // an error is required (corrupted headers/blocks, wrong stage where the code documents one)
	f       func() error
	mustOK  bool         // ext_init: the delivery is genuine (a repetition): an error is a violation
	post    func() *viol // ext_init: a follow-up that exposes a change of the module's memory the state key cannot see
}

func (r *runner) probes() []probeT {
	m, bc, c := r.m, r.n.BC, r.c
	src := c.src
	tip := src.tip
	var ps []probeT
	add := func(k string, n int, needErr bool, f func() error) {
		ps = append(ps, probeT{e: Ev{K: k, N: n, P: true}, needErr: needErr, f: f})
	}
	hdrMut := func(h *block.Header, variant int) {
		switch variant {
		case 0:
			h.PrevHash[3] ^= 1
		case 1:
			h.Timestamp++
		case 2:
			if len(h.Script.InvocationScript) > 5 {
				h.Script.InvocationScript = corrupt(h.Script.InvocationScript, 5)
			}
		case 3:
			h.NextConsensus[0] ^= 1
		case 4:
			h.PrevStateRoot[7] ^= 1
		case 5:
			h.Index++
		}
	}
	rootNode := c.trie.Nodes[c.trie.Root]
	active := m.IsActive()
	switch {
	case active && m.NeedHeaders():
		hh := bc.HeaderHeight()
		if hh >= 1 {
			add("p-hdr-dup", 0, false, func() error { return m.AddHeaders(src.headers(hh, hh)...) })
		}
		if hh+2 <= tip {
			add("p-hdr-far", 0, true, func() error { return m.AddHeaders(src.headers(hh+2, min(hh+3, tip))...) })
		}
		if hh+3 <= tip {
			add("p-hdr-gap", 0, true, func() error {
				return m.AddHeaders(src.headers(hh+1, hh+1)[0], src.headers(hh+3, hh+3)[0])
			})
		}
		if hh+1 <= tip {
			for vnt := 0; vnt <= 5; vnt++ {
				if vnt == 2 && hh+1 == c.Trust {
					continue // the trusted header is identified by its hash, which does not cover the witness
				}
				if vnt == 4 && !src.fam.srih() {
					continue // no state root in the header: nothing to tamper with
				}
				add("p-hdr-bad", vnt, true, func() error {
					h := src.headers(hh+1, hh+1)[0]
					hdrMut(h, vnt)
					return m.AddHeaders(rewireHeader(h))
				})
			}
		}
		if hh+2 <= tip && hh+2 != c.Trust {
			add("p-hdr-good+bad", 0, true, func() error {
				hs := src.headers(hh+1, hh+2)
				hdrMut(hs[1], 2)
				hs[1] = rewireHeader(hs[1])
				return m.AddHeaders(hs...)
			})
		}
		if c.Mode == "mpt" {
			add("p-node-early", 0, true, func() error { return m.AddMPTNodes([][]byte{rootNode}) })
		}
		add("p-blk-early", 0, false, func() error { return m.AddBlock(src.block(c.P)) })
		ps = append(ps, r.initProbesEarly()...)
		ps = append(ps, r.itemsOffStage("early")...)
	case active && m.NeedStorageData() && c.Mode == "mpt":
		u := r.unknown()
		if len(u) == 0 {
			break
		}
		d := c.pick(u)
		inU := map[util.Uint256]bool{}
		for _, h := range u {
			inU[h] = true
		}
		add("p-hdr-late", 0, true, func() error { return m.AddHeaders(src.headers(tip, tip)...) })
		add("p-blk-early", 0, false, func() error { return m.AddBlock(src.block(c.P)) })
		if !inU[c.trie.Root] {
			add("p-node-dup", 0, false, func() error { return m.AddMPTNodes([][]byte{rootNode}) })
		}
		// last delivered node again
		for i := len(r.tr) - 1; i >= 0; i-- {
			if e := r.tr[i]; e.K == "node" && !e.P {
				if h := unhx(e.H); !inU[h] {
					add("p-node-dup", 1, false, func() error { return m.AddMPTNodes([][]byte{c.trie.Nodes[h]}) })
				}
				break
			}
		}
		// a valid node below an unknown one: not requested yet
		for _, h := range u {
			done := false
			for _, k := range c.trie.Kids[h] {
				if !inU[k] {
					add("p-node-unrequested", 0, false, func() error { return m.AddMPTNodes([][]byte{c.trie.Nodes[k]}) })
					done = true
					break
				}
			}
			if done {
				break
			}
		}
		for i, al := range src.alien[c.P] {
			add("p-node-other-trie", i, false, func() error { return m.AddMPTNodes([][]byte{al}) })
		}
		b := c.trie.Nodes[d]
		pos := []int{0, 1, len(b) / 2, len(b) - 1}
		if c.prof.AllBytes && len(b) <= 80 {
			pos = pos[:0]
			for i := range b {
				pos = append(pos, i)
			}
		}
		for _, p := range pos {
			cb := corrupt(b, p)
			if n, err := decodeNode(cb); err == nil && inU[n.Hash()] {
				continue // the changed bytes happen to be another requested node (e.g. leaf 020102 -> 020002 = empty value + trailing byte)
			}
			add("p-node-bad", p, false, func() error { return m.AddMPTNodes([][]byte{cb}) })
		}
		if n, err := decodeNode(b[:len(b)-1]); err != nil || !inU[n.Hash()] {
			add("p-node-truncated", 0, false, func() error { return m.AddMPTNodes([][]byte{b[:len(b)-1]}) })
		}
		add("p-node-garbage", 0, true, func() error { return m.AddMPTNodes([][]byte{{0xff, 0x01}}) })
		// ext_inline: every requested inner node with one child serialised in place of its hash (same node hash)
		if inlineOn {
			for i, h := range u {
				if ib := c.inlineBytes(h); ib != nil {
					add("p-node-inline", i, true, func() error { return m.AddMPTNodes([][]byte{ib}) })
				}
			}
		}
	case active && m.NeedStorageData() && c.Mode == "items":
		add("p-hdr-late", 0, true, func() error { return m.AddHeaders(src.headers(tip, tip)...) })
		add("p-blk-early", 0, false, func() error { return m.AddBlock(src.block(c.P)) })
		add("p-items-empty", 0, true, func() error { return m.AddContractStorageItems(nil) })
		if r.rootExpected() {
			add("p-items-root-bad", 0, true, func() error {
				rt := c.trie.Root
				rt[0] ^= 1
				return m.InitContractStorageSync(state.MPTRoot{Index: c.P, Root: rt})
			})
		}
		add("p-items-root-height-bad", 0, true, func() error {
			return m.InitContractStorageSync(state.MPTRoot{Index: c.P + 1, Root: c.trie.Root})
		})
		ps = append(ps, r.initProbes()...)
		if r.itemsOK && r.lastTo > r.lastFrom && r.itemPos() == r.lastTo && r.dirty == 0 {
			from, to := r.lastFrom, r.lastTo
			add("p-items-dup", 0, false, func() error { return m.AddContractStorageItems(c.items[from:to]) })
		}
	case active && m.NeedBlocks():
		mbh := m.BlockHeight()
		next := mbh + 1
		ps = append(ps, r.initProbesLate()...)
		ps = append(ps, r.itemsOffStage("late")...)
		add("p-hdr-late", 0, true, func() error { return m.AddHeaders(src.headers(tip, tip)...) })
		if c.Mode == "mpt" {
			add("p-node-late", 0, true, func() error { return m.AddMPTNodes([][]byte{rootNode}) })
		}
		if mbh >= 1 {
			add("p-blk-dup", 0, false, func() error { return m.AddBlock(src.block(mbh)) })
		}
		if next+1 <= tip {
			add("p-blk-ooo", 0, true, func() error { return m.AddBlock(src.block(next + 1)) })
		}
		if tip > next+1 {
			add("p-blk-far", 0, true, func() error { return m.AddBlock(src.block(tip)) })
		}
		for vnt := 0; vnt <= 2; vnt++ {
			add("p-blk-bad", vnt, true, func() error { return m.AddBlock(badBlock(src.block(next), vnt)) })
		}
	case !active:
		bh := bc.BlockHeight()
		ps = append(ps, r.initProbesDone()...)
		ps = append(ps, r.itemsOffStage("done")...)
		add("p-m-hdr", 0, true, func() error { return m.AddHeaders(src.headers(tip, tip)...) })
		if c.Mode == "mpt" {
			add("p-m-node", 0, true, func() error { return m.AddMPTNodes([][]byte{rootNode}) })
		}
		add("p-m-blk", 0, false, func() error { return m.AddBlock(src.block(min(bh+1, tip))) })
		if bh >= 1 {
			add("p-pblk-dup", 0, false, func() error { return bc.AddBlock(src.block(bh)) })
		}
		if bh+2 <= tip {
			add("p-pblk-ooo", 0, true, func() error { return bc.AddBlock(src.block(bh + 2)) })
		}
		if bh+1 <= tip {
			for vnt := 0; vnt <= 3; vnt++ {
				if vnt == 0 && bc.HeaderHeight() < bh+1 {
					continue // valid header, wrong body: AddBlock stores the (valid) header before it checks the body
				}
				if vnt == 3 && !src.fam.srih() {
					continue // no state root in the header: nothing to tamper with
				}
				add("p-pblk-bad", vnt, true, func() error { return bc.AddBlock(badBlock(src.block(bh+1), vnt)) })
			}
		}
	}
	ps = append(ps, r.moduleInitAgain())
	if c.Mode == "mpt" && active && m.NeedStorageData() {
		ps = append(ps, probeT{e: Ev{K: "p-unknown-batch-limits", P: true}, f: func() error { return nil }, post: r.batchLimits})
	}
	return ps
}

func badBlock(b *block.Block, variant int) *block.Block {
	switch variant {
	case 0: // body changed, header untouched
		if len(b.Transactions) > 0 {
			b.Transactions = b.Transactions[:len(b.Transactions)-1]
		} else {
			tx := transaction.New([]byte{0x11}, 1)
			tx.Signers = []transaction.Signer{{Account: util.Uint160{1}}}
			tx.Scripts = []transaction.Witness{{}}
			b.Transactions = []*transaction.Transaction{tx}
		}
	case 1:
		b.Timestamp++
	case 2:
		b.StateRootEnabled = !b.StateRootEnabled
	case 3:
		b.PrevStateRoot[5] ^= 1
	}
	return rewireBlock(b)
}

// probe runs one no-op delivery and checks that nothing observable changed.
func (r *runner) probe(p probeT, before string) *viol {
	r.tr = append(r.tr, p.e)
	err, pan := guard(p.f)
	if pan != nil {
		r.poisoned = true
		return &viol{Oracle: "panic", What: fmt.Sprintf("%s: panic: %v", p.e, pan)}
	}
	after, v := r.tokey()
	if v != nil {
		return v
	}
	res := "ignored"
	if err != nil {
		res = "error"
	}
	r.stats.probes.Inc()
	r.stats.outcome(p.e.K + "->" + res)
	if strings.HasPrefix(p.e.K, "p-init-") {
		r.stats.initProbes.Inc()
		if err != nil {
			r.stats.initRefused.Inc()
		}
	}
	if after != before {
		return &viol{Oracle: "bad-data-changed-state:" + p.e.K, What: fmt.Sprintf("%s returned %v and changed the state: %s -> %s", p.e, err, before, after)}
	}
	if p.needErr && err == nil {
		return &viol{Oracle: "bad-data-no-error:" + p.e.K, What: fmt.Sprintf("%s was accepted without an error", p.e)}
	}
	if p.mustOK && err != nil {
		return &viol{Oracle: "genuine-data-rejected:" + p.e.K, What: fmt.Sprintf("%s: %v", p.e, err)}
	}
	if p.post != nil {
		var pv *viol
		_, pan := guard(func() error { pv = p.post(); return nil })
		if pan != nil {
			r.poisoned = true
			return &viol{Oracle: "panic", What: fmt.Sprintf("after %s: panic: %v", p.e, pan)}
		}
		if pv != nil {
			return pv
		}
		if k2, kv := r.tokey(); kv != nil {
			return kv
		} else if k2 != before {
			return &viol{Oracle: "bad-data-changed-state:" + p.e.K, What: fmt.Sprintf("%s and the follow-up changed the state: %s -> %s", p.e, before, k2)}
		}
	}
	if err != nil {
		r.stats.rejected.Inc()
	}
	return nil
}
