package sync

import (
	"crypto/sha256"
	"encoding/hex"
	"encoding/json"
	"fmt"
	"sort"
	"strings"

	"github.com/nspcc-dev/neo-go/pkg/config"
	"github.com/nspcc-dev/neo-go/pkg/core/block"
	"github.com/nspcc-dev/neo-go/pkg/core/mpt"
	"github.com/nspcc-dev/neo-go/pkg/core/state"
	"github.com/nspcc-dev/neo-go/pkg/core/storage"
	"github.com/nspcc-dev/neo-go/pkg/core/transaction"
	"github.com/nspcc-dev/neo-go/pkg/crypto/keys"
	"github.com/nspcc-dev/neo-go/pkg/io"
	"github.com/nspcc-dev/neo-go/pkg/util"

	"verif/lib/chainx"
)

// famT is the protocol family of a source chain (all replicas, the syncing
// node included, share it).
type famT struct {
	Name  string `json:"name"`
	I     int    `json:"state_sync_interval"`
	MTB   uint32 `json:"max_traceable_blocks"`
	Multi bool   `json:"multi,omitempty"`
	Pad   int    `json:"pad,omitempty"`
	// NoSRIH: StateRootInHeader off. Only the storage-based (items) mode exists
	// then (P2PStateExchangeExtensions demand state roots in headers); the
	// syncing node has no header to check the root of the state source against.
	NoSRIH bool `json:"no_state_root_in_header,omitempty"`
}

func (f famT) srih() bool { return !f.NoSRIH }

func (f famT) family() chainx.Family {
	iv := f.I
	p2p := f.srih()
	return chainx.Family{Name: f.Name, Multi: f.Multi, SRIH: f.srih(), MTB: f.MTB, Extra: func(c *config.Blockchain) {
		c.P2PStateExchangeExtensions = p2p
		c.StateSyncInterval = iv
	}}
}

// trieT is the state trie of the source at one height, as a DAG of hashes.
type trieT struct {
	Root        util.Uint256
	Nodes       map[util.Uint256][]byte         // serialized nodes as a peer sends them
	Kids        map[util.Uint256][]util.Uint256 // distinct children
	Pre         map[util.Uint256]int            // first position in the pre-order traversal
	List        []util.Uint256                  // pre-order, distinct
	Sub         map[util.Uint256][]util.Uint256 // pre-order of the subtree (what a peer answers to a request of the hash)
	Multi       int                             // hashes reachable along more than one path
	MultiInner  int                             // ... of them branch/extension nodes
	MultiParent int                             // inner nodes that are children of two different parents
	Depth       map[util.Uint256]int            // distance from the root (shortest path)
}

func (t *trieT) closure(set []util.Uint256) int {
	seen := map[util.Uint256]bool{}
	var walk func(h util.Uint256)
	walk = func(h util.Uint256) {
		if seen[h] {
			return
		}
		seen[h] = true
		for _, k := range t.Kids[h] {
			walk(k)
		}
	}
	for _, h := range set {
		walk(h)
	}
	return len(seen)
}

// srcT is one source chain with everything a peer would serve from it.
type srcT struct {
	fam    famT
	cf     chainx.Family
	sc     *chainx.Scenario
	names  []string
	id     string
	tip    uint32
	blocks [][]byte            // i -> height i+1
	obs    []*chainx.Obs       // i -> height i+1 (full observation of the reference replica)
	lite   []map[string]string // height -> observation without execution results
	stor   []map[string]string // height -> full contract storage
	mptd   []string            // height -> digest/count of the key-value pairs enumerated through the state trie
	tries  map[uint32]*trieT   // per sync point
	items  map[uint32][]storage.KeyValue
	alien  map[uint32][][]byte // per sync point: valid nodes of the trie at another height, absent from this one
	maxID  int32
	hashes []util.Uint160
	roots  []util.Uint256 // height -> state root of the source (ext_init: foreign roots for InitContractStorageSync)
}

func pubs(p keys.PublicKeys) string {
	var s []string
	for _, k := range p {
		s = append(s, k.StringCompressed()[:10])
	}
	return strings.Join(s, ",")
}

func digestMap(m map[string]string) string {
	ks := make([]string, 0, len(m))
	for k := range m {
		ks = append(ks, k)
	}
	sort.Strings(ks)
	h := sha256.New()
	for _, k := range ks {
		h.Write([]byte(k))
		h.Write([]byte{0})
		h.Write([]byte(m[k]))
		h.Write([]byte{1})
	}
	return hex.EncodeToString(h.Sum(nil))[:24]
}

// mptDigest enumerates all key-value pairs reachable from the node's current
// local state root through the trie stored in its database.
func mptDigest(n *chainx.Node) (d string, err error) {
	err = chainx.Try(func() {
		sm := n.BC.GetStateModule()
		h := sha256.New()
		cnt := 0
		sm.SeekStates(sm.CurrentLocalStateRoot(), nil, func(k, v []byte) bool {
			h.Write([]byte{byte(len(k)), byte(len(v)), byte(len(v) >> 8)})
			h.Write(k)
			h.Write(v)
			cnt++
			return true
		})
		d = fmt.Sprintf("%x/%d", h.Sum(nil)[:10], cnt)
	})
	return
}

// liteObs is chainx.Observe without the execution results of the current
// block (a node that jumped to P has not executed block P).
func liteObs(n *chainx.Node, maxID int32, hashes []util.Uint160) (o map[string]string, stor map[string]string, err error) {
	err = chainx.Try(func() {
		bc := n.BC
		o = map[string]string{}
		h := bc.BlockHeight()
		o["height"] = fmt.Sprint(h)
		o["hash"] = bc.CurrentBlockHash().StringLE()
		sr, e := bc.GetStateRoot(h)
		if e != nil {
			panic(chainx.Failure{Msg: fmt.Sprintf("GetStateRoot(%d): %v", h, e)})
		}
		o["state_root"] = sr.Root.StringLE()
		o["local_root"] = bc.GetStateModule().CurrentLocalStateRoot().StringLE()
		stor = n.StorageDump(n.ContractIDs(maxID))
		o["storage"] = fmt.Sprintf("%s/%d", digestMap(stor), len(stor))
		com, e := bc.GetCommittee()
		if e != nil {
			panic(chainx.Failure{Msg: "GetCommittee: " + e.Error()})
		}
		o["committee"] = pubs(com)
		nv, e := bc.GetNextBlockValidators()
		if e != nil {
			panic(chainx.Failure{Msg: "GetNextBlockValidators: " + e.Error()})
		}
		o["next_validators"] = pubs(nv)
		o["computed_validators"] = pubs(bc.ComputeNextBlockValidators())
		o["policy"] = fmt.Sprintf("fpb=%d exec=%d stor=%d mtb=%d mvub=%d msper=%d", bc.FeePerByte(), bc.GetBaseExecFee(), bc.GetStoragePrice(), bc.GetMaxTraceableBlocks(), bc.GetMaxValidUntilBlockIncrement(), bc.GetMillisecondsPerBlock())
		var ns []string
		for _, c := range bc.GetNatives() {
			ns = append(ns, fmt.Sprintf("%d:%s:%d", c.ID, c.Hash.StringLE()[:8], c.UpdateCounter))
		}
		o["natives"] = strings.Join(ns, ",")
		var cs []string
		for _, hh := range hashes {
			c := bc.GetContractState(hh)
			if c == nil {
				cs = append(cs, "nil")
				continue
			}
			mb, _ := json.Marshal(c.Manifest)
			cs = append(cs, fmt.Sprintf("%d:%d:%x:%x", c.ID, c.UpdateCounter, sha256.Sum256(c.NEF.Script), sha256.Sum256(mb)))
		}
		o["contracts"] = strings.Join(cs, ",")
		en, e := bc.GetEnrollments()
		if e != nil {
			panic(chainx.Failure{Msg: "GetEnrollments: " + e.Error()})
		}
		var es []string
		for _, v := range en {
			es = append(es, fmt.Sprintf("%s=%s", v.Key.StringCompressed()[:10], v.Votes))
		}
		o["enrollments"] = strings.Join(es, ",")
		// ext_epoch: native getters through test invocations (served by the native caches)
		nr, e := nativeReads(n, hashes)
		if e != nil {
			panic(chainx.Failure{Msg: "native getters: " + e.Error()})
		}
		o["native_reads"] = nr
	})
	return
}

func diffLite(want, got map[string]string, wantStor, gotStor map[string]string) []string {
	var d []string
	ks := make([]string, 0, len(want))
	for k := range want {
		ks = append(ks, k)
	}
	sort.Strings(ks)
	for _, k := range ks {
		if want[k] != got[k] {
			a, b := want[k], got[k]
			if len(a) > 200 {
				a = a[:200] + "..."
			}
			if len(b) > 200 {
				b = b[:200] + "..."
			}
			d = append(d, fmt.Sprintf("%s: source %s != synced %s", k, a, b))
		}
	}
	if want["storage"] != got["storage"] && wantStor != nil && gotStor != nil {
		n := 0
		for k, v := range wantStor {
			if w, ok := gotStor[k]; !ok || w != v {
				if n < 6 {
					if !ok {
						w = "<absent>"
					}
					d = append(d, fmt.Sprintf("  storage[%s]: source %s != synced %s", k, v, w))
				}
				n++
			}
		}
		for k, w := range gotStor {
			if _, ok := wantStor[k]; !ok {
				if n < 6 {
					d = append(d, fmt.Sprintf("  storage[%s]: source <absent> != synced %s", k, w))
				}
				n++
			}
		}
	}
	return d
}

func decodeNode(b []byte) (mpt.Node, error) {
	var n mpt.NodeObject
	r := io.NewBinReaderFromBuf(b)
	n.DecodeBinary(r)
	if r.Err != nil {
		return nil, r.Err
	}
	return n.Node, nil
}

// extraTpls are block templates of this check: they make the storage of two
// deployed contracts identical ({a: 1} in UB and in UC), so that an inner trie
// node (not only a leaf) is reachable along two paths.
func extraTpls() []chainx.Tpl {
	return []chainx.Tpl{
		{Name: "uc-a1", Build: func(w *chainx.World) ([]*transaction.Transaction, error) {
			tx, err := w.URun(2, w.UC, []any{[]any{chainx.OpPut, []byte("a"), []byte("1")}})
			if err != nil {
				return nil, err
			}
			return []*transaction.Transaction{tx}, nil
		}},
		{Name: "ub-a1", Build: func(w *chainx.World) ([]*transaction.Transaction, error) {
			tx, err := w.URun(1, w.UB, []any{[]any{chainx.OpPut, []byte("a"), []byte("1")}})
			if err != nil {
				return nil, err
			}
			return []*transaction.Transaction{tx}, nil
		}},
		{Name: "ua-shared-inner", Build: func(w *chainx.World) ([]*transaction.Transaction, error) {
			// 0x111ABC and 0x211ABC carry the same value: the extension+leaf below
			// nibble 1 of the two (different) branches 0x11.. and 0x21.. is one node
			tx, err := w.URun(2, w.UA, []any{
				[]any{chainx.OpPut, []byte{0x11, 0x1A, 0xBC}, []byte("7")}, []any{chainx.OpPut, []byte{0x11, 0x20, 0x00}, []byte("8")},
				[]any{chainx.OpPut, []byte{0x21, 0x1A, 0xBC}, []byte("7")}, []any{chainx.OpPut, []byte{0x21, 0x30, 0x00}, []byte("9")},
			})
			if err != nil {
				return nil, err
			}
			return []*transaction.Transaction{tx}, nil
		}},
		{Name: "ua-unshare", Build: func(w *chainx.World) ([]*transaction.Transaction, error) {
			tx, err := w.URun(3, w.UA, []any{
				[]any{chainx.OpDel, []byte{0x11, 0x1A, 0xBC}}, []any{chainx.OpPut, []byte{0x21, 0x30, 0x00}, []byte("7")},
			})
			if err != nil {
				return nil, err
			}
			return []*transaction.Transaction{tx}, nil
		}},
		{Name: "uc-a2", Build: func(w *chainx.World) ([]*transaction.Transaction, error) {
			tx, err := w.URun(2, w.UC, []any{[]any{chainx.OpPut, []byte("a"), []byte("2")}})
			if err != nil {
				return nil, err
			}
			return []*transaction.Transaction{tx}, nil
		}},
	}
}

func tplByName(names ...string) []chainx.Tpl {
	var out []chainx.Tpl
	for _, n := range names {
		found := false
		for _, t := range extraTpls() {
			if t.Name == n {
				out = append(out, t)
				found = true
			}
		}
		if !found {
			for _, t := range chainx.Templates() {
				if t.Name == n {
					out = append(out, t)
					found = true
				}
			}
		}
		if !found {
			// ext_epoch: parametric and composite (a+b) block templates
			if t, ok := resolveTpl(n); ok {
				out = append(out, t)
				found = true
			}
		}
		if !found {
			panic("no template " + n)
		}
	}
	return out
}

// buildSource builds the chain (preamble + the named templates), replays it on
// a second reference replica to record the observation at every height, and
// extracts the state tries / storage item lists of the given sync points.
func buildSource(f famT, names []string, points []uint32) (*srcT, error) {
	s := &srcT{fam: f, cf: f.family(), names: names, id: f.Name + ":" + histAlias(names), tries: map[uint32]*trieT{}, items: map[uint32][]storage.KeyValue{}, alien: map[uint32][][]byte{}}
	var uniq []string
	idx := map[string]int{}
	for _, n := range names {
		if _, ok := idx[n]; !ok {
			idx[n] = len(uniq)
			uniq = append(uniq, n)
		}
	}
	sc, err := chainx.NewScenario(s.cf, f.Pad, tplByName(uniq...))
	if err != nil {
		return nil, fmt.Errorf("preamble: %w", err)
	}
	s.sc = sc
	if epochDebug {
		sc.OnTx = func(tpl, st string) { fmt.Printf("epoch-debug: %s: tx of %s -> %s\n", f.Name, tpl, st) }
	}
	h := make([]int, len(names))
	for i, n := range names {
		h[i] = idx[n]
		if err := sc.Grow(h[:i+1]); err != nil {
			return nil, fmt.Errorf("history %v: %w", names[:i+1], err)
		}
	}
	s.blocks, s.obs = sc.Blocks(h)
	s.tip = uint32(len(s.blocks))
	s.maxID = sc.World.MaxID
	s.hashes = sc.World.Hashes()
	// the serving replica
	src, err := chainx.New(s.cf.Opts())
	if err != nil {
		return nil, err
	}
	defer src.Close()
	lo, st, err := liteObs(src, s.maxID, s.hashes)
	if err != nil {
		return nil, err
	}
	s.lite = append(s.lite, lo)
	s.stor = append(s.stor, st)
	md, err := mptDigest(src)
	if err != nil {
		return nil, err
	}
	s.mptd = append(s.mptd, md)
	for i, bb := range s.blocks {
		if err := src.AddBytes(bb); err != nil {
			return nil, fmt.Errorf("source replay %d: %w", i+1, err)
		}
		lo, st, err := liteObs(src, s.maxID, s.hashes)
		if err != nil {
			return nil, err
		}
		if lo["state_root"] != s.obs[i].StateRoot {
			return nil, fmt.Errorf("source replicas disagree at %d", i+1)
		}
		s.lite = append(s.lite, lo)
		s.stor = append(s.stor, st)
		md, err := mptDigest(src)
		if err != nil {
			return nil, err
		}
		s.mptd = append(s.mptd, md)
	}
	if epochDebug {
		for hh := 1; hh <= int(s.tip); hh++ {
			fmt.Printf("epoch-debug: %s h=%d committee=%s validators=%s\n", f.Name, hh, s.lite[hh]["committee"], s.lite[hh]["next_validators"])
		}
		if s.tip >= 11 {
			fmt.Printf("epoch-debug: aers at 11: %s\n", s.obs[10].AERs)
		}
		fmt.Printf("epoch-debug: reads at tip: %s\n", s.lite[s.tip]["native_reads"])
	}
	mod := src.BC.GetStateSyncModule()
	// rootAt: the state root a peer / state source announces for height p (with
	// state roots in headers it is what header p+1 commits to)
	rootAt := func(p uint32) (util.Uint256, error) {
		if f.NoSRIH {
			sr, err := src.BC.GetStateRoot(p)
			if err != nil {
				return util.Uint256{}, err
			}
			return sr.Root, nil
		}
		hdr, err := src.BC.GetHeader(src.BC.GetHeaderHash(p + 1))
		if err != nil {
			return util.Uint256{}, err
		}
		return hdr.PrevStateRoot, nil
	}
	s.roots = make([]util.Uint256, s.tip+1)
	for p := uint32(0); p <= s.tip; p++ {
		sr, err := src.BC.GetStateRoot(p)
		if err != nil {
			return nil, err
		}
		s.roots[p] = sr.Root
	}
	all := map[uint32]map[util.Uint256][]byte{}
	for p := uint32(1); p < s.tip; p++ {
		rt, err := rootAt(p)
		if err != nil {
			return nil, err
		}
		m := map[util.Uint256][]byte{}
		if err := mod.Traverse(rt, func(n mpt.Node, b []byte) bool { m[n.Hash()] = b; return false }); err != nil {
			return nil, err
		}
		all[p] = m
	}
	for _, p := range points {
		rt, err := rootAt(p)
		if err != nil {
			return nil, err
		}
		t := &trieT{Root: rt, Nodes: map[util.Uint256][]byte{}, Kids: map[util.Uint256][]util.Uint256{}, Pre: map[util.Uint256]int{}, Sub: map[util.Uint256][]util.Uint256{}}
		seenTwice := map[util.Uint256]int{}
		err = mod.Traverse(t.Root, func(n mpt.Node, b []byte) bool {
			hh := n.Hash()
			seenTwice[hh]++
			if _, ok := t.Pre[hh]; ok {
				return false
			}
			t.Pre[hh] = len(t.List)
			t.List = append(t.List, hh)
			t.Nodes[hh] = b
			return false
		})
		if err != nil {
			return nil, err
		}
		for hh, c := range seenTwice {
			if c > 1 {
				t.Multi++
				if n, err := decodeNode(t.Nodes[hh]); err == nil && len(mpt.GetChildrenPaths(nil, n)) > 0 {
					t.MultiInner++
				}
			}
		}
		for hh, b := range t.Nodes {
			n, err := decodeNode(b)
			if err != nil {
				return nil, err
			}
			var ks []util.Uint256
			for k := range mpt.GetChildrenPaths(nil, n) {
				ks = append(ks, k)
			}
			sort.Slice(ks, func(i, j int) bool { return t.Pre[ks[i]] < t.Pre[ks[j]] })
			t.Kids[hh] = ks
		}
		// depth (breadth-first) and inner nodes with several distinct parents
		t.Depth = map[util.Uint256]int{t.Root: 0}
		for q := []util.Uint256{t.Root}; len(q) > 0; q = q[1:] {
			for _, k := range t.Kids[q[0]] {
				if _, ok := t.Depth[k]; !ok {
					t.Depth[k] = t.Depth[q[0]] + 1
					q = append(q, k)
				}
			}
		}
		npar := map[util.Uint256]int{}
		for _, ks := range t.Kids {
			for _, k := range ks {
				npar[k]++
			}
		}
		for hh, c := range npar {
			if c > 1 && len(t.Kids[hh]) > 0 {
				t.MultiParent++
			}
		}
		for hh := range t.Nodes {
			if len(t.Kids[hh]) == 0 {
				continue
			}
			seen := map[util.Uint256]bool{}
			var l []util.Uint256
			if err := mod.Traverse(hh, func(n mpt.Node, _ []byte) bool {
				if !seen[n.Hash()] {
					seen[n.Hash()] = true
					l = append(l, n.Hash())
				}
				return false
			}); err != nil {
				return nil, err
			}
			t.Sub[hh] = l
		}
		s.tries[p] = t
		// nodes of other heights that are not part of this trie
		var al [][]byte
		for q := uint32(1); q < s.tip && len(al) < 3; q++ {
			if q == p {
				continue
			}
			var hs []util.Uint256
			for hh := range all[q] {
				if _, ok := t.Nodes[hh]; !ok {
					hs = append(hs, hh)
				}
			}
			sort.Slice(hs, func(i, j int) bool { return hs[i].Compare(hs[j]) < 0 })
			if len(hs) > 0 {
				al = append(al, all[q][hs[0]])
			}
		}
		s.alien[p] = al
		// raw storage items in key order
		var kvs []storage.KeyValue
		src.BC.GetStateModule().SeekStates(t.Root, nil, func(k, v []byte) bool {
			kvs = append(kvs, storage.KeyValue{Key: append([]byte{}, k...), Value: append([]byte{}, v...)})
			return true
		})
		s.items[p] = kvs
	}
	return s, nil
}

func (s *srcT) block(h uint32) *block.Block {
	b, err := chainx.DecodeBlock(s.blocks[h-1], s.fam.srih())
	if err != nil {
		panic(err)
	}
	return b
}

func (s *srcT) headers(from, to uint32) []*block.Header {
	var out []*block.Header
	for i := from; i <= to; i++ {
		out = append(out, &s.block(i).Header)
	}
	return out
}

// canonical rendering of a database value whose encoding is not a function of
// its content (token transfer info serialises a Go map in iteration order).
func canonVal(k, v []byte) []byte {
	if len(k) > 0 && k[0] == byte(storage.STTokenTransferInfo) {
		ti := state.NewTokenTransferInfo()
		r := io.NewBinReaderFromBuf(v)
		ti.DecodeBinary(r)
		if r.Err == nil {
			return []byte(fmt.Sprintf("%+v", *ti))
		}
	}
	return v
}

func digestStore(s storage.Store) string {
	h := sha256.New()
	var l [8]byte
	for p := 0; p < 256; p++ {
		s.Seek(storage.SeekRange{Prefix: []byte{byte(p)}}, func(k, v []byte) bool {
			v = canonVal(k, v)
			l[0], l[1], l[2], l[3] = byte(len(k)), byte(len(k)>>8), byte(len(v)), byte(len(v)>>8)
			l[4] = byte(len(v) >> 16)
			h.Write(l[:5])
			h.Write(k)
			h.Write(v)
			return true
		})
	}
	return hex.EncodeToString(h.Sum(nil))[:20]
}
