// Package c18ms holds what the gated (schedule-exhaustive) and the free-running
// (-race) multisig parts of C18 share: configurations, the sequential
// definition used as the oracle, and signature fixtures.
package c18ms

import (
	"crypto/elliptic"
	"crypto/sha256"
	"fmt"
	"math/big"
	"strconv"
	"strings"

	"github.com/nspcc-dev/neo-go/pkg/crypto/keys"
)

// Signature kinds below zero; values >= 0 mean "valid for key identity t".
const (
	SigWrong     = -1 // well-formed signature of an outsider key: a full verification that fails
	SigMalformed = -2 // 63 bytes: PublicKey.Verify rejects it without touching the curve
	SigZeroR     = -3 // 64 bytes with r = 0: crypto/ecdsa rejects it before any curve operation
)

// MaxIDs is the number of distinct key identities the fixtures provide.
const MaxIDs = 6

// MaxN is the largest number of keys/signature positions.
const MaxN = 6

// Config is one m-of-n call: Keys[i] is the identity of the key at position i
// (a restricted growth string, so every repetition pattern appears once),
// Sigs[j] says for which identity signature j is valid (or a kind < 0).
type Config struct {
	Keys []int `json:"keys"`
	Sigs []int `json:"sigs"`
	// SameBytes: signatures with the same meaning are the same byte string
	// (used by the free-running part only; the gated part needs them distinct).
	SameBytes bool `json:"same_bytes,omitempty"`
}

func (c Config) String() string {
	var k, s []string
	for _, x := range c.Keys {
		k = append(k, strconv.Itoa(x))
	}
	for _, x := range c.Sigs {
		s = append(s, SigName(x))
	}
	sb := ""
	if c.SameBytes {
		sb = ":samebytes"
	}
	return fmt.Sprintf("n%dm%d:keys=%s:sigs=%s%s", len(c.Keys), len(c.Sigs), strings.Join(k, ","), strings.Join(s, ","), sb)
}

func SigName(x int) string {
	switch x {
	case SigWrong:
		return "W"
	case SigMalformed:
		return "M"
	case SigZeroR:
		return "Z"
	}
	return strconv.Itoa(x)
}

// SeqDef is the sequential definition of the multi-signature check: scan the
// keys in order, every signature must be valid for a key strictly after the
// key the previous signature was matched to; all matched -> true.
func SeqDef(c Config) bool {
	i := 0
	for _, s := range c.Sigs {
		for i < len(c.Keys) && !(s >= 0 && c.Keys[i] == s) {
			i++
		}
		if i == len(c.Keys) {
			return false
		}
		i++
	}
	return true
}

// ExistsMatching decides the same question by brute force (is there a strictly
// increasing assignment of signatures to keys they are valid for); it guards
// the oracle itself.
func ExistsMatching(c Config) bool {
	var rec func(j, from int) bool
	rec = func(j, from int) bool {
		if j == len(c.Sigs) {
			return true
		}
		for i := from; i < len(c.Keys); i++ {
			if c.Sigs[j] >= 0 && c.Keys[i] == c.Sigs[j] && rec(j+1, i+1) {
				return true
			}
		}
		return false
	}
	return rec(0, 0)
}

// KeyPatterns returns all restricted growth strings of length n.
func KeyPatterns(n int) [][]int {
	var out [][]int
	cur := make([]int, n)
	var rec func(i, max int)
	rec = func(i, max int) {
		if i == n {
			out = append(out, append([]int{}, cur...))
			return
		}
		for v := 0; v <= max+1 && v < MaxIDs; v++ {
			cur[i] = v
			nm := max
			if v > max {
				nm = v
			}
			rec(i+1, nm)
		}
	}
	rec(0, -1)
	return out
}

// SigAlphabet returns the values a signature position may take for a key list
// with ids distinct identities: every identity, then the failing kinds.
func SigAlphabet(ids int, kinds []int) []int {
	var a []int
	for t := 0; t < ids; t++ {
		a = append(a, t)
	}
	return append(a, kinds...)
}

func NumIDs(keys []int) int {
	m := -1
	for _, k := range keys {
		if k > m {
			m = k
		}
	}
	return m + 1
}

// ForEachSigs enumerates alphabet^m in lexicographic order.
func ForEachSigs(alpha []int, m int, f func(sigs []int) bool) {
	idx := make([]int, m)
	sigs := make([]int, m)
	for {
		for i, k := range idx {
			sigs[i] = alpha[k]
		}
		if !f(sigs) {
			return
		}
		i := m - 1
		for i >= 0 {
			idx[i]++
			if idx[i] < len(alpha) {
				break
			}
			idx[i] = 0
			i--
		}
		if i < 0 {
			return
		}
	}
}

// Fixtures: keys and pairwise distinct signatures over one message hash.
type Fixtures struct {
	Hash     []byte
	Priv     []*big.Int           // MaxIDs identities + 1 outsider (last)
	KeyBytes [][]byte             // compressed encodings of the identities
	KeyX     map[string]int       // X coordinate bytes -> identity
	Valid    [MaxN][MaxIDs][]byte // Valid[j][t]: signature for position j valid for identity t
	Wrong    [MaxN][]byte
	Malf     [MaxN][]byte
	ZeroR    [MaxN][]byte
	U2       map[string]string // u2 scalar (as passed to ScalarMult) -> "s<j>"
}

var p256 = elliptic.P256()

// SignWithNonce is textbook ECDSA on P-256 with a caller-chosen nonce, so that
// as many distinct valid signatures of one (key, message) as needed exist.
func SignWithNonce(d *big.Int, e []byte, k *big.Int) []byte {
	N := p256.Params().N
	x, _ := p256.ScalarBaseMult(k.FillBytes(make([]byte, 32)))
	r := new(big.Int).Mod(x, N)
	s := new(big.Int).Mul(r, d)
	s.Add(s, new(big.Int).SetBytes(e))
	s.Mul(s, new(big.Int).ModInverse(k, N))
	s.Mod(s, N)
	if r.Sign() == 0 || s.Sign() == 0 {
		panic("degenerate nonce")
	}
	out := make([]byte, 64)
	r.FillBytes(out[:32])
	s.FillBytes(out[32:])
	return out
}

func scalar(tag string, a, b int) *big.Int {
	h := sha256.Sum256([]byte(fmt.Sprintf("c18/%s/%d/%d", tag, a, b)))
	N := p256.Params().N
	v := new(big.Int).SetBytes(h[:])
	v.Mod(v, new(big.Int).Sub(N, big.NewInt(1)))
	return v.Add(v, big.NewInt(1))
}

// NewFixtures derives everything deterministically from the family number
// (every worker of the gated part has its own family, so that the package-level
// public key cache of pkg/crypto/keys never mixes curves).
func NewFixtures(family int) *Fixtures {
	f := &Fixtures{KeyX: map[string]int{}, U2: map[string]string{}}
	h := sha256.Sum256([]byte("c18 multisig message"))
	f.Hash = h[:]
	N := p256.Params().N
	for t := 0; t <= MaxIDs; t++ {
		d := scalar("key", family, t)
		f.Priv = append(f.Priv, d)
		if t < MaxIDs {
			priv, err := keys.NewPrivateKeyFromBytes(d.FillBytes(make([]byte, 32)))
			if err != nil {
				panic(err)
			}
			pub := priv.PublicKey()
			f.KeyBytes = append(f.KeyBytes, pub.Bytes())
			f.KeyX[string(pub.X.Bytes())] = t
		}
	}
	reg := func(sig []byte, j int) {
		r := new(big.Int).SetBytes(sig[:32])
		s := new(big.Int).SetBytes(sig[32:])
		u2 := new(big.Int).ModInverse(s, N)
		u2.Mul(u2, r).Mod(u2, N)
		key := string(u2.Bytes())
		if _, dup := f.U2[key]; dup {
			panic("fixture signatures collide")
		}
		f.U2[key] = "s" + strconv.Itoa(j)
	}
	for j := 0; j < MaxN; j++ {
		for t := 0; t < MaxIDs; t++ {
			f.Valid[j][t] = SignWithNonce(f.Priv[t], f.Hash, scalar("nonce", family, j*16+t))
			reg(f.Valid[j][t], j)
		}
		f.Wrong[j] = SignWithNonce(f.Priv[MaxIDs], f.Hash, scalar("nonce", family, j*16+15))
		reg(f.Wrong[j], j)
		f.Malf[j] = append([]byte{}, f.Valid[j][0][:63]...)
		f.ZeroR[j] = append(make([]byte, 32), f.Valid[j][0][32:]...)
	}
	return f
}

// Build returns the byte arguments of the call for a configuration.
func (f *Fixtures) Build(c Config) (pkeys, sigs [][]byte) {
	for _, k := range c.Keys {
		pkeys = append(pkeys, f.KeyBytes[k])
	}
	for j, s := range c.Sigs {
		if c.SameBytes {
			j = 0
		}
		switch s {
		case SigWrong:
			sigs = append(sigs, f.Wrong[j])
		case SigMalformed:
			sigs = append(sigs, f.Malf[j])
		case SigZeroR:
			sigs = append(sigs, f.ZeroR[j])
		default:
			sigs = append(sigs, f.Valid[j][s])
		}
	}
	return
}

// SelfCheck validates the fixture truth table against the real, ungated
// verification on elliptic.P256(): Valid[j][t] verifies under key t only,
// the failing kinds under no key.
func (f *Fixtures) SelfCheck() error {
	for t := 0; t < MaxIDs; t++ {
		pk, err := keys.NewPublicKeyFromBytes(f.KeyBytes[t], elliptic.P256())
		if err != nil {
			return err
		}
		for j := 0; j < MaxN; j++ {
			for t2 := 0; t2 < MaxIDs; t2++ {
				if got := pk.Verify(f.Valid[j][t2], f.Hash); got != (t == t2) {
					return fmt.Errorf("fixture Valid[%d][%d] under key %d: %v", j, t2, t, got)
				}
			}
			for name, s := range map[string][]byte{"W": f.Wrong[j], "M": f.Malf[j], "Z": f.ZeroR[j]} {
				if pk.Verify(s, f.Hash) {
					return fmt.Errorf("fixture %s[%d] verifies under key %d", name, j, t)
				}
			}
		}
	}
	return nil
}
