// Package chainx is Engine L: real core.Blockchain replicas under harness
// control (no persist timer: flushes happen only when the harness calls
// Persist), a recording store, deterministic accounts, a block builder that
// follows the validator set, transaction templates and observers.
package chainx

import (
	"bytes"
	"crypto/sha256"
	"encoding/hex"
	"encoding/json"
	"errors"
	"fmt"
	"os"
	"sort"
	"strings"
	"sync"
	"testing"

	"github.com/nspcc-dev/neo-go/pkg/config"
	"github.com/nspcc-dev/neo-go/pkg/config/netmode"
	"github.com/nspcc-dev/neo-go/pkg/core"
	"github.com/nspcc-dev/neo-go/pkg/core/block"
	"github.com/nspcc-dev/neo-go/pkg/core/native/noderoles"
	"github.com/nspcc-dev/neo-go/pkg/core/state"
	"github.com/nspcc-dev/neo-go/pkg/core/storage"
	"github.com/nspcc-dev/neo-go/pkg/core/transaction"
	"github.com/nspcc-dev/neo-go/pkg/crypto/hash"
	"github.com/nspcc-dev/neo-go/pkg/crypto/keys"
	"github.com/nspcc-dev/neo-go/pkg/neotest"
	"github.com/nspcc-dev/neo-go/pkg/neotest/chain"
	"github.com/nspcc-dev/neo-go/pkg/smartcontract"
	"github.com/nspcc-dev/neo-go/pkg/smartcontract/trigger"
	"github.com/nspcc-dev/neo-go/pkg/util"
	"github.com/nspcc-dev/neo-go/pkg/vm/emit"
	"github.com/nspcc-dev/neo-go/pkg/vm/opcode"
	"github.com/nspcc-dev/neo-go/pkg/wallet"
	"go.uber.org/zap"
)

// ---- fake testing.TB -----------------------------------------------------------

// Failure is what a TB panics with when the code under it calls FailNow.
type Failure struct{ Msg string }

func (f Failure) Error() string { return f.Msg }

// TB implements testing.TB for neotest helpers outside the test goroutine:
// failures become panics of type Failure that the caller recovers.
type TB struct {
	testing.TB
	mu       sync.Mutex
	msg      string
	cleanups []func()
}

func (t *TB) Helper()                   {}
func (t *TB) Name() string              { return "chainx" }
func (t *TB) Log(a ...any)              {}
func (t *TB) Logf(f string, a ...any)   {}
func (t *TB) Error(a ...any)            { t.msg = fmt.Sprint(a...) }
func (t *TB) Errorf(f string, a ...any) { t.msg = fmt.Sprintf(f, a...) }
func (t *TB) Fatal(a ...any)            { t.msg = fmt.Sprint(a...); t.FailNow() }
func (t *TB) Fatalf(f string, a ...any) { t.msg = fmt.Sprintf(f, a...); t.FailNow() }
func (t *TB) Fail()                     {}
func (t *TB) Failed() bool              { return t.msg != "" }
func (t *TB) FailNow()                  { panic(Failure{t.msg}) }
func (t *TB) Cleanup(f func())          { t.mu.Lock(); t.cleanups = append(t.cleanups, f); t.mu.Unlock() }
func (t *TB) Setenv(k, v string)        { os.Setenv(k, v) }
func (t *TB) Skip(a ...any)             { panic(Failure{"skip"}) }
func (t *TB) TempDir() string           { panic("TempDir not supported") }
func (t *TB) runCleanups() {
	t.mu.Lock()
	c := t.cleanups
	t.cleanups = nil
	t.mu.Unlock()
	for i := len(c) - 1; i >= 0; i-- {
		c[i]()
	}
}

// Try runs f and converts a Failure panic (and any other panic) into an error.
func Try(f func()) (err error) {
	defer func() {
		if r := recover(); r != nil {
			if fl, ok := r.(Failure); ok {
				err = fl
				return
			}
			err = fmt.Errorf("panic: %v", r)
		}
	}()
	f()
	return nil
}

// ---- deterministic accounts ----------------------------------------------------

var (
	accMu sync.Mutex
	accs  = map[int]*wallet.Account{}
)

// Acc returns the i-th deterministic single-signature account.
func Acc(i int) *wallet.Account {
	accMu.Lock()
	defer accMu.Unlock()
	if a, ok := accs[i]; ok {
		return a
	}
	seed := sha256.Sum256([]byte(fmt.Sprintf("verif-account-%d", i)))
	pk, err := keys.NewPrivateKeyFromBytes(seed[:])
	if err != nil {
		panic(err)
	}
	a := wallet.NewAccountFromPrivateKey(pk)
	accs[i] = a
	return a
}

// Signer returns Acc(i) as a neotest signer.
func Signer(i int) neotest.SingleSigner { return neotest.NewSingleSigner(Acc(i)) }

// ---- recording store -----------------------------------------------------------

// Batch is one atomic write the node issued to its database.
type Batch struct {
	Kind string            // "put" | "gc"
	Put  map[string][]byte // key -> value (nil value = delete)
}

// RecStore wraps a Store, logs every atomic batch and survives Close so that
// a node can be reopened on it.
type RecStore struct {
	Inner   storage.Store
	mu      sync.Mutex
	Log     []Batch
	NoLog   bool
	OnBatch func(i int) // called after batch i was applied (under no lock)
	// BeforePut / BeforeGC may block: they let a harness order concurrent
	// writers (Blockchain.Reset's background persister vs its direct SeekGC).
	BeforePut func(b Batch)
	BeforeGC  func(prefix []byte)
	AfterGC   func(prefix []byte)
}

func NewRecStore(inner storage.Store) *RecStore { return &RecStore{Inner: inner} }

func (s *RecStore) Get(k []byte) ([]byte, error)                       { return s.Inner.Get(k) }
func (s *RecStore) Seek(r storage.SeekRange, f func(k, v []byte) bool) { s.Inner.Seek(r, f) }
func (s *RecStore) Close() error                                       { return nil }

// RealClose closes the wrapped store.
func (s *RecStore) RealClose() error { return s.Inner.Close() }

func (s *RecStore) PutChangeSet(puts map[string][]byte, stor map[string][]byte) error {
	if !s.NoLog {
		b := Batch{Kind: "put", Put: make(map[string][]byte, len(puts)+len(stor))}
		for k, v := range puts {
			b.Put[k] = cloneB(v)
		}
		for k, v := range stor {
			b.Put[k] = cloneB(v)
		}
		if s.BeforePut != nil {
			s.BeforePut(b)
		}
		s.mu.Lock()
		s.Log = append(s.Log, b)
		n := len(s.Log)
		s.mu.Unlock()
		defer s.after(n - 1)
	}
	return s.Inner.PutChangeSet(puts, stor)
}

func (s *RecStore) SeekGC(r storage.SeekRange, keep func(k, v []byte) (bool, bool)) error {
	b := Batch{Kind: "gc", Put: map[string][]byte{}}
	if s.BeforeGC != nil {
		s.BeforeGC(r.Prefix)
	}
	if s.AfterGC != nil {
		defer s.AfterGC(r.Prefix)
	}
	err := s.Inner.SeekGC(r, func(k, v []byte) (bool, bool) {
		kp, cont := keep(k, v)
		if !kp {
			b.Put[string(k)] = nil
		}
		return kp, cont
	})
	if !s.NoLog && len(b.Put) > 0 {
		s.mu.Lock()
		s.Log = append(s.Log, b)
		n := len(s.Log)
		s.mu.Unlock()
		defer s.after(n - 1)
	}
	return err
}

func (s *RecStore) after(i int) {
	if s.OnBatch != nil {
		s.OnBatch(i)
	}
}

func cloneB(b []byte) []byte {
	if b == nil {
		return nil
	}
	return append([]byte{}, b...)
}

// Batches returns a copy of the log slice header (entries are immutable).
func (s *RecStore) Batches() []Batch {
	s.mu.Lock()
	defer s.mu.Unlock()
	return append([]Batch{}, s.Log...)
}

// ApplyBatches builds a MemoryStore holding batches[:n].
func ApplyBatches(batches []Batch, n int) *storage.MemoryStore {
	m := storage.NewMemoryStore()
	for _, b := range batches[:n] {
		puts := map[string][]byte{}
		stor := map[string][]byte{}
		for k, v := range b.Put {
			// Values are cloned: in refcounting trie modes the node patches
			// counts inside slices returned by Store.Get, which would otherwise
			// write through into the recorded log.
			if len(k) > 0 && (k[0] == byte(storage.STStorage) || k[0] == byte(storage.STTempStorage)) {
				stor[k] = cloneB(v)
			} else {
				puts[k] = cloneB(v)
			}
		}
		_ = m.PutChangeSet(puts, stor)
	}
	return m
}

// Dump returns the raw content of a store as sorted "hexkey=hexvalue" lines.
func Dump(s storage.Store) []string {
	var out []string
	for p := 0; p < 256; p++ {
		s.Seek(storage.SeekRange{Prefix: []byte{byte(p)}}, func(k, v []byte) bool {
			out = append(out, hex.EncodeToString(k)+"="+hex.EncodeToString(v))
			return true
		})
	}
	sort.Strings(out)
	return out
}

// DumpMap returns the raw content as a map.
func DumpMap(s storage.Store) map[string]string {
	out := map[string]string{}
	for p := 0; p < 256; p++ {
		s.Seek(storage.SeekRange{Prefix: []byte{byte(p)}}, func(k, v []byte) bool {
			out[string(k)] = string(v)
			return true
		})
	}
	return out
}

// ---- node ----------------------------------------------------------------------

// Opts selects the protocol family and node-local options of a replica.
type Opts struct {
	Multi bool // 4 validators / 6 committee members (epoch 6) instead of 1/1
	SRIH  bool // StateRootInHeader (changes the block format: a separate family)
	Store storage.Store
	Cfg   func(*config.Blockchain) // node-local options
	Proto func(*config.Blockchain) // protocol options (must be the same on all replicas of a family)
	NoRun bool                     // do not start the dispatcher (needed for Blockchain.Reset); such a node is never Closed
}

// Node is one replica.
type Node struct {
	BC        *core.Blockchain
	Validator neotest.Signer
	Committee neotest.Signer
	E         *neotest.Executor
	Opts      Opts
	Store     storage.Store
	TB        *TB
	nonce     uint32
	done      chan struct{}
}

var keyReg sync.Map // compressed pubkey hex -> *keys.PrivateKey

func regKey(a *wallet.Account) {
	keyReg.Store(a.PublicKey().StringCompressed(), a.PrivateKey())
}

// RegisterKey makes a private key available to the block builder (for
// candidates that may become validators).
func RegisterKey(a *wallet.Account) { regKey(a) }

// New creates and starts a replica (dispatcher only, no persist timer).
func New(o Opts) (n *Node, err error) {
	tb := &TB{}
	n = &Node{Opts: o, TB: tb, nonce: 1}
	st := o.Store
	if st == nil {
		st = NewRecStore(storage.NewMemoryStore())
	}
	n.Store = st
	cfgHook := func(c *config.Blockchain) {
		c.StateRootInHeader = o.SRIH
		c.P2PSigExtensions = true
		if o.Proto != nil {
			o.Proto(c)
		}
		if o.Cfg != nil {
			o.Cfg(c)
		}
	}
	copts := &chain.Options{BlockchainConfigHook: cfgHook, Store: st, SkipRun: true, Logger: zap.NewNop()}
	err = Try(func() {
		if o.Multi {
			var e error
			n.BC, n.Validator, n.Committee, e = chain.NewMultiWithOptionsNoCheck(tb, copts)
			if e != nil {
				panic(Failure{e.Error()})
			}
		} else {
			n.BC, n.Validator = chain.NewSingleWithOptions(tb, copts)
			n.Committee = n.Validator
		}
	})
	if err != nil {
		return nil, err
	}
	for _, s := range []neotest.Signer{n.Validator, n.Committee} {
		if ms, ok := s.(neotest.MultiSigner); ok {
			for i := 0; ; i++ {
				var single neotest.SingleSigner
				if Try(func() { single = ms.Single(i) }) != nil {
					break
				}
				regKey(single.Account())
			}
		}
	}
	n.done = make(chan struct{})
	if o.NoRun {
		close(n.done)
	} else {
		go func() { n.BC.VerifRunNoTimer(); close(n.done) }()
	}
	n.E = neotest.NewExecutor(tb, n.BC, n.Validator, n.Committee)
	return n, nil
}

// Close stops the node (flushing, as a graceful shutdown does).
func (n *Node) Close() {
	if n.BC == nil {
		return
	}
	if n.Opts.NoRun {
		n.BC = nil
		return
	}
	n.BC.Close()
	<-n.done
	n.BC = nil
}

// Reopen closes the node and starts a new one on the same store.
func (n *Node) Reopen() (*Node, error) {
	n.Close()
	o := n.Opts
	o.Store = n.Store
	m, err := New(o)
	if m != nil {
		m.nonce = n.nonce
	}
	return m, err
}

// Persist flushes the write cache (what the 1s timer does in production).
func (n *Node) Persist() error { return n.BC.VerifPersist() }

// Height is the current block height.
func (n *Node) Height() uint32 { return n.BC.BlockHeight() }

// Nonce returns the next deterministic tx nonce.
func (n *Node) Nonce() uint32 { n.nonce++; return n.nonce }

// ---- block builder ---------------------------------------------------------------

// NewBlock builds and signs the next block with txs, following the current
// validator set the way the consensus service does.
func (n *Node) NewBlock(txs ...*transaction.Transaction) (*block.Block, error) {
	bc := n.BC
	top, err := bc.GetBlock(bc.CurrentBlockHash())
	if err != nil {
		return nil, err
	}
	vals, err := bc.GetNextBlockValidators()
	if err != nil {
		return nil, err
	}
	next := bc.ComputeNextBlockValidators()
	nextScript, err := smartcontract.CreateDefaultMultiSigRedeemScript(next)
	if err != nil {
		return nil, err
	}
	verif, err := smartcontract.CreateDefaultMultiSigRedeemScript(vals)
	if err != nil {
		return nil, err
	}
	b := &block.Block{
		Header: block.Header{
			Version:       block.VersionInitial,
			PrevHash:      top.Hash(),
			Timestamp:     top.Timestamp + 1,
			Index:         top.Index + 1,
			NextConsensus: hash.Hash160(nextScript),
			Script:        transaction.Witness{VerificationScript: verif},
		},
		Transactions: txs,
	}
	if bc.GetConfig().StateRootInHeader {
		b.StateRootEnabled = true
		b.PrevStateRoot = bc.GetStateModule().CurrentLocalStateRoot()
	}
	b.RebuildMerkleRoot()
	if err := SignBlock(b, vals, uint32(bc.GetConfig().Magic)); err != nil {
		return nil, err
	}
	return b, nil
}

// SignBlock fills the invocation script with m signatures of the validators.
func SignBlock(b *block.Block, vals keys.PublicKeys, magic uint32) error {
	sorted := vals.Copy()
	sort.Sort(sorted)
	m := smartcontract.GetDefaultHonestNodeCount(len(vals))
	buf := bytes.NewBuffer(nil)
	cnt := 0
	for _, pub := range sorted {
		if cnt == m {
			break
		}
		pk, ok := keyReg.Load(pub.StringCompressed())
		if !ok {
			continue
		}
		sig := pk.(*keys.PrivateKey).SignHashable(magic, b)
		buf.WriteByte(byte(opcode.PUSHDATA1))
		buf.WriteByte(byte(len(sig)))
		buf.Write(sig)
		cnt++
	}
	if cnt < m {
		return fmt.Errorf("only %d of %d validator keys known", cnt, m)
	}
	b.Script.InvocationScript = buf.Bytes()
	return nil
}

// AddBlock builds the next block from txs and adds it.
func (n *Node) AddBlock(txs ...*transaction.Transaction) (*block.Block, error) {
	b, err := n.NewBlock(txs...)
	if err != nil {
		return nil, err
	}
	return b, n.BC.AddBlock(b)
}

// CloneBlock returns an independent copy of b (blocks cache hashes and are
// mutated by nothing in AddBlock, but replicas must not share tx objects with
// mempools of other replicas).
func CloneBlock(b *block.Block, srih bool) *block.Block {
	data, err := BlockBytes(b)
	if err != nil {
		panic(err)
	}
	nb := block.New(srih)
	if err := testserdesDecode(data, nb); err != nil {
		panic(err)
	}
	return nb
}

// ---- transactions ------------------------------------------------------------------

// TxOpt tweaks a transaction before fees and signatures are computed.
type TxOpt func(*transaction.Transaction)

// MakeTx builds a transaction with script signed by signers (Global scope by
// default), system fee from a test invocation (+ extra), exact network fee.
func (n *Node) MakeTx(script []byte, signers []neotest.Signer, opts ...TxOpt) (tx *transaction.Transaction, err error) {
	err = Try(func() {
		tx = transaction.New(script, 0)
		tx.Nonce = n.Nonce()
		tx.ValidUntilBlock = n.BC.BlockHeight() + 5
		for _, s := range signers {
			tx.Signers = append(tx.Signers, transaction.Signer{Account: s.ScriptHash(), Scopes: transaction.Global})
		}
		sysFee := int64(-1)
		for _, o := range opts {
			o(tx)
		}
		if tx.SystemFee != 0 {
			sysFee = tx.SystemFee
			tx.SystemFee = 0
		}
		neotest.AddNetworkFee(n.TB, n.BC, tx, signers...)
		n.E.AddSystemFee(tx, sysFee)
		if sysFee < 0 {
			// Margin: the in-block execution may cost a little more than the test
			// invocation (e.g. reward distribution touched by an earlier tx).
			tx.SystemFee += tx.SystemFee/5 + 10000000
		}
		for _, s := range signers {
			if e := s.SignTx(n.BC.GetConfig().Magic, tx); e != nil {
				panic(Failure{e.Error()})
			}
		}
	})
	return
}

// CallScript builds a script calling a contract method.
func CallScript(h util.Uint160, method string, args ...any) []byte {
	s, err := smartcontract.CreateCallScript(h, method, args...)
	if err != nil {
		panic(err)
	}
	return s
}

// CallTx is MakeTx over CallScript.
func (n *Node) CallTx(signers []neotest.Signer, h util.Uint160, method string, args ...any) (*transaction.Transaction, error) {
	return n.MakeTx(CallScript(h, method, args...), signers)
}

// AbortScript is a script that always faults.
func AbortScript() []byte { return []byte{byte(opcode.ABORT)} }

// ScriptWithAssert appends ASSERT of the top boolean to script.
func ScriptThen(script []byte, ops ...opcode.Opcode) []byte {
	w := append([]byte{}, script...)
	for _, o := range ops {
		w = append(w, byte(o))
	}
	return w
}

// Emit builds a script with a builder function.
func Emit(f func(w *emitBuf)) []byte {
	w := &emitBuf{}
	f(w)
	return w.Bytes()
}

type emitBuf struct{ bytes.Buffer }

func (w *emitBuf) Op(ops ...opcode.Opcode) {
	for _, o := range ops {
		w.WriteByte(byte(o))
	}
}
func (w *emitBuf) Raw(b []byte) { w.Write(b) }

var _ = emit.Opcodes

// ---- observers -----------------------------------------------------------------------

// Obs is what a replica answers at its current height.
type Obs struct {
	Height     uint32            `json:"height"`
	Hash       string            `json:"hash"`
	StateRoot  string            `json:"state_root"`
	Storage    string            `json:"storage_digest"`
	StorageN   int               `json:"storage_items"`
	AERs       string            `json:"aers"`
	Committee  string            `json:"committee"`
	NextVals   string            `json:"next_validators"`
	CompVals   string            `json:"computed_validators"`
	Policy     string            `json:"policy"`
	Natives    string            `json:"natives"`
	Contracts  string            `json:"contracts"`
	Enroll     string            `json:"enrollments"`
	Roles      string            `json:"designated_roles"`
	Extra      map[string]string `json:"extra,omitempty"`
	storageMap map[string]string
}

// StorageMap is the full contract storage (id-prefixed key -> value).
func (o *Obs) StorageMap() map[string]string { return o.storageMap }

// ContractIDs returns the ids to dump: natives and deployed contracts up to maxID.
func (n *Node) ContractIDs(maxID int32) []int32 {
	var ids []int32
	for _, c := range n.BC.GetNatives() {
		ids = append(ids, c.ID)
	}
	for i := int32(1); i <= maxID; i++ {
		ids = append(ids, i)
	}
	return ids
}

// StorageDump returns all contract storage of ids as a map "id:hexkey" -> hexvalue.
func (n *Node) StorageDump(ids []int32) map[string]string {
	out := map[string]string{}
	for _, id := range ids {
		n.BC.SeekStorage(id, nil, func(k, v []byte) bool {
			out[fmt.Sprintf("%d:%x", id, k)] = hex.EncodeToString(v)
			return true
		})
	}
	return out
}

func digestMap(m map[string]string) string {
	keys := make([]string, 0, len(m))
	for k := range m {
		keys = append(keys, k)
	}
	sort.Strings(keys)
	h := sha256.New()
	for _, k := range keys {
		h.Write([]byte(k))
		h.Write([]byte{0})
		h.Write([]byte(m[k]))
		h.Write([]byte{1})
	}
	return hex.EncodeToString(h.Sum(nil))[:24]
}

// AERString renders execution results of a container without node-local fields.
func AERString(aers []state.AppExecResult) string {
	var sb strings.Builder
	for _, a := range aers {
		fmt.Fprintf(&sb, "[%s %s %s gas=%d fault=%q stack=", a.Container.StringLE()[:8], a.Trigger, a.VMState, a.GasConsumed, a.FaultException)
		for _, it := range a.Stack {
			b, err := json.Marshal(itemJSON(it))
			if err != nil {
				fmt.Fprintf(&sb, "<%s>", it.Type())
			} else {
				sb.Write(b)
			}
		}
		sb.WriteString(" ev=")
		for _, e := range a.Events {
			b, _ := json.Marshal(itemJSON(e.Item))
			fmt.Fprintf(&sb, "(%s %s %s)", e.ScriptHash.StringLE()[:8], e.Name, b)
		}
		sb.WriteString("]")
	}
	return sb.String()
}

// BlockAERs returns the rendered execution results of block b (OnPersist,
// every transaction, PostPersist).
func (n *Node) BlockAERs(b *block.Block) (string, error) {
	var sb strings.Builder
	a, err := n.BC.GetAppExecResults(b.Hash(), trigger.All)
	if err != nil {
		return "", fmt.Errorf("block aer: %w", err)
	}
	sb.WriteString(AERString(a))
	for _, tx := range b.Transactions {
		a, err := n.BC.GetAppExecResults(tx.Hash(), trigger.All)
		if err != nil {
			return "", fmt.Errorf("tx aer: %w", err)
		}
		sb.WriteString(AERString(a))
	}
	return sb.String(), nil
}

func pubs(p keys.PublicKeys) string {
	var s []string
	for _, k := range p {
		s = append(s, k.StringCompressed()[:10])
	}
	return strings.Join(s, ",")
}

// Observe collects everything the property lists at the current height.
func (n *Node) Observe(maxID int32, hashes []util.Uint160) (o *Obs, err error) {
	bc := n.BC
	o = &Obs{Height: bc.BlockHeight(), Hash: bc.CurrentBlockHash().StringLE()}
	sr, e := bc.GetStateRoot(o.Height)
	if e != nil {
		return nil, fmt.Errorf("state root %d: %w", o.Height, e)
	}
	o.StateRoot = sr.Root.StringLE()
	o.storageMap = n.StorageDump(n.ContractIDs(maxID))
	o.Storage = digestMap(o.storageMap)
	o.StorageN = len(o.storageMap)
	b, e := bc.GetBlock(bc.CurrentBlockHash())
	if e != nil {
		return nil, e
	}
	if o.AERs, e = n.BlockAERs(b); e != nil {
		return nil, e
	}
	com, e := bc.GetCommittee()
	if e != nil {
		return nil, e
	}
	o.Committee = pubs(com)
	nv, e := bc.GetNextBlockValidators()
	if e != nil {
		return nil, e
	}
	o.NextVals = pubs(nv)
	o.CompVals = pubs(bc.ComputeNextBlockValidators())
	o.Policy = fmt.Sprintf("fpb=%d exec=%d stor=%d mtb=%d mvub=%d msper=%d", bc.FeePerByte(), bc.GetBaseExecFee(), bc.GetStoragePrice(), bc.GetMaxTraceableBlocks(), bc.GetMaxValidUntilBlockIncrement(), bc.GetMillisecondsPerBlock())
	var ns []string
	for _, c := range bc.GetNatives() {
		ns = append(ns, fmt.Sprintf("%d:%s:%d", c.ID, c.Hash.StringLE()[:8], c.UpdateCounter))
	}
	o.Natives = strings.Join(ns, ",")
	var cs []string
	for _, h := range hashes {
		c := bc.GetContractState(h)
		if c == nil {
			cs = append(cs, "nil")
			continue
		}
		mb, _ := json.Marshal(c.Manifest)
		cs = append(cs, fmt.Sprintf("%d:%d:%x:%x", c.ID, c.UpdateCounter, sha256.Sum256(c.NEF.Script), sha256.Sum256(mb)))
	}
	o.Contracts = strings.Join(cs, ",")
	en, e := bc.GetEnrollments()
	if e != nil {
		return nil, e
	}
	var es []string
	for _, v := range en {
		es = append(es, fmt.Sprintf("%s=%s", v.Key.StringCompressed()[:10], v.Votes))
	}
	o.Enroll = strings.Join(es, ",")
	var rs []string
	for _, role := range []noderoles.Role{noderoles.StateValidator, noderoles.Oracle, noderoles.NeoFSAlphabet, noderoles.P2PNotary} {
		ks, h, e := bc.GetDesignatedByRole(role)
		if e != nil {
			rs = append(rs, fmt.Sprintf("%d:err", role))
			continue
		}
		rs = append(rs, fmt.Sprintf("%d:%s@%d", role, pubs(ks), h))
	}
	o.Roles = strings.Join(rs, ";")
	return o, nil
}

// Diff names the fields in which two observations differ.
func (o *Obs) Diff(p *Obs) []string {
	var d []string
	add := func(name, a, b string) {
		if a != b {
			// long values: a window around the first difference
			i := 0
			for i < len(a) && i < len(b) && a[i] == b[i] {
				i++
			}
			cut := func(x string) string {
				lo, hi := max(0, i-150), min(len(x), i+150)
				if len(x) <= 300 {
					return x
				}
				pre, post := "", ""
				if lo > 0 {
					pre = "..."
				}
				if hi < len(x) {
					post = "..."
				}
				return pre + x[lo:hi] + post
			}
			d = append(d, fmt.Sprintf("%s: %s != %s", name, cut(a), cut(b)))
		}
	}
	add("height", fmt.Sprint(o.Height), fmt.Sprint(p.Height))
	add("state_root", o.StateRoot, p.StateRoot)
	add("storage", o.Storage, p.Storage)
	add("aers", o.AERs, p.AERs)
	add("committee", o.Committee, p.Committee)
	add("next_validators", o.NextVals, p.NextVals)
	add("computed_validators", o.CompVals, p.CompVals)
	add("policy", o.Policy, p.Policy)
	add("natives", o.Natives, p.Natives)
	add("contracts", o.Contracts, p.Contracts)
	add("enrollments", o.Enroll, p.Enroll)
	add("designated_roles", o.Roles, p.Roles)
	if o.Storage != p.Storage {
		n := 0
		for k, v := range o.storageMap {
			if w, ok := p.storageMap[k]; !ok || w != v {
				if n < 5 {
					d = append(d, fmt.Sprintf("  storage[%s]: %s != %s", k, v, w))
				}
				n++
			}
		}
		for k, w := range p.storageMap {
			if _, ok := o.storageMap[k]; !ok {
				if n < 5 {
					d = append(d, fmt.Sprintf("  storage[%s]: <absent> != %s", k, w))
				}
				n++
			}
		}
	}
	return d
}

var ErrClosed = errors.New("node closed")

// UnitTestNet magic for signing helpers.
const Magic = netmode.UnitTestNet
