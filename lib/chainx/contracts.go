package chainx

import (
	"bytes"
	_ "embed"
	"encoding/json"
	"fmt"
	"os"
	"sync"

	"github.com/nspcc-dev/neo-go/pkg/compiler"
	"github.com/nspcc-dev/neo-go/pkg/core/state"
	"github.com/nspcc-dev/neo-go/pkg/core/transaction"
	"github.com/nspcc-dev/neo-go/pkg/neotest"
	"github.com/nspcc-dev/neo-go/pkg/smartcontract"
	"github.com/nspcc-dev/neo-go/pkg/smartcontract/manifest"
	"github.com/nspcc-dev/neo-go/pkg/util"
)

//go:embed ucontract/u.go.txt
var uSource []byte

// Op codes of the universal contract (see ucontract/u.go.txt).
const (
	OpPut          = 1
	OpDel          = 2
	OpGet          = 3
	OpFind         = 4
	OpNotify       = 5
	OpCall         = 6
	OpTry          = 7
	OpThrow        = 8
	OpAbort        = 9
	OpCheckWitness = 10
	OpLoadScript   = 11
	OpGetFlags     = 12
	OpRun          = 13
)

var (
	uOnce sync.Once
	uBase *neotest.Contract
	uErr  error
)

func setGoEnv() {
	tc := "/root/go/pkg/mod/golang.org/toolchain@v0.0.1-go1.25.0.linux-amd64/bin"
	os.Setenv("PATH", tc+":"+os.Getenv("PATH"))
	os.Setenv("GOTOOLCHAIN", "local")
	os.Setenv("GOFLAGS", "-mod=mod")
	os.Setenv("GOPROXY", "off")
	os.Setenv("GOSUMDB", "off")
}

// CompileSource compiles a contract source with the repository's compiler.
func CompileSource(src []byte, opts *compiler.Options) (c *neotest.Contract, err error) {
	setGoEnv()
	err = Try(func() {
		c = neotest.CompileSource(&TB{}, util.Uint160{}, bytes.NewReader(src), opts)
	})
	return
}

// UVariant describes one deployment of the universal contract.
type UVariant struct {
	Name        string
	Permissions []manifest.Permission // nil = wildcard
	Groups      []manifest.Group
	Sender      util.Uint160
}

// CompileU returns the universal contract prepared for deployment as variant v.
func CompileU(v UVariant) (*neotest.Contract, error) {
	uOnce.Do(func() {
		uBase, uErr = CompileSource(uSource, &compiler.Options{
			Name:               "U",
			NoEventsCheck:      true,
			NoPermissionsCheck: true,
			NoStandardCheck:    true,
			SafeMethods:        []string{"runSafe"},
			ContractEvents: []compiler.HybridEvent{{Name: "ev", Parameters: []compiler.HybridParameter{
				{Parameter: manifest.Parameter{Name: "n", Type: smartcontract.AnyType}},
			}}},
			Permissions: []manifest.Permission{*manifest.NewPermission(manifest.PermissionWildcard)},
		})
	})
	if uErr != nil {
		return nil, fmt.Errorf("compile U: %w", uErr)
	}
	mb, err := json.Marshal(uBase.Manifest)
	if err != nil {
		return nil, err
	}
	m := new(manifest.Manifest)
	if err := json.Unmarshal(mb, m); err != nil {
		return nil, err
	}
	m.Name = v.Name
	if v.Permissions != nil {
		m.Permissions = v.Permissions
	}
	if v.Groups != nil {
		m.Groups = v.Groups
	}
	return &neotest.Contract{
		Hash:      state.CreateContractHash(v.Sender, uBase.NEF.Checksum, m.Name),
		NEF:       uBase.NEF,
		Manifest:  m,
		DebugInfo: uBase.DebugInfo,
	}, nil
}

// DeployTx builds the deployment transaction of c signed by signer.
func (n *Node) DeployTx(c *neotest.Contract, signer neotest.Signer, data any) (tx *transaction.Transaction, err error) {
	mb, err := json.Marshal(c.Manifest)
	if err != nil {
		return nil, err
	}
	nb, err := c.NEF.Bytes()
	if err != nil {
		return nil, err
	}
	return n.MakeTx(CallScript(n.BC.ManagementContractHash(), "deploy", nb, mb, data), []neotest.Signer{signer})
}
