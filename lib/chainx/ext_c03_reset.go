package chainx

// Extension for C03 (family reset-cont): a state reset after which the node goes
// on, either as the SAME core.Blockchain instance that performed the reset (the
// way a node that was created, reset and only then started behaves: Reset,
// then Run, then blocks - nothing re-reads the database in between) or as a new
// instance opened on the store (a process restart).

import "fmt"

// ResetTo stops n gracefully (final flush), opens its store with an instance
// whose dispatcher is not running, and resets that instance to height h.
// same == true: the instance that did the reset is started and returned;
// same == false: it is abandoned and a fresh instance is opened on the store.
// The transaction nonce counter of n is carried over.
func (n *Node) ResetTo(h uint32, same bool) (*Node, error) {
	if n.BC != nil {
		n.Close()
	}
	o := n.Opts
	o.Store = n.Store
	o.NoRun = true
	m, err := New(o)
	if err != nil {
		return nil, fmt.Errorf("reopen for the reset: %w", err)
	}
	if err := m.BC.Reset(h); err != nil {
		return nil, fmt.Errorf("Reset(%d): %w", h, err)
	}
	if same {
		m.Opts.NoRun = false
		m.done = make(chan struct{})
		go func() { m.BC.VerifRunNoTimer(); close(m.done) }()
		m.nonce = n.nonce
		return m, nil
	}
	o.NoRun = false
	r, err := New(o)
	if err != nil {
		return nil, fmt.Errorf("restart after the reset: %w", err)
	}
	r.nonce = n.nonce
	return r, nil
}
