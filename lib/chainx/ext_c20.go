package chainx

// Extension for C20 (state-sync part): a replica constructor that takes the
// logger. The state sync module reports a failed state jump with log.Fatal;
// with the no-op logger of New that is a silent os.Exit(1) of the whole check.
// FatalPanicLogger turns it into a panic the harness recovers and reports.

import (
	"fmt"

	"github.com/nspcc-dev/neo-go/pkg/config"
	"github.com/nspcc-dev/neo-go/pkg/core/storage"
	"github.com/nspcc-dev/neo-go/pkg/neotest"
	"github.com/nspcc-dev/neo-go/pkg/neotest/chain"
	"go.uber.org/zap"
	"go.uber.org/zap/zapcore"
)

// FatalLog is what a Fatal log entry panics with under FatalPanicLogger.
type FatalLog struct{ Msg string }

func (f FatalLog) Error() string { return "log.Fatal: " + f.Msg }

type fatalPanic struct{}

func (fatalPanic) OnWrite(ce *zapcore.CheckedEntry, fields []zapcore.Field) {
	msg := ce.Message
	enc := zapcore.NewMapObjectEncoder()
	for _, f := range fields {
		f.AddTo(enc)
	}
	for k, v := range enc.Fields {
		msg += fmt.Sprintf(" %s=%v", k, v)
	}
	panic(FatalLog{msg})
}

// FatalPanicLogger is a silent logger whose Fatal panics with FatalLog
// instead of exiting the process.
func FatalPanicLogger() *zap.Logger {
	return zap.New(zapcore.NewNopCore(), zap.WithFatalHook(fatalPanic{}))
}

// NewWithLogger is New with a caller-supplied logger.
func NewWithLogger(o Opts, lg *zap.Logger) (n *Node, err error) {
	tb := &TB{}
	n = &Node{Opts: o, TB: tb, nonce: 1}
	st := o.Store
	if st == nil {
		st = NewRecStore(storage.NewMemoryStore())
	}
	n.Store = st
	cfgHook := func(c *config.Blockchain) {
		c.StateRootInHeader = o.SRIH
		c.P2PSigExtensions = true
		if o.Proto != nil {
			o.Proto(c)
		}
		if o.Cfg != nil {
			o.Cfg(c)
		}
	}
	copts := &chain.Options{BlockchainConfigHook: cfgHook, Store: st, SkipRun: true, Logger: lg}
	err = Try(func() {
		if o.Multi {
			var e error
			n.BC, n.Validator, n.Committee, e = chain.NewMultiWithOptionsNoCheck(tb, copts)
			if e != nil {
				panic(Failure{e.Error()})
			}
		} else {
			n.BC, n.Validator = chain.NewSingleWithOptions(tb, copts)
			n.Committee = n.Validator
		}
	})
	if err != nil {
		return nil, err
	}
	for _, s := range []neotest.Signer{n.Validator, n.Committee} {
		if ms, ok := s.(neotest.MultiSigner); ok {
			for i := 0; ; i++ {
				var single neotest.SingleSigner
				if Try(func() { single = ms.Single(i) }) != nil {
					break
				}
				regKey(single.Account())
			}
		}
	}
	n.done = make(chan struct{})
	go func() { n.BC.VerifRunNoTimer(); close(n.done) }()
	n.E = neotest.NewExecutor(tb, n.BC, n.Validator, n.Committee)
	return n, nil
}
