package chainx

import (
	"encoding/binary"
	"fmt"

	"github.com/nspcc-dev/neo-go/pkg/core/native/nativehashes"
	"github.com/nspcc-dev/neo-go/pkg/core/native/nativeids"
	"github.com/nspcc-dev/neo-go/pkg/core/transaction"
	"github.com/nspcc-dev/neo-go/pkg/crypto/hash"
	"github.com/nspcc-dev/neo-go/pkg/crypto/keys"
	"github.com/nspcc-dev/neo-go/pkg/io"
	"github.com/nspcc-dev/neo-go/pkg/smartcontract"
	"github.com/nspcc-dev/neo-go/pkg/vm/emit"
)

// OracleRespondTx builds the oracle response transaction for the pending
// oracle request with the lowest id (requests are made by the template
// "oracle-request", the oracle node is account 3 designated by
// "designate-oracle"): sender = native Oracle contract, second signer = the
// oracle nodes' 1-of-1 multisignature account, script = Oracle.finish, system
// fee + network fee = exactly the GAS the request reserved (0.1 GAS).
func OracleRespondTx(n *Node) (*transaction.Transaction, error) {
	var (
		id    uint64
		found bool
	)
	n.BC.SeekStorage(nativeids.OracleContract, []byte{7}, func(k, v []byte) bool {
		if len(k) == 8 && !found {
			id, found = binary.BigEndian.Uint64(k), true
		}
		return !found
	})
	if !found {
		return nil, fmt.Errorf("no pending oracle request")
	}
	k := Acc(3).PrivateKey()
	ver, err := smartcontract.CreateMajorityMultiSigRedeemScript(keys.PublicKeys{k.PublicKey()})
	if err != nil {
		return nil, err
	}
	const reserved = int64(gas / 10)
	tx := transaction.New(CallScript(nativehashes.OracleContract, "finish"), reserved/2)
	tx.NetworkFee = reserved - tx.SystemFee
	tx.Nonce = n.Nonce()
	tx.ValidUntilBlock = n.BC.BlockHeight() + 5
	tx.Signers = []transaction.Signer{
		{Account: nativehashes.OracleContract, Scopes: transaction.None},
		{Account: hash.Hash160(ver), Scopes: transaction.None},
	}
	tx.Attributes = []transaction.Attribute{{Type: transaction.OracleResponseT, Value: &transaction.OracleResponse{ID: id, Code: transaction.Success, Result: []byte{1, 2, 3}}}}
	sig := k.SignHashable(uint32(n.BC.GetConfig().Magic), tx)
	w := io.NewBufBinWriter()
	emit.Bytes(w.BinWriter, sig)
	tx.Scripts = []transaction.Witness{
		{InvocationScript: []byte{}, VerificationScript: []byte{}},
		{InvocationScript: w.Bytes(), VerificationScript: ver},
	}
	return tx, nil
}
