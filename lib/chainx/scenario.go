package chainx

import (
	"fmt"
	"sync"

	"github.com/nspcc-dev/neo-go/pkg/config"
)

// Family is a protocol configuration family: all replicas of a family accept
// the same blocks.
type Family struct {
	Name  string
	Multi bool
	SRIH  bool
	MTB   uint32 // protocol MaxTraceableBlocks (0 = default of the test configuration)
	Extra func(*config.Blockchain)
}

// Proto applies the protocol-level options of the family.
func (f Family) Proto(c *config.Blockchain) {
	if f.MTB != 0 {
		c.MaxTraceableBlocks = f.MTB
		c.MaxValidUntilBlockIncrement = 100
	}
	if f.Extra != nil {
		f.Extra(c)
	}
}

// Opts returns node options for a replica of the family.
func (f Family) Opts() Opts {
	return Opts{Multi: f.Multi, SRIH: f.SRIH, Proto: f.Proto}
}

// Families is the standard set.
func Families() []Family {
	return []Family{
		{Name: "single", MTB: 6},
		{Name: "single-srih", SRIH: true, MTB: 6},
		{Name: "multi", Multi: true, MTB: 8},
		{Name: "multi-srih", Multi: true, SRIH: true, MTB: 8},
	}
}

// HistNode is one node of a history tree: the block that extends the prefix
// and the reference replica's observation after it.
type HistNode struct {
	Block []byte // wire bytes
	Obs   *Obs
	Names []string
}

// Scenario is a family + preamble + a tree of block histories built on the
// reference replica (MemoryStore, no node-local options, never flushed or
// restarted, empty mempool).
type Scenario struct {
	Fam      Family
	Pad      int
	Tpls     []Tpl
	Preamble [][]byte // wire bytes of the preamble blocks
	PreObs   []*Obs   // reference observation after each preamble block
	World    *World
	mu       sync.Mutex
	tree     map[string]*HistNode
	OnTx     func(tpl string, vmstate string)
}

// NewScenario builds the preamble on a reference replica.
func NewScenario(f Family, pad int, tpls []Tpl) (*Scenario, error) {
	sc := &Scenario{Fam: f, Pad: pad, Tpls: tpls, tree: map[string]*HistNode{}}
	n, err := New(f.Opts())
	if err != nil {
		return nil, err
	}
	w, err := BuildPreamble(n, pad)
	n.Close()
	if err != nil {
		return nil, err
	}
	sc.World = w
	for _, b := range w.Preamble {
		bb, err := BlockBytes(b)
		if err != nil {
			return nil, err
		}
		sc.Preamble = append(sc.Preamble, bb)
	}
	// observations per preamble height, on a second fresh replica
	m, err := New(f.Opts())
	if err != nil {
		return nil, err
	}
	defer m.Close()
	for _, bb := range sc.Preamble {
		if err := m.AddBytes(bb); err != nil {
			return nil, fmt.Errorf("preamble replay: %w", err)
		}
		o, err := m.Observe(w.MaxID, w.Hashes())
		if err != nil {
			return nil, err
		}
		sc.PreObs = append(sc.PreObs, o)
	}
	return sc, nil
}

// AddBytes decodes a block from wire bytes and adds it.
func (n *Node) AddBytes(bb []byte) error {
	b, err := DecodeBlock(bb, n.Opts.SRIH)
	if err != nil {
		return err
	}
	return n.BC.AddBlock(b)
}

func hkey(h []int) string { return fmt.Sprint(h) }

// Get returns the tree node of history h (nil if it was not built).
func (sc *Scenario) Get(h []int) *HistNode {
	sc.mu.Lock()
	defer sc.mu.Unlock()
	return sc.tree[hkey(h)]
}

// RefNode returns a fresh reference replica that replayed the preamble and h.
func (sc *Scenario) RefNode(h []int) (*Node, *World, error) {
	n, err := New(sc.Fam.Opts())
	if err != nil {
		return nil, nil, err
	}
	if err := sc.Replay(n, h); err != nil {
		n.Close()
		return nil, nil, err
	}
	return n, sc.World.Attach(n), nil
}

// Replay feeds the preamble and the blocks of h to n.
func (sc *Scenario) Replay(n *Node, h []int) error {
	for _, bb := range sc.Preamble {
		if err := n.AddBytes(bb); err != nil {
			return fmt.Errorf("preamble: %w", err)
		}
	}
	for i := 1; i <= len(h); i++ {
		tn := sc.Get(h[:i])
		if tn == nil {
			return fmt.Errorf("history %v not built", h[:i])
		}
		if err := n.AddBytes(tn.Block); err != nil {
			return fmt.Errorf("block %d of %v: %w", i, h, err)
		}
	}
	return nil
}

// Blocks returns the wire bytes of all blocks (preamble + h) and the reference
// observation after each of them; index i is height i+1.
func (sc *Scenario) Blocks(h []int) ([][]byte, []*Obs) {
	bs := append([][]byte{}, sc.Preamble...)
	os := append([]*Obs{}, sc.PreObs...)
	for i := 1; i <= len(h); i++ {
		tn := sc.Get(h[:i])
		bs = append(bs, tn.Block)
		os = append(os, tn.Obs)
	}
	return bs, os
}

// Grow builds the tree node for h (whose prefix must exist). An error means
// the template is not applicable in that state.
func (sc *Scenario) Grow(h []int) error {
	n, w, err := sc.RefNode(h[:len(h)-1])
	if err != nil {
		return err
	}
	defer n.Close()
	tpl := sc.Tpls[h[len(h)-1]]
	txs, err := tpl.Build(w)
	if err != nil {
		return fmt.Errorf("template %s: %w", tpl.Name, err)
	}
	b, err := n.AddBlock(txs...)
	if err != nil {
		return fmt.Errorf("template %s: reference rejected its own block: %w", tpl.Name, err)
	}
	bb, err := BlockBytes(b)
	if err != nil {
		return err
	}
	obs, err := n.Observe(w.MaxID, w.Hashes())
	if err != nil {
		return err
	}
	if sc.OnTx != nil {
		for _, tx := range b.Transactions {
			st := "?"
			if a, err := n.BC.GetAppExecResults(tx.Hash(), 0x40); err == nil && len(a) == 1 {
				st = a[0].VMState.String()
			}
			sc.OnTx(tpl.Name, st)
		}
	}
	names := make([]string, len(h))
	for i, k := range h {
		names[i] = sc.Tpls[k].Name
	}
	sc.mu.Lock()
	sc.tree[hkey(h)] = &HistNode{Block: bb, Obs: obs, Names: names}
	sc.mu.Unlock()
	return nil
}

// BuildTree grows all histories up to depth, level by level; par runs the jobs
// of one level (e.g. vk.Run.Parallel). Returns the complete histories built.
func (sc *Scenario) BuildTree(depth int, par func(n int, f func(i int))) [][]int {
	level := [][]int{{}}
	for d := 1; d <= depth; d++ {
		var cand [][]int
		for _, p := range level {
			for k := range sc.Tpls {
				cand = append(cand, append(append([]int{}, p...), k))
			}
		}
		ok := make([]bool, len(cand))
		par(len(cand), func(i int) { ok[i] = sc.Grow(cand[i]) == nil })
		level = level[:0]
		for i, h := range cand {
			if ok[i] {
				level = append(level, h)
			}
		}
	}
	return level
}

// Names returns the template names of h.
func (sc *Scenario) Names(h []int) []string {
	out := make([]string, len(h))
	for i, k := range h {
		out[i] = sc.Tpls[k].Name
	}
	return out
}
