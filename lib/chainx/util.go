package chainx

import (
	"encoding/json"

	"github.com/nspcc-dev/neo-go/pkg/core/block"
	"github.com/nspcc-dev/neo-go/pkg/io"
	"github.com/nspcc-dev/neo-go/pkg/vm/stackitem"
)

// BlockBytes serialises a block the way it travels over the wire.
func BlockBytes(b *block.Block) ([]byte, error) {
	w := io.NewBufBinWriter()
	b.EncodeBinary(w.BinWriter)
	if w.Err != nil {
		return nil, w.Err
	}
	return w.Bytes(), nil
}

func testserdesDecode(data []byte, b *block.Block) error {
	r := io.NewBinReaderFromBuf(data)
	b.DecodeBinary(r)
	return r.Err
}

// DecodeBlock parses wire bytes.
func DecodeBlock(data []byte, srih bool) (*block.Block, error) {
	b := block.New(srih)
	return b, testserdesDecode(data, b)
}

func itemJSON(it stackitem.Item) json.RawMessage {
	b, err := stackitem.ToJSONWithTypes(it)
	if err != nil {
		b, _ = json.Marshal("<" + it.Type().String() + ">")
	}
	return b
}

// ItemString renders a stack item with types.
func ItemString(it stackitem.Item) string { return string(itemJSON(it)) }
