package chainx

import (
	"fmt"
	"math/big"

	"github.com/nspcc-dev/neo-go/pkg/core/block"
	"github.com/nspcc-dev/neo-go/pkg/core/native/nativehashes"
	"github.com/nspcc-dev/neo-go/pkg/core/native/noderoles"
	"github.com/nspcc-dev/neo-go/pkg/core/transaction"
	"github.com/nspcc-dev/neo-go/pkg/neotest"
	"github.com/nspcc-dev/neo-go/pkg/smartcontract/manifest"
	"github.com/nspcc-dev/neo-go/pkg/util"
	"github.com/nspcc-dev/neo-go/pkg/vm/opcode"
)

// World is a replica plus the fixed cast of a scenario: funded accounts and
// deployed instances of the universal contract. All replicas of a family
// replay the same preamble blocks, so the cast is the same everywhere.
type World struct {
	N        *Node
	UA       *neotest.Contract // no group, wildcard permissions
	UB       *neotest.Contract // second instance (payment receiver, callee)
	UC       *neotest.Contract // deployed later by a template
	Preamble []*block.Block
	MaxID    int32 // highest deployed contract id that may exist
}

// Hashes returns the contract hashes observers look at.
func (w *World) Hashes() []util.Uint160 {
	return []util.Uint160{w.UA.Hash, w.UB.Hash, w.UC.Hash}
}

const gas = 100000000 // 1 GAS in datoshi

// BuildPreamble funds accounts 1..3 (NEO and GAS), deploys UA and UB and
// registers account 1 as a candidate, in 3 blocks + pad empty blocks (to slide
// the epoch phase).
func BuildPreamble(n *Node, pad int) (*World, error) {
	w := &World{N: n, MaxID: 4}
	var err error
	sender := n.Validator.ScriptHash()
	if w.UA, err = CompileU(UVariant{Name: "UA", Sender: sender}); err != nil {
		return nil, err
	}
	if w.UB, err = CompileU(UVariant{Name: "UB", Sender: sender}); err != nil {
		return nil, err
	}
	if w.UC, err = CompileU(UVariant{Name: "UC", Sender: Acc(2).ScriptHash()}); err != nil {
		return nil, err
	}
	for i := 1; i <= 6; i++ {
		RegisterKey(Acc(i))
	}
	add := func(txs ...*transaction.Transaction) error {
		b, err := n.AddBlock(txs...)
		if err != nil {
			return fmt.Errorf("preamble block %d: %w", len(w.Preamble)+1, err)
		}
		w.Preamble = append(w.Preamble, b)
		return nil
	}
	// Funding must come from the committee/validator account which owns the
	// initial supply. In the multi configuration the validators' multisig holds
	// it; n.Validator signs for it.
	owner := []neotest.Signer{n.Validator}
	var txs []*transaction.Transaction
	for i, amt := range []int64{30000000, 20000000, 1000} { // NEO: acc1 30M, acc2 20M, acc3 1000
		tx, err := n.CallTx(owner, nativehashes.NeoToken, "transfer", sender, Acc(i+1).ScriptHash(), amt, nil)
		if err != nil {
			return nil, err
		}
		txs = append(txs, tx)
	}
	for i := 1; i <= 6; i++ {
		tx, err := n.CallTx(owner, nativehashes.GasToken, "transfer", sender, Acc(i).ScriptHash(), int64(5000*gas), nil)
		if err != nil {
			return nil, err
		}
		txs = append(txs, tx)
	}
	if n.Committee.ScriptHash() != sender {
		tx, err := n.CallTx(owner, nativehashes.GasToken, "transfer", sender, n.Committee.ScriptHash(), int64(5000*gas), nil)
		if err != nil {
			return nil, err
		}
		txs = append(txs, tx)
	}
	if err := add(txs...); err != nil {
		return nil, err
	}
	d1, err := n.DeployTx(w.UA, n.Validator, nil)
	if err != nil {
		return nil, err
	}
	d2, err := n.DeployTx(w.UB, n.Validator, nil)
	if err != nil {
		return nil, err
	}
	if err := add(d1, d2); err != nil {
		return nil, err
	}
	reg, err := n.MakeTx(CallScript(nativehashes.NeoToken, "registerCandidate", Acc(1).PublicKey().Bytes()), s(1), SysFee(1010*gas))
	if err != nil {
		return nil, err
	}
	seed, err := n.CallTx([]neotest.Signer{Signer(1)}, w.UA.Hash, "run", []any{
		[]any{OpPut, []byte("a"), []byte("1")}, []any{OpPut, []byte("ab"), []byte("2")}, []any{OpPut, []byte("b"), []byte("1")},
	})
	if err != nil {
		return nil, err
	}
	regs := []*transaction.Transaction{reg, seed}
	if n.Opts.Multi {
		// The committee is elected only when there are at least as many
		// candidates as committee members (6): register accounts 2..6 as well.
		for i := 2; i <= 6; i++ {
			tx, err := n.MakeTx(CallScript(nativehashes.NeoToken, "registerCandidate", Acc(i).PublicKey().Bytes()), s(i), SysFee(1010*gas))
			if err != nil {
				return nil, err
			}
			regs = append(regs, tx)
		}
	}
	if err := add(regs...); err != nil {
		return nil, err
	}
	for i := 0; i < pad; i++ {
		if err := add(); err != nil {
			return nil, err
		}
	}
	for _, b := range w.Preamble {
		for _, tx := range b.Transactions {
			if err := n.CheckHalt(tx.Hash()); err != nil {
				return nil, fmt.Errorf("preamble tx: %w", err)
			}
		}
	}
	return w, nil
}

// CheckHalt verifies that a transaction is on chain and halted.
func (n *Node) CheckHalt(h util.Uint256) error {
	aers, err := n.BC.GetAppExecResults(h, 0x40)
	if err != nil {
		return err
	}
	if len(aers) != 1 || aers[0].VMState.String() != "HALT" {
		return fmt.Errorf("tx %s did not halt: %v", h.StringLE(), AERString(aers))
	}
	return nil
}

// Attach creates the World view for another replica that replayed the preamble.
func (w *World) Attach(n *Node) *World {
	c := *w
	c.N = n
	return &c
}

// SysFee fixes the system fee instead of taking it from a test invocation.
func SysFee(v int64) TxOpt { return func(t *transaction.Transaction) { t.SystemFee = v } }

// Tpl is a block template: it builds the transactions of the next block on
// the reference replica's current state.
type Tpl struct {
	Name  string
	Build func(w *World) ([]*transaction.Transaction, error)
}

func one(tx *transaction.Transaction, err error) ([]*transaction.Transaction, error) {
	if err != nil {
		return nil, err
	}
	return []*transaction.Transaction{tx}, nil
}

func s(i int) []neotest.Signer { return []neotest.Signer{Signer(i)} }

// urun builds a tx running prog on U instance c signed by account i.
func (w *World) URun(i int, c *neotest.Contract, prog []any) (*transaction.Transaction, error) {
	return w.N.CallTx(s(i), c.Hash, "run", prog)
}

// Templates is the block alphabet of the ledger checks, simplest first.
func Templates() []Tpl {
	neo, gasH, pol := nativehashes.NeoToken, nativehashes.GasToken, nativehashes.PolicyContract
	return []Tpl{
		{"empty", func(w *World) ([]*transaction.Transaction, error) { return nil, nil }},
		{"gas-transfer", func(w *World) ([]*transaction.Transaction, error) {
			return one(w.N.CallTx(s(1), gasH, "transfer", Acc(1).ScriptHash(), Acc(2).ScriptHash(), int64(3*gas), nil))
		}},
		{"ledger-reads", func(w *World) ([]*transaction.Transaction, error) { // what contracts can read about earlier transactions
			var script []byte
			cnt := 0
			for h := w.N.Height(); h > 0 && h+3 > w.N.Height() && cnt < 3; h-- {
				b, err := w.N.BC.GetBlock(w.N.BC.GetHeaderHash(h))
				if err != nil {
					return nil, err
				}
				for _, tx := range b.Transactions {
					if cnt == 3 {
						break
					}
					cnt++
					for _, m := range []string{"getTransactionVMState", "getTransactionHeight", "getTransactionSigners"} {
						script = append(script, CallScript(nativehashes.LedgerContract, m, tx.Hash())...)
					}
				}
			}
			script = append(script, CallScript(nativehashes.LedgerContract, "currentIndex")...)
			return one(w.N.MakeTx(script, s(2)))
		}},
		{"neo-transfer", func(w *World) ([]*transaction.Transaction, error) {
			return one(w.N.CallTx(s(1), neo, "transfer", Acc(1).ScriptHash(), Acc(3).ScriptHash(), int64(7), nil))
		}},
		{"vote1", func(w *World) ([]*transaction.Transaction, error) { // acc1 (30M NEO) votes for candidate acc1
			return one(w.N.CallTx(s(1), neo, "vote", Acc(1).ScriptHash(), Acc(1).PublicKey().Bytes()))
		}},
		{"vote2+transfer", func(w *World) ([]*transaction.Transaction, error) { // same block: voter 2 votes, then moves NEO
			a, err := w.N.CallTx(s(2), neo, "vote", Acc(2).ScriptHash(), Acc(1).PublicKey().Bytes())
			if err != nil {
				return nil, err
			}
			b, err := w.N.CallTx(s(2), neo, "transfer", Acc(2).ScriptHash(), Acc(3).ScriptHash(), int64(1000000), nil)
			if err != nil {
				return nil, err
			}
			return []*transaction.Transaction{a, b}, nil
		}},
		{"unvote1", func(w *World) ([]*transaction.Transaction, error) {
			return one(w.N.CallTx(s(1), neo, "vote", Acc(1).ScriptHash(), nil))
		}},
		{"register2", func(w *World) ([]*transaction.Transaction, error) {
			return one(w.N.MakeTx(CallScript(neo, "registerCandidate", Acc(2).PublicKey().Bytes()), s(2), SysFee(1010*gas)))
		}},
		{"unregister1", func(w *World) ([]*transaction.Transaction, error) {
			return one(w.N.CallTx(s(1), neo, "unregisterCandidate", Acc(1).PublicKey().Bytes()))
		}},
		{"policy-fee+tx", func(w *World) ([]*transaction.Transaction, error) { // policy change and a fee-dependent tx
			cur := w.N.BC.FeePerByte()
			a, err := w.N.CallTx([]neotest.Signer{w.N.Committee}, pol, "setFeePerByte", cur+100)
			if err != nil {
				return nil, err
			}
			b, err := w.N.CallTx(s(3), gasH, "transfer", Acc(3).ScriptHash(), Acc(1).ScriptHash(), int64(gas), nil)
			if err != nil {
				return nil, err
			}
			return []*transaction.Transaction{a, b}, nil
		}},
		{"policy-storage-price", func(w *World) ([]*transaction.Transaction, error) {
			return one(w.N.CallTx([]neotest.Signer{w.N.Committee}, pol, "setStoragePrice", w.N.BC.GetStoragePrice()/2+1))
		}},
		{"block-account3", func(w *World) ([]*transaction.Transaction, error) {
			return one(w.N.CallTx([]neotest.Signer{w.N.Committee}, pol, "blockAccount", Acc(3).ScriptHash()))
		}},
		{"u-storage", func(w *World) ([]*transaction.Transaction, error) { // overwrite, delete, re-create, prefix keys, same value
			return one(w.URun(2, w.UA, []any{
				[]any{OpPut, []byte("a"), []byte("2")}, []any{OpDel, []byte("ab")}, []any{OpPut, []byte("abc"), []byte("1")},
				[]any{OpPut, []byte("c"), []byte("1")}, []any{OpNotify, 1},
			}))
		}},
		{"u-storage2", func(w *World) ([]*transaction.Transaction, error) {
			return one(w.URun(3, w.UA, []any{
				[]any{OpDel, []byte("a")}, []any{OpPut, []byte("ab"), []byte("1")}, []any{OpDel, []byte("zz")},
				[]any{OpRun, w.UB.Hash.BytesBE(), 15, []any{[]any{OpPut, []byte("a"), []byte("1")}, []any{OpNotify, 2}}},
			}))
		}},
		{"fault-between", func(w *World) ([]*transaction.Transaction, error) { // good, faulting (after writes, vote, transfer), good
			a, err := w.URun(1, w.UA, []any{[]any{OpPut, []byte("f1"), []byte("1")}})
			if err != nil {
				return nil, err
			}
			b, err := w.URun(2, w.UA, []any{
				[]any{OpPut, []byte("f2"), []byte("1")}, []any{OpNotify, 3},
				[]any{OpCall, neo.BytesBE(), "vote", 15, []any{Acc(2).ScriptHash().BytesBE(), Acc(1).PublicKey().Bytes()}},
				[]any{OpCall, gasH.BytesBE(), "transfer", 15, []any{Acc(2).ScriptHash().BytesBE(), Acc(3).ScriptHash().BytesBE(), 5, nil}},
				[]any{OpAbort},
			})
			if err != nil {
				return nil, err
			}
			c, err := w.URun(3, w.UA, []any{[]any{OpPut, []byte("f3"), []byte("1")}})
			if err != nil {
				return nil, err
			}
			return []*transaction.Transaction{a, b, c}, nil
		}},
		{"caught-callee", func(w *World) ([]*transaction.Transaction, error) { // callee writes then throws, caller catches
			return one(w.URun(1, w.UA, []any{
				[]any{OpPut, []byte("x"), []byte("1")},
				[]any{OpTry, []any{[]any{OpRun, w.UB.Hash.BytesBE(), 15, []any{[]any{OpPut, []byte("y"), []byte("1")}, []any{OpNotify, 7}, []any{OpThrow}}}}, []any{[]any{OpNotify, 9}}},
				[]any{OpPut, []byte("z"), []byte("1")},
			}))
		}},
		{"deploy-uc", func(w *World) ([]*transaction.Transaction, error) {
			if w.N.BC.GetContractState(w.UC.Hash) != nil {
				return one(w.N.CallTx(s(2), w.UC.Hash, "run", []any{[]any{OpPut, []byte("k"), []byte("1")}}))
			}
			return one(w.N.DeployTx(w.UC, Signer(2), nil))
		}},
		{"destroy-ub", func(w *World) ([]*transaction.Transaction, error) {
			// UB destroys itself through a call to management (wipes its storage prefix).
			return one(w.URun(1, w.UB, []any{
				[]any{OpPut, []byte("d"), []byte("1")},
				[]any{OpCall, nativehashes.ContractManagement.BytesBE(), "destroy", 15, []any{}},
			}))
		}},
		{"designate-oracle", func(w *World) ([]*transaction.Transaction, error) {
			return one(w.N.CallTx([]neotest.Signer{w.N.Committee}, nativehashes.RoleManagement, "designateAsRole", int64(noderoles.Oracle), []any{Acc(3).PublicKey().Bytes()}))
		}},
		{"designate-notary", func(w *World) ([]*transaction.Transaction, error) {
			return one(w.N.CallTx([]neotest.Signer{w.N.Committee}, nativehashes.RoleManagement, "designateAsRole", int64(noderoles.P2PNotary), []any{Acc(4).PublicKey().Bytes()}))
		}},
		{"designate-notary+use", func(w *World) ([]*transaction.Transaction, error) {
			// first use: designate account 4 as notary node; when a notary is designated already: re-designate
			// account 3 and read the role back through a contract call in the same block
			cur, _, _ := w.N.BC.GetDesignatedByRole(noderoles.P2PNotary)
			who := Acc(4)
			if len(cur) > 0 && cur[0].Equal(Acc(4).PublicKey()) {
				who = Acc(3)
			}
			a, err := w.N.CallTx([]neotest.Signer{w.N.Committee}, nativehashes.RoleManagement, "designateAsRole", int64(noderoles.P2PNotary), []any{who.PublicKey().Bytes()})
			if err != nil {
				return nil, err
			}
			b, err := w.URun(1, w.UA, []any{
				[]any{OpCall, nativehashes.RoleManagement.BytesBE(), "getDesignatedByRole", 15, []any{int64(noderoles.P2PNotary), int64(w.N.Height() + 1)}},
			})
			if err != nil {
				return nil, err
			}
			return []*transaction.Transaction{a, b}, nil
		}},
		{"notary-deposit", func(w *World) ([]*transaction.Transaction, error) {
			return one(w.N.CallTx(s(1), gasH, "transfer", Acc(1).ScriptHash(), nativehashes.Notary, int64(20*gas), []any{nil, int64(w.N.Height() + 50)}))
		}},
		{"gas-to-contract", func(w *World) ([]*transaction.Transaction, error) { // payment callback that writes storage
			return one(w.N.CallTx(s(1), gasH, "transfer", Acc(1).ScriptHash(), w.UA.Hash, int64(gas), []any{[]any{OpPut, []byte("paid"), []byte("1")}, []any{OpNotify, 4}}))
		}},
		{"oracle-request", func(w *World) ([]*transaction.Transaction, error) {
			return one(w.URun(1, w.UA, []any{
				[]any{OpCall, nativehashes.OracleContract.BytesBE(), "request", 15, []any{"https://x.y/z", nil, "other", nil, int64(gas / 10)}},
			}))
		}},
		{"oracle-respond", func(w *World) ([]*transaction.Transaction, error) { // response to the oldest pending request
			return one(OracleRespondTx(w.N))
		}},
		{"max-traceable", func(w *World) ([]*transaction.Transaction, error) {
			return one(w.N.CallTx([]neotest.Signer{w.N.Committee}, pol, "setMaxTraceableBlocks", int64(w.N.BC.GetMaxTraceableBlocks()-1)))
		}},
		{"exec-fee", func(w *World) ([]*transaction.Transaction, error) {
			return one(w.N.CallTx([]neotest.Signer{w.N.Committee}, pol, "setExecFeeFactor", int64(w.N.BC.GetBaseExecFee()/10000+1)))
		}},
	}
}

// TplByName finds templates by name (in the given order).
func TplByName(names ...string) []Tpl {
	all := Templates()
	var out []Tpl
	for _, n := range names {
		found := false
		for _, t := range all {
			if t.Name == n {
				out = append(out, t)
				found = true
			}
		}
		if !found {
			panic("no template " + n)
		}
	}
	return out
}

var (
	_ = manifest.PermissionWildcard
	_ = big.NewInt
	_ = opcode.ABORT
)
