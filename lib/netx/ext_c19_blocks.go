package netx

// C19 extension (round 4): the event "blocks(k)".
//
// EvBlock hands ONE block to a node's ledger and waits for quiescence, so the
// consensus event loop sees every block notification on a turn of its own.
// A node that catches up gets its blocks from the block queue as fast as the
// ledger takes them, while the event loop is busy (inside the dbft.Reset the
// previous block caused, inside a timeout or a payload it is handling): the
// loop then finds SEVERAL notifications when its turn ends and handles only
// the latest one (service.eventLoop, "syncLoop"). That is the only way
// service.handleChainBlock sees a block with Index > dbft.BlockIndex.
//
// Event{K: EvBlocks, N: node, H: first height, P: k, T: shape} hands the blocks
// H..H+k-1 (as submitted by the nodes that committed them) to node N's ledger
// in one event. Determinism needs the loop to be provably busy while the
// blocks land: the node's dbft.Timer (the harness's own manual timer) is
// wrapped for the duration of the event, and the first Now/Reset/Extend call
// the loop makes during the TRIGGER turn blocks until the harness releases it
// ("the callback takes long"). Shapes:
//
//	BlkSeq   k hand-overs, quiescence after each (control; = k EvBlock events)
//	BlkReset trigger = AddBlock(H): the loop is held inside the Reset that
//	         block causes, blocks H+1..H+k-1 (at most two) land, release
//	BlkTimer trigger = the node's armed timer fires: the loop is held inside
//	         the timeout handling, blocks H..H+k-1 (k <= 2) land, release
//	BlkMsg   trigger = the node's pending payloads are delivered in creation
//	         order until one of them is caught in a timer call, then as BlkTimer
//	BlkCommit as BlkMsg, but the trigger is the oldest pending COMMIT of the
//	         height the node's dBFT context works on (payloads overtake each
//	         other): when it is the M-th one the node assembles, in the same
//	         turn, a block that has landed in its ledger meanwhile
//	BlkStart the node's consensus service is shut down and a NEW service is
//	         created and started on the same ledger (validator restart); the k
//	         blocks land INSIDE service.Start, after dbft.Start has initialised
//	         the context (its timer call) and before the event loop subscribes
//	         for blocks - the window eventLoop's "manually sync up with
//	         potentially missed fresh blocks" covers. No channel is involved:
//	         any k.
//
// At most two blocks can land while the loop is held: the ledger's
// notification dispatcher parks the second one in front of the full
// subscription channel (capacity 1) and a third AddBlock would not return. If
// the trigger turn makes no timer call the loop cannot be held; the blocks are
// then handed over one by one (as BlkSeq) and the event is reported degenerate.
//
// Nothing of world.go is changed; the wrapper is installed and removed with
// consensus.VerifSetTimer while the bubble is quiescent (the loop is parked in
// its select; the wrapper delegates everything, C() is the same channel).

import (
	"errors"
	"fmt"
	"sync"
	"testing/synctest"
	"time"

	"github.com/nspcc-dev/dbft"
	"github.com/nspcc-dev/neo-go/pkg/consensus"
	"github.com/nspcc-dev/neo-go/pkg/core"
	"github.com/nspcc-dev/neo-go/pkg/core/block"
	"github.com/nspcc-dev/neo-go/pkg/io"
	npayload "github.com/nspcc-dev/neo-go/pkg/network/payload"
	"github.com/nspcc-dev/neo-go/pkg/util"
	"go.uber.org/zap"

	"verif/lib/chainx"
)

// EvBlocks is the kind of the composite hand-over event (World.ApplyBlocks).
const EvBlocks = "B"

// Shapes of an EvBlocks event (Event.T).
const (
	BlkSeq    = 0
	BlkReset  = 1
	BlkTimer  = 2
	BlkMsg    = 3
	BlkStart  = 4
	BlkCommit = 5
)

// BlkShapeName names a shape.
func BlkShapeName(s int) string {
	switch s {
	case BlkSeq:
		return "seq"
	case BlkReset:
		return "reset"
	case BlkTimer:
		return "timer"
	case BlkMsg:
		return "msg"
	case BlkStart:
		return "start"
	case BlkCommit:
		return "commit"
	}
	return "?"
}

// BlocksString renders an EvBlocks event (Event.String does not know the kind).
func BlocksString(e Event) string {
	return fmt.Sprintf("B%d+%d/%s>%d", e.H, e.P, BlkShapeName(e.T), e.N)
}

// BlocksInfo says how an EvBlocks event went.
type BlocksInfo struct {
	Engaged    bool   // the loop was held while blocks landed
	Where      string // timer call it was held in (Now | Reset | Extend); may depend on dBFT's map-ordered replay of cached messages, not logged
	Landed     int    // blocks that landed while the loop was held
	Degenerate bool   // a held shape that could not hold the loop: blocks were handed over one by one
	Delivered  int    // BlkMsg: payloads delivered as triggers
}

// holdTimer is the node's Timer with a one-shot gate in front of the calls
// dBFT makes from the consensus event loop.
type holdTimer struct {
	*Timer
	hmu     sync.Mutex
	primed  bool
	engaged bool
	where   string
	gate    chan struct{}
	run     func() // BlkStart: executed in place (the caller is the driver itself, inside service.Start)
}

func (h *holdTimer) stop(where string) {
	h.hmu.Lock()
	if !h.primed {
		h.hmu.Unlock()
		return
	}
	h.primed, h.engaged, h.where = false, true, where
	g, run := h.gate, h.run
	h.hmu.Unlock()
	if run != nil {
		run()
		return
	}
	<-g
}

func (h *holdTimer) Now() time.Time { h.stop("Now"); return h.Timer.Now() }
func (h *holdTimer) Reset(height uint32, view byte, d time.Duration) {
	h.stop("Reset")
	h.Timer.Reset(height, view, d)
}
func (h *holdTimer) Extend(d time.Duration) { h.stop("Extend"); h.Timer.Extend(d) }

func (h *holdTimer) isEngaged() bool {
	h.hmu.Lock()
	defer h.hmu.Unlock()
	return h.engaged
}

func (h *holdTimer) disarm() {
	h.hmu.Lock()
	h.primed = false
	h.hmu.Unlock()
}

// submitted returns the block of height h as some node submitted it (the first
// successful submission), nil if there is none.
func (w *World) submitted(h uint32) *Commit {
	w.mu.Lock()
	defer w.mu.Unlock()
	for _, c := range w.Commits {
		if c.Height == h && c.Bytes != nil && (c.Err == "" || c.Exists) {
			return c
		}
	}
	return nil
}

// ApplyBlocks applies an EvBlocks event. Must be called at quiescence.
func (w *World) ApplyBlocks(e Event) (info BlocksInfo, err error) {
	if e.K != EvBlocks {
		return info, fmt.Errorf("event %s: not a blocks event", e)
	}
	if e.N < 0 || e.N >= len(w.Nodes) {
		return info, fmt.Errorf("event %s: no such node", BlocksString(e))
	}
	n := w.Nodes[e.N]
	k := e.P
	switch {
	case n.Silent:
		return info, fmt.Errorf("event %s: receiver is silent", BlocksString(e))
	case k < 1:
		return info, fmt.Errorf("event %s: no blocks", BlocksString(e))
	case e.H != n.C.BC.BlockHeight()+1:
		return info, fmt.Errorf("event %s: the node's ledger is at %d", BlocksString(e), n.C.BC.BlockHeight())
	case e.T == BlkReset && k > 3, (e.T == BlkTimer || e.T == BlkMsg || e.T == BlkCommit) && k > 2:
		return info, fmt.Errorf("event %s: more blocks than can land while the loop is held", BlocksString(e))
	case e.T < BlkSeq || e.T > BlkCommit:
		return info, fmt.Errorf("event %s: unknown shape", BlocksString(e))
	}
	type item struct {
		src *Commit
		b   *block.Block
	}
	var blocks []item
	for h := e.H; h < e.H+uint32(k); h++ {
		src := w.submitted(h)
		if src == nil {
			return info, fmt.Errorf("event %s: nobody has committed block %d", BlocksString(e), h)
		}
		b, derr := chainx.DecodeBlock(src.Bytes, w.S.SRIH)
		if derr != nil {
			return info, fmt.Errorf("block of node %d at %d does not parse: %w", src.Node, h, derr)
		}
		blocks = append(blocks, item{src, b})
	}
	w.Step++
	w.mu.Lock()
	w.Log = append(w.Log, fmt.Sprintf("#%d %s", w.Step, BlocksString(e)))
	w.mu.Unlock()

	var results []string
	add := func(it item) {
		aerr := n.C.BC.AddBlock(it.b)
		res := ""
		if aerr != nil {
			res = aerr.Error()
		}
		results = append(results, fmt.Sprintf("  blocks: AddBlock %d (from node%d) -> %q", it.b.Index, it.src.Node, res))
		if aerr != nil && !errors.Is(aerr, core.ErrAlreadyExists) {
			w.mu.Lock()
			w.Commits = append(w.Commits, &Commit{Node: e.N, Height: it.b.Index, Hash: it.src.Hash, Err: fmt.Sprintf("hand-over from node %d rejected: %v", it.src.Node, aerr), Step: w.Step})
			w.mu.Unlock()
		}
	}
	oneByOne := func(rest []item) {
		for _, it := range rest {
			add(it)
			synctest.Wait()
		}
	}
	finish := func() {
		w.mu.Lock()
		w.Log = append(w.Log, results...)
		w.mu.Unlock()
	}

	if e.T == BlkSeq || n.Dead {
		oneByOne(blocks)
		finish()
		return info, nil
	}

	if e.T == BlkStart {
		// validator restart: the old service ends (its loop unsubscribes), a new
		// one is built exactly as NewWorld builds it
		n.Svc.Shutdown()
		synctest.Wait()
		svc, serr := w.newService(n)
		if serr != nil {
			return info, fmt.Errorf("event %s: %w", BlocksString(e), serr)
		}
		ht := &holdTimer{Timer: n.Timer, primed: true}
		ht.run = func() {
			for _, it := range blocks {
				add(it)
				info.Landed++
			}
		}
		if !consensus.VerifSetTimer(svc, ht) {
			return info, errors.New("VerifSetTimer refused the service")
		}
		w.mu.Lock()
		n.Svc = svc
		n.Wanted = map[string]bool{}
		w.mu.Unlock()
		svc.Start() // dbft.Start -> timer call -> the blocks land -> go eventLoop()
		synctest.Wait()
		consensus.VerifSetTimer(svc, n.Timer)
		if !ht.isEngaged() { // cannot happen for a validator (dbft.Start always arms the timer)
			info.Degenerate = true
			oneByOne(blocks)
		} else {
			info.Engaged, info.Where = true, "Start/"+ht.where
		}
		finish()
		return info, nil
	}

	ht := &holdTimer{Timer: n.Timer, primed: true, gate: make(chan struct{})}
	if !consensus.VerifSetTimer(n.Svc, ht) {
		return info, errors.New("VerifSetTimer refused the service")
	}
	defer consensus.VerifSetTimer(n.Svc, n.Timer) // at quiescence again

	rest := blocks
	switch e.T {
	case BlkReset:
		add(blocks[0])
		rest = blocks[1:]
		synctest.Wait()
	case BlkTimer:
		if a, _, _, _ := n.Timer.Armed(); !a {
			ht.disarm()
			return info, fmt.Errorf("event %s: timer not armed", BlocksString(e))
		}
		n.Timer.fire()
		synctest.Wait()
	case BlkMsg, BlkCommit:
		for !ht.isEngaged() {
			p := -1
			if e.T == BlkCommit {
				p = w.PendingCommit(e.N)
			} else {
				for _, it := range w.PendingSnapshot() {
					if it.K == EvDeliver && it.N == e.N {
						p = it.P
						break
					}
				}
			}
			if p < 0 {
				break
			}
			w.removePending(EvDeliver, p, e.N)
			n.Delivered[p]++
			ext := &npayload.Extensible{}
			br := io.NewBinReaderFromBuf(w.Payloads[p].Bytes)
			ext.DecodeBinary(br)
			if br.Err != nil {
				ht.disarm()
				return info, fmt.Errorf("payload %d does not parse: %w", p, br.Err)
			}
			results = append(results, fmt.Sprintf("  blocks: trigger d%d>%d %s", p, e.N, w.Payloads[p].Desc()))
			info.Delivered++
			if oerr := n.Svc.OnPayload(ext); oerr != nil {
				results = append(results, "  OnPayload error: "+oerr.Error())
			}
			synctest.Wait()
		}
	}
	if !ht.isEngaged() {
		// the trigger turn made no timer call (or there was no trigger): the loop is idle
		ht.disarm()
		info.Degenerate = true
		oneByOne(rest)
		finish()
		return info, nil
	}
	info.Engaged, info.Where = true, ht.where
	// the loop is parked inside a dBFT callback: the blocks land
	for _, it := range rest {
		add(it)
		info.Landed++
	}
	synctest.Wait() // ledger and dispatcher have settled; the loop is still parked
	close(ht.gate)
	synctest.Wait()
	finish()
	return info, nil
}

// PendingCommit returns the oldest pending Commit payload for node n of the
// height n's dBFT context works on (-1: none).
func (w *World) PendingCommit(n int) int { return w.pendingOf(n, dbft.CommitType) }

// PendingRequest is PendingCommit for PrepareRequests.
func (w *World) PendingRequest(n int) int { return w.pendingOf(n, dbft.PrepareRequestType) }

func (w *World) pendingOf(n int, typ dbft.MessageType) int {
	if w.Nodes[n].Dead {
		return -1
	}
	ctx := consensus.VerifContext(w.Nodes[n].Svc)
	if ctx == nil {
		return -1
	}
	for _, it := range w.PendingSnapshot() {
		if it.K == EvDeliver && it.N == n {
			if pl := w.Payloads[it.P]; pl.Type == typ && pl.Height == ctx.BlockIndex {
				return it.P
			}
		}
	}
	return -1
}

// newService builds a consensus service for node n the way NewWorld does.
func (w *World) newService(n *NodeRT) (consensus.Service, error) {
	logger := zap.New(warnCore{w, n.Idx}, zap.WithFatalHook(fatalHook{w, n.Idx}))
	return consensus.NewService(consensus.Config{
		Logger:                logger,
		Broadcast:             func(p *npayload.Extensible) { w.onBroadcast(n, p) },
		Chain:                 n.C.BC,
		BlockQueue:            blockQueue{n},
		ProtocolConfiguration: n.C.BC.GetConfig().ProtocolConfiguration,
		RequestTx:             func(h ...util.Uint256) { w.onRequestTx(n, h) },
		StopTxFlow:            func() { w.onStopTxFlow(n) },
		Wallet:                w.S.Wallets[n.Idx],
	})
}

// CtxHeights returns for every node its ledger height and the height its
// dBFT context works on (0 for a dead service).
func (w *World) CtxHeights() (ledger, ctx []uint32) {
	for _, n := range w.Nodes {
		ledger = append(ledger, n.C.BC.BlockHeight())
		var c uint32
		if !n.Dead {
			if x := consensus.VerifContext(n.Svc); x != nil {
				c = x.BlockIndex
			}
		}
		ctx = append(ctx, c)
	}
	return
}
