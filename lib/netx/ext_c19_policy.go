package netx

import "time"

// DefaultHeld is Default under a partition: pending items for which held
// returns true are passed over (they stay pending: "late"), and no block is
// handed over to a node for which noBlockTo returns true. Everything else is
// the synchronous default policy: due timers, the oldest deliverable pending
// item, a block hand-over to a node that is behind, the earliest armed timer.
// Used by C19's scripted split prefixes (checks/c19/ext_recovery_test.go).
func (w *World) DefaultHeld(held func(Item) bool, noBlockTo func(int) bool) *Event {
	ts := w.armedTimers()
	now := time.Now()
	if len(ts) > 0 && !ts[0].dl.After(now) {
		return &Event{K: EvTimer, N: ts[0].n}
	}
	for _, it := range w.Pending {
		if w.Nodes[it.N].Silent || (held != nil && held(it)) {
			continue
		}
		if it.K == EvTxReq {
			return &Event{K: EvTxReq, T: it.P, N: it.N}
		}
		return &Event{K: EvDeliver, P: it.P, N: it.N}
	}
	for j := range w.Nodes {
		if noBlockTo != nil && noBlockTo(j) {
			continue
		}
		if e := w.handover(j); e != nil {
			return e
		}
	}
	if len(ts) > 0 {
		return &Event{K: EvTimer, N: ts[0].n}
	}
	return nil
}

// PendingSnapshot returns a copy of the pending list (creation order).
func (w *World) PendingSnapshot() []Item {
	w.mu.Lock()
	defer w.mu.Unlock()
	return append([]Item(nil), w.Pending...)
}
