package netx

// Server mode (C19 round 5): the node's consensus service talks to a REAL
// network.Server for "give me these transactions" / "here is a transaction":
//
//	dBFT RequestTx(MissingTransactions...) -> (*network.Server).RequestTx (the very slice dBFT passes)
//	dBFT StopTxFlow()                       -> (*network.Server).StopTxFlow
//	incoming transaction                    -> (*network.Server).handleTxCmd -> txHandlerLoop
//	                                           -> [request list lookup] -> consensus OnTransaction
//	                                           -> verifyAndPoolTX (Ledger.PoolTx)
//
// The Server is created with the public constructor and is never started (no
// transports, no peers: broadcasts are no-ops); ONE txHandlerLoop goroutine is
// started per server. handleTxCmd and txHandlerLoop are unexported and have no
// verif hook yet, they are reached through go:linkname (see
// checks/c19/PROPOSED_HOOK.diff for the hook that would replace the linkname).
//
// Determinism: the consensus callback the Server is given hands the
// transaction to the service and then parks until the driver has seen
// quiescence, so "consensus saw the transaction" happens before "the server
// pools it", as in the model this replaces.

import (
	"fmt"
	"reflect"
	"sort"
	"testing/synctest"
	"unsafe"

	"github.com/nspcc-dev/dbft"
	"github.com/nspcc-dev/neo-go/pkg/config"
	"github.com/nspcc-dev/neo-go/pkg/consensus"
	"github.com/nspcc-dev/neo-go/pkg/core/native/nativehashes"
	"github.com/nspcc-dev/neo-go/pkg/core/transaction"
	"github.com/nspcc-dev/neo-go/pkg/io"
	"github.com/nspcc-dev/neo-go/pkg/neotest"
	"github.com/nspcc-dev/neo-go/pkg/network"
	"github.com/nspcc-dev/neo-go/pkg/util"
	"go.uber.org/zap"

	"verif/lib/chainx"
)

//go:linkname srvHandleTxCmd github.com/nspcc-dev/neo-go/pkg/network.(*Server).handleTxCmd
func srvHandleTxCmd(s *network.Server, tx *transaction.Transaction) error

//go:linkname srvTxHandlerLoop github.com/nspcc-dev/neo-go/pkg/network.(*Server).txHandlerLoop
func srvTxHandlerLoop(s *network.Server)

// SrvDelivery is one transaction handed to a node's Server.
type SrvDelivery struct {
	Step      int
	Node      int
	Tx        string // catalogue name
	Requested bool   // the hash was in the request list the service last gave the server and had not been delivered since
	InList    bool   // the hash was in that list (delivered before or not)
	Pooled    bool   // the node's mempool held it already (the server drops such a transaction unseen)
	Calls     int    // times the consensus callback ran for it
	Entered   bool   // it is in the node's mempool afterwards
}

// srvRequest is the harness's own record of the request in force.
type srvRequest struct {
	Height uint32
	View   byte
	All    []string
	Open   map[string]bool
}

// ServerRT is the real Server in front of one node's consensus service.
type ServerRT struct {
	S          *network.Server
	n          *NodeRT
	gate       chan struct{}
	done       chan struct{}
	parked     bool
	calls      int
	req        *srvRequest
	Requests   int
	Stops      int
	Deliveries []SrvDelivery
	problems   []Problem
}

func (sc Scenario) serverAt(i int) bool {
	for _, x := range sc.Server {
		if x == i {
			return true
		}
	}
	return false
}

func (n *NodeRT) newServer() error {
	cfg := config.Config{ProtocolConfiguration: n.C.BC.GetConfig().ProtocolConfiguration}
	scfg, err := network.NewServerConfig(cfg)
	if err != nil {
		return err
	}
	s, err := network.NewServer(scfg, n.C.BC, n.C.BC.GetStateSyncModule(), zap.NewNop())
	if err != nil {
		return err
	}
	n.Srv = &ServerRT{S: s, n: n, gate: make(chan struct{}), done: make(chan struct{})}
	go func() {
		defer close(n.Srv.done)
		srvTxHandlerLoop(s)
	}()
	return nil
}

// attach registers the service with the server the way cli/server does.
func (r *ServerRT) attach(svc consensus.Service) {
	r.S.AddConsensusService(svc, svc.OnPayload, r.callback)
}

// stop ends the handler loop (what Shutdown does for a started server).
func (r *ServerRT) stop() {
	f := reflect.ValueOf(r.S).Elem().FieldByName("quit")
	if !f.IsValid() {
		return
	}
	ch := *(*chan struct{})(unsafe.Pointer(f.UnsafeAddr()))
	select {
	case <-ch:
	default:
		close(ch)
	}
	<-r.done
}

// callback is the consensus transaction callback given to the server.
func (r *ServerRT) callback(tx *transaction.Transaction) {
	w := r.n.w
	w.mu.Lock()
	r.calls++
	r.parked = true
	dead := r.n.Dead
	w.mu.Unlock()
	if !dead {
		r.n.Svc.OnTransaction(tx)
	}
	<-r.gate
}

// requestTx runs on the service's goroutine: hs IS dBFT's MissingTransactions.
func (r *ServerRT) requestTx(hs []util.Uint256) {
	req := &srvRequest{Open: map[string]bool{}}
	if ctx := consensus.VerifContext(r.n.Svc); ctx != nil {
		req.Height, req.View = ctx.BlockIndex, ctx.ViewNumber
	}
	for _, h := range hs {
		req.All = append(req.All, h.StringLE())
		req.Open[h.StringLE()] = true
	}
	r.S.RequestTx(hs...)
	w := r.n.w
	w.mu.Lock()
	r.req = req
	r.Requests++
	w.mu.Unlock()
}

func (r *ServerRT) stopTxFlow() {
	r.S.StopTxFlow()
	w := r.n.w
	w.mu.Lock()
	r.req = nil
	r.Stops++
	w.mu.Unlock()
}

// srvDeliver hands catalogue transaction ti to node n's server and judges what
// the server did with it.
func (w *World) srvDeliver(n *NodeRT, ti int, tx *transaction.Transaction) {
	r := n.Srv
	h := tx.Hash()
	hs := h.StringLE()
	pool := n.C.BC.GetMemPool()
	w.mu.Lock()
	req := r.req
	requested := req != nil && req.Open[hs]
	inList := false
	if req != nil {
		for _, x := range req.All {
			inList = inList || x == hs
		}
	}
	before := r.calls
	w.mu.Unlock()
	pooled := pool.ContainsKey(h)
	_ = srvHandleTxCmd(r.S, tx)
	synctest.Wait()
	w.mu.Lock()
	parked := r.parked
	r.parked = false
	w.mu.Unlock()
	if parked {
		r.gate <- struct{}{}
		synctest.Wait()
	}
	w.mu.Lock()
	defer w.mu.Unlock()
	d := SrvDelivery{Step: w.Step, Node: n.Idx, Tx: w.S.Txs[ti].Name, Requested: requested, InList: inList, Pooled: pooled, Calls: r.calls - before, Entered: pool.ContainsKey(h)}
	r.Deliveries = append(r.Deliveries, d)
	w.Log = append(w.Log, fmt.Sprintf("  server node%d: %s requested=%v in-list=%v pooled-before=%v consensus-callback=%d pooled-after=%v", n.Idx, d.Tx, d.Requested, d.InList, d.Pooled, d.Calls, d.Entered))
	if n.Dead {
		return
	}
	if requested && !pooled && d.Calls != 1 {
		r.problems = append(r.problems, Problem{"requested-tx", fmt.Sprintf("node %d asked its server for %d transactions %v (height %d, view %d); %s was delivered to the server while the request was in force and reached the consensus service %d times (want exactly once)", n.Idx, len(req.All), shortAll(req.All), req.Height, req.View, d.Tx, d.Calls)})
	}
	if requested && req == r.req {
		delete(req.Open, hs)
		if len(req.Open) == 0 {
			// everything the service asked for has been delivered: it must have
			// answered the proposal (PrepareResponse, or a ChangeView when it
			// rejects the block or had given up before)
			ok := false
			for _, p := range w.Payloads {
				if p.From == n.Idx && p.Height == req.Height && p.View == req.View && (p.Type == dbft.PrepareResponseType || p.Type == dbft.ChangeViewType) {
					ok = true
				}
			}
			if !ok {
				r.problems = append(r.problems, Problem{"requested-response", fmt.Sprintf("node %d asked for %v (height %d, view %d); all of them have been delivered to its server (the last one: %s), yet it has broadcast neither a PrepareResponse nor a ChangeView for that round", n.Idx, shortAll(req.All), req.Height, req.View, d.Tx)})
			}
		}
	}
}

func shortAll(hs []string) []string {
	out := make([]string, len(hs))
	for i, h := range hs {
		out[i] = short(h)
	}
	return out
}

// srvProblems drains the server-mode findings.
func (w *World) srvProblems() []Problem {
	var ps []Problem
	w.mu.Lock()
	defer w.mu.Unlock()
	for _, n := range w.Nodes {
		if n != nil && n.Srv != nil && len(n.Srv.problems) > 0 {
			ps = append(ps, n.Srv.problems...)
			n.Srv.problems = nil
		}
	}
	return ps
}

// SrvStats sums the server-mode counters of the world.
func (w *World) SrvStats() (requests, stops int, ds []SrvDelivery) {
	w.mu.Lock()
	defer w.mu.Unlock()
	for _, n := range w.Nodes {
		if n != nil && n.Srv != nil {
			requests += n.Srv.Requests
			stops += n.Srv.Stops
			ds = append(ds, n.Srv.Deliveries...)
		}
	}
	sort.SliceStable(ds, func(a, b int) bool { return ds[a].Step < ds[b].Step })
	return
}

// PendingTxReqs lists the catalogue indexes node n is still waiting for (in request order).
func (w *World) PendingTxReqs(n int) []int {
	var out []int
	for _, it := range w.Pending {
		if it.K == EvTxReq && it.N == n {
			out = append(out, it.P)
		}
	}
	return out
}

// ---- catalogue of the request family -----------------------------------------------------

// ExtendReqCatalogue adds to a plain N=4 setup (t0..t4), before any world is
// made from it:
//
//	x1..x3  same sender as t1..t3, Conflicts attribute naming it, much higher network fee:
//	        a node that pools x_i refuses t_i (and drops x_i when a block brings t_i)
//	y1..y3  same sender as t1..t3, system fee = nearly the sender's whole balance:
//	        a node that pools y_i cannot pay for t_i as well
//	u0      an unrelated transfer (sender 5)
//
// Every claim is tried on a scratch replica here; a catalogue that does not
// behave as described is an error of the harness.
func ExtendReqCatalogue(s *Setup) error {
	if s.Fam.N != 4 || s.Fam.Lim || s.Fam.Sat || s.Fam.Vote {
		return fmt.Errorf("request catalogue: plain N=4 family expected")
	}
	b, err := chainx.New(chainx.Opts{Multi: true, SRIH: s.SRIH, Proto: s.Proto, Store: s.freshStore()})
	if err != nil {
		return err
	}
	defer b.Close()
	for i := 0; i < 1000; i++ {
		b.Nonce() // keep clear of the nonces the first builder used
	}
	gasH := nativehashes.GasToken
	add := func(name string, from int, amount int64, opts ...chainx.TxOpt) error {
		script := chainx.CallScript(gasH, "transfer", chainx.Acc(from).ScriptHash(), chainx.Acc(6).ScriptHash(), amount, nil)
		tx, err := b.MakeTx(script, []neotest.Signer{chainx.Signer(from)}, opts...)
		if err != nil {
			return fmt.Errorf("tx %s: %w", name, err)
		}
		bw := io.NewBufBinWriter()
		tx.EncodeBinary(bw.BinWriter)
		if bw.Err != nil {
			return bw.Err
		}
		s.txIndex[tx.Hash().StringLE()] = len(s.Txs)
		s.Txs = append(s.Txs, TxSpec{Name: name, Bytes: bw.Bytes(), Hash: tx.Hash().StringLE(), Size: tx.Size(), SysFee: tx.SystemFee})
		return nil
	}
	byName := func(name string) *transaction.Transaction {
		for _, t := range s.Txs {
			if t.Name == name {
				tx, _ := decodeTx(t.Bytes)
				return tx
			}
		}
		return nil
	}
	for i := 1; i <= 3; i++ {
		t := byName(fmt.Sprintf("t%d", i))
		if t == nil {
			return fmt.Errorf("request catalogue: no t%d", i)
		}
		from := i + 1 // t1: account 2, t2: account 3, t3: account 4
		if !t.Sender().Equals(chainx.Acc(from).ScriptHash()) {
			return fmt.Errorf("request catalogue: t%d is not sent by account %d", i, from)
		}
		th := t.Hash()
		if err := add(fmt.Sprintf("x%d", i), from, 7000000+int64(i), func(tx *transaction.Transaction) {
			tx.NetworkFee += 1_0000_0000
			tx.Attributes = append(tx.Attributes, transaction.Attribute{Type: transaction.ConflictsT, Value: &transaction.Conflicts{Hash: th}})
		}); err != nil {
			return err
		}
		bal := b.BC.GetUtilityTokenBalance(chainx.Acc(from).ScriptHash(), util.Uint160{}).Int64()
		if err := add(fmt.Sprintf("y%d", i), from, 8000000+int64(i), chainx.SysFee(bal-500_0000)); err != nil {
			return err
		}
	}
	if err := add("u0", 5, 9000000); err != nil {
		return err
	}
	// the claims
	for i := 1; i <= 3; i++ {
		for _, blocker := range []string{"x", "y"} {
			bn := fmt.Sprintf("%s%d", blocker, i)
			if err := b.BC.PoolTx(byName(bn)); err != nil {
				return fmt.Errorf("request catalogue: %s cannot be pooled: %w", bn, err)
			}
			if err := b.BC.PoolTx(byName(fmt.Sprintf("t%d", i))); err == nil {
				return fmt.Errorf("request catalogue: t%d enters a pool holding %s", i, bn)
			}
			b.BC.GetMemPool().Remove(byName(bn).Hash())
		}
		if err := b.BC.PoolTx(byName(fmt.Sprintf("t%d", i))); err != nil {
			return fmt.Errorf("request catalogue: t%d cannot be pooled on its own: %w", i, err)
		}
	}
	if err := b.BC.PoolTx(byName("u0")); err != nil {
		return fmt.Errorf("request catalogue: u0: %w", err)
	}
	return nil
}
