// empty: lets ext_c19_server.go declare body-less go:linkname functions
