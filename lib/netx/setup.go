package netx

import (
	"crypto/rand"
	"crypto/sha256"
	"fmt"
	"os"
	"path/filepath"
	"sort"
	"sync"

	"github.com/nspcc-dev/neo-go/pkg/config"
	"github.com/nspcc-dev/neo-go/pkg/core/native/nativehashes"
	"github.com/nspcc-dev/neo-go/pkg/core/storage"
	"github.com/nspcc-dev/neo-go/pkg/core/transaction"
	"github.com/nspcc-dev/neo-go/pkg/crypto/keys"
	"github.com/nspcc-dev/neo-go/pkg/io"
	"github.com/nspcc-dev/neo-go/pkg/neotest"
	"github.com/nspcc-dev/neo-go/pkg/smartcontract"
	"github.com/nspcc-dev/neo-go/pkg/wallet"

	"verif/lib/chainx"
)

// constReader replaces crypto/rand.Reader: dBFT draws the block nonce from it,
// a constant makes block hashes a function of content (signing is RFC 6979).
type constReader struct{}

func (constReader) Read(b []byte) (int, error) {
	for i := range b {
		b[i] = 0x5a
	}
	return len(b), nil
}

var randOnce sync.Once

// OwnRandomness installs the constant reader (process-wide, idempotent).
func OwnRandomness() { randOnce.Do(func() { rand.Reader = constReader{} }) }

// Family describes the network a Setup is built for.
type Family struct {
	Name string `json:"name"`
	N    int    `json:"n"`    // validators: 4 (unit-test network, 6 committee members) or 7 (generated keys, 7 committee members)
	Vote bool   `json:"vote"` // preamble ends with a vote and the last block of a committee epoch: the validator set changes during the run
	Sat  bool   `json:"sat"`  // small protocol MaxBlockSystemFee and a catalogue of "big" transactions that saturate it
}

// SatMaxBlockSystemFee is the protocol MaxBlockSystemFee of saturated families (10 GAS).
const SatMaxBlockSystemFee = 10_0000_0000

// TxSpec is one transaction of the catalogue.
type TxSpec struct {
	Name  string
	Bytes []byte
	Hash  string
}

// Setup is everything that is built once per process and family: keys,
// wallet files (tiny scrypt parameters), the preamble ledger snapshot and the
// transaction catalogue. It is immutable after NewSetup.
type Setup struct {
	Fam      Family
	Dir      string
	Proto    func(*config.Blockchain)
	Wallets  []config.Wallet
	Snapshot map[string]string // raw store content after the preamble
	H0       uint32            // height after the preamble
	Txs      []TxSpec
	txIndex  map[string]int
	SRIH     bool
	NextVals []string // validators that sign block H0+1 (compressed keys, dBFT order)
	NewVals  []string // prospective validators after the epoch change (Vote families)
}

const walletPassword = "pw"

func valKey(i int) *keys.PrivateKey {
	seed := sha256.Sum256([]byte(fmt.Sprintf("verif-netx-validator-%d", i)))
	pk, err := keys.NewPrivateKeyFromBytes(seed[:])
	if err != nil {
		panic(err)
	}
	return pk
}

func multisigAccounts(m int, privs []*keys.PrivateKey) []*wallet.Account {
	pubs := make(keys.PublicKeys, len(privs))
	for i, p := range privs {
		pubs[i] = p.PublicKey()
	}
	sort.Sort(pubs)
	var out []*wallet.Account
	for _, p := range privs {
		a := wallet.NewAccountFromPrivateKey(p)
		if err := a.ConvertMultisig(m, pubs); err != nil {
			panic(err)
		}
		out = append(out, a)
	}
	return out
}

// NewSetup builds the family's preamble on a builder replica (outside any
// bubble) and writes the wallet files into dir.
func NewSetup(fam Family, dir string) (*Setup, error) {
	OwnRandomness()
	s := &Setup{Fam: fam, Dir: dir, txIndex: map[string]int{}}
	var privs []*keys.PrivateKey // validator keys
	switch fam.N {
	case 4:
		// the unit-test network as it is, except the mempool capacity (50000
		// preallocated slots per replica are the main cost of creating one)
		s.Proto = func(c *config.Blockchain) {
			c.MemPoolSize = 64
			if fam.Sat {
				c.MaxBlockSystemFee = SatMaxBlockSystemFee
			}
		}
	case 7:
		var hexes []string
		for i := 0; i < 7; i++ {
			pk := valKey(i)
			privs = append(privs, pk)
			hexes = append(hexes, pk.PublicKey().StringCompressed())
		}
		s.Proto = func(c *config.Blockchain) {
			c.StandbyCommittee = hexes
			c.ValidatorsCount = 7
			c.MemPoolSize = 64
		}
	default:
		return nil, fmt.Errorf("unsupported validator count %d", fam.N)
	}
	b, err := chainx.New(chainx.Opts{Multi: true, Proto: s.Proto})
	if err != nil {
		return nil, fmt.Errorf("builder: %w", err)
	}
	defer b.Close()
	if fam.N == 4 {
		ms := b.Validator.(neotest.MultiSigner)
		for i := 0; i < 4; i++ {
			privs = append(privs, ms.Single(i).Account().PrivateKey())
		}
	} else {
		b.Validator = neotest.NewMultiSigner(multisigAccounts(smartcontract.GetDefaultHonestNodeCount(7), privs)...)
		b.Committee = neotest.NewMultiSigner(multisigAccounts(smartcontract.GetMajorityHonestNodeCount(7), privs)...)
		b.E = neotest.NewExecutor(b.TB, b.BC, b.Validator, b.Committee)
		for _, p := range privs {
			chainx.RegisterKey(wallet.NewAccountFromPrivateKey(p))
		}
	}
	var w *chainx.World
	if err := chainx.Try(func() {
		var e error
		if w, e = chainx.BuildPreamble(b, 0); e != nil {
			panic(chainx.Failure{Msg: e.Error()})
		}
	}); err != nil {
		return nil, fmt.Errorf("preamble: %w", err)
	}
	if fam.Vote {
		// Block 4: account 1 (30M NEO) votes for candidate 1; block 5 is the last
		// block of the committee epoch (6 members): its PostPersist recomputes
		// the validators, so block 6 (the first one made by consensus) must name
		// the NEW validators in NextConsensus and block 7 is signed by them.
		tx, err := b.CallTx([]neotest.Signer{chainx.Signer(1)}, nativehashes.NeoToken, "vote", chainx.Acc(1).ScriptHash(), chainx.Acc(1).PublicKey().Bytes())
		if err != nil {
			return nil, err
		}
		if _, err := b.AddBlock(tx); err != nil {
			return nil, fmt.Errorf("vote block: %w", err)
		}
		if err := b.CheckHalt(tx.Hash()); err != nil {
			return nil, err
		}
		for b.BC.BlockHeight()%6 != 5 {
			if _, err := b.AddBlock(); err != nil {
				return nil, err
			}
		}
	}
	_ = w
	s.H0 = b.BC.BlockHeight()
	vals, err := b.BC.GetNextBlockValidators()
	if err != nil {
		return nil, err
	}
	byPub := map[string]*keys.PrivateKey{}
	for _, p := range privs {
		byPub[p.PublicKey().StringCompressed()] = p
	}
	for i := 1; i <= 6; i++ {
		byPub[chainx.Acc(i).PublicKey().StringCompressed()] = chainx.Acc(i).PrivateKey()
	}
	if len(vals) != fam.N {
		return nil, fmt.Errorf("expected %d validators, ledger has %d", fam.N, len(vals))
	}
	newVals := b.BC.ComputeNextBlockValidators()
	for _, v := range vals {
		s.NextVals = append(s.NextVals, v.StringCompressed())
	}
	for _, v := range newVals {
		s.NewVals = append(s.NewVals, v.StringCompressed())
	}
	// Wallet of node i: the key of validator i (dBFT order at H0+1) and, when
	// the validator set is going to change, the key of the i-th new validator.
	for i, v := range vals {
		pk := byPub[v.StringCompressed()]
		if pk == nil {
			return nil, fmt.Errorf("no private key for validator %d", i)
		}
		path := filepath.Join(dir, fmt.Sprintf("%s-wallet%d.json", fam.Name, i))
		_ = os.Remove(path)
		wl, err := wallet.NewWallet(path)
		if err != nil {
			return nil, err
		}
		wl.Scrypt = keys.ScryptParams{N: 2, R: 1, P: 1}
		add := func(pk *keys.PrivateKey) error {
			a := wallet.NewAccountFromPrivateKey(pk)
			if err := a.Encrypt(walletPassword, wl.Scrypt); err != nil {
				return err
			}
			wl.AddAccount(a)
			return nil
		}
		if err := add(pk); err != nil {
			return nil, err
		}
		if i < len(newVals) && newVals[i].StringCompressed() != v.StringCompressed() {
			if npk := byPub[newVals[i].StringCompressed()]; npk != nil {
				dup := false
				for _, x := range vals {
					if x.Equal(newVals[i]) {
						dup = true // stays with its present node
					}
				}
				if !dup {
					if err := add(npk); err != nil {
						return nil, err
					}
				}
			}
		}
		if err := wl.Save(); err != nil {
			return nil, err
		}
		s.Wallets = append(s.Wallets, config.Wallet{Path: path, Password: walletPassword})
	}
	// Transaction catalogue (built on the builder, valid until H0+5).
	gasH := nativehashes.GasToken
	mk := func(name string, from, to int, amount int64, opts ...chainx.TxOpt) error {
		tx, err := b.MakeTx(chainx.CallScript(gasH, "transfer", chainx.Acc(from).ScriptHash(), chainx.Acc(to).ScriptHash(), amount, nil), []neotest.Signer{chainx.Signer(from)}, opts...)
		if err != nil {
			return fmt.Errorf("tx %s: %w", name, err)
		}
		bw := io.NewBufBinWriter()
		tx.EncodeBinary(bw.BinWriter)
		if bw.Err != nil {
			return bw.Err
		}
		s.txIndex[tx.Hash().StringLE()] = len(s.Txs)
		s.Txs = append(s.Txs, TxSpec{Name: name, Bytes: bw.Bytes(), Hash: tx.Hash().StringLE()})
		return nil
	}
	if fam.Sat {
		// Two "big" transactions whose system fees together cross the block
		// limit by one unit, and one small high-priority transaction per
		// validator (extra network fee: they sort before the big ones).
		big := chainx.SysFee(SatMaxBlockSystemFee/2 + 1)
		if err := mk("bigA", 1, 2, 100000000, big); err != nil {
			return nil, err
		}
		if err := mk("bigB", 2, 3, 100000000, big); err != nil {
			return nil, err
		}
		for i := 0; i < fam.N; i++ {
			if err := mk(fmt.Sprintf("s%d", i), 3+i, 1, 1000000, func(t *transaction.Transaction) { t.NetworkFee += 50000000 }); err != nil {
				return nil, err
			}
		}
	} else {
		if err := mk("t0", 1, 2, 300000000); err != nil {
			return nil, err
		}
		if err := mk("t1", 2, 3, 200000000); err != nil {
			return nil, err
		}
		if err := mk("t2", 3, 1, 100000000); err != nil {
			return nil, err
		}
		if err := mk("t3", 4, 1, 100000000); err != nil {
			return nil, err
		}
		// t4 conflicts with t0 (Conflicts attribute, other sender, higher fee).
		t0h, _ := transactionHash(s.Txs[0].Bytes)
		if err := mk("t4", 5, 1, 100000000, func(t *transaction.Transaction) {
			t.Attributes = append(t.Attributes, transaction.Attribute{Type: transaction.ConflictsT, Value: &transaction.Conflicts{Hash: t0h}})
		}); err != nil {
			return nil, err
		}
	}
	if err := b.Persist(); err != nil {
		return nil, err
	}
	s.Snapshot = chainx.DumpMap(b.Store)
	return s, nil
}

// TxIndex returns the catalogue index of a transaction hash (LE string), -1 if unknown.
func (s *Setup) TxIndex(h string) int {
	if i, ok := s.txIndex[h]; ok {
		return i
	}
	return -1
}

// freshStore returns a new MemoryStore holding the preamble snapshot.
func (s *Setup) freshStore() *storage.MemoryStore {
	m := storage.NewMemoryStore()
	puts := make(map[string][]byte, len(s.Snapshot))
	stor := map[string][]byte{}
	for k, v := range s.Snapshot {
		val := []byte(v) // fresh copy per replica
		if len(k) > 0 && (k[0] == byte(storage.STStorage) || k[0] == byte(storage.STTempStorage)) {
			stor[k] = val
		} else {
			puts[k] = val
		}
	}
	_ = m.PutChangeSet(puts, stor)
	return m
}
