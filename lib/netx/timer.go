// Package netx is Engine N: a message-level explorer harness for the real
// consensus service. N real consensus.Service instances run on N real
// Blockchains inside ONE testing/synctest bubble; every transition hands
// exactly one environment event (payload delivery, timer, transaction relay,
// block hand-over, silence) to the real code and then waits for quiescence
// (synctest.Wait). All sources of nondeterminism are owned by the harness:
// time (manual dbft.Timer, bubble clock), crypto/rand (constant reader),
// delivery order (explicit pending list).
package netx

import (
	"sync"
	"time"
)

// Timer is the manual dbft.Timer of one node. Now() is the bubble clock plus
// the node's skew; the clock only advances when the harness sleeps inside the
// bubble (Fire does, up to the deadline). Reset/Extend only record the armed
// deadline; the channel is written by the harness when it CHOOSES the event
// "timer of node j fires".
type Timer struct {
	mu     sync.Mutex
	skew   time.Duration
	ch     chan time.Time
	height uint32
	view   byte
	start  time.Time // node-local time of the last Reset
	d      time.Duration
	armed  bool
	resets int
}

func newTimer(skew time.Duration) *Timer {
	return &Timer{skew: skew, ch: make(chan time.Time, 1)}
}

// Now implements dbft.Timer.
func (t *Timer) Now() time.Time { return time.Now().Add(t.skew) }

// Reset implements dbft.Timer.
func (t *Timer) Reset(height uint32, view byte, d time.Duration) {
	t.mu.Lock()
	defer t.mu.Unlock()
	select {
	case <-t.ch:
	default:
	}
	t.height, t.view = height, view
	t.start = t.Now()
	t.d = d
	t.armed = true
	t.resets++
}

// Extend implements dbft.Timer (same re-arming rule as the default timer: the
// timer runs again if the extended deadline is still ahead).
func (t *Timer) Extend(d time.Duration) {
	t.mu.Lock()
	defer t.mu.Unlock()
	t.d += d
	if t.start.Add(t.d).After(t.Now()) {
		t.armed = true
	}
}

// Sleep never blocks real time (newer dbft.Timer versions have it).
func (t *Timer) Sleep(d time.Duration) {}

// Height implements dbft.Timer.
func (t *Timer) Height() uint32 { t.mu.Lock(); defer t.mu.Unlock(); return t.height }

// View implements dbft.Timer.
func (t *Timer) View() byte { t.mu.Lock(); defer t.mu.Unlock(); return t.view }

// C implements dbft.Timer.
func (t *Timer) C() <-chan time.Time { return t.ch }

// Armed returns whether the timer is armed and its deadline on the GLOBAL
// (bubble) clock.
func (t *Timer) Armed() (bool, time.Time, uint32, byte) {
	t.mu.Lock()
	defer t.mu.Unlock()
	return t.armed, t.start.Add(t.d).Add(-t.skew), t.height, t.view
}

// fire advances the bubble clock to the deadline (if it is ahead) and hands
// the tick to the service. Must be called by the driver at quiescence.
func (t *Timer) fire() {
	t.mu.Lock()
	dl := t.start.Add(t.d).Add(-t.skew)
	t.armed = false
	t.mu.Unlock()
	if now := time.Now(); dl.After(now) {
		time.Sleep(dl.Sub(now)) // bubble time: returns at once in real time
	}
	select {
	case <-t.ch:
	default:
	}
	t.ch <- t.Now()
}
