package netx

import (
	"bytes"
	"crypto/sha256"
	"encoding/hex"
	"errors"
	"fmt"
	"runtime"
	"sort"
	"strings"
	"sync"
	"testing/synctest"
	"time"

	"github.com/nspcc-dev/dbft"
	"github.com/nspcc-dev/neo-go/pkg/consensus"
	"github.com/nspcc-dev/neo-go/pkg/core"
	"github.com/nspcc-dev/neo-go/pkg/core/block"
	"github.com/nspcc-dev/neo-go/pkg/core/transaction"
	"github.com/nspcc-dev/neo-go/pkg/io"
	npayload "github.com/nspcc-dev/neo-go/pkg/network/payload"
	"github.com/nspcc-dev/neo-go/pkg/smartcontract"
	"github.com/nspcc-dev/neo-go/pkg/util"
	"go.uber.org/zap"
	"go.uber.org/zap/zapcore"

	"verif/lib/chainx"
)

// Scenario is the per-replay configuration on top of a Setup.
type Scenario struct {
	Name    string           `json:"name"`
	Family  string           `json:"family"`
	Heights int              `json:"heights"` // blocks to produce past the preamble
	Skew    []time.Duration  `json:"skew"`    // per node clock skew (nil = none)
	TxAt    map[string][]int `json:"tx_at"`   // catalogue tx name -> nodes whose mempool holds it before the services start
	Pad     int              `json:"pad"`     // empty blocks added to every ledger before the services start (slides the primary)
	Server  []int            `json:"server,omitempty"` // nodes whose service talks to a real network.Server for transaction requests (ext_c19_server.go)
}

// Event kinds.
const (
	EvDeliver = "d" // deliver pending payload P to node N
	EvDrop    = "x" // lose pending payload P for node N
	EvDup     = "u" // deliver already delivered payload P to node N once more
	EvTimer   = "t" // fire the armed timer of node N
	EvTxReq   = "q" // answer node N's request for catalogue transaction T
	EvGossip  = "g" // relay catalogue transaction T to node N unasked
	EvBlock   = "b" // hand the block of height H committed by node T to node N's ledger
	EvSilence = "s" // silence node N
	EvResume  = "r" // un-silence node N
)

// Event is one environment event.
type Event struct {
	K string `json:"k"`
	P int    `json:"p,omitempty"`
	N int    `json:"n"`
	T int    `json:"t,omitempty"`
	H uint32 `json:"h,omitempty"`
}

func (e Event) String() string {
	switch e.K {
	case EvDeliver, EvDrop, EvDup:
		return fmt.Sprintf("%s%d>%d", e.K, e.P, e.N)
	case EvTimer, EvSilence, EvResume:
		return fmt.Sprintf("%s%d", e.K, e.N)
	case EvTxReq, EvGossip:
		return fmt.Sprintf("%s%d>%d", e.K, e.T, e.N)
	case EvBlock:
		return fmt.Sprintf("b%d.%d>%d", e.H, e.T, e.N)
	}
	return "?"
}

// Owner is the node whose local event sequence the event belongs to.
func (e Event) Owner() int { return e.N }

// Payload is one broadcast consensus payload as the harness saw it.
type Payload struct {
	ID       int
	From     int
	Bytes    []byte // wire bytes of the Extensible
	Type     dbft.MessageType
	Height   uint32
	View     byte
	VIdx     uint16
	TxHashes []string // PrepareRequest only
	PoolSnap []string // PrepareRequest only: the sender's verified mempool when it proposed (sorted)
	Expect   []string // PrepareRequest only: the limit-respecting prefix of that mempool in priority order (what a view-0 proposal must be)
	PoolFee  int64    // total system fee of TxHashes as found in the sender's pool (-1: some proposed tx is not pooled)
	Digest   string   // abstract digest (no timestamps/signatures)
	Lost     bool     // sender was silent
}

func (p *Payload) Desc() string {
	return fmt.Sprintf("p%d:%s/h%d/v%d/from%d", p.ID, p.Type, p.Height, p.View, p.From)
}

// Item is one pending delivery.
type Item struct {
	K string // EvDeliver | EvTxReq
	P int    // payload id or tx index
	N int    // receiver
}

// Commit is one block a service handed to its block queue.
type Commit struct {
	Node   int
	Height uint32
	Hash   string
	Bytes  []byte
	Err    string // AddBlock result on the node's own ledger
	Exists bool   // the error was ErrAlreadyExists
	Txs    []string
	Prim   byte
	Step   int
}

// NodeRT is one validator: ledger, service, timer and harness-side bookkeeping.
type NodeRT struct {
	Idx       int
	C         *chainx.Node
	Svc       consensus.Service
	Timer     *Timer
	Silent    bool
	Dead      bool            // the service logged a fatal error
	Delivered map[int]int     // payload id -> deliveries
	Wanted    map[string]bool // transaction hashes the service asked for
	Srv       *ServerRT       // server mode (ext_c19_server.go); nil: the Wanted model stands in for the server
	w         *World
}

// World is one execution: N nodes inside the current bubble.
type World struct {
	S        *Setup
	Sc       Scenario
	Nodes    []*NodeRT
	Payloads []*Payload
	Pending  []Item
	Commits  []*Commit
	Log      []string // deterministic event log (for the replay-twice self-check)
	Warns    []string
	Fatals   []string
	Step     int
	mu       sync.Mutex
	cur      int // node whose event is being processed (-1: none)
	newFrom  int // index into Commits not yet checked
	verified map[string]bool
}

// fatalHook turns zap Fatal (os.Exit in production) into a recorded fatal and
// the end of the logging goroutine.
type fatalHook struct {
	w *World
	n int
}

func (h fatalHook) OnWrite(ce *zapcore.CheckedEntry, _ []zapcore.Field) {
	h.w.mu.Lock()
	h.w.Fatals = append(h.w.Fatals, fmt.Sprintf("node%d: %s", h.n, ce.Message))
	if h.n < len(h.w.Nodes) && h.w.Nodes[h.n] != nil {
		h.w.Nodes[h.n].Dead = true
	}
	h.w.mu.Unlock()
	runtime.Goexit()
}

// warnCore records Warn+ messages (message text only).
type warnCore struct {
	w *World
	n int
}

func (c warnCore) Enabled(l zapcore.Level) bool      { return l >= zapcore.WarnLevel }
func (c warnCore) With([]zapcore.Field) zapcore.Core { return c }
func (c warnCore) Check(e zapcore.Entry, ce *zapcore.CheckedEntry) *zapcore.CheckedEntry {
	if c.Enabled(e.Level) {
		return ce.AddCore(e, c)
	}
	return ce
}
func (c warnCore) Write(e zapcore.Entry, _ []zapcore.Field) error {
	c.w.mu.Lock()
	if len(c.w.Warns) < 400 {
		c.w.Warns = append(c.w.Warns, fmt.Sprintf("node%d: %s: %s", c.n, e.Level, e.Message))
	}
	c.w.mu.Unlock()
	return nil
}
func (c warnCore) Sync() error { return nil }

type blockQueue struct {
	n *NodeRT
}

// Put is what the block queue + ledger do with a block the service assembled:
// add it to the node's own ledger. The call and its result are recorded.
func (q blockQueue) Put(b *block.Block) error {
	w := q.n.w
	bb, berr := chainx.BlockBytes(b)
	err := q.n.C.BC.AddBlock(b)
	c := &Commit{Node: q.n.Idx, Height: b.Index, Hash: b.Hash().StringLE(), Bytes: bb, Prim: b.PrimaryIndex, Step: w.Step}
	for _, tx := range b.Transactions {
		c.Txs = append(c.Txs, tx.Hash().StringLE())
	}
	if berr != nil {
		c.Err = "serialise: " + berr.Error()
	} else if err != nil {
		c.Err = err.Error()
		c.Exists = errors.Is(err, core.ErrAlreadyExists)
	}
	w.mu.Lock()
	w.Commits = append(w.Commits, c)
	w.Log = append(w.Log, fmt.Sprintf("  commit node%d h%d %s txs=%d err=%q", c.Node, c.Height, c.Hash[:12], len(c.Txs), c.Err))
	w.mu.Unlock()
	return err
}

// Base time of every execution: the bubble clock starts at 2000-01-01, the
// unit-test genesis block is from 2016; sleep (in bubble time) past it so that
// block timestamps come from the clock.
const baseShift = 24 * 365 * 24 * time.Hour

// NewWorld creates the nodes and starts the services. Must be called inside a
// synctest bubble. The caller must Close the world before the bubble ends.
func NewWorld(s *Setup, sc Scenario) (w *World, err error) {
	w = &World{S: s, Sc: sc, cur: -1}
	time.Sleep(baseShift)
	w.Nodes = make([]*NodeRT, s.Fam.N)
	for i := 0; i < s.Fam.N; i++ {
		c, e := chainx.New(chainx.Opts{Multi: true, SRIH: s.SRIH, Proto: s.Proto, Store: s.freshStore()})
		if e != nil {
			w.Close()
			return nil, fmt.Errorf("node %d: %w", i, e)
		}
		if c.BC.BlockHeight() != s.H0 {
			w.Close()
			return nil, fmt.Errorf("node %d: height %d after restore, want %d", i, c.BC.BlockHeight(), s.H0)
		}
		for k := 0; k < sc.Pad && k < len(s.Pads); k++ {
			pb, e := chainx.DecodeBlock(s.Pads[k], s.SRIH)
			if e == nil {
				e = c.BC.AddBlock(pb)
			}
			if e != nil {
				c.Close()
				w.Close()
				return nil, fmt.Errorf("node %d: pad block %d: %w", i, k, e)
			}
		}
		var skew time.Duration
		if i < len(sc.Skew) {
			skew = sc.Skew[i]
		}
		w.Nodes[i] = &NodeRT{Idx: i, C: c, Timer: newTimer(skew), Delivered: map[int]int{}, Wanted: map[string]bool{}, w: w}
		if sc.serverAt(i) {
			if e := w.Nodes[i].newServer(); e != nil {
				w.Close()
				return nil, fmt.Errorf("node %d: network server: %w", i, e)
			}
		}
	}
	// initial mempool contents (they differ between nodes)
	names := make([]string, 0, len(sc.TxAt))
	for k := range sc.TxAt {
		names = append(names, k)
	}
	sort.Strings(names)
	for _, name := range names {
		ti := -1
		for i, t := range s.Txs {
			if t.Name == name {
				ti = i
			}
		}
		if ti < 0 {
			w.Close()
			return nil, fmt.Errorf("no catalogue transaction %q", name)
		}
		for _, n := range sc.TxAt[name] {
			if n >= len(w.Nodes) {
				continue
			}
			tx, e := decodeTx(s.Txs[ti].Bytes)
			if e != nil {
				w.Close()
				return nil, e
			}
			if e := w.Nodes[n].C.BC.PoolTx(tx); e != nil {
				w.Close()
				return nil, fmt.Errorf("initial pool %s at node %d: %w", name, n, e)
			}
		}
	}
	for i, n := range w.Nodes {
		logger := zap.New(warnCore{w, i}, zap.WithFatalHook(fatalHook{w, i}))
		nn := n
		svc, e := consensus.NewService(consensus.Config{
			Logger:                logger,
			Broadcast:             func(p *npayload.Extensible) { w.onBroadcast(nn, p) },
			Chain:                 n.C.BC,
			BlockQueue:            blockQueue{n},
			ProtocolConfiguration: n.C.BC.GetConfig().ProtocolConfiguration,
			RequestTx:             func(h ...util.Uint256) { w.onRequestTx(nn, h) },
			StopTxFlow:            func() { w.onStopTxFlow(nn) },
			Wallet:                s.Wallets[i],
		})
		if e != nil {
			w.Close()
			return nil, fmt.Errorf("service %d: %w", i, e)
		}
		if !consensus.VerifSetTimer(svc, n.Timer) {
			w.Close()
			return nil, errors.New("VerifSetTimer refused the service")
		}
		n.Svc = svc
		if n.Srv != nil {
			n.Srv.attach(svc)
		}
	}
	for i, n := range w.Nodes {
		w.cur = i
		w.Log = append(w.Log, fmt.Sprintf("start node%d", i))
		n.Svc.Start()
		synctest.Wait()
	}
	w.cur = -1
	return w, nil
}

// Close stops services and ledgers (all their goroutines end, which the bubble requires).
func (w *World) Close() {
	for _, n := range w.Nodes {
		if n == nil {
			continue
		}
		if n.Svc != nil && !n.Dead {
			n.Svc.Shutdown()
		}
		if n.Srv != nil {
			n.Srv.stop()
		}
		if n.C != nil {
			n.C.Close()
		}
	}
}

func decodeTx(b []byte) (*transaction.Transaction, error) {
	return transaction.NewTransactionFromBytes(bytes.Clone(b))
}

func transactionHash(b []byte) (util.Uint256, error) {
	tx, err := decodeTx(b)
	if err != nil {
		return util.Uint256{}, err
	}
	return tx.Hash(), nil
}

// ---- callbacks from the services (run in service goroutines) ---------------------

func (w *World) onBroadcast(n *NodeRT, ep *npayload.Extensible) {
	bw := io.NewBufBinWriter()
	ep.EncodeBinary(bw.BinWriter)
	p := &Payload{From: n.Idx, Bytes: bytes.Clone(bw.Bytes())}
	cfg := n.C.BC.GetConfig()
	cp := consensus.NewPayload(cfg.Magic, cfg.StateRootInHeader)
	br := io.NewBinReaderFromBuf(p.Bytes)
	cp.DecodeBinary(br)
	if br.Err != nil {
		w.mu.Lock()
		w.Fatals = append(w.Fatals, fmt.Sprintf("node%d broadcast a payload that does not parse: %v", n.Idx, br.Err))
		w.mu.Unlock()
		return
	}
	p.Type, p.Height, p.View, p.VIdx = cp.Type(), cp.Height(), cp.ViewNumber(), cp.ValidatorIndex()
	abstract := fmt.Sprintf("%d/%d/%d/%d", p.Type, p.Height, p.View, p.From)
	switch p.Type {
	case dbft.PrepareRequestType:
		for _, h := range cp.GetPrepareRequest().TransactionHashes() {
			p.TxHashes = append(p.TxHashes, h.StringLE())
		}
		ordered := n.C.BC.GetMemPool().GetVerifiedTransactions() // priority order
		fees := map[string]int64{}
		for _, tx := range ordered {
			p.PoolSnap = append(p.PoolSnap, tx.Hash().StringLE())
			fees[tx.Hash().StringLE()] = tx.SystemFee
		}
		sort.Strings(p.PoolSnap)
		// Independent statement of the packing policy: at most
		// MaxTransactionsPerBlock transactions in priority order, stopping BEFORE
		// the first one that would take the block over MaxBlockSize or
		// MaxBlockSystemFee.
		if cfg.MaxTransactionsPerBlock != 0 && len(ordered) > int(cfg.MaxTransactionsPerBlock) {
			ordered = ordered[:cfg.MaxTransactionsPerBlock]
		}
		vals, _ := n.C.BC.GetNextBlockValidators()
		verif, _ := smartcontract.CreateDefaultMultiSigRedeemScript(vals)
		hdr := &block.Block{Header: block.Header{StateRootEnabled: cfg.StateRootInHeader, Script: transaction.Witness{
			InvocationScript:   make([]byte, 66*smartcontract.GetDefaultHonestNodeCount(len(vals))),
			VerificationScript: verif,
		}}}
		size := uint32(hdr.GetExpectedBlockSizeWithoutTransactions(len(ordered)))
		var fee int64
		p.Expect = []string{}
		for _, tx := range ordered {
			if size+uint32(tx.Size()) > cfg.MaxBlockSize || fee+tx.SystemFee > cfg.MaxBlockSystemFee {
				break
			}
			size += uint32(tx.Size())
			fee += tx.SystemFee
			p.Expect = append(p.Expect, tx.Hash().StringLE())
		}
		for _, h := range p.TxHashes {
			if f, ok := fees[h]; ok && p.PoolFee >= 0 {
				p.PoolFee += f
			} else {
				p.PoolFee = -1
			}
		}
		abstract += "/" + strings.Join(p.TxHashes, ",")
	case dbft.ChangeViewType:
		abstract += fmt.Sprintf("/nv%d/%d", cp.GetChangeView().NewViewNumber(), cp.GetChangeView().Reason())
	case dbft.RecoveryMessageType:
		// content = what the sender knew; summarised by size (signatures inside differ only with block content)
		abstract += fmt.Sprintf("/len%d", len(p.Bytes))
	}
	p.Digest = abstract
	w.mu.Lock()
	defer w.mu.Unlock()
	p.ID = len(w.Payloads)
	p.Lost = n.Silent
	w.Payloads = append(w.Payloads, p)
	lost := ""
	if p.Lost {
		lost = " LOST(silent sender)"
	}
	w.Log = append(w.Log, fmt.Sprintf("  out %s%s", p.Desc(), lost))
	if p.Lost {
		return
	}
	for j := range w.Nodes {
		if j != n.Idx {
			w.Pending = append(w.Pending, Item{K: EvDeliver, P: p.ID, N: j})
		}
	}
}

func (w *World) onRequestTx(n *NodeRT, hs []util.Uint256) {
	if n.Srv != nil {
		n.Srv.requestTx(hs) // the real Server gets the very slice dBFT passed
	}
	w.mu.Lock()
	defer w.mu.Unlock()
	n.Wanted = map[string]bool{}
	for _, h := range hs {
		s := h.StringLE()
		n.Wanted[s] = true
		ti := w.S.TxIndex(s)
		w.Log = append(w.Log, fmt.Sprintf("  node%d requests tx %s (catalogue %d)", n.Idx, s[:12], ti))
		if ti < 0 {
			continue
		}
		dup := false
		for _, it := range w.Pending {
			if it.K == EvTxReq && it.P == ti && it.N == n.Idx {
				dup = true
			}
		}
		if !dup {
			w.Pending = append(w.Pending, Item{K: EvTxReq, P: ti, N: n.Idx})
		}
	}
}

func (w *World) onStopTxFlow(n *NodeRT) {
	if n.Srv != nil {
		n.Srv.stopTxFlow()
	}
	w.mu.Lock()
	n.Wanted = map[string]bool{}
	w.mu.Unlock()
}

// ---- enabled events and the default (synchronous) policy -----------------------------

// MaxCommitted returns for height h a node that handed that block to its queue
// or has it in its ledger (-1 if none).
func (w *World) blockSource(h uint32) int {
	for _, c := range w.Commits {
		if c.Height == h && (c.Err == "" || c.Exists) {
			return c.Node
		}
	}
	return -1
}

// Heights returns min (over non-silent nodes), max (over all nodes) ledger heights.
func (w *World) Heights() (minH, maxH uint32) {
	minH = ^uint32(0)
	for _, n := range w.Nodes {
		h := n.C.BC.BlockHeight()
		if h > maxH {
			maxH = h
		}
		if !n.Silent && h < minH {
			minH = h
		}
	}
	return
}

// AnySilent reports whether some node is silenced.
func (w *World) AnySilent() bool {
	for _, n := range w.Nodes {
		if n.Silent {
			return true
		}
	}
	return false
}

func (w *World) silentCount() int {
	c := 0
	for _, n := range w.Nodes {
		if n.Silent {
			c++
		}
	}
	return c
}

// handover returns the block hand-over event enabled for node j, if any.
func (w *World) handover(j int) *Event {
	n := w.Nodes[j]
	if n.Silent {
		return nil
	}
	h := n.C.BC.BlockHeight() + 1
	if src := w.blockSource(h); src >= 0 && src != j {
		return &Event{K: EvBlock, N: j, T: src, H: h}
	}
	return nil
}

type armedTimer struct {
	n  int
	dl time.Time
}

func (w *World) armedTimers() []armedTimer {
	var ts []armedTimer
	for _, n := range w.Nodes {
		if n.Dead {
			continue
		}
		if a, dl, _, _ := n.Timer.Armed(); a {
			ts = append(ts, armedTimer{n.Idx, dl})
		}
	}
	sort.SliceStable(ts, func(a, b int) bool { return ts[a].dl.Before(ts[b].dl) })
	return ts
}

// Default returns the event the synchronous default schedule takes next:
// timers that are already due (deadline <= clock; this is how a zero-delay
// timer behaves), else the oldest pending delivery whose receiver is not
// silent (creation order, receivers in index order), else a block hand-over
// to a node that is behind, else the armed timer with the earliest deadline.
// nil = nothing is enabled.
func (w *World) Default() *Event {
	ts := w.armedTimers()
	now := time.Now()
	if len(ts) > 0 && !ts[0].dl.After(now) {
		return &Event{K: EvTimer, N: ts[0].n}
	}
	for _, it := range w.Pending {
		if !w.Nodes[it.N].Silent {
			if it.K == EvTxReq {
				return &Event{K: EvTxReq, T: it.P, N: it.N}
			}
			return &Event{K: EvDeliver, P: it.P, N: it.N}
		}
	}
	for j := range w.Nodes {
		if e := w.handover(j); e != nil {
			return e
		}
	}
	if len(ts) > 0 {
		return &Event{K: EvTimer, N: ts[0].n}
	}
	return nil
}

// Alternatives lists the deviations from def at the current state. By the
// receiver-independence reduction only events of def's owner are listed
// (events of different nodes commute: disjoint service state, outputs go to
// the pending multiset), plus un-silencing and, when def is a timer, the other
// armed timers (clock drift).
func (w *World) Alternatives(def Event, maxSilent int) []Event {
	var out []Event
	j := def.Owner()
	n := w.Nodes[j]
	if def.K == EvDeliver {
		out = append(out, Event{K: EvDrop, P: def.P, N: j})
	}
	if !n.Silent {
		for _, it := range w.Pending {
			if it.N != j {
				continue
			}
			if it.K == EvDeliver && !(def.K == EvDeliver && def.P == it.P) {
				out = append(out, Event{K: EvDeliver, P: it.P, N: j})
			}
			if it.K == EvTxReq && !(def.K == EvTxReq && def.T == it.P) {
				out = append(out, Event{K: EvTxReq, T: it.P, N: j})
			}
		}
		ids := make([]int, 0, len(n.Delivered))
		for id, c := range n.Delivered {
			if c == 1 {
				ids = append(ids, id)
			}
		}
		sort.Ints(ids)
		// duplicates: every payload of the round the node is in, and ONE
		// representative of the older ones (the latest; they are all dropped by
		// the same "old height" test)
		old := -1
		for _, id := range ids {
			if w.Payloads[id].Height <= n.C.BC.BlockHeight() {
				old = id
			}
		}
		for _, id := range ids {
			if w.Payloads[id].Height > n.C.BC.BlockHeight() || id == old {
				out = append(out, Event{K: EvDup, P: id, N: j})
			}
		}
		if e := w.handover(j); e != nil && def.K != EvBlock {
			out = append(out, *e)
		}
		pool := n.C.BC.GetMemPool()
		for ti, t := range w.S.Txs {
			h, _ := util.Uint256DecodeStringLE(t.Hash)
			if _, _, err := n.C.BC.GetTransaction(h); err == nil || pool.ContainsKey(h) {
				continue
			}
			req := false
			for _, it := range w.Pending {
				if it.K == EvTxReq && it.P == ti && it.N == j {
					req = true
				}
			}
			if !req {
				out = append(out, Event{K: EvGossip, T: ti, N: j})
			}
		}
	}
	if def.K != EvTimer {
		if a, _, _, _ := n.Timer.Armed(); a && !n.Dead {
			out = append(out, Event{K: EvTimer, N: j})
		}
	} else {
		for _, t := range w.armedTimers() {
			if t.n != j {
				out = append(out, Event{K: EvTimer, N: t.n})
			}
		}
	}
	if !n.Silent && w.silentCount() < maxSilent {
		out = append(out, Event{K: EvSilence, N: j})
	}
	for _, m := range w.Nodes {
		if m.Silent {
			out = append(out, Event{K: EvResume, N: m.Idx})
		}
	}
	return out
}

func (w *World) removePending(k string, p, n int) bool {
	for i, it := range w.Pending {
		if it.K == k && it.P == p && it.N == n {
			w.Pending = append(w.Pending[:i:i], w.Pending[i+1:]...)
			return true
		}
	}
	return false
}

// Apply hands one event to the real code and waits for quiescence. An event
// that is not enabled in the current state returns an error (a recorded
// schedule no longer fits).
func (w *World) Apply(e Event) error {
	if e.N < 0 || e.N >= len(w.Nodes) {
		return fmt.Errorf("event %s: no such node", e)
	}
	n := w.Nodes[e.N]
	w.Step++
	w.mu.Lock()
	w.Log = append(w.Log, fmt.Sprintf("#%d %s", w.Step, w.describe(e)))
	w.cur = e.N
	w.mu.Unlock()
	defer func() { w.cur = -1 }()
	switch e.K {
	case EvDeliver, EvDup:
		if n.Silent {
			return fmt.Errorf("event %s: receiver is silent", e)
		}
		if e.P < 0 || e.P >= len(w.Payloads) {
			return fmt.Errorf("event %s: no such payload", e)
		}
		if e.K == EvDeliver {
			if !w.removePending(EvDeliver, e.P, e.N) {
				return fmt.Errorf("event %s: not pending", e)
			}
		} else if n.Delivered[e.P] != 1 {
			return fmt.Errorf("event %s: not delivered exactly once before", e)
		}
		n.Delivered[e.P]++
		if n.Dead {
			return nil
		}
		ext := &npayload.Extensible{}
		br := io.NewBinReaderFromBuf(w.Payloads[e.P].Bytes)
		ext.DecodeBinary(br)
		if br.Err != nil {
			return fmt.Errorf("payload %d does not parse: %w", e.P, br.Err)
		}
		if err := n.Svc.OnPayload(ext); err != nil {
			w.Log = append(w.Log, "  OnPayload error: "+err.Error())
		}
	case EvDrop:
		if !w.removePending(EvDeliver, e.P, e.N) {
			return fmt.Errorf("event %s: not pending", e)
		}
	case EvTimer:
		if a, _, _, _ := n.Timer.Armed(); !a {
			return fmt.Errorf("event %s: timer not armed", e)
		}
		n.Timer.fire()
	case EvTxReq, EvGossip:
		if e.T < 0 || e.T >= len(w.S.Txs) {
			return fmt.Errorf("event %s: no such transaction", e)
		}
		if e.K == EvTxReq && !w.removePending(EvTxReq, e.T, e.N) {
			return fmt.Errorf("event %s: not requested", e)
		}
		if n.Silent {
			return fmt.Errorf("event %s: receiver is silent", e)
		}
		tx, err := decodeTx(w.S.Txs[e.T].Bytes)
		if err != nil {
			return err
		}
		if n.Srv != nil { // server mode: the real Server decides
			w.srvDeliver(n, e.T, tx)
			break
		}
		// What network.Server does with an incoming transaction: the consensus
		// callback first if the service asked for this hash, then the mempool.
		w.mu.Lock()
		wanted := n.Wanted[w.S.Txs[e.T].Hash]
		w.mu.Unlock()
		if wanted && !n.Dead {
			n.Svc.OnTransaction(tx)
			synctest.Wait()
		}
		if err := n.C.BC.PoolTx(tx); err != nil {
			w.Log = append(w.Log, "  PoolTx: "+err.Error())
		}
	case EvBlock:
		var src *Commit
		for _, c := range w.Commits {
			if c.Height == e.H && c.Node == e.T && (c.Err == "" || c.Exists) {
				src = c
			}
		}
		if src == nil {
			return fmt.Errorf("event %s: node %d has not committed that block", e, e.T)
		}
		if n.Silent {
			return fmt.Errorf("event %s: receiver is silent", e)
		}
		b, err := chainx.DecodeBlock(src.Bytes, w.S.SRIH)
		if err != nil {
			return fmt.Errorf("block of node %d at %d does not parse: %w", e.T, e.H, err)
		}
		err = n.C.BC.AddBlock(b)
		res := ""
		if err != nil {
			res = err.Error()
		}
		w.mu.Lock() // the services' goroutines log concurrently ("out ...")
		w.Log = append(w.Log, fmt.Sprintf("  AddBlock -> %q", res))
		w.mu.Unlock()
		if err != nil && !errors.Is(err, core.ErrAlreadyExists) {
			w.mu.Lock()
			w.Commits = append(w.Commits, &Commit{Node: e.N, Height: e.H, Hash: src.Hash, Err: fmt.Sprintf("hand-over from node %d rejected: %v", e.T, err), Step: w.Step})
			w.mu.Unlock()
		}
	case EvSilence:
		if n.Silent {
			return fmt.Errorf("event %s: already silent", e)
		}
		n.Silent = true
	case EvResume:
		if !n.Silent {
			return fmt.Errorf("event %s: not silent", e)
		}
		n.Silent = false
	default:
		return fmt.Errorf("unknown event kind %q", e.K)
	}
	synctest.Wait()
	return nil
}

func (w *World) describe(e Event) string {
	switch e.K {
	case EvDeliver, EvDrop, EvDup:
		if e.P >= 0 && e.P < len(w.Payloads) {
			return e.String() + " " + w.Payloads[e.P].Desc()
		}
	case EvTimer:
		_, dl, h, v := w.Nodes[e.N].Timer.Armed()
		return fmt.Sprintf("%s (h%d v%d +%s)", e, h, v, dl.Sub(time.Now()).Round(time.Millisecond))
	case EvTxReq, EvGossip:
		if e.T >= 0 && e.T < len(w.S.Txs) {
			return e.String() + " " + w.S.Txs[e.T].Name
		}
	}
	return e.String()
}

// ---- safety observations ------------------------------------------------------------------

// Problem is one safety finding of the harness.
type Problem struct {
	Oracle string `json:"oracle"`
	Text   string `json:"text"`
}

// CheckSafety evaluates the safety oracle on the current state: agreement of
// header hashes per height, results of the services' own block submissions,
// acceptability of every submitted block (witness + round trip) for every
// node that has the preceding block, fatal logs.
func (w *World) CheckSafety() []Problem {
	ps := w.srvProblems()
	for _, f := range w.Fatals {
		ps = append(ps, Problem{"fatal", f})
	}
	_, maxH := w.Heights()
	for h := w.H0() + 1; h <= maxH; h++ {
		var first string
		who := -1
		for _, n := range w.Nodes {
			if n.C.BC.BlockHeight() < h {
				continue
			}
			hh := n.C.BC.GetHeaderHash(h).StringLE()
			if who < 0 {
				first, who = hh, n.Idx
			} else if hh != first {
				ps = append(ps, Problem{"agreement", fmt.Sprintf("height %d: node %d has %s, node %d has %s", h, who, first, n.Idx, hh)})
			}
		}
	}
	for ; w.newFrom < len(w.Commits); w.newFrom++ {
		c := w.Commits[w.newFrom]
		if c.Err != "" && !c.Exists {
			ps = append(ps, Problem{"accept", fmt.Sprintf("node %d, block %d %s: %s", c.Node, c.Height, short(c.Hash), c.Err)})
			continue
		}
		if c.Bytes == nil {
			continue
		}
		b, err := chainx.DecodeBlock(c.Bytes, w.S.SRIH)
		if err != nil {
			ps = append(ps, Problem{"accept", fmt.Sprintf("block %d of node %d does not survive a serialise/parse round trip: %v", c.Height, c.Node, err)})
			continue
		}
		if b.Hash().StringLE() != c.Hash {
			ps = append(ps, Problem{"accept", fmt.Sprintf("block %d of node %d changes its hash in a round trip", c.Height, c.Node)})
		}
		for _, n := range w.Nodes {
			bc := n.C.BC
			if bc.BlockHeight()+1 < c.Height {
				continue // gets the block by hand-over / catch-up later
			}
			if bc.BlockHeight() >= c.Height {
				if hh := bc.GetHeaderHash(c.Height).StringLE(); hh != c.Hash {
					ps = append(ps, Problem{"agreement", fmt.Sprintf("height %d: node %d committed %s, node %d has %s", c.Height, c.Node, short(c.Hash), n.Idx, short(hh))})
					continue
				}
			}
			prev, err := bc.GetHeader(bc.GetHeaderHash(c.Height - 1))
			if err != nil {
				ps = append(ps, Problem{"accept", fmt.Sprintf("node %d has no header %d: %v", n.Idx, c.Height-1, err)})
				continue
			}
			if prev.Hash() != b.PrevHash {
				ps = append(ps, Problem{"agreement", fmt.Sprintf("block %d of node %d does not extend node %d's block %d", c.Height, c.Node, n.Idx, c.Height-1)})
				continue
			}
			if prev.Timestamp >= b.Timestamp {
				ps = append(ps, Problem{"accept", fmt.Sprintf("block %d of node %d: timestamp %d not above the previous block's %d", c.Height, c.Node, b.Timestamp, prev.Timestamp)})
			}
			// The witness check depends on the ledger only through the previous
			// header's NextConsensus: verify each distinct (NextConsensus, block,
			// witness) once; a submission the node's own AddBlock accepted has been
			// verified there already.
			key := prev.NextConsensus.StringLE() + c.Hash + string(b.Script.InvocationScript)
			if w.verified == nil {
				w.verified = map[string]bool{}
			}
			if c.Err == "" && n.Idx == c.Node {
				w.verified[key] = true
			}
			if !w.verified[key] {
				if _, err := bc.VerifyWitness(prev.NextConsensus, b, &b.Script, core.HeaderVerificationGasLimit); err != nil {
					ps = append(ps, Problem{"accept", fmt.Sprintf("block %d %s assembled by node %d: witness rejected by node %d's ledger: %v", c.Height, short(c.Hash), c.Node, n.Idx, err)})
				} else {
					w.verified[key] = true
				}
			}
		}
	}
	return ps
}

// CatchUp feeds every node that is behind the blocks it misses, in order,
// taking them from the nodes' submissions in rotation (every variant of the
// witness must be acceptable). Any rejection is a problem.
func (w *World) CatchUp() []Problem {
	var ps []Problem
	_, maxH := w.Heights()
	for _, n := range w.Nodes {
		for n.C.BC.BlockHeight() < maxH {
			h := n.C.BC.BlockHeight() + 1
			var cands []*Commit
			for _, c := range w.Commits {
				if c.Height == h && c.Bytes != nil && (c.Err == "" || c.Exists) {
					cands = append(cands, c)
				}
			}
			if len(cands) == 0 {
				ps = append(ps, Problem{"accept", fmt.Sprintf("no submitted block for height %d although some ledger has it", h)})
				break
			}
			c := cands[(n.Idx+int(h))%len(cands)]
			b, err := chainx.DecodeBlock(c.Bytes, w.S.SRIH)
			if err == nil {
				err = n.C.BC.AddBlock(b)
			}
			synctest.Wait()
			w.Log = append(w.Log, fmt.Sprintf("catch-up node%d h%d from node%d: %v", n.Idx, h, c.Node, err))
			if err != nil {
				ps = append(ps, Problem{"accept", fmt.Sprintf("catch-up: node %d rejects block %d %s submitted by node %d: %v", n.Idx, h, short(c.Hash), c.Node, err)})
				break
			}
		}
	}
	return append(ps, w.CheckSafety()...)
}

func short(s string) string {
	if len(s) > 12 {
		return s[:12]
	}
	return s
}

// ---- state digest ------------------------------------------------------------------------------

// Digest hashes what determines future behaviour (abstracting from
// timestamps and signatures): per node ledger height and post-preamble block
// contents, mempool, dBFT context (block index, view, which preparations /
// commits / change views were received, transaction hashes, flags), timer
// (armed, height, view, rank of the deadline), silence, duplicates still
// possible; plus the ordered pending list (the default schedule consumes it
// in this order) by abstract payload digest.
func (w *World) Digest() string {
	h := sha256.New()
	ts := w.armedTimers()
	rank := map[int]int{}
	now := time.Now()
	for i, t := range ts {
		r := i + 1
		if i > 0 && t.dl.Equal(ts[i-1].dl) {
			r = rank[ts[i-1].n]
		}
		if !t.dl.After(now) {
			r = 0
		}
		rank[t.n] = r
	}
	for _, n := range w.Nodes {
		bc := n.C.BC
		fmt.Fprintf(h, "N%d h%d s%v d%v|", n.Idx, bc.BlockHeight(), n.Silent, n.Dead)
		for x := w.H0() + 1; x <= bc.BlockHeight(); x++ {
			if b, err := bc.GetBlock(bc.GetHeaderHash(x)); err == nil {
				fmt.Fprintf(h, "b%d:p%d:", x, b.PrimaryIndex)
				for _, tx := range b.Transactions {
					h.Write(tx.Hash().BytesBE()[:6])
				}
			}
		}
		var pool []string
		for _, tx := range bc.GetMemPool().GetVerifiedTransactions() {
			pool = append(pool, tx.Hash().StringLE()[:10])
		}
		sort.Strings(pool)
		fmt.Fprintf(h, "|mp%v|", pool)
		if ctx := consensus.VerifContext(n.Svc); ctx != nil && !n.Dead {
			fmt.Fprintf(h, "c%d/%d/%d/%d/%v|", ctx.BlockIndex, ctx.ViewNumber, ctx.MyIndex, ctx.PrimaryIndex, ctx.BlockSent())
			pl := func(tag string, ps []dbft.ConsensusPayload[util.Uint256]) {
				fmt.Fprintf(h, "%s:", tag)
				for i, p := range ps {
					if p == nil {
						continue
					}
					fmt.Fprintf(h, "%d.%d.%d", i, p.Type(), p.ViewNumber())
					if p.Type() == dbft.ChangeViewType {
						fmt.Fprintf(h, ".%d", p.GetChangeView().NewViewNumber())
					}
					h.Write([]byte{','})
				}
			}
			pl("P", ctx.PreparationPayloads)
			pl("C", ctx.CommitPayloads)
			pl("V", ctx.ChangeViewPayloads)
			pl("L", ctx.LastChangeViewPayloads)
			for i, s := range ctx.LastSeenMessage {
				if s != nil {
					fmt.Fprintf(h, "s%d.%d.%d,", i, s.Height, s.View)
				}
			}
			for _, x := range ctx.TransactionHashes {
				h.Write(x.BytesBE()[:6])
			}
			fmt.Fprintf(h, "|m%d|t%d|", len(ctx.MissingTransactions), len(ctx.Transactions))
		}
		a, _, th, tv := n.Timer.Armed()
		fmt.Fprintf(h, "T%v/%d/%d/%d|", a, th, tv, rank[n.Idx])
		var dups []int
		for id, c := range n.Delivered {
			if c == 1 && w.Payloads[id].Height > bc.BlockHeight() {
				dups = append(dups, id)
			}
		}
		sort.Ints(dups)
		for _, id := range dups {
			fmt.Fprintf(h, "u%s,", w.Payloads[id].Digest)
		}
		var wanted []string
		for k := range n.Wanted {
			wanted = append(wanted, k[:10])
		}
		sort.Strings(wanted)
		fmt.Fprintf(h, "w%v\n", wanted)
	}
	for _, it := range w.Pending {
		if it.K == EvDeliver {
			fmt.Fprintf(h, "%s>%d;", w.Payloads[it.P].Digest, it.N)
		} else {
			fmt.Fprintf(h, "q%d>%d;", it.P, it.N)
		}
	}
	return hex.EncodeToString(h.Sum(nil))[:32]
}

// Summary is a short human-readable description of the current state.
func (w *World) Summary() string {
	var sb strings.Builder
	for _, n := range w.Nodes {
		view := -1
		if ctx := consensus.VerifContext(n.Svc); ctx != nil {
			view = int(ctx.ViewNumber)
		}
		fmt.Fprintf(&sb, "n%d:h%d/v%d", n.Idx, n.C.BC.BlockHeight(), view)
		if n.Silent {
			sb.WriteString("/silent")
		}
		sb.WriteByte(' ')
	}
	fmt.Fprintf(&sb, "pending=%d", len(w.Pending))
	return sb.String()
}

// MissingOnChain lists the scenario's transactions (by catalogue name) that
// node n's ledger does not contain.
func (w *World) MissingOnChain(n int) []string {
	var miss []string
	names := make([]string, 0, len(w.Sc.TxAt))
	for k := range w.Sc.TxAt {
		names = append(names, k)
	}
	sort.Strings(names)
	for _, name := range names {
		for _, t := range w.S.Txs {
			if t.Name != name {
				continue
			}
			h, _ := util.Uint256DecodeStringLE(t.Hash)
			if _, _, err := w.Nodes[n].C.BC.GetTransaction(h); err != nil {
				miss = append(miss, name)
			}
		}
	}
	return miss
}

// H0 is the ledger height the services start from (preamble + pad blocks).
func (w *World) H0() uint32 { return w.S.H0 + uint32(w.Sc.Pad) }
