package sched

import (
	"fmt"
	"os"
	"runtime"
	"sort"
	"strings"
	"time"

	"verif/lib/vk"
)

// CheckOpts configures RunCheck.
type CheckOpts struct {
	MaxBound    int // bounds 0..MaxBound are completed in order
	JobMillis   int // worker budget before it hands its remaining work back
	Procs       int // worker processes (0 = number of CPUs)
	Assumptions []string
	Extra       map[string]any // added to the evidence coverage
	What        string         // one-line description for the evidence rule
}

// ViolationDetail is what goes into the replay artefact.
type ViolationDetail struct {
	Config  string   `json:"config"`
	Bound   int      `json:"bound"`
	Choices []uint16 `json:"choices"`
	Msg     string   `json:"msg"`
	End     string   `json:"end"`
	Obs     string   `json:"obs,omitempty"`
	Trace   []string `json:"trace,omitempty"` // executed operations in order: "thread: op #object"
	Blocked []string `json:"blocked,omitempty"`
	Count   int64    `json:"schedules_showing_it"`
}

var scratchDirs []string

// scratch returns a private directory with a random name (pids are not
// unique across the sandboxes sharing /dev/shm, so vk.Scratch's per-pid
// directory can be removed by an unrelated process).
func scratch(tag string) string {
	base := "/dev/shm"
	if st, err := os.Stat(base); err != nil || !st.IsDir() {
		base = os.TempDir()
	}
	d, err := os.MkdirTemp(base, "verif-"+tag+"-")
	if err != nil {
		panic(err)
	}
	scratchDirs = append(scratchDirs, d)
	return d
}

func cleanScratch() {
	for _, d := range scratchDirs {
		_ = os.RemoveAll(d)
	}
	scratchDirs = nil
}

func checkError(format string, a ...any) {
	fmt.Printf("CHECK-ERROR (engine, not a property violation): "+format+"\n", a...)
	cleanScratch()
	os.Exit(3)
}

// RunCheck is the whole parent side of a scheduler-based check part: iterative
// bounding over all configs with worker processes, determinism checks,
// violation reporting with confirmed replays, evidence.
func RunCheck(r *vk.Run, cfgs []*Config, o CheckOpts) {
	if r.Replay != "" {
		replayCase(r, cfgs)
		return
	}
	dir := scratch("sched")
	procs := o.Procs
	if procs == 0 {
		procs = runtime.NumCPU()
	}
	if o.JobMillis == 0 {
		o.JobMillis = 1500
	}
	e := &Explorer{Configs: cfgs, Procs: procs, JobMillis: o.JobMillis, Dir: dir, Expired: r.Expired}
	maxBound := o.MaxBound
	boundOf := func(c *Config) int {
		if c.MaxBound > 0 {
			return c.MaxBound
		}
		return o.MaxBound
	}
	for _, c := range cfgs {
		if boundOf(c) > maxBound {
			maxBound = boundOf(c)
		}
	}
	completed := -1
	deeper := 0 // configs completed beyond o.MaxBound
	var last map[string]*Stats
	perBound := []map[string]any{}
	var totalExecs, totalPoints, totalReplays int64
	anyNew := false
	reported := map[string]bool{}
	// report: confirm every new violation key by 5 in-process replays, then hand it to vk
	report := func(st map[string]*Stats) (newOnes int) {
		for _, c := range cfgs {
			s := st[c.Name]
			if s == nil {
				continue
			}
			for _, k := range s.SortedFailKeys() {
				if reported[k] {
					continue
				}
				reported[k] = true
				f := s.Fails[k]
				var events []string
				for i := 0; i < 5; i++ {
					res := Replay(c, f.Choices)
					ok := false
					for _, g := range res.Fails {
						if g.Key == k {
							ok = true
						}
					}
					if !ok {
						checkError("violation %s did not reproduce on in-process replay %d of schedule %v (end %s %s)", k, i, f.Choices, res.End, res.Err)
					}
					events = res.Events
				}
				if len(events) > 400 {
					events = events[:400]
				}
				if r.Violation(k, ViolationDetail{Config: c.Name, Bound: f.Bound, Choices: f.Choices, Msg: f.Msg, End: f.End, Obs: f.Obs, Trace: events, Blocked: f.Blocked, Count: f.Count}) {
					newOnes++
				}
			}
		}
		return
	}
	for b := 0; b <= maxBound; b++ {
		t0 := time.Now()
		var names []string
		for _, c := range cfgs {
			if boundOf(c) >= b {
				names = append(names, c.Name)
			}
		}
		st, complete, err := e.RunBound(names, b)
		if err != nil {
			checkError("%v", err)
		}
		var ex, pts, rep int64
		distinct, maxDec, maxPts := 0, 0, 0
		ends := map[string]int64{}
		nf := 0
		for _, n := range names {
			s := st[n]
			ex += s.Execs
			pts += s.Points
			rep += s.Replays
			distinct += len(s.Obs)
			if s.MaxDecs > maxDec {
				maxDec = s.MaxDecs
			}
			if s.MaxPoints > maxPts {
				maxPts = s.MaxPoints
			}
			for k, v := range s.Ends {
				ends[k] += v
			}
			nf += len(s.Fails)
		}
		totalExecs += ex
		totalPoints += pts
		totalReplays += rep
		fmt.Printf("bound %d: %s schedules=%d points=%d (max %d per schedule, max %d decisions) distinct_observations=%d ends=%v violating_keys=%d resumes=%d wall=%.1fs\n",
			b, map[bool]string{true: "complete", false: "INCOMPLETE (deadline)"}[complete], ex, pts, maxPts, maxDec, distinct, ends, nf, rep, time.Since(t0).Seconds())
		perBound = append(perBound, map[string]any{"bound": b, "complete": complete, "schedules": ex, "points": pts, "distinct_observations": distinct, "ends": ends})
		if last == nil {
			last = st
		} else if complete {
			for n, x := range st {
				last[n] = x
			}
		}
		if report(st) > 0 {
			anyNew = true
		}
		if !complete {
			r.Capped()
			break
		}
		if b <= o.MaxBound {
			completed = b
		} else {
			deeper = len(names)
			fmt.Printf("bound %d was run on %d of %d configs\n", b, len(names), len(cfgs))
		}
		if anyNew {
			break // smallest bound showing a new violation: stop here
		}
	}
	// determinism: first and last schedule of every config, twice each, in this process
	detChecked := 0
	for _, c := range cfgs {
		s := last[c.Name]
		if s == nil {
			continue
		}
		for _, rec := range []*SchedRec{s.First, s.Last} {
			if rec == nil {
				continue
			}
			if msg := CheckDeterminism(c, rec, 2); msg != "" {
				checkError("nondeterminism not captured: %s", msg)
			}
			detChecked += 2
		}
	}
	// per-config table and outcomes
	var table []string
	states, deadlocks := 0, int64(0)
	for _, c := range cfgs {
		s := last[c.Name]
		if s == nil {
			continue
		}
		states += len(s.Obs)
		deadlocks += s.Ends["deadlock"]
		avg := int64(0)
		if s.Execs > 0 {
			avg = s.Points / s.Execs
		}
		table = append(table, fmt.Sprintf("%s: schedules=%d distinct_obs=%d points/schedule=%d..%d(avg %d) threads=%d ends=%v", c.Name, s.Execs, len(s.Obs), s.MinPoints, s.MaxPoints, avg, s.MaxThreads, s.Ends))
		for k, v := range s.Ends {
			for i := int64(0); i < v && i < 1; i++ {
				r.Outcome(c.Name + "->" + k)
			}
		}
		i := 0
		for h, txt := range s.ObsSample {
			if i >= 1 {
				break
			}
			i++
			r.Sample(map[string]any{"config": c.Name, "observation": txt, "schedules_with_it": s.Obs[h]})
		}
	}
	for _, l := range table {
		fmt.Println("  " + l)
	}
	fmt.Printf("determinism: %d in-process replays of first/last schedules reproduced the workers' observations\n", detChecked)
	// anomalies that are not violations: counted, one informational line each kind
	type noteAgg struct {
		schedules int64
		configs   int
		example   string
		seen      map[string]bool
	}
	notes := map[string]*noteAgg{}
	for _, c := range cfgs {
		s := last[c.Name]
		if s == nil {
			continue
		}
		for k, f := range s.Notes {
			kind := k
			if i := strings.Index(k, ":"); i > 0 {
				kind = k[:i]
			}
			a := notes[kind]
			if a == nil {
				a = &noteAgg{}
				notes[kind] = a
			}
			a.schedules += f.Count
			if a.seen == nil {
				a.seen = map[string]bool{}
			}
			if !a.seen[c.Name] {
				a.seen[c.Name] = true
				a.configs++
			}
			if a.example == "" || len(f.Choices) < 12 {
				a.example = fmt.Sprintf("%s: %s (schedule of %d decisions, bound %d)", c.Name, f.Msg, len(f.Choices), f.Bound)
			}
		}
	}
	noteCov := map[string]any{}
	var noteKinds []string
	for k := range notes {
		noteKinds = append(noteKinds, k)
	}
	sort.Strings(noteKinds)
	for _, k := range noteKinds {
		a := notes[k]
		fmt.Printf("note (informational, not a violation of %s): %s in %d schedules of %d configs at the last bound, e.g. %s\n", r.ID, k, a.schedules, a.configs, a.example)
		noteCov[k] = map[string]any{"schedules": a.schedules, "configs": a.configs, "example": a.example}
	}
	cov := map[string]any{
		"states":                             states,
		"transitions":                        int(totalPoints),
		"traces_validated_against_impl":      int(totalExecs),
		"completed_preemption_bound":         completed,
		"requested_preemption_bound":         o.MaxBound,
		"configs_completed_one_bound_deeper": deeper,
		"deadlocks_found":                    int(deadlocks),
		"configs":                            len(cfgs),
		"per_bound":                          perBound,
		"per_config_at_last_bound":           table,
		"worker_processes":                   procs,
		"worker_jobs":                        int(e.Jobs),
		"unit_resume_executions":             int(totalReplays),
		"determinism_replays":                detChecked,
		"rule":                               o.What + "; states = distinct observation logs at the last bound summed over configs; transitions = scheduling points executed; every schedule is a complete execution of the real code",
	}
	if len(noteCov) > 0 {
		cov["anomalies_not_violations"] = noteCov
	}
	for k, v := range o.Extra {
		cov[k] = v
	}
	if completed < o.MaxBound && !anyNew {
		cov["exhaustive"] = false
	}
	cleanScratch()
	r.Finish(cov, o.Assumptions)
}

func replayCase(r *vk.Run, cfgs []*Config) {
	var d ViolationDetail
	if err := r.ReadReplay(&d); err != nil {
		fmt.Println("cannot read replay:", err)
		os.Exit(3)
	}
	c := Find(cfgs, d.Config)
	if c == nil {
		fmt.Printf("replay: the artefact names no schedule of this part (config %q): nothing to replay here\n", d.Config)
		r.Finish(map[string]any{"states": 1, "transitions": 1, "traces_validated_against_impl": 1}, nil)
	}
	n := 0
	for i := 0; i < 5; i++ {
		res := Replay(c, d.Choices)
		if res.End == EndError {
			checkError("replay: %s", res.Err)
		}
		var ks []string
		for _, f := range res.Fails {
			m := f.Msg
			if i := strings.Index(m, "\n"); i > 0 {
				m = m[:i]
			}
			ks = append(ks, f.Key+": "+m)
			if i == 0 {
				r.Violation(f.Key, ViolationDetail{Config: c.Name, Bound: d.Bound, Choices: d.Choices, Msg: f.Msg, End: res.End.String(), Obs: res.Obs, Trace: res.Events, Blocked: res.Blocked})
			}
		}
		sort.Strings(ks)
		fmt.Printf("replay %d: config=%s decisions=%d points=%d end=%s violations=[%s]\n", i+1, c.Name, len(res.Trace), res.Points, res.End, strings.Join(ks, "; "))
		if res.PanicMsg != "" && i == 0 {
			fmt.Println(res.PanicMsg)
		}
		n += res.Points
	}
	r.Finish(map[string]any{"states": 1, "transitions": n, "traces_validated_against_impl": 5}, nil)
}
