// Package sched is Engine S of DESIGN.md section 2.1: a cooperative, fully
// controlled scheduler for real Go code plus a stateless depth-first explorer
// with iterative preemption bounding (CHESS style).
//
// Logical threads are goroutines that only run while they hold the single
// token. Every hooked operation of the shim packages (verif/shim/...) calls
// Exec.Point before it takes effect: the calling thread parks, the scheduler
// computes the set of enabled threads from the shim models (blocking
// operations are modelled, never executed blocking) and resumes exactly one.
// A schedule is the sequence of choices taken at the decisions that had more
// than one enabled alternative.
//
// Process-global: at most one execution is active in a process at a time; the
// "current thread" is therefore a plain variable (exactly one logical thread
// runs at any moment under the token discipline). Parallelism is obtained by
// sharding the search tree over worker sub-processes (explore.go).
package sched

import (
	"fmt"
	"runtime"
	"runtime/debug"
	"strings"
	"sync/atomic"
	"time"
)

// Kind is the kind of a scheduling point.
type Kind uint8

const (
	KStart Kind = iota
	KLock
	KUnlock
	KRLock
	KRUnlock
	KAtomic
	KSend
	KRecv
	KClose
	KSelect
	KTick
	KSleep
	KWgAdd
	KWgWait
	KCondWait
	KCondWake
	KCondSignal
	KOnce
	KIdle
	KUser
)

var kindNames = [...]string{"start", "lock", "unlock", "rlock", "runlock", "atomic", "send", "recv", "close", "select", "tick", "sleep", "wgadd", "wgwait", "condwait", "condwake", "condsignal", "once", "idle", "user"}

func (k Kind) String() string {
	if int(k) < len(kindNames) {
		return kindNames[k]
	}
	return fmt.Sprintf("kind%d", k)
}

// EndKind says how an execution ended.
type EndKind int

const (
	EndFinished  EndKind = iota // every thread returned
	EndQuiescent                // only daemon threads are left, all blocked
	EndHorizon                  // nothing enabled, at least one thread waits for time beyond the horizon
	EndDeadlock                 // nothing enabled, a non-daemon thread is blocked, no thread waits for time
	EndPanic                    // a thread panicked
	EndError                    // engine error (nondeterminism, hang): never a property violation
)

func (e EndKind) String() string {
	return [...]string{"finished", "quiescent", "horizon", "deadlock", "panic", "error"}[e]
}

// Obj gives a shim object a stable identity within one execution (number of
// first use) and tells the shim when its model state is stale.
type Obj struct {
	epoch uint64
	id    int32
}

// ID returns the object's id in execution ex; fresh is true when the object
// is seen for the first time in this execution (the shim must then reset its
// model state).
func (o *Obj) ID(ex *Exec) (id int32, fresh bool) {
	if o.epoch != ex.epoch {
		o.epoch = ex.epoch
		ex.nobj++
		o.id = ex.nobj
		return o.id, true
	}
	return o.id, false
}

// Pending describes the operation a parked thread is about to perform.
type Pending struct {
	Kind Kind
	Obj  int32
	// Enabled returns the bit set of enabled sub-alternatives (bit 0 for plain
	// operations; one bit per ready case for select). 0 = blocked.
	Enabled func() uint32
	// Yield: being switched away from here is not a preemption (sleep, tick).
	Yield bool
	// NoSwitch: a pure release operation (unlock, WaitGroup.Done): it is
	// always enabled, only enables others and commutes to the left of any
	// operation of another thread, so offering a context switch before it adds
	// no behaviour (Lipton reduction). The point is still executed and counted.
	NoSwitch bool
	// Time: the operation waits for time to pass. In a no-branch phase time
	// only advances when nothing else (including WaitIdle) can move.
	Time bool
	// TimeBlocked reports that the operation is disabled only because the time
	// horizon is exhausted (so a stuck end state is not a deadlock).
	TimeBlocked func() bool
	// Sub is set by the scheduler: the chosen sub-alternative.
	Sub int
	// Done is set when a partner thread already completed this operation
	// (unbuffered rendezvous, cond signal).
	Done bool
	// Seq is the park order (FIFO partner selection).
	Seq int
	// Data is shim-private (e.g. the select cases).
	Data any
}

type thread struct {
	id      int
	name    string
	wake    chan struct{}
	exited  chan struct{}
	pend    *Pending
	done    bool
	daemon  bool
	abort   bool
	npoints int
}

// Decision is one recorded scheduling decision with >= 2 alternatives.
type Decision struct {
	Alts       []uint16 // enabled alternatives, tid<<4|sub, ascending
	Chosen     uint16
	CostBefore int    // preemptions spent before this decision
	SwitchCost int    // cost of choosing a thread other than the running one
	Running    int    // running thread id, -1 if it finished
	Sig        uint32 // hash of all points seen so far (determinism check)
	NoBranch   bool   // decided in a no-branch phase: not a branching position
}

// Fail is a property violation found by the harness oracle in one execution.
type Fail struct {
	Key string `json:"key"`
	Msg string `json:"msg"`
}

// Result of one execution.
type Result struct {
	End      EndKind
	Trace    []Decision
	Points   int
	Cost     int
	Obs      string   // harness observation (order-insensitive summary)
	Log      []string // harness log in execution order
	Fails    []Fail
	Notes    []Fail // anomalies that are measured and reported but are not property violations
	Err      string // engine error text (End == EndError)
	PanicMsg string
	Blocked  []string // "thread: op obj" of threads left blocked
	Threads  int
	Events   []string // executed operations in order (only with ExecOpts.Record)
}

// Choices returns the chosen alternatives of the trace.
func (r *Result) Choices() []uint16 {
	c := make([]uint16, len(r.Trace))
	for i, d := range r.Trace {
		c[i] = d.Chosen
	}
	return c
}

// Sigs returns the per-decision determinism signatures.
func (r *Result) Sigs() []uint32 {
	c := make([]uint32, len(r.Trace))
	for i, d := range r.Trace {
		c[i] = d.Sig
	}
	return c
}

// Exec is one controlled execution.
type Exec struct {
	epoch         uint64
	threads       []*thread
	running       *thread
	prefix        []uint16
	psigs         []uint32
	trace         []Decision
	cost          int
	noBranch      bool
	horizon       int
	sig           uint64
	points        int
	maxPts        int
	nobj          int32
	seq           int
	endCh         chan struct{}
	ended         bool
	end           EndKind
	inert         atomic.Bool
	log           []string
	obs           string
	fails         []Fail
	err           string
	panicMsg      string
	onEnd         []func(EndKind)
	notes         []Fail
	altBuf        []uint16
	timeBuf       []uint16
	idleBuf       []*thread
	record        bool
	releasePoints bool
	events        []string
	TimerBudget   int // remaining one-shot timer fires / sleeps
}

var (
	curExec   atomic.Pointer[Exec]
	epochCtr  uint64
	goCounter int
)

// Cur returns the active execution or nil. Shims fall back to the real
// primitives when it is nil.
func Cur() *Exec { return curExec.Load() }

// Inert reports that the execution is over (threads are being unwound or the
// oracle runs): shim operations must return immediately without blocking.
func (ex *Exec) Inert() bool { return ex.inert.Load() }

// Horizon is the number of ticks each ticker may deliver.
func (ex *Exec) Horizon() int { return ex.horizon }

// NextSeq returns a park sequence number.
func (ex *Exec) NextSeq() int { ex.seq++; return ex.seq }

// Parked returns the pending operations of all parked threads (used by shims
// to find rendezvous partners; callers skip their own).
func (ex *Exec) Parked() []*Pending {
	var ps []*Pending
	for _, t := range ex.threads {
		if t.done || t.pend == nil {
			continue
		}
		ps = append(ps, t.pend)
	}
	return ps
}

func mix(h uint64, v uint64) uint64 {
	h ^= v + 0x9e3779b97f4a7c15 + (h << 6) + (h >> 2)
	h *= 0xff51afd7ed558ccd
	h ^= h >> 33
	return h
}

// Point is called by the running thread before a hooked operation. It returns
// when the scheduler has chosen this thread to perform the operation; p.Sub
// then holds the chosen sub-alternative and p.Done whether a partner already
// completed it.
func (ex *Exec) Point(p *Pending) {
	t := ex.running
	if t == nil {
		panic("sched: Point called with no running thread (goroutine not registered with sched.Go?)")
	}
	if t.abort {
		runtime.Goexit()
	}
	ex.points++
	t.npoints++
	if ex.maxPts > 0 && ex.points > ex.maxPts {
		ex.fatal(fmt.Sprintf("more than %d scheduling points in one execution (unbounded loop?)", ex.maxPts))
		<-t.wake
		runtime.Goexit()
	}
	ex.sig = mix(ex.sig, uint64(t.id)<<40|uint64(p.Kind)<<32|uint64(uint32(p.Obj)))
	p.Seq = ex.NextSeq()
	if p.NoSwitch && !ex.releasePoints {
		if ex.record && len(ex.events) < 5000 {
			ex.events = append(ex.events, fmt.Sprintf("%s: %s #%d", t.name, p.Kind, p.Obj))
		}
		return
	}
	t.pend = p
	ex.decide()
	// woken: either chosen or aborted
	if t.abort {
		runtime.Goexit()
	}
	t.pend = nil
	if ex.record && len(ex.events) < 5000 {
		sub := ""
		if p.Kind == KSelect {
			sub = fmt.Sprintf(" case %d", p.Sub)
			if p.Sub == 15 {
				sub = " default"
			}
		}
		ex.events = append(ex.events, fmt.Sprintf("%s: %s #%d%s", t.name, p.Kind, p.Obj, sub))
	}
}

func (ex *Exec) fatal(msg string) {
	if ex.ended {
		return
	}
	ex.err = msg
	ex.finish(EndError)
}

func (ex *Exec) finish(k EndKind) {
	if ex.ended {
		return
	}
	ex.ended = true
	ex.end = k
	close(ex.endCh)
}

// decide picks the next thread. Called by the goroutine holding the token
// (at a point, or when its thread function returned). If the caller's thread
// is not chosen the caller parks on its wake channel (unless it is done).
func (ex *Exec) decide() {
	self := ex.running
	alts, timeAlts := ex.altBuf[:0], ex.timeBuf[:0]
	idle := ex.idleBuf[:0]
	for _, t := range ex.threads {
		if t.done || t.pend == nil {
			continue
		}
		if t.pend.Kind == KIdle {
			idle = append(idle, t)
			continue
		}
		var m uint32 = 1
		if !t.pend.Done && t.pend.Enabled != nil {
			m = t.pend.Enabled()
		}
		for s := 0; m != 0 && s < 16; s++ {
			if m&(1<<s) != 0 {
				if ex.noBranch && t.pend.Time && !t.pend.Done {
					timeAlts = append(timeAlts, uint16(t.id<<4|s))
				} else {
					alts = append(alts, uint16(t.id<<4|s))
				}
				m &^= 1 << s
			}
		}
	}
	if len(alts) == 0 {
		for _, t := range idle {
			alts = append(alts, uint16(t.id<<4))
		}
	}
	if len(alts) == 0 {
		alts = append(alts, timeAlts...)
	}
	ex.altBuf, ex.timeBuf, ex.idleBuf = alts[:0], timeAlts[:0], idle[:0]
	if len(alts) == 0 {
		ex.terminal()
		if self != nil && !self.done {
			<-self.wake // only ever woken for abort
		}
		return
	}
	// running thread status
	runID, runEnabled, yield := -1, false, false
	if self != nil && !self.done {
		runID = self.id
		yield = self.pend.Yield
		for _, a := range alts {
			if int(a>>4) == runID {
				runEnabled = true
				break
			}
		}
	}
	var chosen uint16
	if len(alts) == 1 {
		chosen = alts[0]
	} else {
		i := len(ex.trace)
		switchCost := 0
		if runEnabled && !yield {
			switchCost = 1
		}
		switch {
		case i < len(ex.prefix):
			chosen = ex.prefix[i]
			ok := false
			for _, a := range alts {
				if a == chosen {
					ok = true
				}
			}
			if !ok {
				ex.fatal(fmt.Sprintf("nondeterminism not captured: decision %d: recorded choice %d.%d is not enabled now (enabled %v)", i, chosen>>4, chosen&15, fmtAlts(alts)))
				if self != nil && !self.done {
					<-self.wake
				}
				return
			}
			if i < len(ex.psigs) && ex.psigs[i] != uint32(ex.sig) {
				ex.fatal(fmt.Sprintf("nondeterminism not captured: decision %d: the sequence of scheduling points differs from the recorded one", i))
				if self != nil && !self.done {
					<-self.wake
				}
				return
			}
		case runEnabled && !yield:
			for _, a := range alts { // lowest sub of the running thread
				if int(a>>4) == runID {
					chosen = a
					break
				}
			}
		case runEnabled && yield:
			// fair: next enabled thread after the running one, cyclically
			chosen = alts[0]
			found := false
			for _, a := range alts {
				if int(a>>4) > runID {
					chosen = a
					found = true
					break
				}
			}
			if !found {
				chosen = alts[0] // wraps; may be the running thread itself if alone (not here: len>=2)
			}
		default:
			chosen = alts[0]
		}
		d := Decision{Alts: append([]uint16(nil), alts...), Chosen: chosen, CostBefore: ex.cost, SwitchCost: switchCost, Running: runID, Sig: uint32(ex.sig), NoBranch: ex.noBranch}
		if int(chosen>>4) != runID {
			ex.cost += switchCost
		}
		ex.trace = append(ex.trace, d)
	}
	next := ex.threads[chosen>>4]
	next.pend.Sub = int(chosen & 15)
	ex.running = next
	if next == self {
		return
	}
	next.wake <- struct{}{}
	if self != nil && !self.done {
		<-self.wake
	}
}

func fmtAlts(a []uint16) string {
	var s []string
	for _, x := range a {
		s = append(s, fmt.Sprintf("%d.%d", x>>4, x&15))
	}
	return "[" + strings.Join(s, " ") + "]"
}

func (ex *Exec) terminal() {
	allDone, timeBlocked, nonDaemon := true, false, false
	for _, t := range ex.threads {
		if t.done {
			continue
		}
		allDone = false
		if t.pend != nil && t.pend.TimeBlocked != nil && t.pend.TimeBlocked() {
			timeBlocked = true
		}
		if !t.daemon {
			nonDaemon = true
		}
	}
	switch {
	case allDone:
		ex.finish(EndFinished)
	case timeBlocked:
		ex.finish(EndHorizon)
	case !nonDaemon:
		ex.finish(EndQuiescent)
	default:
		ex.finish(EndDeadlock)
	}
}

func (ex *Exec) spawn(name string, fn func(), daemon bool) *thread {
	t := &thread{id: len(ex.threads), name: name, wake: make(chan struct{}, 1), exited: make(chan struct{}), daemon: daemon}
	if t.id >= 1<<12 {
		panic("sched: too many threads")
	}
	t.pend = &Pending{Kind: KStart, Seq: ex.NextSeq()}
	ex.threads = append(ex.threads, t)
	startTask(func() {
		defer close(t.exited)
		<-t.wake
		if t.abort {
			return
		}
		t.pend = nil
		defer func() {
			p := recover()
			if t.abort {
				return
			}
			if p != nil {
				t.done = true
				if !ex.ended {
					ex.panicMsg = fmt.Sprintf("thread %s: panic: %v\n%s", t.name, p, trimStack(debug.Stack()))
					ex.finish(EndPanic)
				}
				return
			}
			t.done = true
			ex.decide()
		}()
		fn()
	})
	return t
}

// Logical threads run on pooled goroutines (their stacks stay grown, which
// saves the stack copying of fresh goroutines in every execution). A goroutine
// that is unwound with Goexit simply leaves the pool.
type runner struct{ task chan func() }

var runnerPool = make(chan *runner, 64)

func startTask(f func()) {
	select {
	case r := <-runnerPool:
		r.task <- f
	default:
		r := &runner{task: make(chan func(), 1)}
		go r.loop()
		r.task <- f
	}
}

func (r *runner) loop() {
	for f := range r.task {
		f()
		select {
		case runnerPool <- r:
		default:
			return
		}
	}
}

func trimStack(b []byte) string {
	lines := strings.Split(string(b), "\n")
	var out []string
	for _, l := range lines {
		if strings.Contains(l, "runtime/debug") || strings.Contains(l, "runtime/panic") {
			continue
		}
		out = append(out, l)
		if len(out) > 24 {
			break
		}
	}
	return strings.Join(out, "\n")
}

// Go registers a goroutine started by subject code (the overlay rewrites
// `go f(x)` into sched.Go(func(){ f(x) })). Outside an execution it is `go`.
func Go(fn func()) {
	ex := Cur()
	if ex == nil || ex.Inert() {
		go fn()
		return
	}
	goCounter++
	ex.spawn(fmt.Sprintf("go#%d", len(ex.threads)), fn, false)
}

// Run is the harness's handle on the execution.
type Run struct{ ex *Exec }

// Go starts a logical thread.
func (r *Run) Go(name string, fn func()) { r.ex.spawn(name, fn, false) }

// GoDaemon starts a logical thread that may legitimately stay blocked forever.
func (r *Run) GoDaemon(name string, fn func()) { r.ex.spawn(name, fn, true) }

// Logf appends to the execution-ordered harness log.
// Logf adds a harness line to the recorded trace (formatted only when the
// execution is being recorded, i.e. on replays).
func (r *Run) Logf(format string, a ...any) {
	if r.ex.record && len(r.ex.events) < 5000 {
		r.ex.events = append(r.ex.events, "    "+fmt.Sprintf(format, a...))
	}
}

// Recording reports whether the trace is being recorded.
func (r *Run) Recording() bool { return r.ex.record }

// Fail records a property violation of this execution.
func (r *Run) Fail(key, msg string) {
	for _, f := range r.ex.fails {
		if f.Key == key {
			return
		}
	}
	r.ex.fails = append(r.ex.fails, Fail{key, msg})
}

// Note records an anomaly that is reported in the evidence but is not a
// violation of the property.
func (r *Run) Note(key, msg string) {
	for _, f := range r.ex.notes {
		if f.Key == key {
			return
		}
	}
	r.ex.notes = append(r.ex.notes, Fail{key, msg})
}

// SetObs sets the observation summary of this execution (what is counted as a
// distinct outcome).
func (r *Run) SetObs(s string) { r.ex.obs = s }

// OnEnd registers the oracle that runs after the execution ended (all threads
// unwound; shim operations are inert then).
func (r *Run) OnEnd(f func(EndKind)) { r.ex.onEnd = append(r.ex.onEnd, f) }

// PanicMsg returns the panic text of the execution (EndPanic).
func (r *Run) PanicMsg() string { return r.ex.panicMsg }

// NoBranch: from now on the default schedule only (no branching positions).
func (r *Run) NoBranch() { r.ex.noBranch = true }

// SetHorizon changes the number of ticks every ticker may deliver.
func (r *Run) SetHorizon(n int) { r.ex.horizon = n }

// WaitIdle parks the calling thread until no other thread is enabled.
func (r *Run) WaitIdle() {
	r.ex.Point(&Pending{Kind: KIdle})
}

// Point exposes a custom scheduling point to the harness.
func (r *Run) Point(p *Pending) { r.ex.Point(p) }

// Yield is a plain scheduling point of the harness (always enabled).
func (r *Run) Yield(obj int32) {
	r.ex.Point(&Pending{Kind: KUser, Obj: obj})
}

// ThreadName returns the name of the running thread.
func (r *Run) ThreadName() string {
	if r.ex.running == nil {
		return "?"
	}
	return r.ex.running.name
}

// ThreadID returns the id of the running thread.
func (r *Run) ThreadID() int {
	if r.ex.running == nil {
		return -1
	}
	return r.ex.running.id
}

// ExecOpts configures one execution.
type ExecOpts struct {
	Horizon   int
	MaxPoints int           // hard cap on points per execution (0 = 100000)
	Watchdog  time.Duration // real-time cap for one execution (0 = 60s)
	Record    bool          // record every executed operation (Result.Events)
	// ReleasePoints: also offer context switches before pure release
	// operations (see Pending.NoSwitch).
	ReleasePoints bool
}

// Execute runs body once under the schedule prefix (then default choices).
// sigs, if given, are the recorded determinism signatures of the prefix.
func Execute(o ExecOpts, body func(*Run), prefix []uint16, sigs []uint32) *Result {
	if Cur() != nil {
		panic("sched: nested/concurrent executions in one process")
	}
	epochCtr++
	ex := &Exec{epoch: epochCtr, prefix: prefix, psigs: sigs, horizon: o.Horizon, endCh: make(chan struct{}), maxPts: o.MaxPoints, TimerBudget: 8, record: o.Record, releasePoints: o.ReleasePoints}
	if ex.maxPts == 0 {
		ex.maxPts = 100000
	}
	wd := o.Watchdog
	if wd == 0 {
		wd = 60 * time.Second
	}
	run := &Run{ex: ex}
	curExec.Store(ex)
	t0 := ex.spawn("main", func() { body(run) }, false)
	ex.running = t0
	t0.wake <- struct{}{}
	timer := time.NewTimer(wd)
	hung := false
	select {
	case <-ex.endCh:
		timer.Stop()
	case <-timer.C:
		hung = true
	}
	ex.inert.Store(true)
	res := &Result{}
	if hung {
		// A thread runs without reaching a scheduling point. Nothing can be
		// unwound safely; the process must not run further executions.
		buf := make([]byte, 1<<16)
		n := runtime.Stack(buf, true)
		res.End = EndError
		res.Err = fmt.Sprintf("execution hung for %v without reaching a scheduling point\n%s", wd, buf[:n])
		curExec.Store(nil)
		return res
	}
	// unwind parked threads one at a time
	for _, t := range ex.threads {
		if t.done {
			continue
		}
		if t.pend != nil {
			res.Blocked = append(res.Blocked, fmt.Sprintf("%s@%s#%d", t.name, t.pend.Kind, t.pend.Obj))
		}
		t.abort = true
		ex.running = t
		select {
		case t.wake <- struct{}{}:
		default:
		}
		select {
		case <-t.exited:
		case <-time.After(10 * time.Second):
			res.End = EndError
			res.Err = "thread " + t.name + " did not unwind"
			curExec.Store(nil)
			return res
		}
	}
	ex.running = nil
	for _, f := range ex.onEnd {
		func() {
			defer func() {
				if p := recover(); p != nil {
					ex.fails = append(ex.fails, Fail{"oracle-panic", fmt.Sprint(p)})
				}
			}()
			f(ex.end)
		}()
	}
	curExec.Store(nil)
	if ex.end == EndPanic && len(ex.fails) == 0 && len(ex.onEnd) == 0 {
		ex.fails = append(ex.fails, Fail{"panic", ex.panicMsg})
	}
	res.End = ex.end
	res.Trace = ex.trace
	res.Points = ex.points
	res.Cost = ex.cost
	res.Obs = ex.obs
	res.Log = ex.log
	res.Fails = ex.fails
	res.Notes = ex.notes
	res.Err = ex.err
	res.PanicMsg = ex.panicMsg
	res.Threads = len(ex.threads)
	res.Events = ex.events
	return res
}
