package sched

// Stateless DFS over schedules with a preemption bound, sharded over worker
// sub-processes. A work unit is (schedule prefix, range of branching
// positions); a worker explores the sub-tree of its units depth-first until a
// budget is used up and hands the unexplored rest (its DFS stack) back to the
// parent, which re-queues (and splits) it. The set of schedules explored is
// independent of how the work happens to be split.

import (
	"context"
	"encoding/json"
	"fmt"
	"hash/fnv"
	"os"
	"os/exec"
	"path/filepath"
	"runtime/debug"
	"sort"
	"strings"
	"sync"
	"time"
)

// Config is one harness configuration (one search tree).
type Config struct {
	Name      string
	Body      func(*Run)
	Horizon   int
	MaxPoints int
	// MaxBound overrides CheckOpts.MaxBound for this config (0 = default).
	MaxBound int
	// ReleasePoints: see ExecOpts.
	ReleasePoints bool
}

func (c *Config) opts() ExecOpts {
	return ExecOpts{Horizon: c.Horizon, MaxPoints: c.MaxPoints, ReleasePoints: c.ReleasePoints}
}

// Unit: explore all alternatives at positions [Lo,Hi) of the trace obtained by
// running prefix C (at position Lo only alternatives with index >= LoAlt), and
// their sub-trees. Count: the execution of C itself is a schedule of this unit.
type Unit struct {
	C     []uint16 `json:"c"`
	S     []uint32 `json:"s,omitempty"`
	Lo    int      `json:"lo"`
	LoAlt int      `json:"la,omitempty"`
	Hi    int      `json:"hi"` // -1 = end of trace
	Count bool     `json:"n,omitempty"`
}

// Job is what one worker process gets.
type Job struct {
	Config     string `json:"config"`
	Bound      int    `json:"bound"`
	Units      []Unit `json:"units"`
	MaxMillis  int    `json:"max_ms"`
	StopOnFail bool   `json:"stop_on_fail,omitempty"`
}

// FailRec is a violation together with the smallest schedule showing it.
type FailRec struct {
	Key     string   `json:"key"`
	Msg     string   `json:"msg"`
	Config  string   `json:"config"`
	Bound   int      `json:"bound"`
	Choices []uint16 `json:"choices"`
	End     string   `json:"end"`
	Obs     string   `json:"obs,omitempty"`
	Log     []string `json:"log,omitempty"`
	Blocked []string `json:"blocked,omitempty"`
	Count   int64    `json:"count"`
}

// SchedRec identifies one executed schedule and what it produced.
type SchedRec struct {
	Choices []uint16 `json:"choices"`
	ObsHash uint64   `json:"obs_hash"`
	LogHash uint64   `json:"log_hash"`
	End     string   `json:"end"`
}

// Stats are the aggregated counters of a (config, bound) exploration.
type Stats struct {
	Execs      int64               `json:"execs"`   // complete schedules executed and judged
	Replays    int64               `json:"replays"` // re-executions needed to resume units (not counted as schedules)
	Points     int64               `json:"points"`  // scheduling points executed in counted schedules
	MinPoints  int                 `json:"min_points"`
	MaxPoints  int                 `json:"max_points"`
	MaxDecs    int                 `json:"max_decisions"`
	MaxCost    int                 `json:"max_cost"`
	MaxThreads int                 `json:"max_threads"`
	Ends       map[string]int64    `json:"ends"`
	Obs        map[uint64]int64    `json:"obs"` // distinct observation hashes -> count
	ObsSample  map[uint64]string   `json:"obs_sample"`
	Fails      map[string]*FailRec `json:"fails"`
	Notes      map[string]*FailRec `json:"notes"`
	First      *SchedRec           `json:"first,omitempty"`
	Last       *SchedRec           `json:"last,omitempty"`
	Err        string              `json:"err,omitempty"`
	Left       []Unit              `json:"left,omitempty"`
}

func newStats() *Stats {
	return &Stats{Ends: map[string]int64{}, Obs: map[uint64]int64{}, ObsSample: map[uint64]string{}, Fails: map[string]*FailRec{}, Notes: map[string]*FailRec{}, MinPoints: 1 << 30}
}

func hash64(s string) uint64 {
	h := fnv.New64a()
	h.Write([]byte(s))
	return h.Sum64()
}

func lessChoices(a, b []uint16) bool { // shorter first, then lexicographic
	if len(a) != len(b) {
		return len(a) < len(b)
	}
	for i := range a {
		if a[i] != b[i] {
			return a[i] < b[i]
		}
	}
	return false
}

func lexLess(a, b []uint16) bool {
	for i := 0; i < len(a) && i < len(b); i++ {
		if a[i] != b[i] {
			return a[i] < b[i]
		}
	}
	return len(a) < len(b)
}

func (s *Stats) account(cfg string, bound int, res *Result) {
	s.Execs++
	s.Points += int64(res.Points)
	if res.Points < s.MinPoints {
		s.MinPoints = res.Points
	}
	if res.Points > s.MaxPoints {
		s.MaxPoints = res.Points
	}
	if len(res.Trace) > s.MaxDecs {
		s.MaxDecs = len(res.Trace)
	}
	if res.Cost > s.MaxCost {
		s.MaxCost = res.Cost
	}
	if res.Threads > s.MaxThreads {
		s.MaxThreads = res.Threads
	}
	s.Ends[res.End.String()]++
	oh := hash64(res.Obs)
	s.Obs[oh]++
	if len(s.ObsSample) < 6 {
		if _, ok := s.ObsSample[oh]; !ok {
			s.ObsSample[oh] = res.Obs
		}
	}
	ch := res.Choices()
	rec := &SchedRec{Choices: ch, ObsHash: oh, LogHash: hash64(strings.Join(res.Log, "\n")), End: res.End.String()}
	if s.Last == nil || lexLess(s.Last.Choices, ch) {
		s.Last = rec
	}
	add := func(m map[string]*FailRec, f Fail) {
		fr := m[f.Key]
		if fr == nil {
			fr = &FailRec{Key: f.Key}
			m[f.Key] = fr
		}
		fr.Count++
		if fr.Choices == nil || lessChoices(ch, fr.Choices) {
			fr.Msg, fr.Config, fr.Bound, fr.Choices, fr.End, fr.Obs, fr.Log, fr.Blocked = f.Msg, cfg, bound, ch, res.End.String(), res.Obs, res.Log, res.Blocked
		}
	}
	for _, f := range res.Fails {
		add(s.Fails, f)
	}
	for _, f := range res.Notes {
		add(s.Notes, f)
	}
}

func (s *Stats) merge(o *Stats) {
	s.Execs += o.Execs
	s.Replays += o.Replays
	s.Points += o.Points
	if o.Execs > 0 {
		if o.MinPoints < s.MinPoints {
			s.MinPoints = o.MinPoints
		}
		if o.MaxPoints > s.MaxPoints {
			s.MaxPoints = o.MaxPoints
		}
	}
	if o.MaxDecs > s.MaxDecs {
		s.MaxDecs = o.MaxDecs
	}
	if o.MaxCost > s.MaxCost {
		s.MaxCost = o.MaxCost
	}
	if o.MaxThreads > s.MaxThreads {
		s.MaxThreads = o.MaxThreads
	}
	for k, v := range o.Ends {
		s.Ends[k] += v
	}
	for k, v := range o.Obs {
		s.Obs[k] += v
	}
	for k, v := range o.ObsSample {
		if len(s.ObsSample) < 6 {
			s.ObsSample[k] = v
		}
	}
	if o.First != nil {
		s.First = o.First
	}
	if o.Last != nil && (s.Last == nil || lexLess(s.Last.Choices, o.Last.Choices)) {
		s.Last = o.Last
	}
	mergeRecs := func(dst, src map[string]*FailRec) {
		for k, f := range src {
			if g := dst[k]; g == nil {
				dst[k] = f
			} else {
				n := g.Count + f.Count
				if lessChoices(f.Choices, g.Choices) {
					dst[k] = f
				}
				dst[k].Count = n
			}
		}
	}
	mergeRecs(s.Fails, o.Fails)
	mergeRecs(s.Notes, o.Notes)
	if o.Err != "" && s.Err == "" {
		s.Err = o.Err
	}
}

type frame struct {
	res  *Result
	plen int // length of the prefix that produced res
	psig []uint32
	pos  int
	alt  int
	hi   int
}

// nextAlt advances f to the next admissible alternative; returns it.
func (f *frame) nextAlt(bound int) (uint16, bool) {
	for f.pos < f.hi && f.pos < len(f.res.Trace) {
		d := &f.res.Trace[f.pos]
		if !d.NoBranch {
			k := 0
			for _, a := range d.Alts {
				if a == d.Chosen {
					continue
				}
				if k >= f.alt {
					cost := d.SwitchCost
					if int(a>>4) == d.Running {
						cost = 0
					}
					if d.CostBefore+cost <= bound {
						f.alt = k + 1
						return a, true
					}
				}
				k++
			}
		}
		f.pos++
		f.alt = 0
	}
	return 0, false
}

// exploreUnits is the worker's DFS.
func exploreUnits(cfg *Config, job *Job) *Stats {
	st := newStats()
	deadline := time.Now().Add(time.Duration(job.MaxMillis) * time.Millisecond)
	over := func() bool { return job.MaxMillis > 0 && time.Now().After(deadline) }
	for ui, u := range job.Units {
		if st.Err != "" || over() || (job.StopOnFail && len(st.Fails) > 0) {
			st.Left = append(st.Left, job.Units[ui:]...)
			break
		}
		res := Execute(cfg.opts(), cfg.Body, u.C, u.S)
		if res.End == EndError {
			st.Err = fmt.Sprintf("config %s prefix %v: %s", cfg.Name, u.C, res.Err)
			break
		}
		if u.Count {
			st.account(cfg.Name, job.Bound, res)
			if len(u.C) == 0 {
				st.First = &SchedRec{Choices: res.Choices(), ObsHash: hash64(res.Obs), LogHash: hash64(strings.Join(res.Log, "\n")), End: res.End.String()}
			}
		} else {
			st.Replays++
		}
		hi := u.Hi
		if hi < 0 || hi > len(res.Trace) {
			hi = len(res.Trace)
		}
		stack := []*frame{{res: res, plen: len(u.C), psig: u.S, pos: u.Lo, alt: u.LoAlt, hi: hi}}
		for len(stack) > 0 {
			f := stack[len(stack)-1]
			savePos, saveAlt := f.pos, f.alt
			a, ok := f.nextAlt(job.Bound)
			if !ok {
				stack = stack[:len(stack)-1]
				continue
			}
			if over() || (job.StopOnFail && len(st.Fails) > 0) {
				f.pos, f.alt = savePos, saveAlt
				for _, g := range stack {
					ch := g.res.Choices()
					if g.pos >= g.hi || g.pos >= len(ch) {
						continue
					}
					st.Left = append(st.Left, Unit{C: ch[:g.plen], S: g.psig, Lo: g.pos, LoAlt: g.alt, Hi: g.hi})
				}
				st.Left = append(st.Left, job.Units[ui+1:]...)
				return st
			}
			ch := f.res.Choices()
			sg := f.res.Sigs()
			prefix := append(append([]uint16{}, ch[:f.pos]...), a)
			psig := append([]uint32{}, sg[:f.pos+1]...)
			r2 := Execute(cfg.opts(), cfg.Body, prefix, psig)
			if r2.End == EndError {
				st.Err = fmt.Sprintf("config %s prefix %v: %s", cfg.Name, prefix, r2.Err)
				return st
			}
			st.account(cfg.Name, job.Bound, r2)
			stack = append(stack, &frame{res: r2, plen: len(prefix), psig: psig, pos: len(prefix), hi: len(r2.Trace)})
		}
	}
	return st
}

// ---- worker process ------------------------------------------------------------

const jobEnv = "VERIF_SCHED_JOB"

// IsWorker reports whether this process is a worker.
func IsWorker() bool { return os.Getenv(jobEnv) != "" }

// WorkerMain runs the job named by the environment (if any) and exits.
func WorkerMain(cfgs []*Config) {
	path := os.Getenv(jobEnv)
	if path == "" {
		return
	}
	debug.SetGCPercent(400)
	var job Job
	b, err := os.ReadFile(path)
	if err == nil {
		err = json.Unmarshal(b, &job)
	}
	var st *Stats
	if err != nil {
		st = newStats()
		st.Err = "worker: cannot read job: " + err.Error()
	} else {
		var cfg *Config
		for _, c := range cfgs {
			if c.Name == job.Config {
				cfg = c
			}
		}
		if cfg == nil {
			st = newStats()
			st.Err = "worker: unknown config " + job.Config
		} else {
			st = exploreUnits(cfg, &job)
		}
	}
	out, _ := json.Marshal(st)
	if err := os.WriteFile(path+".out", out, 0o644); err != nil {
		fmt.Println("worker: cannot write result:", err)
		os.Exit(3)
	}
	os.Exit(0)
}

// ---- parent -----------------------------------------------------------------------

// Explorer drives worker processes.
type Explorer struct {
	Configs    []*Config
	Procs      int
	JobMillis  int
	Dir        string      // scratch directory for job files
	Expired    func() bool // deadline poll
	StopOnFail bool        // stop a config's exploration at its first violation
	mu         sync.Mutex
	jobSeq     int
	Jobs       int64
}

type item struct {
	cfg string
	u   Unit
}

// RunBound explores every named config completely with preemption bound b.
// Returns per-config stats, whether the exploration was completed (false if
// the deadline stopped it) and an engine error (check error, exit 3).
func (e *Explorer) RunBound(names []string, bound int) (map[string]*Stats, bool, error) {
	stats := map[string]*Stats{}
	var queue []item
	for i := len(names) - 1; i >= 0; i-- {
		stats[names[i]] = newStats()
		queue = append(queue, item{names[i], Unit{Lo: 0, Hi: -1, Count: true}})
	}
	type done struct {
		cfg string
		st  *Stats
		err error
	}
	ch := make(chan done)
	running := 0
	complete := true
	var firstErr error
	stopped := map[string]bool{}
	for len(queue) > 0 || running > 0 {
		for running < e.Procs && len(queue) > 0 && firstErr == nil {
			if e.Expired != nil && e.Expired() {
				complete = false
				queue = nil
				break
			}
			// take the top item and following items of the same config
			k := len(queue) / (2 * e.Procs)
			if k < 1 {
				k = 1
			}
			if k > 48 {
				k = 48
			}
			top := queue[len(queue)-1]
			queue = queue[:len(queue)-1]
			if stopped[top.cfg] {
				continue
			}
			job := &Job{Config: top.cfg, Bound: bound, Units: []Unit{top.u}, MaxMillis: e.JobMillis, StopOnFail: e.StopOnFail}
			for len(job.Units) < k && len(queue) > 0 && queue[len(queue)-1].cfg == top.cfg {
				job.Units = append(job.Units, queue[len(queue)-1].u)
				queue = queue[:len(queue)-1]
			}
			running++
			go func() {
				st, err := e.runJob(job)
				ch <- done{job.Config, st, err}
			}()
		}
		if running == 0 {
			break
		}
		d := <-ch
		running--
		if d.err != nil {
			if firstErr == nil {
				firstErr = d.err
			}
			queue = nil
			continue
		}
		left := d.st.Left
		d.st.Left = nil
		stats[d.cfg].merge(d.st)
		if d.st.Err != "" && firstErr == nil {
			firstErr = fmt.Errorf("%s", d.st.Err)
			queue = nil
			continue
		}
		if firstErr != nil {
			continue
		}
		if e.StopOnFail && len(stats[d.cfg].Fails) > 0 {
			stopped[d.cfg] = true
			continue
		}
		short := len(queue)+running < 3*e.Procs
		for i := len(left) - 1; i >= 0; i-- {
			u := left[i]
			n := u.Hi - u.Lo
			if short && u.Hi > 0 && n >= 2 {
				p := 4
				if n < p {
					p = n
				}
				// pieces in reverse so that the lowest positions are popped first
				for j := p - 1; j >= 0; j-- {
					a, b := u.Lo+n*j/p, u.Lo+n*(j+1)/p
					v := Unit{C: u.C, S: u.S, Lo: a, Hi: b}
					if j == 0 {
						v.LoAlt = u.LoAlt
					}
					queue = append(queue, item{d.cfg, v})
				}
			} else {
				queue = append(queue, item{d.cfg, u})
			}
		}
	}
	return stats, complete && firstErr == nil, firstErr
}

func (e *Explorer) runJob(job *Job) (*Stats, error) {
	e.mu.Lock()
	e.jobSeq++
	e.Jobs++
	path := filepath.Join(e.Dir, fmt.Sprintf("job%06d.json", e.jobSeq))
	e.mu.Unlock()
	b, _ := json.Marshal(job)
	if err := os.WriteFile(path, b, 0o644); err != nil {
		return nil, err
	}
	defer os.Remove(path)
	defer os.Remove(path + ".out")
	ctx, cancel := context.WithTimeout(context.Background(), time.Duration(job.MaxMillis)*time.Millisecond+150*time.Second)
	defer cancel()
	cmd := exec.CommandContext(ctx, os.Args[0], "-test.run", "^TestCheck$", "-test.timeout", "0", "-test.count", "1")
	cmd.Env = append(os.Environ(), jobEnv+"="+path, "GOMAXPROCS=1")
	out, err := cmd.CombinedOutput()
	if err != nil {
		return nil, fmt.Errorf("worker for %s failed: %v\n%s", job.Config, err, tail(string(out), 4000))
	}
	rb, err := os.ReadFile(path + ".out")
	if err != nil {
		return nil, fmt.Errorf("worker for %s wrote no result: %v\n%s", job.Config, err, tail(string(out), 4000))
	}
	st := newStats()
	if err := json.Unmarshal(rb, st); err != nil {
		return nil, fmt.Errorf("worker result unreadable: %v", err)
	}
	return st, nil
}

func tail(s string, n int) string {
	if len(s) > n {
		return "..." + s[len(s)-n:]
	}
	return s
}

// Find returns the config with the given name.
func Find(cfgs []*Config, name string) *Config {
	for _, c := range cfgs {
		if c.Name == name {
			return c
		}
	}
	return nil
}

// Replay executes one complete schedule in this process.
func Replay(cfg *Config, choices []uint16) *Result {
	o := cfg.opts()
	o.Record = true
	return Execute(o, cfg.Body, choices, nil)
}

// CheckDeterminism replays a schedule n times in this process and compares
// the observation, log and end state with the recorded ones. Returns an error
// text ("" if all equal).
func CheckDeterminism(cfg *Config, rec *SchedRec, n int) string {
	for i := 0; i < n; i++ {
		r := Replay(cfg, rec.Choices)
		if r.End == EndError {
			return fmt.Sprintf("config %s: replay of %v: %s", cfg.Name, rec.Choices, r.Err)
		}
		if len(r.Trace) != len(rec.Choices) {
			return fmt.Sprintf("config %s: replay of %v has %d decisions instead of %d", cfg.Name, rec.Choices, len(r.Trace), len(rec.Choices))
		}
		if hash64(r.Obs) != rec.ObsHash || hash64(strings.Join(r.Log, "\n")) != rec.LogHash || r.End.String() != rec.End {
			return fmt.Sprintf("config %s: replay %d of %v gave a different observation/log/end (%s)", cfg.Name, i, rec.Choices, r.End)
		}
	}
	return ""
}

// SortedFailKeys returns the violation keys of s in order.
func (s *Stats) SortedFailKeys() []string {
	var k []string
	for x := range s.Fails {
		k = append(k, x)
	}
	sort.Strings(k)
	return k
}

// ExploreLocal explores one config completely in this process (tests, profiling).
func ExploreLocal(cfg *Config, bound int) *Stats {
	return exploreUnits(cfg, &Job{Config: cfg.Name, Bound: bound, Units: []Unit{{Lo: 0, Hi: -1, Count: true}}})
}
