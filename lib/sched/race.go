package sched

// The data-race pass of a scheduler-based check: the same harness bodies run
// free (real goroutines, unmodified subject package, shims fall back to the
// real primitives) in a child process built with -race. The child's race
// reports go to a log file (GORACE=log_path) which the parent turns into
// violations; harness oracle failures of the child are reported the same way.

import (
	"encoding/json"
	"fmt"
	"os"
	"os/exec"
	"path/filepath"
	"regexp"
	"sort"
	"strings"
	"time"

	"verif/lib/vk"
)

const raceEnv = "VERIF_RACE_CHILD"

// RaceSummary is what the child reports.
type RaceSummary struct {
	Iterations int               `json:"iterations"`
	Distinct   int               `json:"distinct_observations"`
	PerConfig  map[string]int    `json:"per_config"`
	Fails      map[string]string `json:"fails"`
	Notes      map[string]int    `json:"notes"`
	Capped     bool              `json:"capped"`
}

// RaceChild: if this process is the race child, run f and exit. f gets the
// deadline and returns the summary.
func RaceChild(f func(deadline time.Time) *RaceSummary) {
	path := os.Getenv(raceEnv)
	if path == "" {
		return
	}
	secs := 60
	fmt.Sscan(os.Getenv("VERIF_RACE_SECS"), &secs)
	s := f(time.Now().Add(time.Duration(secs) * time.Second))
	b, _ := json.Marshal(s)
	if err := os.WriteFile(path, b, 0o644); err != nil {
		fmt.Println("race child: cannot write summary:", err)
		os.Exit(3)
	}
	os.Exit(0)
}

var raceFrame = regexp.MustCompile(`^\s+(\S+)\(`)

// parseRaces returns key -> full report text.
func parseRaces(text string) map[string]string {
	out := map[string]string{}
	for _, rep := range strings.Split(text, "==================") {
		if !strings.Contains(rep, "WARNING: DATA RACE") {
			continue
		}
		lines := strings.Split(rep, "\n")
		var tops []string
		for i, l := range lines {
			if strings.Contains(l, " by goroutine ") || strings.Contains(l, " by main goroutine") {
				if i+1 < len(lines) {
					if m := raceFrame.FindStringSubmatch(lines[i+1]); m != nil {
						f := m[1]
						for { // drop type arguments: they contain package paths
							a := strings.Index(f, "[")
							b := strings.Index(f, "]")
							if a < 0 || b < a {
								break
							}
							f = f[:a] + f[b+1:]
						}
						if j := strings.LastIndex(f, "/"); j >= 0 {
							f = f[j+1:]
						}
						tops = append(tops, f)
					}
				}
			}
		}
		sort.Strings(tops)
		key := "data-race:" + strings.Join(tops, "|")
		if _, ok := out[key]; !ok {
			if len(rep) > 6000 {
				rep = rep[:6000]
			}
			out[key] = rep
		}
	}
	return out
}

// RunRaceParent re-executes the test binary as the race child, collects its
// race reports and oracle failures as violations and finishes the run.
func RunRaceParent(r *vk.Run, secs int, what string, assumptions []string) {
	if r.Replay != "" {
		fmt.Println("replay: the race part has no single-case replay (free-running schedules); re-run the part")
		r.Finish(map[string]any{"states": 1, "transitions": 1, "traces_validated_against_impl": 1}, nil)
	}
	dir := scratch("race")
	sum := filepath.Join(dir, "summary.json")
	cmd := exec.Command(os.Args[0], "-test.run", "^TestCheck$", "-test.timeout", "0", "-test.count", "1")
	cmd.Env = append(os.Environ(), raceEnv+"="+sum, fmt.Sprintf("VERIF_RACE_SECS=%d", secs),
		"GORACE=log_path="+filepath.Join(dir, "race")+" exitcode=0 halt_on_error=0 history_size=3")
	out, err := cmd.CombinedOutput()
	if err != nil {
		checkError("race child failed: %v\n%s", err, tail(string(out), 6000))
	}
	var s RaceSummary
	b, err := os.ReadFile(sum)
	if err == nil {
		err = json.Unmarshal(b, &s)
	}
	if err != nil {
		checkError("race child summary: %v\n%s", err, tail(string(out), 3000))
	}
	logs, _ := filepath.Glob(filepath.Join(dir, "race.*"))
	races := map[string]string{}
	for _, l := range logs {
		t, _ := os.ReadFile(l)
		for k, v := range parseRaces(string(t)) {
			if _, ok := races[k]; !ok {
				races[k] = v
			}
		}
	}
	var rk []string
	for k := range races {
		rk = append(rk, k)
	}
	sort.Strings(rk)
	for _, k := range rk {
		r.Violation(k, map[string]any{"report": races[k]})
	}
	var fk []string
	for k := range s.Fails {
		fk = append(fk, k)
	}
	sort.Strings(fk)
	for _, k := range fk {
		r.Violation(k, map[string]any{"free_running": true, "msg": s.Fails[k]})
	}
	if s.Capped {
		// the iteration count is a budget, not a space: the pass is a sample by nature
	}
	fmt.Printf("race pass: %d free-running iterations under -race, %d distinct observations, %d race reports, %d oracle failures\n", s.Iterations, s.Distinct, len(races), len(s.Fails))
	for k, n := range s.PerConfig {
		if n > 0 {
			r.Outcome("race:" + k)
		}
	}
	r.Sample(map[string]any{"iterations": s.Iterations, "per_config": s.PerConfig})
	cleanScratch()
	r.Finish(map[string]any{
		"states":                        max(s.Distinct, 1),
		"transitions":                   max(s.Iterations, 1),
		"traces_validated_against_impl": max(s.Iterations, 1),
		"race_iterations":               s.Iterations,
		"race_reports":                  len(races),
		"race_notes":                    s.Notes,
		"rule":                          what,
	}, assumptions)
}
