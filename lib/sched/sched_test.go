package sched_test

import (
	"fmt"
	"strings"
	"testing"

	"verif/lib/sched"
	"verif/shim/vatomic"
	"verif/shim/vchan"
	"verif/shim/vsync"
	"verif/shim/vtime"
)

func explore(t *testing.T, name string, bound int, body func(r *sched.Run)) *sched.Stats {
	t.Helper()
	st := sched.ExploreLocal(&sched.Config{Name: name, Body: body, Horizon: 2}, bound)
	if st.Err != "" {
		t.Fatalf("%s: engine error: %s", name, st.Err)
	}
	return st
}

// Lock-order inversion: needs one preemption; must not be found at bound 0.
func TestDeadlockAtBound1(t *testing.T) {
	body := func(r *sched.Run) {
		var a, b vsync.Mutex
		r.Go("t1", func() { a.Lock(); b.Lock(); b.Unlock(); a.Unlock() })
		r.Go("t2", func() { b.Lock(); a.Lock(); a.Unlock(); b.Unlock() })
	}
	if st := explore(t, "inv", 0, body); st.Ends["deadlock"] != 0 {
		t.Fatalf("deadlock at bound 0: %v", st.Ends)
	}
	st := explore(t, "inv", 1, body)
	if st.Ends["deadlock"] == 0 {
		t.Fatalf("no deadlock found at bound 1: %v", st.Ends)
	}
}

// Lost update on load;store: outcomes {1,2} at bound 1, only {2} at bound 0.
func TestLostUpdate(t *testing.T) {
	body := func(r *sched.Run) {
		var x vatomic.Int32
		inc := func() { v := x.Load(); x.Store(v + 1) }
		r.Go("t1", inc)
		r.Go("t2", inc)
		r.OnEnd(func(sched.EndKind) { r.SetObs(fmt.Sprint(x.Load())) })
	}
	if st := explore(t, "lost", 0, body); len(st.Obs) != 1 {
		t.Fatalf("bound 0: %d outcomes", len(st.Obs))
	}
	if st := explore(t, "lost", 1, body); len(st.Obs) != 2 {
		t.Fatalf("bound 1: %d outcomes, want 2", len(st.Obs))
	}
}

// Channels: unbuffered rendezvous, buffered capacity, close, select, range.
func TestChannels(t *testing.T) {
	body := func(r *sched.Run) {
		c := vchan.Make[int]()
		d := vchan.Make[int](1)
		var got []int
		var wg vsync.WaitGroup
		wg.Add(2)
		r.Go("prod", func() {
			defer wg.Done()
			for i := 1; i <= 3; i++ {
				c.Send(i)
			}
			c.Close()
		})
		r.Go("cons", func() {
			defer wg.Done()
			for {
				v, ok := c.Recv2()
				if !ok {
					break
				}
				got = append(got, v)
				rc := vchan.SendCase(d, v)
				switch vchan.Select(true, rc) {
				case 0:
				default:
					got = append(got, -v) // d full
				}
			}
		})
		wg.Wait()
		r.OnEnd(func(e sched.EndKind) { r.SetObs(fmt.Sprint(e, got, d.Len())) })
	}
	st := explore(t, "chan", 2, body)
	if st.Ends["finished"] != st.Execs || len(st.Obs) != 1 {
		t.Fatalf("ends %v outcomes %v", st.Ends, st.ObsSample)
	}
	for _, o := range st.ObsSample {
		if o != "finished [1 2 -2 3 -3] 1" {
			t.Fatalf("observation %q", o)
		}
	}
}

// Send on a closed channel panics, as in Go.
func TestSendOnClosed(t *testing.T) {
	st := explore(t, "closed", 1, func(r *sched.Run) {
		c := vchan.Make[int](1)
		r.Go("closer", func() { c.Close() })
		r.Go("sender", func() { c.Send(1) })
	})
	if st.Ends["panic"] == 0 || st.Ends["finished"] == 0 {
		t.Fatalf("want both outcomes, got %v", st.Ends)
	}
	for _, f := range st.Fails {
		if !strings.Contains(f.Msg, "send on closed channel") {
			t.Fatalf("panic text: %s", f.Msg)
		}
	}
}

// Ticker horizon: a loop on a ticker that nobody stops ends as "horizon", not as deadlock.
func TestTickerHorizon(t *testing.T) {
	st := explore(t, "tick", 1, func(r *sched.Run) {
		var stop vatomic.Bool
		r.Go("loop", func() {
			tk := vtime.NewTicker(vtime.Second)
			for {
				tk.C.Recv()
				if stop.Load() {
					return
				}
			}
		})
		r.Go("stopper", func() { stop.Store(true) })
	})
	if st.Ends["deadlock"] != 0 || st.Ends["finished"] == 0 {
		t.Fatalf("%v", st.Ends)
	}
}

// Cond + RWMutex + Once.
func TestCondRWOnce(t *testing.T) {
	st := explore(t, "cond", 2, func(r *sched.Run) {
		var mu vsync.Mutex
		cv := vsync.NewCond(&mu)
		var rw vsync.RWMutex
		var once vsync.Once
		ready := false
		n := 0
		r.Go("waiter", func() {
			mu.Lock()
			for !ready {
				cv.Wait()
			}
			mu.Unlock()
			rw.RLock()
			once.Do(func() { n++ })
			rw.RUnlock()
		})
		r.Go("signaller", func() {
			rw.Lock()
			once.Do(func() { n++ })
			rw.Unlock()
			mu.Lock()
			ready = true
			cv.Broadcast()
			mu.Unlock()
		})
		r.OnEnd(func(e sched.EndKind) { r.SetObs(fmt.Sprint(e, n)) })
	})
	if st.Ends["finished"] != st.Execs || len(st.Obs) != 1 {
		t.Fatalf("ends %v obs %v", st.Ends, st.ObsSample)
	}
}

// The same schedule gives the same result; a prefix that does not fit is an engine error.
func TestDeterminismAndDivergence(t *testing.T) {
	flip := 0
	cfg := &sched.Config{Name: "nd", Body: func(r *sched.Run) {
		var x, y vatomic.Int32
		flip++
		r.Go("a", func() {
			x.Store(1)
			if flip > 2 { // hidden nondeterminism: another object is touched from the third execution on
				y.Store(2)
			} else {
				x.Store(2)
			}
			x.Store(3)
		})
		r.Go("b", func() { x.Load(); x.Load() })
	}}
	st := sched.ExploreLocal(cfg, 2)
	if !strings.Contains(st.Err, "nondeterminism not captured") {
		t.Fatalf("divergence not reported: %q (execs %d)", st.Err, st.Execs)
	}
}

// Number of schedules of two independent threads with k points each and bound b
// (sanity of the bounded DFS: bound 0 = both orders of "run to completion").
func TestScheduleCounts(t *testing.T) {
	body := func(r *sched.Run) {
		var x, y vatomic.Int32
		r.Go("a", func() { x.Store(1); x.Store(2); x.Store(3) })
		r.Go("b", func() { y.Store(1); y.Store(2); y.Store(3) })
	}
	var counts []int64
	for b := 0; b <= 6; b++ {
		counts = append(counts, explore(t, "cnt", b, body).Execs)
	}
	// main finishes first, then: interleavings of 2 threads x 4 points each (start + 3)
	// total = C(8,4) = 70 at an unbounded number of preemptions
	if counts[6] != 70 || counts[0] != 2 {
		t.Fatalf("schedule counts per bound %v", counts)
	}
	for i := 1; i < len(counts); i++ {
		if counts[i] < counts[i-1] {
			t.Fatalf("not monotone: %v", counts)
		}
	}
}
