package specvm

import "math/big"

// This file holds the integer semantics of the model: everything NeoVM
// computes with System.Numerics.BigInteger, expressed on sign and magnitude
// (or on fixed-width two's complement for the bitwise operators) so that no
// rounding convention of math/big leaks in. Only operations whose meaning is
// the same in every convention are taken from math/big: Add, Sub, Mul, Cmp,
// and QuoRem/Exp on NON-NEGATIVE operands.

var (
	big0   = big.NewInt(0)
	big1   = big.NewInt(1)
	bigM1  = big.NewInt(-1)
	big2   = big.NewInt(2)
	pow255 = new(big.Int).Lsh(big1, 255) // 2^255 (Lsh of a positive constant: plain 2^k)
	minInt = new(big.Int).Neg(pow255)    // -2^255
	maxInt = new(big.Int).Sub(pow255, big1)
)

// fits256 is THE range check of the model. NeoVM Integer: "MaxSize = 32"
// bytes; the constructor faults when BigInteger.GetByteCount() > 32, i.e. the
// value is not representable in 256-bit two's complement:
// -2^255 <= x <= 2^255-1.
func fits256(x *big.Int) bool {
	return x.Cmp(minInt) >= 0 && x.Cmp(maxInt) <= 0
}

func abs(x *big.Int) *big.Int { return new(big.Int).Abs(x) }

func withSign(mag *big.Int, negative bool) *big.Int {
	r := new(big.Int).Set(mag)
	if negative && r.Sign() != 0 {
		r.Neg(r)
	}
	return r
}

// dnDivide is BigInteger.Divide / operator "/": ".. performs integer
// division; any remainder that results from the division is discarded"
// (truncation toward zero, .NET docs BigInteger.Divide). Division by zero
// throws DivideByZeroException (=> ok=false).
func dnDivide(a, b *big.Int) (q *big.Int, ok bool) {
	if b.Sign() == 0 {
		return nil, false
	}
	m, _ := new(big.Int).QuoRem(abs(a), abs(b), new(big.Int)) // non-negative operands
	return withSign(m, (a.Sign() < 0) != (b.Sign() < 0)), true
}

// dnRemainder is BigInteger.Remainder / operator "%": "The sign of the
// remainder is the sign of the dividend" (.NET docs BigInteger.Remainder).
func dnRemainder(a, b *big.Int) (r *big.Int, ok bool) {
	if b.Sign() == 0 {
		return nil, false
	}
	_, m := new(big.Int).QuoRem(abs(a), abs(b), new(big.Int))
	return withSign(m, a.Sign() < 0), true
}

// pow2 returns 2^n for n >= 0.
func pow2(n int) *big.Int { return new(big.Int).Exp(big2, big.NewInt(int64(n)), nil) }

// dnShiftLeft is operator "<<" for a non-negative shift: value * 2^shift
// (.NET docs BigInteger.LeftShift: "preserves the sign").
func dnShiftLeft(x *big.Int, n int) *big.Int {
	return new(big.Int).Mul(x, pow2(n))
}

// dnShiftRight is operator ">>" for a non-negative shift. .NET docs
// (BigInteger.RightShift): the shift is arithmetic on the two's complement
// representation, "-16 >> 1 = -8", "-1 >> n = -1", that is floor(x / 2^n).
func dnShiftRight(x *big.Int, n int) *big.Int {
	d := pow2(n)
	if x.Sign() >= 0 {
		q, _ := new(big.Int).QuoRem(x, d, new(big.Int))
		return q
	}
	// floor(-m / d) = -ceil(m / d) = -((m + d - 1) div d)
	m := abs(x)
	m.Add(m, d)
	m.Sub(m, big1)
	q, _ := new(big.Int).QuoRem(m, d, new(big.Int))
	return q.Neg(q)
}

// Two's complement of fixed width (bytes, little endian) for bitwise operators.
// .NET docs (BigInteger.BitwiseAnd/Or/Xor/OnesComplement): the operation is
// performed on the two's complement representation "with virtual sign
// extension". Operands of the VM fit 256 bits, 33 bytes leave a spare sign byte.
const bitWidth = 33

func toTwos(x *big.Int, width int) []byte {
	v := new(big.Int).Set(x)
	if v.Sign() < 0 {
		v.Add(v, pow2(8*width))
	}
	be := v.Bytes()
	out := make([]byte, width)
	for i := 0; i < len(be) && i < width; i++ {
		out[i] = be[len(be)-1-i]
	}
	return out
}

func fromTwos(le []byte) *big.Int {
	be := make([]byte, len(le))
	for i := range le {
		be[len(le)-1-i] = le[i]
	}
	v := new(big.Int).SetBytes(be)
	if len(le) > 0 && le[len(le)-1]&0x80 != 0 {
		v.Sub(v, pow2(8*len(le)))
	}
	return v
}

func dnBitwise(a, b *big.Int, f func(x, y byte) byte) *big.Int {
	x, y := toTwos(a, bitWidth), toTwos(b, bitWidth)
	z := make([]byte, bitWidth)
	for i := range z {
		z[i] = f(x[i], y[i])
	}
	return fromTwos(z)
}

// dnOnesComplement is operator "~": -(x + 1) (.NET docs BigInteger.OnesComplement).
func dnOnesComplement(x *big.Int) *big.Int {
	r := new(big.Int).Add(x, big1)
	return r.Neg(r)
}

// dnPow is BigInteger.Pow(value, exponent) for exponent >= 0: "any number
// raised to the power 0 is 1" (incl. 0^0), exponent 1 returns value.
func dnPow(x *big.Int, e int) *big.Int {
	r := big.NewInt(1)
	for i := 0; i < e; i++ {
		r.Mul(r, x)
		if r.BitLen() > 1024 {
			// |x| >= 2 here and the magnitude only grows: the exact value is
			// not needed any more, it can not pass fits256.
			return r
		}
	}
	return r
}

// isqrt is the floor square root of x >= 0 (NeoVM SQRT: "Returns the square
// root of a specified number"; reference Utility.Sqrt returns the largest r
// with r*r <= x and throws on negatives). Bisection, checked by definition.
func isqrt(x *big.Int) *big.Int {
	if x.Sign() == 0 {
		return big.NewInt(0)
	}
	lo, hi := big.NewInt(0), new(big.Int).Add(x, big1) // lo*lo <= x < hi*hi
	for {
		d := new(big.Int).Sub(hi, lo)
		if d.Cmp(big1) <= 0 {
			break
		}
		mid := new(big.Int).Add(lo, hi)
		mid, _ = mid.QuoRem(mid, big2, new(big.Int))
		if new(big.Int).Mul(mid, mid).Cmp(x) <= 0 {
			lo = mid
		} else {
			hi = mid
		}
	}
	return lo
}

// powmodMag: |b|^e mod m for e >= 0, m > 0, all non-negative (square and
// multiply on magnitudes; no sign convention involved).
func powmodMag(b, e, m *big.Int) *big.Int {
	r := new(big.Int)
	_, r = new(big.Int).QuoRem(big1, m, r) // 1 mod m (0 when m == 1)
	base := new(big.Int)
	_, base = new(big.Int).QuoRem(b, m, base)
	for i := e.BitLen() - 1; i >= 0; i-- {
		r.Mul(r, r)
		_, r = new(big.Int).QuoRem(r, m, new(big.Int))
		if e.Bit(i) == 1 {
			r.Mul(r, base)
			_, r = new(big.Int).QuoRem(r, m, new(big.Int))
		}
	}
	return r
}

// dnModPow is BigInteger.ModPow(value, exponent, modulus) (.NET docs):
// exponent < 0 -> ArgumentOutOfRangeException, modulus == 0 ->
// DivideByZeroException; the result is (value^exponent) % modulus with the
// "%" of BigInteger, whose sign is the sign of the dividend: negative iff
// value < 0 and exponent is odd (and the magnitude is non-zero). The sign of
// the modulus does not matter.
func dnModPow(v, e, m *big.Int) (*big.Int, bool) {
	if e.Sign() < 0 || m.Sign() == 0 {
		return nil, false
	}
	mag := powmodMag(abs(v), e, abs(m))
	return withSign(mag, v.Sign() < 0 && e.Bit(0) == 1), true
}

// neoModInverse is the reference's Utility.ModInverse used by MODPOW when the
// exponent is -1 ("value <= 0 or modulus < 2 => ArgumentOutOfRangeException;
// no inverse => InvalidOperationException"), result in [0, modulus).
// Extended Euclid, verified by definition before returning.
func neoModInverse(v, m *big.Int) (*big.Int, bool) {
	if v.Sign() <= 0 || m.Cmp(big2) < 0 {
		return nil, false
	}
	r, oldR := new(big.Int).Set(v), new(big.Int).Set(m)
	s, oldS := big.NewInt(1), big.NewInt(0)
	for r.Sign() > 0 {
		q, rem := new(big.Int).QuoRem(oldR, r, new(big.Int)) // non-negative operands
		oldR, r = r, rem
		t := new(big.Int).Mul(q, s)
		t.Sub(oldS, t)
		oldS, s = s, t
	}
	res, _ := dnRemainder(oldS, m)
	if res.Sign() < 0 {
		res.Add(res, m)
	}
	chk, _ := dnRemainder(new(big.Int).Mul(v, res), m)
	if chk.Cmp(big1) != 0 {
		return nil, false
	}
	return res, true
}

// intFromBytes: new BigInteger(ReadOnlySpan<byte>) - little-endian two's
// complement, the most significant bit of the last byte is the sign; the
// empty span is 0 (.NET docs BigInteger(Byte[]) constructor).
func intFromBytes(le []byte) *big.Int {
	if len(le) == 0 {
		return big.NewInt(0)
	}
	return fromTwos(le)
}

// intToBytes: NeoVM Integer.Memory - "value.IsZero ? empty :
// value.ToByteArray()"; ToByteArray is the MINIMAL little-endian two's
// complement encoding (.NET docs BigInteger.ToByteArray: "uses the fewest
// number of bytes possible", a positive value whose top bit is set gets an
// extra 0x00).
func intToBytes(x *big.Int) []byte {
	if x.Sign() == 0 {
		return []byte{}
	}
	n := 1
	for {
		// representable in n bytes iff -2^(8n-1) <= x <= 2^(8n-1)-1
		lim := pow2(8*n - 1)
		if x.Cmp(new(big.Int).Neg(lim)) >= 0 && x.Cmp(new(big.Int).Sub(lim, big1)) <= 0 {
			break
		}
		n++
	}
	return toTwos(x, n)
}

// int32Of: the C# cast (int)BigInteger -> OverflowException outside
// [-2^31, 2^31-1].
func int32Of(x *big.Int) (int, bool) {
	if x.Cmp(big.NewInt(-2147483648)) < 0 || x.Cmp(big.NewInt(2147483647)) > 0 {
		return 0, false
	}
	return int(x.Int64()), true
}
