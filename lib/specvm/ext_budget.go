package specvm

// Limits that are BUDGETS shared by all parts of one compound operation.
//
// NeoVM reference rules this file is written from (quoted from the reference
// implementation's types; names as in neo-vm):
//
//   - ExecutionEngineLimits: "MaxComparableSize = 65536", "MaxStackSize = 2048".
//   - ByteString.Equals(StackItem other, ref uint limits): "if (Size > limits
//     || limits == 0) throw InvalidOperationException(The operand exceeds the
//     maximum comparable size)"; "uint comparedSize = 1"; "if (other is not
//     ByteString b) return false"; "comparedSize = Math.Max((uint)Math.Max(Size,
//     b.Size), comparedSize)"; "if (ReferenceEquals(this, b)) return true"; "if
//     (b.Size > limits) throw ..."; "return Equals(b)"; "finally { limits -=
//     comparedSize }". The charge is made whatever the result, in particular
//     ALSO when both operands are the same item: identity saves the comparison
//     of the bytes, not their cost.
//   - Struct.Equals(StackItem other, ExecutionEngineLimits limits): "if (other
//     is not Struct s) return false"; two explicit stacks holding the pairs
//     still to compare, starting with (this, s); "uint count =
//     limits.MaxStackSize; uint maxComparableSize = limits.MaxComparableSize";
//     per pair: "if (count-- == 0) throw InvalidOperationException(Too many
//     struct items to compare)"; a ByteString a: "if (!byteString.Equals(b, ref
//     maxComparableSize)) return false"; any other a: "if (maxComparableSize ==
//     0) throw ...; maxComparableSize -= 1"; a Struct a: "if (ReferenceEquals(a,
//     b)) continue; if (b is not Struct sb) return false; if (sa.Count !=
//     sb.Count) return false; foreach item in sa: stack1.Push(item); foreach
//     item in sb: stack2.Push(item)"; otherwise "if (!a.Equals(b)) return
//     false".
//   - Struct.Clone(limits): "int count = (int)(limits.MaxStackSize - 1)"; for
//     every element of the struct and of every struct nested in it: "count--;
//     if (count < 0) throw InvalidOperationException(Beyond clone limits!)";
//     nested structs are copied, all other elements shared (item.go,
//     cloneStruct - a pure count, independent of the visiting order).
//   - Map: "MaxKeySize = 64"; the indexer, ContainsKey, Remove and TryGetValue
//     start with "if (key.Size > MaxKeySize) throw ArgumentException"
//     (item.go, mapIndex).
//
// These texts were written down from memory of the reference sources (the C#
// vectors and sources are not available offline, see DESIGN.md C13). Four
// details of Struct.Equals decide outcomes only in a narrow band next to the
// budgets, and a reader who implements the prose description ("structs are
// compared by value, the comparison looks at no more than MaxStackSize items
// and MaxComparableSize bytes") can settle each of them either way:
//
//	order      the pairs of one struct are visited last-to-first (the two
//	           explicit stacks above) or first-to-last (natural recursion);
//	           matters only when one visiting order meets a mismatch before the
//	           budget is exhausted and the other one after;
//	scope      ONE size budget for the whole comparison (above) or a fresh one
//	           for the direct elements of every struct pair;
//	top        whether the outermost pair itself costs one size unit (above: it
//	           does, being "any other a");
//	count      whether MaxStackSize pairs INCLUDING the outermost one may be
//	           visited (above) or one less;
//	empty      whether a pair of two EMPTY ByteStrings costs one unit (above:
//	           "Math.Max(..., comparedSize)" with comparedSize = 1) or nothing
//	           ("the length of the longer one"); a ByteString against an item
//	           of another type costs one unit in every reading.
//
// The model therefore evaluates a struct comparison under all 32 combinations.
// Where they agree - which is everywhere except in those bands - the outcome
// is claimed. Where they differ the run is flagged undetermined, the reason
// names the detail that decides, and the outcome the quoted reference text
// gives is returned (the check counts how often the implementation differs
// from it there without making it a violation).
//
// Everything else about equality is reading-independent and claimed in full:
// the per-ByteString rule above (length of the LONGER operand charged, at
// least 1, identity included), one unit for every other pair, a struct that is
// the same object on both sides counted as one pair and not descended into,
// reference types equal only to themselves, no early exit other than at the
// first mismatching pair in visiting order.

type structReading struct {
	lifo      bool // children of a struct pair are visited last to first
	global    bool // one size budget for the whole comparison
	topCharge bool // the outermost pair costs one unit of the size budget
	maxPairs  int  // pairs that may be visited, the outermost one included
	emptyFree bool // a pair of two empty ByteStrings costs nothing
}

// refReading is the reading of the quoted reference text.
var refReading = structReading{lifo: true, global: true, topCharge: true, maxPairs: MaxStackSize}

func allStructReadings() []structReading {
	var out []structReading
	for _, lifo := range []bool{true, false} {
		for _, global := range []bool{true, false} {
			for _, top := range []bool{true, false} {
				for _, mp := range []int{MaxStackSize, MaxStackSize - 1} {
					out = append(out, structReading{lifo, global, top, mp, false}, structReading{lifo, global, top, mp, true})
				}
			}
		}
	}
	return out
}

var structReadings = allStructReadings()

// cmpOutcome of one reading.
type cmpOutcome int

const (
	cmpFalse cmpOutcome = iota
	cmpTrue
	cmpFault
)

type structWalk struct {
	vm    *VM
	rd    structReading
	pairs int
	same  map[[2]*Item]bool // content comparisons already made (shared by the readings)
}

// bytesPair is ByteString.Equals(other, ref limits) as quoted above, with the
// charge of a pair of two empty ByteStrings left to the reading.
func (w *structWalk) bytesPair(x, y *Item, limit *int) bool {
	w.vm.touch(x)
	if len(x.Data) > *limit || *limit == 0 {
		fault("EQUAL: operand exceeds the maximum comparable size")
	}
	if y.T != TByteString {
		*limit--
		return false
	}
	w.vm.touch(y)
	c := max(len(x.Data), len(y.Data))
	if c == 0 && !w.rd.emptyFree {
		c = 1
	}
	if x == y {
		*limit -= c
		return true
	}
	if len(y.Data) > *limit {
		fault("EQUAL: operand exceeds the maximum comparable size")
	}
	*limit -= c
	k := [2]*Item{x, y}
	eq, ok := w.same[k]
	if !ok {
		eq = string(x.Data) == string(y.Data)
		w.same[k] = eq
	}
	return eq
}

// pair visits one pair; budget is the size budget it draws from.
func (w *structWalk) pair(x, y *Item, budget *int, top bool) bool {
	if w.pairs >= w.rd.maxPairs {
		fault("EQUAL: too many struct items to compare")
	}
	w.pairs++
	if x.T == TByteString {
		return w.bytesPair(x, y, budget)
	}
	if !top || w.rd.topCharge {
		if *budget == 0 {
			fault("EQUAL: operand exceeds the maximum comparable size")
		}
		*budget--
	}
	if x.T != TStruct {
		return plainEquals(x, y)
	}
	if x == y {
		return true
	}
	if y.T != TStruct || len(x.Elems) != len(y.Elems) {
		return false
	}
	child := budget
	if !w.rd.global {
		fresh := MaxComparableSize
		child = &fresh
	}
	n := len(x.Elems)
	for k := 0; k < n; k++ {
		i := k
		if w.rd.lifo {
			i = n - 1 - k
		}
		if !w.pair(x.Elems[i], y.Elems[i], child, false) {
			return false
		}
	}
	return true
}

// structCompare evaluates a.Equals(b) for two Structs under one reading.
func (vm *VM) structCompare(a, b *Item, rd structReading, same map[[2]*Item]bool) (out cmpOutcome) {
	defer func() {
		if r := recover(); r != nil {
			if _, ok := r.(faultErr); ok {
				out = cmpFault
				return
			}
			panic(r)
		}
	}()
	w := &structWalk{vm: vm, rd: rd, same: same}
	budget := MaxComparableSize
	if w.pair(a, b, &budget, true) {
		return cmpTrue
	}
	return cmpFalse
}

// structEqualsReadings is Struct.Equals(other, limits) of the model: the
// outcome all readings agree on, or (flagged undetermined) the outcome of the
// quoted reference text.
func (vm *VM) structEqualsReadings(a, b *Item) bool {
	if b.T != TStruct {
		return false
	}
	same := map[[2]*Item]bool{}
	ref := vm.structCompare(a, b, refReading, same)
	agree := true
	for _, rd := range structReadings {
		if rd != refReading && vm.structCompare(a, b, rd, same) != ref {
			agree = false
			break
		}
	}
	if !agree {
		// name the single detail whose change alone alters the outcome
		flip := func(f func(*structReading)) bool {
			rd := refReading
			f(&rd)
			return vm.structCompare(a, b, rd, same) != ref
		}
		why := "struct-compare-readings(combined)"
		switch {
		case flip(func(r *structReading) { r.lifo = false }):
			why = "struct-compare-visiting-order"
		case flip(func(r *structReading) { r.topCharge = false }):
			why = "struct-compare-outermost-pair-charge"
		case flip(func(r *structReading) { r.global = false }):
			why = "struct-compare-size-budget-scope"
		case flip(func(r *structReading) { r.maxPairs = MaxStackSize - 1 }):
			why = "struct-compare-count-limit"
		case flip(func(r *structReading) { r.emptyFree = true }):
			why = "struct-compare-empty-pair-charge"
		}
		vm.undet(why)
	}
	switch ref {
	case cmpFault:
		// re-raise with the reference reading's own message
		w := &structWalk{vm: vm, rd: refReading, same: same}
		budget := MaxComparableSize
		w.pair(a, b, &budget, true)
		fault("EQUAL: struct comparison beyond its limits")
	case cmpTrue:
		return true
	}
	return false
}
