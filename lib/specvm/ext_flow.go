package specvm

// InstrStarts decodes script linearly from position 0 and returns the start
// positions of its instructions (it stops at the first byte that does not
// decode). The check uses it to classify jump targets (instruction boundary,
// operand byte, last instruction, end of script).
func InstrStarts(script []byte) []int {
	var out []int
	for ip := 0; ip < len(script); {
		b := script[ip]
		if !Defined(b) {
			break
		}
		fixed, prefix := OperandSize(Op(b))
		n := fixed
		p := ip + 1
		if prefix > 0 {
			if p+prefix > len(script) {
				break
			}
			n = 0
			for i := prefix - 1; i >= 0; i-- {
				n = n<<8 | int(script[p+i])
			}
			p += prefix
		}
		if n < 0 || p+n > len(script) {
			break
		}
		out = append(out, ip)
		ip = p + n
	}
	return out
}
