package specvm

import (
	"crypto/sha256"
	"encoding/hex"
	"fmt"
	"math/big"
	"strings"
)

// Type is a NeoVM StackItemType (values: NeoVM StackItemType.cs).
type Type byte

const (
	TAny        Type = 0x00
	TPointer    Type = 0x10
	TBoolean    Type = 0x20
	TInteger    Type = 0x21
	TByteString Type = 0x28
	TBuffer     Type = 0x30
	TArray      Type = 0x40
	TStruct     Type = 0x41
	TMap        Type = 0x48
	TInterop    Type = 0x60
)

// TypeDefined is Enum.IsDefined(typeof(StackItemType), t).
func TypeDefined(t Type) bool {
	switch t {
	case TAny, TPointer, TBoolean, TInteger, TByteString, TBuffer, TArray, TStruct, TMap, TInterop:
		return true
	}
	return false
}

func (t Type) String() string {
	switch t {
	case TAny:
		return "Any"
	case TPointer:
		return "Pointer"
	case TBoolean:
		return "Boolean"
	case TInteger:
		return "Integer"
	case TByteString:
		return "ByteString"
	case TBuffer:
		return "Buffer"
	case TArray:
		return "Array"
	case TStruct:
		return "Struct"
	case TMap:
		return "Map"
	case TInterop:
		return "InteropInterface"
	}
	return fmt.Sprintf("Type(0x%02x)", byte(t))
}

// Limits (NeoVM ExecutionEngineLimits.Default, Integer.MaxSize, Map.MaxKeySize).
const (
	MaxStackSize           = 2 * 1024
	MaxItemSize            = 65535 * 2
	MaxInvocationStackSize = 1024
	MaxTryNestingDepth     = 16
	MaxShift               = 256
	MaxComparableSize      = 65536
	MaxIntegerSize         = 32
	MaxKeySize             = 64
)

// Item is a stack item: a tagged tree node. Null is T==TAny. For the
// reference types (Buffer, Array, Struct, Map) the identity of the item is the
// pointer; primitive items are never mutated.
type Item struct {
	T     Type
	Bool  bool     // Boolean
	Int   *big.Int // Integer
	Data  []byte   // ByteString (immutable), Buffer (mutable)
	Elems []*Item  // Array, Struct
	Keys  []*Item  // Map, insertion order
	Vals  []*Item  // Map
	Pos   int      // Pointer: position in its script
	Sid   int      // Pointer: which loaded script (0 = entry script)
	// EngineMsg marks the ByteString carrying the message of an exception
	// raised by the engine itself (index out of range, key not found). Its
	// text is version dependent in the reference; the model never looks at it.
	EngineMsg bool
}

var nullItem = &Item{T: TAny}

func mkNull() *Item                { return nullItem }
func mkBool(b bool) *Item          { return &Item{T: TBoolean, Bool: b} }
func mkBytes(b []byte) *Item       { return &Item{T: TByteString, Data: b} }
func mkBuffer(b []byte) *Item      { return &Item{T: TBuffer, Data: b} }
func mkArray(e []*Item) *Item      { return &Item{T: TArray, Elems: e} }
func mkStruct(e []*Item) *Item     { return &Item{T: TStruct, Elems: e} }
func mkMap() *Item                 { return &Item{T: TMap} }
func mkPointer(pos, sid int) *Item { return &Item{T: TPointer, Pos: pos, Sid: sid} }

func (it *Item) isNull() bool { return it.T == TAny }
func (it *Item) isPrimitive() bool {
	return it.T == TBoolean || it.T == TInteger || it.T == TByteString
}
func (it *Item) isCompound() bool  { return it.T == TArray || it.T == TStruct || it.T == TMap }
func (it *Item) isArrayLike() bool { return it.T == TArray || it.T == TStruct } // Struct derives from Array

// subItems is CompoundType.SubItemsCount: elements of an Array/Struct, keys
// and values of a Map.
func (it *Item) subItems() int {
	if it.T == TMap {
		return 2 * len(it.Keys)
	}
	return len(it.Elems)
}

// ---- conversions (NeoVM StackItem.GetBoolean/GetInteger/GetSpan) ------------

// boolean is StackItem.GetBoolean(): Null false; Boolean itself; Integer
// non-zero; ByteString "Size > Integer.MaxSize => InvalidCastException,
// otherwise any non-zero byte"; every other type true.
func (vm *VM) boolean(it *Item) bool {
	switch it.T {
	case TAny:
		return false
	case TBoolean:
		return it.Bool
	case TInteger:
		return it.Int.Sign() != 0
	case TByteString:
		vm.touch(it)
		if len(it.Data) > MaxIntegerSize {
			fault("GetBoolean: ByteString longer than %d", MaxIntegerSize)
		}
		for _, b := range it.Data {
			if b != 0 {
				return true
			}
		}
		return false
	}
	return true
}

// integer is StackItem.GetInteger(): Boolean 1/0; Integer; ByteString of at
// most 32 bytes read as little-endian two's complement; everything else
// (Null, Buffer, compounds, Pointer) InvalidCastException.
func (vm *VM) integer(it *Item) *big.Int {
	switch it.T {
	case TBoolean:
		if it.Bool {
			return big.NewInt(1)
		}
		return big.NewInt(0)
	case TInteger:
		return it.Int
	case TByteString:
		vm.touch(it)
		if len(it.Data) > MaxIntegerSize {
			fault("GetInteger: ByteString longer than %d", MaxIntegerSize)
		}
		return intFromBytes(it.Data)
	}
	fault("GetInteger: invalid cast from %s", it.T)
	return nil
}

// span is StackItem.GetSpan(): the bytes of a primitive (Boolean {1}/{0},
// Integer minimal encoding with zero = empty, ByteString) or of a Buffer.
func (vm *VM) span(it *Item) []byte {
	switch it.T {
	case TBoolean:
		if it.Bool {
			return []byte{1}
		}
		return []byte{0}
	case TInteger:
		return intToBytes(it.Int)
	case TByteString:
		vm.touch(it)
		return it.Data
	case TBuffer:
		return it.Data
	}
	fault("GetSpan: invalid cast from %s", it.T)
	return nil
}

// int32 is the C# "(int)item.GetInteger()".
func (vm *VM) int32(it *Item) int {
	n, ok := int32Of(vm.integer(it))
	if !ok {
		fault("integer does not fit int32")
	}
	return n
}

// mkInt creates an Integer item: the only place integers enter the machine.
func mkInt(x *big.Int) *Item {
	if !fits256(x) {
		fault("integer result does not fit 256 bits")
	}
	return &Item{T: TInteger, Int: new(big.Int).Set(x)}
}

func mkIntN(n int) *Item { return mkInt(big.NewInt(int64(n))) }

// convert is StackItem.ConvertTo(type) (NeoVM CONVERT):
//   - any item: to its own type -> itself; to Boolean -> GetBoolean();
//   - primitives: Integer -> GetInteger(), ByteString -> copy of the span,
//     Buffer -> new Buffer with the span;
//   - Buffer: Integer (size > 32 faults), ByteString (copy);
//   - Array -> Struct and Struct -> Array: a NEW compound with the same elements;
//   - Null: "type == Any or undefined => InvalidCastException, else Null";
//   - everything else InvalidCastException.
func (vm *VM) convert(it *Item, t Type) *Item {
	if it.isNull() {
		if t == TAny || !TypeDefined(t) {
			fault("CONVERT Null to %s", t)
		}
		return it
	}
	if t == it.T {
		return it
	}
	if t == TBoolean {
		return mkBool(vm.boolean(it))
	}
	switch {
	case it.isPrimitive():
		switch t {
		case TInteger:
			return mkInt(vm.integer(it))
		case TByteString:
			return mkBytes(clone(vm.span(it)))
		case TBuffer:
			return mkBuffer(clone(vm.span(it)))
		}
	case it.T == TBuffer:
		switch t {
		case TInteger:
			if len(it.Data) > MaxIntegerSize {
				fault("CONVERT: Buffer longer than %d to Integer", MaxIntegerSize)
			}
			return mkInt(intFromBytes(it.Data))
		case TByteString:
			return mkBytes(clone(it.Data))
		}
	case it.T == TArray && t == TStruct:
		return mkStruct(append([]*Item{}, it.Elems...))
	case it.T == TStruct && t == TArray:
		return mkArray(append([]*Item{}, it.Elems...))
	}
	fault("CONVERT %s to %s", it.T, t)
	return nil
}

func clone(b []byte) []byte { return append([]byte{}, b...) }

// ---- equality (NeoVM EQUAL: x1.Equals(x2, limits)) ---------------------------

// primEquals is Equals() of a map key (PrimitiveType): same type and same value.
func primEquals(a, b *Item) bool {
	if a.T != b.T {
		return false
	}
	switch a.T {
	case TBoolean:
		return a.Bool == b.Bool
	case TInteger:
		return a.Int.Cmp(b.Int) == 0
	case TByteString:
		return string(a.Data) == string(b.Data)
	}
	return false
}

// plainEquals is StackItem.Equals(other) without limits for everything except
// ByteString and Struct: Null equals Null; Boolean/Integer equal an item of the
// same type and value (an Integer never equals a Boolean or a ByteString);
// Pointer equals a Pointer to the same position of the same script;
// Buffer, Array, Map (and InteropInterface) are equal only to themselves.
func plainEquals(a, b *Item) bool {
	switch a.T {
	case TAny:
		return b.T == TAny
	case TBoolean, TInteger:
		return primEquals(a, b)
	case TPointer:
		return b.T == TPointer && a.Pos == b.Pos && a.Sid == b.Sid
	}
	return a == b
}

// bytesEqualsLimited is ByteString.Equals(other, ref limits): "Size > limits
// or limits == 0 => InvalidOperationException"; the budget is reduced by
// max(1, sizes); comparing with another ByteString larger than the remaining
// budget faults as well; comparing with any other type is false.
func (vm *VM) bytesEqualsLimited(a, b *Item, limit *int) bool {
	vm.touch(a)
	if len(a.Data) > *limit || *limit == 0 {
		fault("EQUAL: operand exceeds the maximum comparable size")
	}
	compared := 1
	defer func() { *limit -= compared }()
	if b.T != TByteString {
		return false
	}
	vm.touch(b)
	if l := max(len(a.Data), len(b.Data)); l > compared {
		compared = l
	}
	if a == b {
		return true
	}
	if len(b.Data) > *limit {
		fault("EQUAL: operand exceeds the maximum comparable size")
	}
	return string(a.Data) == string(b.Data)
}

// equals is StackItem.Equals(other, limits).
func (vm *VM) equals(a, b *Item) bool {
	switch a.T {
	case TByteString:
		limit := MaxComparableSize
		return vm.bytesEqualsLimited(a, b, &limit)
	case TStruct:
		return vm.structEqualsReadings(a, b)
	}
	return plainEquals(a, b)
}

// Struct.Equals(other, limits) - the pair and size budgets shared by all the
// fields of a struct comparison - is in ext_budget.go (structEqualsReadings).

// cloneStruct is Struct.Clone(limits) used by APPEND/SETITEM/VALUES: a deep
// copy of the struct and of the structs nested in it; all other elements
// (arrays, maps, buffers included) are shared. "Beyond clone limits" when more
// than MaxStackSize-1 elements have to be copied.
func (vm *VM) cloneStruct(s *Item) *Item {
	budget := MaxStackSize - 1
	var rec func(x *Item) *Item
	rec = func(x *Item) *Item {
		out := mkStruct(make([]*Item, 0, len(x.Elems)))
		for _, e := range x.Elems {
			budget--
			if budget < 0 {
				fault("struct clone: beyond clone limits")
			}
			if e.T == TStruct {
				out.Elems = append(out.Elems, rec(e))
			} else {
				out.Elems = append(out.Elems, e)
			}
		}
		return out
	}
	return rec(s)
}

func (vm *VM) cloneIfStruct(it *Item) *Item {
	if it.T == TStruct {
		return vm.cloneStruct(it)
	}
	return it
}

// ---- map helpers (NeoVM Map: ordered dictionary keyed by PrimitiveType) ------

func (vm *VM) checkKey(k *Item) {
	if !k.isPrimitive() {
		fault("key is not a primitive type: %s", k.T)
	}
}

// keySize is PrimitiveType.Size: Boolean 1, Integer length of its encoding,
// ByteString its length.
func (vm *VM) keySize(k *Item) int { return len(vm.span(k)) }

func (vm *VM) mapIndex(m, k *Item) int {
	if vm.keySize(k) > MaxKeySize {
		fault("map key longer than %d", MaxKeySize)
	}
	for i, x := range m.Keys {
		if primEquals(x, k) {
			return i
		}
	}
	return -1
}

func (vm *VM) mapSet(m, k, v *Item) {
	if i := vm.mapIndex(m, k); i >= 0 {
		m.Vals[i] = v
		return
	}
	m.Keys = append(m.Keys, k)
	m.Vals = append(m.Vals, v)
}

// ---- canonical text of a result stack -----------------------------------------

// Canon renders items (bottom first) as text; reference-type objects get a
// number at their first occurrence ("A1[...]") and are referred to as "@1"
// afterwards, so that the text captures the sharing structure. Long byte
// strings are abbreviated to length and digest.
func Canon(items []*Item) string {
	ids := map[*Item]int{}
	var b strings.Builder
	var w func(it *Item)
	w = func(it *Item) {
		switch it.T {
		case TAny:
			b.WriteString("null")
		case TBoolean:
			if it.Bool {
				b.WriteString("true")
			} else {
				b.WriteString("false")
			}
		case TInteger:
			b.WriteString("i" + it.Int.String())
		case TByteString:
			if it.EngineMsg {
				b.WriteString("s<engine message>")
			} else {
				b.WriteString("s" + hexAbbrev(it.Data))
			}
		case TPointer:
			if it.Sid == 0 {
				fmt.Fprintf(&b, "p%d", it.Pos)
			} else {
				fmt.Fprintf(&b, "p%d@script%d", it.Pos, it.Sid)
			}
		case TBuffer, TArray, TStruct, TMap:
			if id, ok := ids[it]; ok {
				fmt.Fprintf(&b, "@%d", id)
				return
			}
			id := len(ids) + 1
			ids[it] = id
			switch it.T {
			case TBuffer:
				fmt.Fprintf(&b, "B%d(%s)", id, hexAbbrev(it.Data))
			case TArray, TStruct:
				if it.T == TArray {
					fmt.Fprintf(&b, "A%d[", id)
				} else {
					fmt.Fprintf(&b, "S%d[", id)
				}
				for i, e := range it.Elems {
					if i > 0 {
						b.WriteByte(',')
					}
					w(e)
				}
				b.WriteByte(']')
			case TMap:
				fmt.Fprintf(&b, "M%d{", id)
				for i := range it.Keys {
					if i > 0 {
						b.WriteByte(',')
					}
					w(it.Keys[i])
					b.WriteByte(':')
					w(it.Vals[i])
				}
				b.WriteByte('}')
			}
		default:
			fmt.Fprintf(&b, "?%02x", byte(it.T))
		}
	}
	for i, it := range items {
		if i > 0 {
			b.WriteByte(' ')
		}
		w(it)
	}
	return b.String()
}

func hexAbbrev(d []byte) string {
	if len(d) <= 40 {
		return hex.EncodeToString(d)
	}
	h := sha256.Sum256(d)
	return fmt.Sprintf("#%d:%s", len(d), hex.EncodeToString(h[:6]))
}
