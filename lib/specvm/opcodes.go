// Package specvm is an independent executable specification of NeoVM (the
// virtual machine of Neo N3), written for check C13 from the NeoVM reference
// semantics: the opcode descriptions of the NeoVM reference (OpCode.cs doc
// comments: "Pops ... pushes ...") and the documented behaviour of the .NET
// System.Numerics.BigInteger type the reference computes with.
//
// Design rules of this model (they are what makes it a specification and not
// a second implementation of the same tricks):
//   - integers are unbounded math/big values; ONE function (fits256) decides
//     whether a produced integer is representable (32 bytes two's complement),
//     and it is applied at the single place where an Integer item is created;
//   - division, remainder, shifts, bitwise operations, powers, roots and the
//     modular operations are written from the .NET BigInteger documentation
//     on sign/magnitude or fixed-width two's complement, never via the
//     similarly named big.Int methods whose rounding differs (Div/Mod/Rsh/Exp);
//   - items are a small tagged tree; Array/Struct/Map/Buffer are reference
//     types whose identity is the Go pointer; Struct is cloned where NeoVM says
//     so (APPEND, SETITEM, VALUES);
//   - the stack-size limit is computed from its definition (items on all
//     stacks and slots + sub-items of every compound reachable from them),
//     not by incremental reference counting;
//   - the model is never consulted for gas.
//
// Where the reference behaviour could not be settled offline the model sets
// VM.Undet to a short reason; the check excludes those runs and counts them.
package specvm

// Op is a NeoVM opcode (values: NeoVM OpCode.cs).
type Op byte

// Constants.
const (
	PUSHINT8   Op = 0x00
	PUSHINT16  Op = 0x01
	PUSHINT32  Op = 0x02
	PUSHINT64  Op = 0x03
	PUSHINT128 Op = 0x04
	PUSHINT256 Op = 0x05
	PUSHT      Op = 0x08
	PUSHF      Op = 0x09
	PUSHA      Op = 0x0A
	PUSHNULL   Op = 0x0B
	PUSHDATA1  Op = 0x0C
	PUSHDATA2  Op = 0x0D
	PUSHDATA4  Op = 0x0E
	PUSHM1     Op = 0x0F
	PUSH0      Op = 0x10
	PUSH1      Op = 0x11
	PUSH2      Op = 0x12
	PUSH3      Op = 0x13
	PUSH4      Op = 0x14
	PUSH5      Op = 0x15
	PUSH6      Op = 0x16
	PUSH7      Op = 0x17
	PUSH8      Op = 0x18
	PUSH9      Op = 0x19
	PUSH10     Op = 0x1A
	PUSH11     Op = 0x1B
	PUSH12     Op = 0x1C
	PUSH13     Op = 0x1D
	PUSH14     Op = 0x1E
	PUSH15     Op = 0x1F
	PUSH16     Op = 0x20
)

// Flow control.
const (
	NOP        Op = 0x21
	JMP        Op = 0x22
	JMP_L      Op = 0x23
	JMPIF      Op = 0x24
	JMPIF_L    Op = 0x25
	JMPIFNOT   Op = 0x26
	JMPIFNOT_L Op = 0x27
	JMPEQ      Op = 0x28
	JMPEQ_L    Op = 0x29
	JMPNE      Op = 0x2A
	JMPNE_L    Op = 0x2B
	JMPGT      Op = 0x2C
	JMPGT_L    Op = 0x2D
	JMPGE      Op = 0x2E
	JMPGE_L    Op = 0x2F
	JMPLT      Op = 0x30
	JMPLT_L    Op = 0x31
	JMPLE      Op = 0x32
	JMPLE_L    Op = 0x33
	CALL       Op = 0x34
	CALL_L     Op = 0x35
	CALLA      Op = 0x36
	CALLT      Op = 0x37
	ABORT      Op = 0x38
	ASSERT     Op = 0x39
	THROW      Op = 0x3A
	TRY        Op = 0x3B
	TRY_L      Op = 0x3C
	ENDTRY     Op = 0x3D
	ENDTRY_L   Op = 0x3E
	ENDFINALLY Op = 0x3F
	RET        Op = 0x40
	SYSCALL    Op = 0x41
)

// Stack.
const (
	DEPTH    Op = 0x43
	DROP     Op = 0x45
	NIP      Op = 0x46
	XDROP    Op = 0x48
	CLEAR    Op = 0x49
	DUP      Op = 0x4A
	OVER     Op = 0x4B
	PICK     Op = 0x4D
	TUCK     Op = 0x4E
	SWAP     Op = 0x50
	ROT      Op = 0x51
	ROLL     Op = 0x52
	REVERSE3 Op = 0x53
	REVERSE4 Op = 0x54
	REVERSEN Op = 0x55
)

// Slots.
const (
	INITSSLOT Op = 0x56
	INITSLOT  Op = 0x57
	LDSFLD0   Op = 0x58
	LDSFLD6   Op = 0x5E
	LDSFLD    Op = 0x5F
	STSFLD0   Op = 0x60
	STSFLD6   Op = 0x66
	STSFLD    Op = 0x67
	LDLOC0    Op = 0x68
	LDLOC6    Op = 0x6E
	LDLOC     Op = 0x6F
	STLOC0    Op = 0x70
	STLOC6    Op = 0x76
	STLOC     Op = 0x77
	LDARG0    Op = 0x78
	LDARG6    Op = 0x7E
	LDARG     Op = 0x7F
	STARG0    Op = 0x80
	STARG6    Op = 0x86
	STARG     Op = 0x87
)

// Splice.
const (
	NEWBUFFER Op = 0x88
	MEMCPY    Op = 0x89
	CAT       Op = 0x8B
	SUBSTR    Op = 0x8C
	LEFT      Op = 0x8D
	RIGHT     Op = 0x8E
)

// Bitwise logic.
const (
	INVERT   Op = 0x90
	AND      Op = 0x91
	OR       Op = 0x92
	XOR      Op = 0x93
	EQUAL    Op = 0x97
	NOTEQUAL Op = 0x98
)

// Arithmetic.
const (
	SIGN        Op = 0x99
	ABS         Op = 0x9A
	NEGATE      Op = 0x9B
	INC         Op = 0x9C
	DEC         Op = 0x9D
	ADD         Op = 0x9E
	SUB         Op = 0x9F
	MUL         Op = 0xA0
	DIV         Op = 0xA1
	MOD         Op = 0xA2
	POW         Op = 0xA3
	SQRT        Op = 0xA4
	MODMUL      Op = 0xA5
	MODPOW      Op = 0xA6
	SHL         Op = 0xA8
	SHR         Op = 0xA9
	NOT         Op = 0xAA
	BOOLAND     Op = 0xAB
	BOOLOR      Op = 0xAC
	NZ          Op = 0xB1
	NUMEQUAL    Op = 0xB3
	NUMNOTEQUAL Op = 0xB4
	LT          Op = 0xB5
	LE          Op = 0xB6
	GT          Op = 0xB7
	GE          Op = 0xB8
	MIN         Op = 0xB9
	MAX         Op = 0xBA
	WITHIN      Op = 0xBB
)

// Compound types.
const (
	PACKMAP      Op = 0xBE
	PACKSTRUCT   Op = 0xBF
	PACK         Op = 0xC0
	UNPACK       Op = 0xC1
	NEWARRAY0    Op = 0xC2
	NEWARRAY     Op = 0xC3
	NEWARRAY_T   Op = 0xC4
	NEWSTRUCT0   Op = 0xC5
	NEWSTRUCT    Op = 0xC6
	NEWMAP       Op = 0xC8
	SIZE         Op = 0xCA
	HASKEY       Op = 0xCB
	KEYS         Op = 0xCC
	VALUES       Op = 0xCD
	PICKITEM     Op = 0xCE
	APPEND       Op = 0xCF
	SETITEM      Op = 0xD0
	REVERSEITEMS Op = 0xD1
	REMOVE       Op = 0xD2
	CLEARITEMS   Op = 0xD3
	POPITEM      Op = 0xD4
)

// Types.
const (
	ISNULL  Op = 0xD8
	ISTYPE  Op = 0xD9
	CONVERT Op = 0xDB
)

// Extensions.
const (
	ABORTMSG  Op = 0xE0
	ASSERTMSG Op = 0xE1
)

// opInfo: name and operand layout (NeoVM OpCode.cs [OperandSize] attributes:
// Size = fixed operand bytes, SizePrefix = bytes of the length prefix).
type opInfo struct {
	name   string
	size   int // fixed operand size
	prefix int // size of the little-endian length prefix (PUSHDATA*)
}

var ops [256]*opInfo

func def(o Op, name string, size, prefix int) { ops[o] = &opInfo{name, size, prefix} }

func init() {
	def(PUSHINT8, "PUSHINT8", 1, 0)
	def(PUSHINT16, "PUSHINT16", 2, 0)
	def(PUSHINT32, "PUSHINT32", 4, 0)
	def(PUSHINT64, "PUSHINT64", 8, 0)
	def(PUSHINT128, "PUSHINT128", 16, 0)
	def(PUSHINT256, "PUSHINT256", 32, 0)
	def(PUSHT, "PUSHT", 0, 0)
	def(PUSHF, "PUSHF", 0, 0)
	def(PUSHA, "PUSHA", 4, 0)
	def(PUSHNULL, "PUSHNULL", 0, 0)
	def(PUSHDATA1, "PUSHDATA1", 0, 1)
	def(PUSHDATA2, "PUSHDATA2", 0, 2)
	def(PUSHDATA4, "PUSHDATA4", 0, 4)
	def(PUSHM1, "PUSHM1", 0, 0)
	for i := 0; i <= 16; i++ {
		def(PUSH0+Op(i), "PUSH"+itoa(i), 0, 0)
	}
	def(NOP, "NOP", 0, 0)
	short := []struct {
		o Op
		n string
	}{{JMP, "JMP"}, {JMPIF, "JMPIF"}, {JMPIFNOT, "JMPIFNOT"}, {JMPEQ, "JMPEQ"}, {JMPNE, "JMPNE"},
		{JMPGT, "JMPGT"}, {JMPGE, "JMPGE"}, {JMPLT, "JMPLT"}, {JMPLE, "JMPLE"}, {CALL, "CALL"}}
	for _, s := range short {
		def(s.o, s.n, 1, 0)
		def(s.o+1, s.n+"_L", 4, 0)
	}
	def(CALLA, "CALLA", 0, 0)
	def(CALLT, "CALLT", 2, 0)
	def(ABORT, "ABORT", 0, 0)
	def(ASSERT, "ASSERT", 0, 0)
	def(THROW, "THROW", 0, 0)
	def(TRY, "TRY", 2, 0)
	def(TRY_L, "TRY_L", 8, 0)
	def(ENDTRY, "ENDTRY", 1, 0)
	def(ENDTRY_L, "ENDTRY_L", 4, 0)
	def(ENDFINALLY, "ENDFINALLY", 0, 0)
	def(RET, "RET", 0, 0)
	def(SYSCALL, "SYSCALL", 4, 0)
	def(DEPTH, "DEPTH", 0, 0)
	def(DROP, "DROP", 0, 0)
	def(NIP, "NIP", 0, 0)
	def(XDROP, "XDROP", 0, 0)
	def(CLEAR, "CLEAR", 0, 0)
	def(DUP, "DUP", 0, 0)
	def(OVER, "OVER", 0, 0)
	def(PICK, "PICK", 0, 0)
	def(TUCK, "TUCK", 0, 0)
	def(SWAP, "SWAP", 0, 0)
	def(ROT, "ROT", 0, 0)
	def(ROLL, "ROLL", 0, 0)
	def(REVERSE3, "REVERSE3", 0, 0)
	def(REVERSE4, "REVERSE4", 0, 0)
	def(REVERSEN, "REVERSEN", 0, 0)
	def(INITSSLOT, "INITSSLOT", 1, 0)
	def(INITSLOT, "INITSLOT", 2, 0)
	for _, g := range []struct {
		base Op
		n    string
	}{{LDSFLD0, "LDSFLD"}, {STSFLD0, "STSFLD"}, {LDLOC0, "LDLOC"}, {STLOC0, "STLOC"}, {LDARG0, "LDARG"}, {STARG0, "STARG"}} {
		for i := 0; i < 7; i++ {
			def(g.base+Op(i), g.n+itoa(i), 0, 0)
		}
		def(g.base+7, g.n, 1, 0)
	}
	for _, s := range []struct {
		o Op
		n string
	}{{NEWBUFFER, "NEWBUFFER"}, {MEMCPY, "MEMCPY"}, {CAT, "CAT"}, {SUBSTR, "SUBSTR"}, {LEFT, "LEFT"}, {RIGHT, "RIGHT"},
		{INVERT, "INVERT"}, {AND, "AND"}, {OR, "OR"}, {XOR, "XOR"}, {EQUAL, "EQUAL"}, {NOTEQUAL, "NOTEQUAL"},
		{SIGN, "SIGN"}, {ABS, "ABS"}, {NEGATE, "NEGATE"}, {INC, "INC"}, {DEC, "DEC"}, {ADD, "ADD"}, {SUB, "SUB"},
		{MUL, "MUL"}, {DIV, "DIV"}, {MOD, "MOD"}, {POW, "POW"}, {SQRT, "SQRT"}, {MODMUL, "MODMUL"}, {MODPOW, "MODPOW"},
		{SHL, "SHL"}, {SHR, "SHR"}, {NOT, "NOT"}, {BOOLAND, "BOOLAND"}, {BOOLOR, "BOOLOR"}, {NZ, "NZ"},
		{NUMEQUAL, "NUMEQUAL"}, {NUMNOTEQUAL, "NUMNOTEQUAL"}, {LT, "LT"}, {LE, "LE"}, {GT, "GT"}, {GE, "GE"},
		{MIN, "MIN"}, {MAX, "MAX"}, {WITHIN, "WITHIN"},
		{PACKMAP, "PACKMAP"}, {PACKSTRUCT, "PACKSTRUCT"}, {PACK, "PACK"}, {UNPACK, "UNPACK"}, {NEWARRAY0, "NEWARRAY0"},
		{NEWARRAY, "NEWARRAY"}, {NEWSTRUCT0, "NEWSTRUCT0"}, {NEWSTRUCT, "NEWSTRUCT"}, {NEWMAP, "NEWMAP"},
		{SIZE, "SIZE"}, {HASKEY, "HASKEY"}, {KEYS, "KEYS"}, {VALUES, "VALUES"}, {PICKITEM, "PICKITEM"},
		{APPEND, "APPEND"}, {SETITEM, "SETITEM"}, {REVERSEITEMS, "REVERSEITEMS"}, {REMOVE, "REMOVE"},
		{CLEARITEMS, "CLEARITEMS"}, {POPITEM, "POPITEM"}, {ISNULL, "ISNULL"},
		{ABORTMSG, "ABORTMSG"}, {ASSERTMSG, "ASSERTMSG"}} {
		def(s.o, s.n, 0, 0)
	}
	def(NEWARRAY_T, "NEWARRAY_T", 1, 0)
	def(ISTYPE, "ISTYPE", 1, 0)
	def(CONVERT, "CONVERT", 1, 0)
}

func itoa(i int) string {
	if i >= 10 {
		return string(rune('0'+i/10)) + string(rune('0'+i%10))
	}
	return string(rune('0' + i))
}

// Defined reports whether b is a defined NeoVM opcode.
func Defined(b byte) bool { return ops[b] != nil }

// Name returns the NeoVM name of the opcode ("" if undefined).
func (o Op) Name() string {
	if ops[o] == nil {
		return ""
	}
	return ops[o].name
}

func (o Op) String() string {
	if n := o.Name(); n != "" {
		return n
	}
	return "0x" + string("0123456789ABCDEF"[o>>4]) + string("0123456789ABCDEF"[o&15])
}

// OperandSize returns (fixed operand size, length-prefix size) of a defined opcode.
func OperandSize(o Op) (int, int) {
	if ops[o] == nil {
		return 0, 0
	}
	return ops[o].size, ops[o].prefix
}
