package specvm

import (
	"encoding/binary"
	"math/big"
	"unicode/utf8"
)

func i8(b []byte) int  { return int(int8(b[0])) }
func i32(b []byte) int { return int(int32(binary.LittleEndian.Uint32(b))) }

// popInt32 is "(int)engine.Pop().GetInteger()".
func (vm *VM) popInt32() int        { return vm.int32(vm.pop()) }
func (vm *VM) popInteger() *big.Int { return vm.integer(vm.pop()) }
func (vm *VM) popBool() bool        { return vm.boolean(vm.pop()) }
func (vm *VM) popSpan() []byte      { return vm.span(vm.pop()) }
func (vm *VM) pushInt(x *big.Int)   { vm.push(mkInt(x)) }
func (vm *VM) pushBool(b bool)      { vm.push(mkBool(b)) }

// assertShift is ExecutionEngineLimits.AssertShift: "shift > MaxShift or
// shift < 0 => InvalidOperationException" (MaxShift = 256).
func assertShift(n int) {
	if n < 0 || n > MaxShift {
		fault("invalid shift/exponent %d", n)
	}
}

// assertItemSize is AssertMaxItemSize: "size < 0 or size > MaxItemSize".
func assertItemSize(n int) {
	if n < 0 || n > MaxItemSize {
		fault("item size %d exceeds MaxItemSize", n)
	}
}

// slotIndex checks a slot access ("slot not initialised" is a null reference
// in the reference, an index outside the slot an IndexOutOfRange: both fault).
func slotIndex(s []*Item, i int) int {
	if s == nil {
		fault("slot is not initialised")
	}
	if i < 0 || i >= len(s) {
		fault("slot index %d out of range %d", i, len(s))
	}
	return i
}

// exec executes one instruction (NeoVM JumpTable.*; the quoted phrases are
// the opcode descriptions of the reference's OpCode.cs).
func (vm *VM) exec(f *frame, in instr) {
	op, arg := in.op, in.operand
	switch {
	// ---- constants ---------------------------------------------------------
	case op <= PUSHINT256:
		// "Pushes a 1/2/4/8/16/32-byte signed integer onto the stack."
		vm.pushInt(intFromBytes(arg))
	case op == PUSHT:
		vm.pushBool(true)
	case op == PUSHF:
		vm.pushBool(false)
	case op == PUSHA:
		// "Converts the 4-bytes offset to a Pointer, and pushes it onto the
		// stack": position < 0 or > Script.Length faults.
		pos := f.ip + i32(arg)
		if pos < 0 || pos > len(f.script) {
			fault("PUSHA: bad pointer %d", pos)
		}
		vm.push(mkPointer(pos, f.sid))
	case op == PUSHNULL:
		vm.push(mkNull())
	case op == PUSHDATA1, op == PUSHDATA2, op == PUSHDATA4:
		// "The next n bytes are pushed" as a ByteString; AssertMaxItemSize.
		assertItemSize(len(arg))
		vm.push(mkBytes(clone(arg)))
	case op >= PUSHM1 && op <= PUSH16:
		// "The number -1..16 is pushed onto the stack."
		vm.pushInt(big.NewInt(int64(op) - int64(PUSH0)))

	// ---- flow control --------------------------------------------------------
	case op == NOP:
	case op == JMP:
		vm.jump(f, f.ip+i8(arg))
	case op == JMP_L:
		vm.jump(f, f.ip+i32(arg))
	case op >= JMPIF && op <= JMPLE_L:
		// Short forms are even, long forms odd (JMPIF 0x24, JMPIF_L 0x25 ...).
		off := 0
		if (op-JMPIF)%2 == 0 {
			off = i8(arg)
		} else {
			off = i32(arg)
		}
		var cond bool
		switch (op - JMPIF) / 2 {
		case 0: // JMPIF: "if the value is true, not null, or non-zero"
			cond = vm.popBool()
		case 1: // JMPIFNOT
			cond = !vm.popBool()
		default:
			// JMPEQ..JMPLE: "if two items are equal / first (deeper) is
			// greater..." on GetInteger of both.
			x2 := vm.popInteger()
			x1 := vm.popInteger()
			c := x1.Cmp(x2)
			switch (op - JMPIF) / 2 {
			case 2:
				cond = c == 0
			case 3:
				cond = c != 0
			case 4:
				cond = c > 0
			case 5:
				cond = c >= 0
			case 6:
				cond = c < 0
			case 7:
				cond = c <= 0
			}
		}
		target := f.ip + off
		if cond {
			vm.jump(f, target)
		} else if target < 0 || target > len(f.script) {
			// The reference evaluates the target only when the jump is taken.
			// Whether a not-taken jump with a target outside the script is an
			// error is not stated anywhere we can cite.
			vm.undet("not-taken-jump-with-target-outside-script")
		}
	case op == CALL:
		vm.call(f, f.ip+i8(arg))
	case op == CALL_L:
		vm.call(f, f.ip+i32(arg))
	case op == CALLA:
		// "Pop the address of a function from the stack, and call the function."
		p := vm.pop()
		if p.T != TPointer {
			fault("CALLA: not a Pointer")
		}
		// "x.Script != CurrentContext.Script => InvalidOperationException"
		if p.Sid != f.sid {
			fault("CALLA: pointer into another script")
		}
		vm.call(f, p.Pos)
	case op == SYSCALL && vm.Scripts != nil:
		// The check's miniature host (NOT NeoVM semantics, the same service
		// is installed as SyscallHandler in the implementation): service id
		// pops one item, loads Scripts[id] as a new context with its own
		// evaluation stack holding that item and with return-value count
		// RV[id]; an unknown id is an error of the service (fault). What IS
		// NeoVM semantics, and is under test, is everything that follows:
		// LoadContext's invocation-stack limit, RET copying the evaluation
		// stack to the caller's ("RVCount doesn't match" fault), exception
		// unwinding across contexts with different stacks, static fields and
		// pointers belonging to one script.
		id := int(uint32(i32(arg)))
		if id < 0 || id >= len(vm.Scripts) {
			fault("SYSCALL: unknown service")
		}
		a := vm.pop()
		if len(vm.frames) >= MaxInvocationStackSize {
			fault("MaxInvocationStackSize exceeded")
		}
		vm.frames = append(vm.frames, &frame{script: vm.Scripts[id], sid: id, rv: vm.RV[id], sh: &shared{stack: []*Item{a}}})
	case op == CALLT, op == SYSCALL:
		// External effects: out of the scope of the property. A bare engine
		// has neither tokens nor interop services: fault.
		fault("%s without a host", op)
	case op == ABORT:
		// "It turns the vm state to FAULT immediately, and cannot be caught."
		fault("ABORT")
	case op == ABORTMSG:
		fault("ABORTMSG")
	case op == ASSERT:
		// "Pop the top value of the stack. If it's false, exit vm execution
		// and set vm state to FAULT."
		if !vm.popBool() {
			fault("ASSERT failed")
		}
	case op == ASSERTMSG:
		// "Pop the top value of the stack as message, then the condition":
		// the message is read with GetString() = strict UTF-8 decoding of the
		// span (an ill-formed sequence throws; well-formedness as defined by
		// the Unicode standard, table 3-7) BEFORE the condition is looked at.
		// Null.GetString() is null in the reference; whether a Null message
		// is acceptable is not stated by the opcode description.
		msg := vm.pop()
		if msg.T == TAny {
			vm.undet("ASSERTMSG-null-message")
		} else if !utf8.Valid(vm.span(msg)) {
			fault("ASSERTMSG: message is not strict UTF-8")
		}
		if !vm.popBool() {
			fault("ASSERTMSG failed")
		}
	case op == THROW:
		// "Pop the top value of the stack, and throw it."
		vm.throw(vm.pop())
	case op == TRY, op == TRY_L:
		// "catch and finally offsets can't both be 0"; at most
		// MaxTryNestingDepth handlers per context; offset 0 = block absent.
		var co, fo int
		if op == TRY {
			co, fo = i8(arg[0:1]), i8(arg[1:2])
		} else {
			co, fo = i32(arg[0:4]), i32(arg[4:8])
		}
		if co == 0 && fo == 0 {
			fault("TRY without catch and finally")
		}
		if len(f.try) >= MaxTryNestingDepth {
			fault("MaxTryNestingDepth exceeded")
		}
		t := &tryCtx{catchPtr: -1, finallyPtr: -1, endPtr: -1}
		if co != 0 {
			t.catchPtr = f.ip + co
		}
		if fo != 0 {
			t.finallyPtr = f.ip + fo
		}
		for _, o := range []int{co, fo} {
			if p := f.ip + o; o != 0 && (p < 0 || p >= len(f.script)) {
				// The reference stores the pointers unchecked and validates
				// them when (and if) control is transferred there.
				vm.undet("TRY-with-handler-outside-script")
			}
		}
		f.try = append(f.try, t)
	case op == ENDTRY, op == ENDTRY_L:
		// "Ensures that the appropriate surrounding finally blocks are
		// executed. And then unconditionally transfers control to the
		// specific target instruction."
		off := 0
		if op == ENDTRY {
			off = i8(arg)
		} else {
			off = i32(arg)
		}
		if len(f.try) == 0 {
			fault("ENDTRY without TRY")
		}
		t := f.try[len(f.try)-1]
		if t.state == inFinally {
			fault("ENDTRY in a FINALLY block")
		}
		end := f.ip + off
		if t.finallyPtr >= 0 {
			if end < 0 || end >= len(f.script) {
				vm.undet("ENDTRY-target-outside-script-before-finally")
			}
			t.state = inFinally
			t.endPtr = end
			vm.setIP(f, t.finallyPtr)
		} else {
			f.try = f.try[:len(f.try)-1]
			vm.setIP(f, end)
		}
		vm.jumping = true
	case op == ENDFINALLY:
		// "End finally, If no exception happen or be catched, vm will jump to
		// the target instruction of ENDTRY/ENDTRY_L. Otherwise, vm will
		// rethrow the exception to upper layer."
		// JumpTable.EndFinally: "if (!TryStack.TryPop(out currentTry)) throw
		// InvalidOperationException": the current context's innermost handler
		// is removed FIRST, whatever its state, and only then the pending
		// exception (if any) is thrown again - so a handler that is still in
		// its TRY or CATCH state when ENDFINALLY executes never sees it.
		if len(f.try) == 0 {
			fault("ENDFINALLY without TRY")
		}
		t := f.try[len(f.try)-1]
		f.try = f.try[:len(f.try)-1]
		if vm.uncaught == nil {
			vm.setIP(f, t.endPtr)
			vm.jumping = true
		} else {
			vm.throw(vm.uncaught)
		}
	case op == RET:
		vm.ret()

	// ---- stack -----------------------------------------------------------------
	case op == DEPTH:
		// "Puts the number of stack items onto the stack."
		vm.push(mkIntN(vm.depth()))
	case op == DROP:
		vm.pop()
	case op == NIP:
		// "Removes the second-to-top stack item."
		vm.remove(1)
	case op == XDROP:
		// "The item n back in the main stack is removed."
		n := vm.popInt32()
		if n < 0 {
			fault("XDROP: negative index")
		}
		vm.remove(n)
	case op == CLEAR:
		*vm.stack() = (*vm.stack())[:0]
	case op == DUP:
		vm.push(vm.peek(0))
	case op == OVER:
		// "Copies the second-to-top stack item to the top."
		vm.push(vm.peek(1))
	case op == PICK:
		// "The item n back in the stack is copied to the top."
		n := vm.popInt32()
		if n < 0 {
			fault("PICK: negative index")
		}
		vm.push(vm.peek(n))
	case op == TUCK:
		// "The item at the top of the stack is copied and inserted before the
		// second-to-top item."
		vm.insert(2, vm.peek(0))
	case op == SWAP:
		vm.push(vm.remove(1))
	case op == ROT:
		// "The top three items on the stack are rotated to the left."
		vm.push(vm.remove(2))
	case op == ROLL:
		// "The item n back in the stack is moved to the top."
		n := vm.popInt32()
		if n < 0 {
			fault("ROLL: negative index")
		}
		if n == 0 {
			if vm.depth() == 0 {
				// n = 0 moves the top onto itself; with nothing left on the
				// stack the reference returns early, the description is silent.
				vm.undet("ROLL-0-on-empty-stack")
			}
			return
		}
		vm.push(vm.remove(n))
	case op == REVERSE3:
		vm.reverse(3)
	case op == REVERSE4:
		vm.reverse(4)
	case op == REVERSEN:
		// "Pop the number N on the stack, and reverse the order of the top N items."
		vm.reverse(vm.popInt32())

	// ---- slots ------------------------------------------------------------------
	case op == INITSSLOT:
		// "Initialize the static field list for the current execution
		// context": once, with a non-zero count; entries start as Null.
		if f.sh.static != nil {
			fault("INITSSLOT twice")
		}
		if arg[0] == 0 {
			fault("INITSSLOT 0")
		}
		f.sh.static = nulls(int(arg[0]))
	case op == INITSLOT:
		// "Initialize the argument slot and the local variable list": once,
		// not both zero; arguments are popped from the stack, the top becomes
		// argument 0.
		if f.locals != nil || f.args != nil {
			fault("INITSLOT twice")
		}
		if arg[0] == 0 && arg[1] == 0 {
			fault("INITSLOT 0 0")
		}
		if arg[0] > 0 {
			f.locals = nulls(int(arg[0]))
		}
		if arg[1] > 0 {
			a := make([]*Item, int(arg[1]))
			for i := range a {
				a[i] = vm.pop()
			}
			f.args = a
		}
	case op >= LDSFLD0 && op <= LDSFLD:
		i := slotOperand(op, LDSFLD0, arg)
		vm.push(f.sh.static[slotIndex(f.sh.static, i)])
	case op >= STSFLD0 && op <= STSFLD:
		i := slotOperand(op, STSFLD0, arg)
		slotIndex(f.sh.static, i)
		f.sh.static[i] = vm.pop()
	case op >= LDLOC0 && op <= LDLOC:
		i := slotOperand(op, LDLOC0, arg)
		vm.push(f.locals[slotIndex(f.locals, i)])
	case op >= STLOC0 && op <= STLOC:
		i := slotOperand(op, STLOC0, arg)
		slotIndex(f.locals, i)
		f.locals[i] = vm.pop()
	case op >= LDARG0 && op <= LDARG:
		i := slotOperand(op, LDARG0, arg)
		vm.push(f.args[slotIndex(f.args, i)])
	case op >= STARG0 && op <= STARG:
		i := slotOperand(op, STARG0, arg)
		slotIndex(f.args, i)
		f.args[i] = vm.pop()

	// ---- splice -------------------------------------------------------------------
	case op == NEWBUFFER:
		// "Creates a new Buffer and pushes it onto the stack" (zero filled);
		// the length is checked with AssertMaxItemSize.
		n := vm.popInt32()
		assertItemSize(n)
		vm.push(mkBuffer(make([]byte, n)))
	case op == MEMCPY:
		// "Copies a range of bytes from one Buffer to another": dst, di, src,
		// si, count (count on top); negative values and ranges outside the
		// source / destination fault; the source may be any item with a span.
		n := vm.popInt32()
		if n < 0 {
			fault("MEMCPY: negative count")
		}
		si := vm.popInt32()
		if si < 0 {
			fault("MEMCPY: negative source index")
		}
		src := vm.popSpan()
		if si+n > len(src) {
			fault("MEMCPY: source range")
		}
		di := vm.popInt32()
		if di < 0 {
			fault("MEMCPY: negative destination index")
		}
		dst := vm.pop()
		if dst.T != TBuffer {
			fault("MEMCPY: destination is not a Buffer")
		}
		if di+n > len(dst.Data) {
			fault("MEMCPY: destination range")
		}
		tmp := clone(src[si : si+n]) // overlapping ranges behave like memmove
		copy(dst.Data[di:], tmp)
	case op == CAT:
		// "Concatenates two strings": result is a Buffer; its length is
		// checked with AssertMaxItemSize.
		x2 := vm.popSpan()
		x1 := vm.popSpan()
		assertItemSize(len(x1) + len(x2))
		vm.push(mkBuffer(append(clone(x1), x2...)))
	case op == SUBSTR:
		// "Returns a section of a string": string, index, count (count on top).
		n := vm.popInt32()
		if n < 0 {
			fault("SUBSTR: negative count")
		}
		i := vm.popInt32()
		if i < 0 {
			fault("SUBSTR: negative index")
		}
		x := vm.popSpan()
		if i+n > len(x) {
			fault("SUBSTR: range")
		}
		vm.push(mkBuffer(clone(x[i : i+n])))
	case op == LEFT:
		// "Keeps only characters left of the specified point in a string."
		n := vm.popInt32()
		if n < 0 {
			fault("LEFT: negative count")
		}
		x := vm.popSpan()
		if n > len(x) {
			fault("LEFT: count")
		}
		vm.push(mkBuffer(clone(x[:n])))
	case op == RIGHT:
		// "Keeps only characters right of the specified point in a string."
		n := vm.popInt32()
		if n < 0 {
			fault("RIGHT: negative count")
		}
		x := vm.popSpan()
		if n > len(x) {
			fault("RIGHT: count")
		}
		vm.push(mkBuffer(clone(x[len(x)-n:])))

	// ---- bitwise logic ---------------------------------------------------------------
	case op == INVERT:
		// "Flips all of the bits in the input."
		vm.pushInt(dnOnesComplement(vm.popInteger()))
	case op == AND, op == OR, op == XOR:
		x2 := vm.popInteger()
		x1 := vm.popInteger()
		var fn func(a, b byte) byte
		switch op {
		case AND:
			fn = func(a, b byte) byte { return a & b }
		case OR:
			fn = func(a, b byte) byte { return a | b }
		default:
			fn = func(a, b byte) byte { return a ^ b }
		}
		vm.pushInt(dnBitwise(x1, x2, fn))
	case op == EQUAL:
		// "Returns 1 if the inputs are exactly equal, 0 otherwise."
		x2 := vm.pop()
		x1 := vm.pop()
		vm.pushBool(vm.equals(x1, x2))
	case op == NOTEQUAL:
		x2 := vm.pop()
		x1 := vm.pop()
		vm.pushBool(!vm.equals(x1, x2))

	// ---- arithmetic --------------------------------------------------------------------
	case op == SIGN:
		// "Puts the sign of top stack item on top of the main stack. If value
		// is negative, put -1; if positive, put 1; if value is zero, put 0."
		vm.push(mkIntN(vm.popInteger().Sign()))
	case op == ABS:
		vm.pushInt(abs(vm.popInteger()))
	case op == NEGATE:
		vm.pushInt(new(big.Int).Neg(vm.popInteger()))
	case op == INC:
		vm.pushInt(new(big.Int).Add(vm.popInteger(), big1))
	case op == DEC:
		vm.pushInt(new(big.Int).Sub(vm.popInteger(), big1))
	case op == ADD:
		x2 := vm.popInteger()
		x1 := vm.popInteger()
		vm.pushInt(new(big.Int).Add(x1, x2))
	case op == SUB:
		x2 := vm.popInteger()
		x1 := vm.popInteger()
		vm.pushInt(new(big.Int).Sub(x1, x2))
	case op == MUL:
		x2 := vm.popInteger()
		x1 := vm.popInteger()
		vm.pushInt(new(big.Int).Mul(x1, x2))
	case op == DIV:
		// "a is divided by b" - BigInteger division truncates toward zero.
		x2 := vm.popInteger()
		x1 := vm.popInteger()
		q, ok := dnDivide(x1, x2)
		if !ok {
			fault("DIV by zero")
		}
		vm.pushInt(q)
	case op == MOD:
		// "Returns the remainder after dividing a by b" - sign of the dividend.
		x2 := vm.popInteger()
		x1 := vm.popInteger()
		r, ok := dnRemainder(x1, x2)
		if !ok {
			fault("MOD by zero")
		}
		vm.pushInt(r)
	case op == POW:
		// "The result of raising value to the exponent power": exponent is an
		// int checked with AssertShift (0..256).
		e := vm.popInt32()
		assertShift(e)
		x := vm.popInteger()
		vm.pushInt(dnPow(x, e))
	case op == SQRT:
		// "Returns the square root of a specified number": floor; negative faults.
		x := vm.popInteger()
		if x.Sign() < 0 {
			fault("SQRT of a negative number")
		}
		vm.pushInt(isqrt(x))
	case op == MODMUL:
		// "Performs modulus division on a number multiplied by another
		// number": x1 * x2 % modulus with the BigInteger "%".
		m := vm.popInteger()
		x2 := vm.popInteger()
		x1 := vm.popInteger()
		r, ok := dnRemainder(new(big.Int).Mul(x1, x2), m)
		if !ok {
			fault("MODMUL: zero modulus")
		}
		vm.pushInt(r)
	case op == MODPOW:
		// "Performs modulus division on a number raised to the power of
		// another number. If the exponent is -1, it will have the calculation
		// of the modular inverse."
		m := vm.popInteger()
		e := vm.popInteger()
		x := vm.popInteger()
		var r *big.Int
		var ok bool
		if e.Cmp(bigM1) == 0 {
			r, ok = neoModInverse(x, m)
		} else {
			r, ok = dnModPow(x, e, m)
		}
		if !ok {
			fault("MODPOW: invalid operands")
		}
		vm.pushInt(r)
	case op == SHL, op == SHR:
		// "Shifts a left/right b bits, preserving sign": the shift is an int
		// checked with AssertShift (0..256). A zero shift yields the value
		// itself as an Integer (behaviour since the Gorgon hardfork, see
		// neo-go docs/node-configuration.md, "Gorgon").
		n := vm.popInt32()
		assertShift(n)
		if n == 0 && vm.PreGorgon {
			return // "if (shift == 0) return;" - the operand stays as it is
		}
		x := vm.popInteger()
		if op == SHL {
			vm.pushInt(dnShiftLeft(x, n))
		} else {
			vm.pushInt(dnShiftRight(x, n))
		}
	case op == NOT:
		// "If the input is 0 or 1, it is flipped. Otherwise the output will
		// be 0": !GetBoolean().
		vm.pushBool(!vm.popBool())
	case op == BOOLAND:
		x2 := vm.popBool()
		x1 := vm.popBool()
		vm.pushBool(x1 && x2)
	case op == BOOLOR:
		x2 := vm.popBool()
		x1 := vm.popBool()
		vm.pushBool(x1 || x2)
	case op == NZ:
		// "Returns 0 if the input is 0. 1 otherwise."
		vm.pushBool(vm.popInteger().Sign() != 0)
	case op == NUMEQUAL:
		x2 := vm.popInteger()
		x1 := vm.popInteger()
		vm.pushBool(x1.Cmp(x2) == 0)
	case op == NUMNOTEQUAL:
		x2 := vm.popInteger()
		x1 := vm.popInteger()
		vm.pushBool(x1.Cmp(x2) != 0)
	case op == LT, op == LE, op == GT, op == GE:
		// "Returns 1 if a is less than b...": when either operand is Null the
		// result is false, otherwise both are taken as integers.
		x2 := vm.pop()
		x1 := vm.pop()
		if x1.isNull() || x2.isNull() {
			vm.pushBool(false)
			break
		}
		c := vm.integer(x1).Cmp(vm.integer(x2))
		switch op {
		case LT:
			vm.pushBool(c < 0)
		case LE:
			vm.pushBool(c <= 0)
		case GT:
			vm.pushBool(c > 0)
		default:
			vm.pushBool(c >= 0)
		}
	case op == MIN:
		x2 := vm.popInteger()
		x1 := vm.popInteger()
		if x2.Cmp(x1) < 0 {
			x1 = x2
		}
		vm.pushInt(x1)
	case op == MAX:
		x2 := vm.popInteger()
		x1 := vm.popInteger()
		if x2.Cmp(x1) > 0 {
			x1 = x2
		}
		vm.pushInt(x1)
	case op == WITHIN:
		// "Returns 1 if x is within the specified range (left-inclusive), 0
		// otherwise": x, a, b (b on top): a <= x < b.
		b := vm.popInteger()
		a := vm.popInteger()
		x := vm.popInteger()
		vm.pushBool(a.Cmp(x) <= 0 && x.Cmp(b) < 0)

	// ---- compound types -------------------------------------------------------------------
	case op == PACKMAP:
		// "A value n is taken from top of main stack. The next n*2 items on
		// main stack are removed, put inside n-sized map": key first, then
		// value; a repeated key keeps its first position, last value wins.
		n := vm.popInt32()
		if n < 0 || n*2 > vm.depth() {
			fault("PACKMAP: bad size")
		}
		m := mkMap()
		for i := 0; i < n; i++ {
			k := vm.pop()
			vm.checkKey(k)
			v := vm.pop()
			vm.mapSet(m, k, v)
		}
		vm.push(m)
	case op == PACKSTRUCT, op == PACK:
		// "The next n items on main stack are removed, put inside n-sized
		// array/struct": the top becomes element 0.
		n := vm.popInt32()
		if n < 0 || n > vm.depth() {
			fault("PACK: bad size")
		}
		e := make([]*Item, n)
		for i := range e {
			e[i] = vm.pop()
		}
		if op == PACK {
			vm.push(mkArray(e))
		} else {
			vm.push(mkStruct(e))
		}
	case op == UNPACK:
		// "A collection is removed from top of the main stack. Its elements
		// are put on top of the main stack (in reverse order) and the
		// collection size is also put on main stack." Map: value, key per
		// entry, the first entry ends on top.
		c := vm.pop()
		switch {
		case c.T == TMap:
			for i := len(c.Keys) - 1; i >= 0; i-- {
				vm.push(c.Vals[i])
				vm.push(c.Keys[i])
			}
			vm.push(mkIntN(len(c.Keys)))
		case c.isArrayLike():
			for i := len(c.Elems) - 1; i >= 0; i-- {
				vm.push(c.Elems[i])
			}
			vm.push(mkIntN(len(c.Elems)))
		default:
			fault("UNPACK: not a compound type")
		}
	case op == NEWARRAY0:
		vm.push(mkArray(nil))
	case op == NEWARRAY, op == NEWARRAY_T, op == NEWSTRUCT:
		// "A value n is taken from top of main stack. A null-filled array /
		// zero-filled struct with size n is put on top": 0 <= n <= MaxStackSize.
		// NEWARRAY_T: elements are false / 0 / empty ByteString for the types
		// Boolean / Integer / ByteString and Null for every other DEFINED type.
		n := vm.popInt32()
		if n < 0 || n > MaxStackSize {
			fault("NEWARRAY: bad size")
		}
		fill := func() *Item { return mkNull() }
		if op == NEWARRAY_T {
			t := Type(arg[0])
			if !TypeDefined(t) {
				fault("NEWARRAY_T: undefined type")
			}
			switch t {
			case TBoolean:
				fill = func() *Item { return mkBool(false) }
			case TInteger:
				fill = func() *Item { return mkIntN(0) }
			case TByteString:
				fill = func() *Item { return mkBytes([]byte{}) }
			}
		}
		e := make([]*Item, n)
		for i := range e {
			e[i] = fill()
		}
		if op == NEWSTRUCT {
			vm.push(mkStruct(e))
		} else {
			vm.push(mkArray(e))
		}
	case op == NEWSTRUCT0:
		vm.push(mkStruct(nil))
	case op == NEWMAP:
		vm.push(mkMap())
	case op == SIZE:
		// "An array is removed from top of the main stack. Its size is put on
		// top": element count of a compound, byte length of a primitive
		// (Boolean 1, Integer its encoding, zero = 0) or Buffer.
		x := vm.pop()
		switch {
		case x.isCompound():
			if x.T == TMap {
				vm.push(mkIntN(len(x.Keys)))
			} else {
				vm.push(mkIntN(len(x.Elems)))
			}
		case x.isPrimitive(), x.T == TBuffer:
			vm.push(mkIntN(len(vm.span(x))))
		default:
			fault("SIZE of %s", x.T)
		}
	case op == HASKEY:
		// "An input index n (or key) and an array (or map) are removed from
		// the top of the main stack. Puts True on top of main stack if
		// array[n] (or map[n]) exist, and False otherwise." Negative index faults.
		k := vm.pop()
		vm.checkKey(k)
		x := vm.pop()
		switch {
		case x.isArrayLike(), x.T == TBuffer, x.T == TByteString:
			i := vm.int32(k)
			if i < 0 {
				fault("HASKEY: negative index")
			}
			if i >= MaxItemSize && !vm.PreGorgon {
				// "Adds bounds check for index of HASKEY" (Gorgon): the
				// exact bound of the reference is not known to us.
				vm.undet("HASKEY-index-at-or-above-MaxItemSize")
			}
			if x.isArrayLike() {
				vm.pushBool(i < len(x.Elems))
			} else {
				vm.pushBool(i < len(vm.span(x)))
			}
		case x.T == TMap:
			vm.pushBool(vm.mapIndex(x, k) >= 0)
		default:
			fault("HASKEY on %s", x.T)
		}
	case op == KEYS:
		// "A map is taken from top of the main stack. The keys of this map
		// are put on top of the main stack" as a new Array.
		m := vm.pop()
		if m.T != TMap {
			fault("KEYS: not a Map")
		}
		vm.push(mkArray(append([]*Item{}, m.Keys...)))
	case op == VALUES:
		// "A map is taken from top of the main stack. The values of this map
		// are put on top" - also of an Array/Struct; Struct values are cloned.
		x := vm.pop()
		var src []*Item
		switch {
		case x.isArrayLike():
			src = x.Elems
		case x.T == TMap:
			src = x.Vals
		default:
			fault("VALUES: not an Array or Map")
		}
		out := make([]*Item, 0, len(src))
		for _, e := range src {
			out = append(out, vm.cloneIfStruct(e))
		}
		vm.push(mkArray(out))
	case op == PICKITEM:
		// "An input index n (or key) and an array (or map) are taken from
		// main stack. Element array[n] (or map[n]) is put on top." A missing
		// index/key raises a CATCHABLE exception; a primitive or Buffer
		// yields the byte at the index as an Integer.
		k := vm.pop()
		vm.checkKey(k)
		x := vm.pop()
		switch {
		case x.isArrayLike():
			i := vm.int32(k)
			if i < 0 || i >= len(x.Elems) {
				catchable("The value %d is out of range.", i)
			}
			vm.push(x.Elems[i])
		case x.T == TMap:
			i := vm.mapIndex(x, k)
			if i < 0 {
				catchable("Key not found in Map")
			}
			vm.push(x.Vals[i])
		case x.isPrimitive(), x.T == TBuffer:
			b := vm.span(x)
			i := vm.int32(k)
			if i < 0 || i >= len(b) {
				catchable("The value %d is out of range.", i)
			}
			vm.push(mkIntN(int(b[i])))
		default:
			fault("PICKITEM on %s", x.T)
		}
	case op == APPEND:
		// "The item on top of main stack is removed and appended to the
		// second item on top of the main stack" (an Array or Struct); a
		// Struct item is cloned.
		v := vm.pop()
		a := vm.pop()
		if !a.isArrayLike() {
			fault("APPEND to %s", a.T)
		}
		v = vm.cloneIfStruct(v)
		a.Elems = append(a.Elems, v)
		vm.noteLink(a, v)
	case op == SETITEM:
		// "A value v, index n (or key) and an array (or map) are taken from
		// main stack. Attribution array[n]=v (or map[n]=v) is performed."
		// Struct values are cloned; index outside an Array/Buffer raises a
		// CATCHABLE exception; a Buffer takes a primitive in [-128, 255].
		v := vm.cloneIfStruct(vm.pop())
		k := vm.pop()
		vm.checkKey(k)
		x := vm.pop()
		switch {
		case x.isArrayLike():
			i := vm.int32(k)
			if i < 0 || i >= len(x.Elems) {
				catchable("The value %d is out of range.", i)
			}
			x.Elems[i] = v
			vm.noteLink(x, v)
		case x.T == TMap:
			vm.mapSet(x, k, v)
			vm.noteLink(x, v)
		case x.T == TBuffer:
			i := vm.int32(k)
			if i < 0 || i >= len(x.Data) {
				catchable("The value %d is out of range.", i)
			}
			if !v.isPrimitive() {
				fault("SETITEM: Buffer value must be primitive")
			}
			b := vm.int32(v)
			if b < -128 || b > 255 {
				fault("SETITEM: byte value out of range")
			}
			x.Data[i] = byte(b)
		default:
			fault("SETITEM on %s", x.T)
		}
	case op == REVERSEITEMS:
		// "An array is removed from the top of the main stack and its
		// elements are reversed" (Array, Struct or Buffer, in place).
		x := vm.pop()
		switch {
		case x.isArrayLike():
			e := x.Elems
			for i, j := 0, len(e)-1; i < j; i, j = i+1, j-1 {
				e[i], e[j] = e[j], e[i]
			}
		case x.T == TBuffer:
			e := x.Data
			for i, j := 0, len(e)-1; i < j; i, j = i+1, j-1 {
				e[i], e[j] = e[j], e[i]
			}
		default:
			fault("REVERSEITEMS on %s", x.T)
		}
	case op == REMOVE:
		// "An input index n (or key) and an array (or map) are removed from
		// the top of the main stack. Element array[n] (or map[n]) is
		// removed." Index outside the array faults; a missing key is ignored.
		k := vm.pop()
		vm.checkKey(k)
		x := vm.pop()
		switch {
		case x.isArrayLike():
			i := vm.int32(k)
			if i < 0 || i >= len(x.Elems) {
				fault("REMOVE: index out of range")
			}
			x.Elems = append(x.Elems[:i:i], x.Elems[i+1:]...)
		case x.T == TMap:
			if i := vm.mapIndex(x, k); i >= 0 {
				x.Keys = append(x.Keys[:i:i], x.Keys[i+1:]...)
				x.Vals = append(x.Vals[:i:i], x.Vals[i+1:]...)
			}
		default:
			fault("REMOVE on %s", x.T)
		}
	case op == CLEARITEMS:
		// "Remove all the items from the compound-type."
		x := vm.pop()
		if !x.isCompound() {
			fault("CLEARITEMS on %s", x.T)
		}
		x.Elems, x.Keys, x.Vals = nil, nil, nil
	case op == POPITEM:
		// "Remove the last element from an array, and push it onto the stack."
		x := vm.pop()
		if !x.isArrayLike() {
			fault("POPITEM on %s", x.T)
		}
		if len(x.Elems) == 0 {
			fault("POPITEM on an empty array")
		}
		vm.push(x.Elems[len(x.Elems)-1])
		x.Elems = x.Elems[:len(x.Elems)-1]

	// ---- types ---------------------------------------------------------------------------
	case op == ISNULL:
		// "Returns true if the input is null."
		vm.pushBool(vm.pop().isNull())
	case op == ISTYPE:
		// "Returns true if the top item of the stack is of the specified
		// type": the type Any and undefined types fault.
		x := vm.pop()
		t := Type(arg[0])
		if t == TAny || !TypeDefined(t) {
			fault("ISTYPE: invalid type")
		}
		vm.pushBool(x.T == t)
	case op == CONVERT:
		// "Converts the top item of the stack to the specified type."
		x := vm.pop()
		vm.push(vm.convert(x, Type(arg[0])))
	default:
		fault("opcode %s not modelled", op)
	}
}

func nulls(n int) []*Item {
	s := make([]*Item, n)
	for i := range s {
		s[i] = mkNull()
	}
	return s
}

// slotOperand: LDxxx0..6 carry the index in the opcode, LDxxx in the operand.
func slotOperand(op, base Op, arg []byte) int {
	if op-base < 7 {
		return int(op - base)
	}
	return int(arg[0])
}
