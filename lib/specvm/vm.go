package specvm

import (
	"encoding/binary"
	"fmt"
)

// State of the machine.
type State int

const (
	NONE State = iota
	HALT
	FAULT
)

func (s State) String() string { return [...]string{"NONE", "HALT", "FAULT"}[s] }

type tryState int

const (
	inTry tryState = iota
	inCatch
	inFinally
)

// tryCtx is an ExceptionHandlingContext: pointers are absolute positions, -1
// when the block is absent (offset 0 in the TRY instruction).
type tryCtx struct {
	catchPtr, finallyPtr, endPtr int
	state                        tryState
}

// shared is what CALL-created contexts share with their creator
// (ExecutionContext.Clone: "shared states": script, evaluation stack, static
// fields).
type shared struct {
	stack  []*Item // evaluation stack, bottom first
	static []*Item // nil = not initialised
}

// frame is an ExecutionContext.
type frame struct {
	script []byte
	sid    int // index of the script in VM.Scripts (0 = entry)
	rv     int // return value count expected by the loader (-1 = any)
	ip     int
	sh     *shared
	locals []*Item // nil = not initialised
	args   []*Item // nil = not initialised
	try    []*tryCtx
}

// VM is one run of the model over one script.
type VM struct {
	Script   []byte
	State    State
	Result   []*Item // result stack after HALT, bottom first
	FaultMsg string
	// Undet is set (first reason wins) when the run passed through a case the
	// model does not claim to know; the outcome must then not be compared.
	Undet string
	// Steps is the number of instructions executed.
	Steps int
	// CycleMade: a compound item was made reachable from itself.
	CycleMade bool
	// UnwoundLeft: number of items that were still on the evaluation stacks
	// of contexts removed by exception unwinding (contexts with their own
	// stack). Whether the reference keeps counting them against MaxStackSize
	// could not be settled.
	UnwoundLeft int
	// Thrown counts exceptions raised (THROW or engine-raised catchable ones).
	Thrown int

	// Scripts/RV: the scripts the check's miniature SYSCALL host can load
	// (Scripts[0] is the entry script) and their return-value counts.
	Scripts [][]byte
	RV      []int
	// PreGorgon selects the behaviour before the Gorgon hardfork (SHL/SHR by
	// zero leave the operand untouched, HASKEY has no upper index bound).
	PreGorgon bool

	frames   []*frame
	uncaught *Item
	jumping  bool
}

type faultErr struct{ msg string }
type catchableErr struct{ msg string }

func fault(format string, a ...any) { panic(faultErr{fmt.Sprintf(format, a...)}) }

// catchable raises a CatchableException of the engine ("ExecutionEngineLimits
// .CatchEngineExceptions = true": it is turned into a THROW of its message).
func catchable(format string, a ...any) { panic(catchableErr{fmt.Sprintf(format, a...)}) }

func (vm *VM) undet(why string) {
	if vm.Undet == "" {
		vm.Undet = why
	}
}

// touch records that the content of an engine-generated message was looked at.
func (vm *VM) touch(it *Item) {
	if it.EngineMsg {
		vm.undet("engine-exception-message-content")
	}
}

// New loads script as the entry context (ExecutionEngine.LoadScript with
// rvcount -1: everything left on the evaluation stack is the result).
func New(script []byte) *VM {
	vm := &VM{Script: script}
	vm.frames = []*frame{{script: script, rv: -1, sh: &shared{}}}
	return vm
}

// NewHost is New plus the scripts the miniature host can load with SYSCALL
// (extra[i] gets service id i+1, rv[i] is its return-value count).
func NewHost(script []byte, extra [][]byte, rv []int) *VM {
	vm := New(script)
	vm.Scripts = append([][]byte{script}, extra...)
	vm.RV = append([]int{-1}, rv...)
	return vm
}

// Run executes until HALT or FAULT, or until maxSteps instructions were
// executed (then State stays NONE and Undet is set: the model does not decide
// termination).
func (vm *VM) Run(maxSteps int) State {
	for vm.State == NONE {
		if vm.Steps >= maxSteps {
			vm.undet("step-limit")
			return vm.State
		}
		vm.step()
	}
	return vm.State
}

// Run is the one-call form.
func Run(script []byte, maxSteps int) *VM {
	vm := New(script)
	vm.Run(maxSteps)
	return vm
}

func (vm *VM) cur() *frame { return vm.frames[len(vm.frames)-1] }

// instr is a decoded instruction.
type instr struct {
	op      Op
	operand []byte
	size    int
}

// decode is Script.GetInstruction(ip): "ip >= Length => RET" is handled by the
// caller; an undefined opcode or an operand reaching beyond the script faults.
func (vm *VM) decode(f *frame, ip int) instr {
	s := f.script
	b := s[ip]
	if !Defined(b) {
		fault("undefined opcode 0x%02x", b)
	}
	fixed, prefix := OperandSize(Op(b))
	p := ip + 1
	n := fixed
	if prefix > 0 {
		if p+prefix > len(s) {
			fault("instruction out of bounds (length prefix)")
		}
		switch prefix {
		case 1:
			n = int(s[p])
		case 2:
			n = int(binary.LittleEndian.Uint16(s[p:]))
		case 4:
			u := binary.LittleEndian.Uint32(s[p:])
			if u > 0x7fffffff {
				fault("instruction out of bounds (negative length)")
			}
			n = int(u)
		}
		p += prefix
	}
	if p+n > len(s) {
		fault("instruction out of bounds (operand)")
	}
	return instr{op: Op(b), operand: s[p : p+n], size: p + n - ip}
}

// step is ExecutionEngine.ExecuteNext.
func (vm *VM) step() {
	defer func() {
		if r := recover(); r != nil {
			if f, ok := r.(faultErr); ok {
				vm.State = FAULT
				vm.FaultMsg = f.msg
				return
			}
			panic(r)
		}
	}()
	vm.Steps++
	f := vm.cur()
	var in instr
	if f.ip >= len(f.script) {
		in = instr{op: RET, size: 1} // "CurrentInstruction ?? Instruction.RET"
	} else {
		in = vm.decode(f, f.ip)
	}
	vm.jumping = false
	func() {
		defer func() {
			if r := recover(); r != nil {
				if c, ok := r.(catchableErr); ok {
					_ = c
					vm.throw(&Item{T: TByteString, Data: []byte(c.msg), EngineMsg: true})
					return
				}
				panic(r)
			}
		}()
		vm.exec(f, in)
	}()
	// PostExecuteInstruction: "ReferenceCounter.CheckZeroReferred() >
	// Limits.MaxStackSize => MaxStackSize exceed".
	if n := vm.countRefs(); n > MaxStackSize {
		fault("MaxStackSize exceeded: %d", n)
	}
	if !vm.jumping {
		f.ip += in.size
	}
}

// countRefs is the number the reference compares with MaxStackSize: every item
// on every evaluation stack, on the result stack and in every slot counts one
// (slots count their Null entries too), plus the sub-items of every compound
// item reachable from those (each compound object counted once however often
// it is referenced). Unreachable objects (also cyclic garbage, which the
// reference collects with Tarjan's algorithm) do not count.
func (vm *VM) countRefs() int {
	total := 0
	// Fast path (the common case): no compound item on any stack or slot.
	{
		n, compound := 0, false
		var prev *shared
		scan := func(items []*Item) {
			n += len(items)
			for _, it := range items {
				if it.isCompound() {
					compound = true
				}
			}
		}
		scan(vm.Result)
		for _, f := range vm.frames {
			if f.sh != prev { // all frames of one script share one state
				scan(f.sh.stack)
				scan(f.sh.static)
				prev = f.sh
			}
			scan(f.locals)
			scan(f.args)
		}
		if !compound {
			return n
		}
	}
	seenSh := map[*shared]bool{}
	seen := map[*Item]bool{}
	var work []*Item
	root := func(items []*Item) {
		total += len(items)
		for _, it := range items {
			if it != nil && it.isCompound() && !seen[it] {
				seen[it] = true
				work = append(work, it)
			}
		}
	}
	root(vm.Result)
	for _, f := range vm.frames {
		if !seenSh[f.sh] {
			seenSh[f.sh] = true
			root(f.sh.stack)
			root(f.sh.static)
		}
		root(f.locals)
		root(f.args)
	}
	for len(work) > 0 {
		c := work[len(work)-1]
		work = work[:len(work)-1]
		total += c.subItems()
		push := func(it *Item) {
			if it.isCompound() && !seen[it] {
				seen[it] = true
				work = append(work, it)
			}
		}
		for _, e := range c.Elems {
			push(e)
		}
		for _, e := range c.Vals {
			push(e)
		}
	}
	return total
}

// reaches reports whether compound `from` reaches `target` through sub-items.
func reaches(from, target *Item) bool {
	seen := map[*Item]bool{}
	var rec func(x *Item) bool
	rec = func(x *Item) bool {
		if x == target {
			return true
		}
		if !x.isCompound() || seen[x] {
			return false
		}
		seen[x] = true
		for _, e := range x.Elems {
			if rec(e) {
				return true
			}
		}
		for _, e := range x.Vals {
			if rec(e) {
				return true
			}
		}
		return false
	}
	return rec(from)
}

// noteLink is called when `child` becomes a sub-item of `parent`.
func (vm *VM) noteLink(parent, child *Item) {
	if child.isCompound() && reaches(child, parent) {
		vm.CycleMade = true
	}
}

// ---- evaluation stack -----------------------------------------------------------

func (vm *VM) stack() *[]*Item { return &vm.cur().sh.stack }

func (vm *VM) depth() int { return len(*vm.stack()) }

func (vm *VM) push(it *Item) {
	s := vm.stack()
	*s = append(*s, it)
}

func (vm *VM) pop() *Item {
	s := vm.stack()
	if len(*s) == 0 {
		fault("pop from an empty evaluation stack")
	}
	it := (*s)[len(*s)-1]
	*s = (*s)[:len(*s)-1]
	return it
}

// peek(n): the n-th item from the top (0 = top).
func (vm *VM) peek(n int) *Item {
	s := *vm.stack()
	if n < 0 || n >= len(s) {
		fault("peek(%d) with %d items", n, len(s))
	}
	return s[len(s)-1-n]
}

// remove(n): removes and returns the n-th item from the top.
func (vm *VM) remove(n int) *Item {
	s := vm.stack()
	if n < 0 || n >= len(*s) {
		fault("remove(%d) with %d items", n, len(*s))
	}
	i := len(*s) - 1 - n
	it := (*s)[i]
	*s = append((*s)[:i], (*s)[i+1:]...)
	return it
}

// insert(n, it): EvaluationStack.Insert - the item ends up n positions below
// the new top ("index > Count => fault").
func (vm *VM) insert(n int, it *Item) {
	s := vm.stack()
	if n < 0 || n > len(*s) {
		fault("insert(%d) with %d items", n, len(*s))
	}
	i := len(*s) - n
	*s = append(*s, nil)
	copy((*s)[i+1:], (*s)[i:])
	(*s)[i] = it
}

// reverse(n): EvaluationStack.Reverse - "n < 0 or n > Count => fault; n <= 1 nothing".
func (vm *VM) reverse(n int) {
	s := *vm.stack()
	if n < 0 || n > len(s) {
		fault("reverse(%d) with %d items", n, len(s))
	}
	top := s[len(s)-n:]
	for i, j := 0, len(top)-1; i < j; i, j = i+1, j-1 {
		top[i], top[j] = top[j], top[i]
	}
}

// ---- control transfer -------------------------------------------------------------

// atEnd flags a control transfer that lands exactly on the end of the script
// (where the implicit RET lives). The reference treats the forms differently
// (JMP-like: "position >= Script.Length" faults; CALL and the exception
// machinery assign InstructionPointer, whose setter admits Length); which of
// them is normative could not be settled offline.
func (vm *VM) atEnd(f *frame, pos int) {
	if pos == len(f.script) {
		vm.undet("control-transfer-to-end-of-script")
	}
}

// jump is ExecuteJump: the target must be inside the script ("position < 0 ||
// position >= Script.Length => ArgumentOutOfRangeException"): a JMP-like
// transfer exactly to the end of the script is settled by that rule (fault)
// and therefore NOT flagged undetermined, unlike the InstructionPointer
// setter forms below.
func (vm *VM) jump(f *frame, pos int) {
	if pos < 0 || pos >= len(f.script) {
		fault("jump out of range: %d", pos)
	}
	f.ip = pos
	vm.jumping = true
}

// setIP is the InstructionPointer setter used by CALL, ENDTRY, ENDFINALLY and
// exception dispatch: [0, Length] is admitted.
func (vm *VM) setIP(f *frame, pos int) {
	vm.atEnd(f, pos)
	if pos < 0 || pos > len(f.script) {
		fault("instruction pointer out of range: %d", pos)
	}
	f.ip = pos
}

// call is ExecuteCall: a clone of the current context positioned at pos;
// "InvocationStack.Count >= MaxInvocationStackSize => fault".
func (vm *VM) call(f *frame, pos int) {
	nf := &frame{script: f.script, sid: f.sid, rv: 0, sh: f.sh}
	vm.setIP(nf, pos)
	if len(vm.frames) >= MaxInvocationStackSize {
		fault("MaxInvocationStackSize exceeded")
	}
	vm.frames = append(vm.frames, nf)
	// not "jumping": the caller moves past the CALL instruction.
}

// ret is RET: the context is removed; the entry context hands its evaluation
// stack to the result stack and the machine halts; contexts created by CALL
// share the stack with their caller, so nothing is copied.
func (vm *VM) ret() {
	f := vm.cur()
	vm.frames = vm.frames[:len(vm.frames)-1]
	if len(vm.frames) == 0 {
		vm.Result = f.sh.stack
		f.sh.stack = nil
		f.sh.static = nil // UnloadContext: static fields are released
		vm.State = HALT
	} else if c := vm.cur(); c.sh != f.sh {
		// A context loaded with its own evaluation stack returns: "RVCount
		// doesn't match with EvaluationStack" faults, otherwise the whole
		// stack is copied (in order) onto the caller's.
		if f.rv >= 0 && len(f.sh.stack) != f.rv {
			fault("RET: return value count %d, expected %d", len(f.sh.stack), f.rv)
		}
		c.sh.stack = append(c.sh.stack, f.sh.stack...)
	}
	vm.jumping = true
}

// throw is ExecuteThrow: walk the invocation stack from the top; in every
// context drop the handlers that are already in their FINALLY block, or in
// their CATCH block without a FINALLY; the first remaining handler takes the
// exception - into its CATCH block (exception pushed) if it is still in the
// TRY block and has one, otherwise into its FINALLY block with the exception
// pending. Contexts above the handling one are unloaded. No handler: fault.
func (vm *VM) throw(ex *Item) {
	vm.Thrown++
	vm.uncaught = ex
	for i := len(vm.frames) - 1; i >= 0; i-- {
		f := vm.frames[i]
		for len(f.try) > 0 {
			t := f.try[len(f.try)-1]
			if t.state == inFinally || (t.state == inCatch && t.finallyPtr < 0) {
				f.try = f.try[:len(f.try)-1]
				continue
			}
			for _, d := range vm.frames[i+1:] {
				if d.sh != f.sh {
					// Items a context leaves on its own evaluation stack
					// when an exception unwinds it are unreachable (not
					// counted by the model); see UnwoundLeft.
					vm.UnwoundLeft += len(d.sh.stack)
				}
			}
			vm.frames = vm.frames[:i+1]
			if t.state == inTry && t.catchPtr >= 0 {
				t.state = inCatch
				f.sh.stack = append(f.sh.stack, vm.uncaught)
				vm.uncaught = nil
				vm.setIP(f, t.catchPtr)
			} else {
				t.state = inFinally
				vm.setIP(f, t.finallyPtr)
			}
			vm.jumping = true
			return
		}
	}
	fault("unhandled exception")
}
