package vk

import (
	"os"
	"testing"
)

var theT *testing.T

// UseT hands the running test to the kit (first statement of every TestCheck).
func UseT(t *testing.T) { theT = t }

// FlushCoverage supports tools/covgap.sh (check built with -cover, run with
// -test.gocoverdir): the testing package writes its coverage files only when
// the test function ends, and checks leave through os.Exit. In that mode the
// test is ended through the testing package instead (reported as skipped,
// which covgap ignores). No-op otherwise.
func FlushCoverage() {
	if os.Getenv("VERIF_COVERDIR") == "" || theT == nil {
		return
	}
	theT.SkipNow()
}
