// Package vk is the small kit shared by all checks: tier/seed handling,
// internal deadlines, violation reporting with known-findings lookup, replay
// artefacts and the evidence file.
package vk

import (
	"encoding/json"
	"fmt"
	"os"
	"path/filepath"
	"runtime"
	"sort"
	"strconv"
	"strings"
	"sync"
	"sync/atomic"
	"time"
)

// Root is the /verif directory (checks are always started by ./vr with cwd=/verif,
// VERIF_ROOT overrides).
func Root() string {
	if r := os.Getenv("VERIF_ROOT"); r != "" {
		return r
	}
	return "/verif"
}

// Out is where run outputs (partial evidence, replay artefacts) go: Root()
// for /repo, a private directory when ./vr builds against another checkout.
func Out() string {
	if r := os.Getenv("VERIF_OUT"); r != "" {
		return r
	}
	return filepath.Join(Root(), ".build")
}

// Repo is the neo-go checkout the check was built against.
func Repo() string {
	if r := os.Getenv("VERIF_REPO"); r != "" {
		return r
	}
	return "/repo"
}

// Run is one execution of one check.
type Run struct {
	ID    string
	Tier  string // quick | thorough
	Seed  int
	Level string
	start time.Time
	dl    time.Time

	mu         sync.Mutex
	violations []violation
	knownHit   map[string]int
	known      []finding
	samples    []any
	nsamples   int64
	sampleCap  int
	outcomes   map[string]int64
	capped     atomic.Bool
	Replay     string // path of a replay file, if the run is a replay
}

type violation struct {
	Key    string `json:"key"`
	Detail any    `json:"detail"`
	File   string `json:"file"`
}

type finding struct {
	prop, key, text string
}

// Start reads the environment and the known-findings file.
// budgetQuick/budgetThorough are the internal deadlines (the check stops
// exploring when they pass, reports exhaustive:false and still exits 0).
func Start(id, level string, budgetQuick, budgetThorough time.Duration) *Run {
	// A part of one check can be run as a part of another property's check as well
	// (parts.txt: env:VERIF_ID=Cxx): it then reports under that property.
	if v := os.Getenv("VERIF_ID"); v != "" {
		id = v
	}
	r := &Run{ID: id, Level: level, start: time.Now(), knownHit: map[string]int{}, outcomes: map[string]int64{}, sampleCap: 6}
	r.Tier = os.Getenv("VERIF_TIER")
	if r.Tier != "thorough" {
		r.Tier = "quick"
	}
	if s := os.Getenv("VERIF_SEED"); s != "" {
		r.Seed, _ = strconv.Atoi(s)
	}
	r.Replay = os.Getenv("VERIF_REPLAY")
	b := budgetQuick
	if r.Tier == "thorough" {
		b = budgetThorough
	}
	if s := os.Getenv("VERIF_BUDGET_S"); s != "" {
		if n, err := strconv.Atoi(s); err == nil {
			b = time.Duration(n) * time.Second
		}
	}
	r.dl = r.start.Add(b)
	r.loadKnown()
	return r
}

func (r *Run) Thorough() bool { return r.Tier == "thorough" }

// Pick returns q for quick and t for thorough.
func Pick[T any](r *Run, q, t T) T {
	if r.Thorough() {
		return t
	}
	return q
}

// Expired reports whether the internal deadline has passed. A check that
// stops because of it must call Capped.
func (r *Run) Expired() bool {
	if time.Now().After(r.dl) {
		r.capped.Store(true)
		return true
	}
	return false
}

// Capped marks the run as not exhaustive.
func (r *Run) Capped()            { r.capped.Store(true) }
func (r *Run) IsCapped() bool     { return r.capped.Load() }
func (r *Run) Elapsed() float64   { return time.Since(r.start).Seconds() }
func (r *Run) Workers() int       { return runtime.NumCPU() }
func (r *Run) NViolations() int   { r.mu.Lock(); defer r.mu.Unlock(); return len(r.violations) }
func (r *Run) TooMany() bool      { return r.NViolations() >= 20 }
func (r *Run) SetSampleCap(n int) { r.sampleCap = n }

func (r *Run) loadKnown() {
	b, err := os.ReadFile(filepath.Join(Root(), "KNOWN_FINDINGS.txt"))
	if err != nil {
		return
	}
	for _, l := range strings.Split(string(b), "\n") {
		l = strings.TrimSpace(l)
		if l == "" || strings.HasPrefix(l, "#") || strings.HasPrefix(l, "fixed:") {
			continue
		}
		// property=<id> key=<key> <text>
		f := strings.Fields(l)
		if len(f) < 2 || !strings.HasPrefix(f[0], "property=") || !strings.HasPrefix(f[1], "key=") {
			continue
		}
		r.known = append(r.known, finding{prop: strings.TrimPrefix(f[0], "property="), key: strings.TrimPrefix(f[1], "key="), text: strings.Join(f[2:], " ")})
	}
}

// Outcome counts a distinct observed outcome class (to expose vacuous runs).
func (r *Run) Outcome(class string) {
	r.mu.Lock()
	r.outcomes[class]++
	r.mu.Unlock()
}

// Sample keeps a few explored cases written out in full (first ones and then
// every 10^k-th).
func (r *Run) Sample(v any) {
	n := atomic.AddInt64(&r.nsamples, 1)
	keep := n <= 2
	for p := int64(10); !keep && p <= n; p *= 10 {
		if n == p {
			keep = true
		}
	}
	if !keep {
		return
	}
	r.mu.Lock()
	if len(r.samples) < r.sampleCap+8 {
		r.samples = append(r.samples, v)
	}
	r.mu.Unlock()
}

// Violation records a property violation. key is the stable identifier of the
// failing input / call site / history (it is what KNOWN_FINDINGS.txt lists).
// A key listed there as open is printed as KNOWN-FINDING and not counted.
// Returns true if it is a new (unlisted) violation.
func (r *Run) Violation(key string, detail any) bool {
	key = strings.ReplaceAll(key, " ", "_")
	r.mu.Lock()
	defer r.mu.Unlock()
	for _, k := range r.known {
		if k.prop == r.ID && matchKey(k.key, key) {
			if r.knownHit[k.key] == 0 {
				fmt.Printf("KNOWN-FINDING: property=%s %s (key=%s)\n", r.ID, k.text, k.key)
			}
			r.knownHit[k.key]++
			return false
		}
	}
	for _, v := range r.violations {
		if v.Key == key {
			return true
		}
	}
	dir := filepath.Join(ReplayRoot(), r.ID)
	_ = os.MkdirAll(dir, 0o755)
	name := sanitize(key)
	if len(name) > 80 {
		name = name[:80]
	}
	file := filepath.Join(dir, fmt.Sprintf("%s-%d.json", name, len(r.violations)))
	b, _ := json.MarshalIndent(map[string]any{"property": r.ID, "key": key, "tier": r.Tier, "detail": detail}, "", " ")
	_ = os.WriteFile(file, b, 0o644)
	r.violations = append(r.violations, violation{Key: key, Detail: detail, File: file})
	if len(r.violations) <= 20 {
		fmt.Printf("VIOLATION property=%s replay=%s\n", r.ID, file)
		s := fmt.Sprint(detail)
		if len(s) > 1500 {
			s = s[:1500] + "..."
		}
		fmt.Printf("  key=%s\n  %s\n", key, s)
	}
	return true
}

// matchKey: a known key ending in '*' is a prefix pattern.
func matchKey(pat, key string) bool {
	if strings.HasSuffix(pat, "*") {
		return strings.HasPrefix(key, strings.TrimSuffix(pat, "*"))
	}
	return pat == key
}

func sanitize(s string) string {
	var b strings.Builder
	for _, c := range s {
		switch {
		case c >= 'a' && c <= 'z', c >= 'A' && c <= 'Z', c >= '0' && c <= '9', c == '-', c == '_', c == '.':
			b.WriteRune(c)
		default:
			b.WriteByte('_')
		}
	}
	return b.String()
}

// Finish writes the evidence file and exits with the right code. cov must
// contain the keys the level requires; samples, exhaustive, outcomes are added.
func (r *Run) Finish(cov map[string]any, assumptions []string) {
	r.mu.Lock()
	if _, ok := cov["samples"]; !ok {
		s := r.samples
		if len(s) == 0 {
			s = []any{"(no sample recorded)"}
		}
		cov["samples"] = s
	}
	if _, ok := cov["exhaustive"]; !ok {
		cov["exhaustive"] = !r.capped.Load()
	} else if r.capped.Load() {
		cov["exhaustive"] = false
	}
	if r.capped.Load() {
		cov["cap_hit"] = "internal deadline reached; counts are what was completed"
	}
	if len(r.outcomes) > 0 {
		keys := make([]string, 0, len(r.outcomes))
		for k := range r.outcomes {
			keys = append(keys, k)
		}
		sort.Strings(keys)
		o := map[string]int64{}
		for i, k := range keys {
			if i >= 60 {
				break
			}
			o[k] = r.outcomes[k]
		}
		cov["distinct_outcomes"] = len(r.outcomes)
		cov["outcomes"] = o
	}
	if len(r.knownHit) > 0 {
		cov["known_findings_hit"] = r.knownHit
	}
	nv := len(r.violations)
	if nv > 0 {
		var ks []string
		for _, v := range r.violations {
			ks = append(ks, v.Key)
		}
		cov["violation_keys"] = ks
	}
	r.mu.Unlock()
	ev := map[string]any{
		"property_id": r.ID,
		"tier":        r.Tier,
		"seed":        r.Seed,
		"level":       r.Level,
		"coverage":    cov,
		"assumptions": assumptions,
		"wall_s":      time.Since(r.start).Seconds(),
		"violations":  nv,
	}
	b, err := json.MarshalIndent(ev, "", " ")
	if err != nil {
		fmt.Println("evidence marshal error:", err)
		os.Exit(3)
	}
	if r.Replay == "" {
		part := os.Getenv("VERIF_PART")
		if part == "" {
			part = "main"
		}
		dir := filepath.Join(Out(), "parts")
		_ = os.MkdirAll(dir, 0o755)
		if err := os.WriteFile(filepath.Join(dir, r.ID+"."+part+".json"), b, 0o644); err != nil {
			fmt.Println("evidence write error:", err)
			os.Exit(3)
		}
	}
	fmt.Printf("%s %s: violations=%d exhaustive=%v wall=%.1fs\n", r.ID, r.Tier, nv, cov["exhaustive"], time.Since(r.start).Seconds())
	FlushCoverage()
	if nv > 0 {
		os.Exit(1)
	}
	os.Exit(0)
}

// ReplayRoot is the directory of replay artefacts.
func ReplayRoot() string {
	if r := os.Getenv("VERIF_OUT"); r != "" {
		return filepath.Join(r, "replays")
	}
	return filepath.Join(Root(), "replays")
}

// ReadReplay loads the detail part of a replay artefact into v.
func (r *Run) ReadReplay(v any) error {
	b, err := os.ReadFile(r.Replay)
	if err != nil {
		return err
	}
	var w struct {
		Detail json.RawMessage `json:"detail"`
	}
	if err := json.Unmarshal(b, &w); err != nil {
		return err
	}
	return json.Unmarshal(w.Detail, v)
}

// Parallel runs f(i) for i in [0,n) on all cores; it stops handing out work
// once the deadline has passed (marking the run capped) or too many
// violations were found. Returns the number of items completed.
func (r *Run) Parallel(n int, f func(i int)) int {
	var next, done int64
	var wg sync.WaitGroup
	w := r.Workers()
	if w > n {
		w = n
	}
	for k := 0; k < w; k++ {
		wg.Add(1)
		go func() {
			defer wg.Done()
			for {
				i := int(atomic.AddInt64(&next, 1) - 1)
				if i >= n {
					return
				}
				if r.Expired() || r.TooMany() {
					return
				}
				f(i)
				atomic.AddInt64(&done, 1)
			}
		}()
	}
	wg.Wait()
	if int(done) < n {
		r.capped.Store(true)
	}
	return int(done)
}

var (
	scratchMu   sync.Mutex
	scratchRoot string
)

// scratchBase creates (once per process) a randomly named private root; pids
// are not unique across the sandboxes sharing /dev/shm, so they are not used.
func scratchBase() string {
	scratchMu.Lock()
	defer scratchMu.Unlock()
	if scratchRoot != "" {
		return scratchRoot
	}
	base := "/dev/shm"
	if st, err := os.Stat(base); err != nil || !st.IsDir() {
		base = filepath.Join(Root(), ".scratch")
		_ = os.MkdirAll(base, 0o755)
	}
	d, err := os.MkdirTemp(base, "verif-")
	if err != nil {
		panic(err)
	}
	scratchRoot = d
	return d
}

// Scratch returns a fresh private scratch directory (tmpfs when available) and
// a cleanup function.
func Scratch(tag string) (string, func()) {
	d, err := os.MkdirTemp(scratchBase(), tag)
	if err != nil {
		panic(err)
	}
	return d, func() { _ = os.RemoveAll(d) }
}

// CleanScratch removes this process's scratch root.
func CleanScratch() {
	scratchMu.Lock()
	defer scratchMu.Unlock()
	if scratchRoot != "" {
		_ = os.RemoveAll(scratchRoot)
		scratchRoot = ""
	}
}

// Counter is an atomic int64 with a short name.
type Counter struct{ v atomic.Int64 }

func (c *Counter) Inc()       { c.v.Add(1) }
func (c *Counter) Add(n int)  { c.v.Add(int64(n)) }
func (c *Counter) Get() int64 { return c.v.Load() }

// Set is a concurrent string set for counting distinct things.
type Set struct {
	mu sync.Mutex
	m  map[string]struct{}
}

func NewSet() *Set { return &Set{m: map[string]struct{}{}} }

// Add returns true if s was new.
func (s *Set) Add(k string) bool {
	s.mu.Lock()
	defer s.mu.Unlock()
	if _, ok := s.m[k]; ok {
		return false
	}
	s.m[k] = struct{}{}
	return true
}
func (s *Set) Len() int { s.mu.Lock(); defer s.mu.Unlock(); return len(s.m) }
