// Package vatomic replaces sync/atomic in overlay-rewritten packages: every
// operation is a scheduling point, then the real atomic operation runs.
package vatomic

import (
	"sync/atomic"
	"unsafe"

	"verif/lib/sched"
)

// objs gives package-level functions (LoadInt32(&x) ...) an identity per address.
var (
	addrObjs = map[unsafe.Pointer]*sched.Obj{}
)

func pt(o *sched.Obj) {
	ex := sched.Cur()
	if ex == nil || ex.Inert() {
		return
	}
	id, _ := o.ID(ex)
	ex.Point(&sched.Pending{Kind: sched.KAtomic, Obj: id})
}

func ptAddr(p unsafe.Pointer) {
	ex := sched.Cur()
	if ex == nil || ex.Inert() {
		return
	}
	o := addrObjs[p]
	if o == nil {
		o = &sched.Obj{}
		addrObjs[p] = o
	}
	id, _ := o.ID(ex)
	ex.Point(&sched.Pending{Kind: sched.KAtomic, Obj: id})
}

type Bool struct {
	o sched.Obj
	v atomic.Bool
}

func (x *Bool) Load() bool                    { pt(&x.o); return x.v.Load() }
func (x *Bool) Store(v bool)                  { pt(&x.o); x.v.Store(v) }
func (x *Bool) Swap(v bool) bool              { pt(&x.o); return x.v.Swap(v) }
func (x *Bool) CompareAndSwap(o, n bool) bool { pt(&x.o); return x.v.CompareAndSwap(o, n) }

type Int32 struct {
	o sched.Obj
	v atomic.Int32
}

func (x *Int32) Load() int32                    { pt(&x.o); return x.v.Load() }
func (x *Int32) Store(v int32)                  { pt(&x.o); x.v.Store(v) }
func (x *Int32) Swap(v int32) int32             { pt(&x.o); return x.v.Swap(v) }
func (x *Int32) Add(d int32) int32              { pt(&x.o); return x.v.Add(d) }
func (x *Int32) And(m int32) int32              { pt(&x.o); return x.v.And(m) }
func (x *Int32) Or(m int32) int32               { pt(&x.o); return x.v.Or(m) }
func (x *Int32) CompareAndSwap(o, n int32) bool { pt(&x.o); return x.v.CompareAndSwap(o, n) }

type Int64 struct {
	o sched.Obj
	v atomic.Int64
}

func (x *Int64) Load() int64                    { pt(&x.o); return x.v.Load() }
func (x *Int64) Store(v int64)                  { pt(&x.o); x.v.Store(v) }
func (x *Int64) Swap(v int64) int64             { pt(&x.o); return x.v.Swap(v) }
func (x *Int64) Add(d int64) int64              { pt(&x.o); return x.v.Add(d) }
func (x *Int64) And(m int64) int64              { pt(&x.o); return x.v.And(m) }
func (x *Int64) Or(m int64) int64               { pt(&x.o); return x.v.Or(m) }
func (x *Int64) CompareAndSwap(o, n int64) bool { pt(&x.o); return x.v.CompareAndSwap(o, n) }

type Uint32 struct {
	o sched.Obj
	v atomic.Uint32
}

func (x *Uint32) Load() uint32                    { pt(&x.o); return x.v.Load() }
func (x *Uint32) Store(v uint32)                  { pt(&x.o); x.v.Store(v) }
func (x *Uint32) Swap(v uint32) uint32            { pt(&x.o); return x.v.Swap(v) }
func (x *Uint32) Add(d uint32) uint32             { pt(&x.o); return x.v.Add(d) }
func (x *Uint32) And(m uint32) uint32             { pt(&x.o); return x.v.And(m) }
func (x *Uint32) Or(m uint32) uint32              { pt(&x.o); return x.v.Or(m) }
func (x *Uint32) CompareAndSwap(o, n uint32) bool { pt(&x.o); return x.v.CompareAndSwap(o, n) }

type Uint64 struct {
	o sched.Obj
	v atomic.Uint64
}

func (x *Uint64) Load() uint64                    { pt(&x.o); return x.v.Load() }
func (x *Uint64) Store(v uint64)                  { pt(&x.o); x.v.Store(v) }
func (x *Uint64) Swap(v uint64) uint64            { pt(&x.o); return x.v.Swap(v) }
func (x *Uint64) Add(d uint64) uint64             { pt(&x.o); return x.v.Add(d) }
func (x *Uint64) And(m uint64) uint64             { pt(&x.o); return x.v.And(m) }
func (x *Uint64) Or(m uint64) uint64              { pt(&x.o); return x.v.Or(m) }
func (x *Uint64) CompareAndSwap(o, n uint64) bool { pt(&x.o); return x.v.CompareAndSwap(o, n) }

type Uintptr struct {
	o sched.Obj
	v atomic.Uintptr
}

func (x *Uintptr) Load() uintptr                    { pt(&x.o); return x.v.Load() }
func (x *Uintptr) Store(v uintptr)                  { pt(&x.o); x.v.Store(v) }
func (x *Uintptr) Swap(v uintptr) uintptr           { pt(&x.o); return x.v.Swap(v) }
func (x *Uintptr) Add(d uintptr) uintptr            { pt(&x.o); return x.v.Add(d) }
func (x *Uintptr) CompareAndSwap(o, n uintptr) bool { pt(&x.o); return x.v.CompareAndSwap(o, n) }

type Pointer[T any] struct {
	o sched.Obj
	v atomic.Pointer[T]
}

func (x *Pointer[T]) Load() *T                    { pt(&x.o); return x.v.Load() }
func (x *Pointer[T]) Store(v *T)                  { pt(&x.o); x.v.Store(v) }
func (x *Pointer[T]) Swap(v *T) *T                { pt(&x.o); return x.v.Swap(v) }
func (x *Pointer[T]) CompareAndSwap(o, n *T) bool { pt(&x.o); return x.v.CompareAndSwap(o, n) }

type Value struct {
	o sched.Obj
	v atomic.Value
}

func (x *Value) Load() any                    { pt(&x.o); return x.v.Load() }
func (x *Value) Store(v any)                  { pt(&x.o); x.v.Store(v) }
func (x *Value) Swap(v any) any               { pt(&x.o); return x.v.Swap(v) }
func (x *Value) CompareAndSwap(o, n any) bool { pt(&x.o); return x.v.CompareAndSwap(o, n) }

// Package-level functions.
func LoadInt32(p *int32) int32          { ptAddr(unsafe.Pointer(p)); return atomic.LoadInt32(p) }
func StoreInt32(p *int32, v int32)      { ptAddr(unsafe.Pointer(p)); atomic.StoreInt32(p, v) }
func AddInt32(p *int32, d int32) int32  { ptAddr(unsafe.Pointer(p)); return atomic.AddInt32(p, d) }
func SwapInt32(p *int32, v int32) int32 { ptAddr(unsafe.Pointer(p)); return atomic.SwapInt32(p, v) }
func CompareAndSwapInt32(p *int32, o, n int32) bool {
	ptAddr(unsafe.Pointer(p))
	return atomic.CompareAndSwapInt32(p, o, n)
}
func LoadInt64(p *int64) int64          { ptAddr(unsafe.Pointer(p)); return atomic.LoadInt64(p) }
func StoreInt64(p *int64, v int64)      { ptAddr(unsafe.Pointer(p)); atomic.StoreInt64(p, v) }
func AddInt64(p *int64, d int64) int64  { ptAddr(unsafe.Pointer(p)); return atomic.AddInt64(p, d) }
func SwapInt64(p *int64, v int64) int64 { ptAddr(unsafe.Pointer(p)); return atomic.SwapInt64(p, v) }
func CompareAndSwapInt64(p *int64, o, n int64) bool {
	ptAddr(unsafe.Pointer(p))
	return atomic.CompareAndSwapInt64(p, o, n)
}
func LoadUint32(p *uint32) uint32          { ptAddr(unsafe.Pointer(p)); return atomic.LoadUint32(p) }
func StoreUint32(p *uint32, v uint32)      { ptAddr(unsafe.Pointer(p)); atomic.StoreUint32(p, v) }
func AddUint32(p *uint32, d uint32) uint32 { ptAddr(unsafe.Pointer(p)); return atomic.AddUint32(p, d) }
func SwapUint32(p *uint32, v uint32) uint32 {
	ptAddr(unsafe.Pointer(p))
	return atomic.SwapUint32(p, v)
}
func CompareAndSwapUint32(p *uint32, o, n uint32) bool {
	ptAddr(unsafe.Pointer(p))
	return atomic.CompareAndSwapUint32(p, o, n)
}
func LoadUint64(p *uint64) uint64          { ptAddr(unsafe.Pointer(p)); return atomic.LoadUint64(p) }
func StoreUint64(p *uint64, v uint64)      { ptAddr(unsafe.Pointer(p)); atomic.StoreUint64(p, v) }
func AddUint64(p *uint64, d uint64) uint64 { ptAddr(unsafe.Pointer(p)); return atomic.AddUint64(p, d) }
func SwapUint64(p *uint64, v uint64) uint64 {
	ptAddr(unsafe.Pointer(p))
	return atomic.SwapUint64(p, v)
}
func CompareAndSwapUint64(p *uint64, o, n uint64) bool {
	ptAddr(unsafe.Pointer(p))
	return atomic.CompareAndSwapUint64(p, o, n)
}
