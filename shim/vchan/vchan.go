// Package vchan is the shim channel the overlay generator rewrites the
// syntactic channel forms into:
//
//	chan T, <-chan T, chan<- T   ->  *vchan.Chan[T]
//	make(chan T), make(chan T,n) ->  vchan.Make[T](), vchan.Make[T](n)
//	c <- v                       ->  c.Send(v)
//	<-c ; v, ok := <-c           ->  c.Recv() ; c.Recv2()
//	close(c)                     ->  c.Close()
//	select {...}                 ->  switch vchan.Select(hasDefault, cases...) {...}
//	for v := range c {...}       ->  for { v, ok := c.Recv2(); if !ok { break }; ... }
//
// Under an active sched execution a channel created there is a model (buffer,
// closed flag, rendezvous through the scheduler's parked set); otherwise it
// wraps a real channel.
package vchan

import (
	"reflect"

	"verif/lib/sched"
)

// TimeSrc makes a channel a time source (ticker / timer): a receive is
// enabled while Ready, yields, and counts as blocked-by-horizon when Blocked.
type TimeSrc[T any] struct {
	Ready   func() bool
	Blocked func() bool
	Take    func() T
}

type Chan[T any] struct {
	o      sched.Obj
	model  bool
	real   chan T
	rx     <-chan T
	capN   int
	buf    []T
	closed bool
	Src    *TimeSrc[T]
}

// Make is make(chan T) / make(chan T, n).
func Make[T any](n ...int) *Chan[T] {
	k := 0
	if len(n) > 0 {
		k = n[0]
	}
	ex := sched.Cur()
	if ex == nil || ex.Inert() {
		return &Chan[T]{real: make(chan T, k), capN: k}
	}
	c := &Chan[T]{model: true, capN: k}
	c.o.ID(ex)
	return c
}

// WrapRecv wraps a real receive-only channel (fallback tickers).
func WrapRecv[T any](c <-chan T) *Chan[T] { return &Chan[T]{rx: c} }

// NewTimeChan makes a model channel fed by a time source.
func NewTimeChan[T any](src *TimeSrc[T]) *Chan[T] {
	c := &Chan[T]{model: true, capN: 1, Src: src}
	if ex := sched.Cur(); ex != nil {
		c.o.ID(ex)
	}
	return c
}

func (c *Chan[T]) Len() int {
	if c == nil {
		return 0
	}
	if !c.model {
		if c.rx != nil {
			return len(c.rx)
		}
		return len(c.real)
	}
	return len(c.buf)
}

func (c *Chan[T]) Cap() int {
	if c == nil {
		return 0
	}
	return c.capN
}

func (c *Chan[T]) rch() <-chan T {
	if c == nil {
		return nil
	}
	if c.rx != nil {
		return c.rx
	}
	return c.real
}

// ---- cases ---------------------------------------------------------------------

// Case is one communication clause of a select.
type Case interface {
	nilChan() bool
	isModel() bool
	chanID() any
	isSend() bool
	objID(ex *sched.Exec) int32
	ready(ex *sched.Exec, self *sched.Pending) bool
	timeSrc() (has, blocked bool)
	fire(ex *sched.Exec)
	inert()
	give() any           // send case: boxed value
	take(v any, ok bool) // recv case: store the received value
	reflectCase() reflect.SelectCase
	reflectDone(v reflect.Value, ok bool)
}

type selState struct {
	cases    []Case
	doneCase int
}

// RCase is a receive clause; after Select chose it Val/OK hold the result.
type RCase[T any] struct {
	c   *Chan[T]
	Val T
	OK  bool
}

// SCase is a send clause.
type SCase[T any] struct {
	c *Chan[T]
	v T
}

func RecvCase[T any](c *Chan[T]) *RCase[T]      { return &RCase[T]{c: c} }
func SendCase[T any](c *Chan[T], v T) *SCase[T] { return &SCase[T]{c: c, v: v} }

func findPartner(ex *sched.Exec, self *sched.Pending, id any, wantSend bool) (*sched.Pending, int) {
	var best *sched.Pending
	bi := -1
	for _, p := range ex.Parked() {
		if p == self || p.Done {
			continue
		}
		st, ok := p.Data.(*selState)
		if !ok {
			continue
		}
		for i, cs := range st.cases {
			if !cs.nilChan() && cs.chanID() == id && cs.isSend() == wantSend {
				if best == nil || p.Seq < best.Seq {
					best, bi = p, i
				}
				break
			}
		}
	}
	return best, bi
}

func (r *RCase[T]) nilChan() bool { return r.c == nil }
func (r *RCase[T]) isModel() bool { return r.c != nil && r.c.model }
func (r *RCase[T]) chanID() any   { return r.c }
func (r *RCase[T]) isSend() bool  { return false }
func (r *RCase[T]) objID(ex *sched.Exec) int32 {
	if r.c == nil {
		return 0
	}
	id, fresh := r.c.o.ID(ex)
	if fresh {
		r.c.buf, r.c.closed = nil, false
	}
	return id
}
func (r *RCase[T]) timeSrc() (bool, bool) {
	if r.c == nil || r.c.Src == nil {
		return false, false
	}
	return true, r.c.Src.Blocked()
}
func (r *RCase[T]) ready(ex *sched.Exec, self *sched.Pending) bool {
	c := r.c
	if c == nil {
		return false
	}
	if len(c.buf) > 0 || c.closed {
		return true
	}
	if c.Src != nil {
		return c.Src.Ready()
	}
	if c.capN == 0 {
		p, _ := findPartner(ex, self, any(c), true)
		return p != nil
	}
	return false
}
func (r *RCase[T]) fire(ex *sched.Exec) {
	c := r.c
	switch {
	case len(c.buf) > 0:
		r.Val, r.OK = c.buf[0], true
		c.buf = c.buf[1:]
	case c.Src != nil && !c.closed && c.Src.Ready():
		r.Val, r.OK = c.Src.Take(), true
	case c.closed:
		var z T
		r.Val, r.OK = z, false
	default:
		p, i := findPartner(ex, nil, any(c), true)
		if p == nil {
			panic("vchan: receive fired without a value (engine bug)")
		}
		st := p.Data.(*selState)
		r.Val, r.OK = st.cases[i].give().(T), true
		st.doneCase = i
		p.Done = true
	}
}
func (r *RCase[T]) inert() {
	c := r.c
	if c != nil && len(c.buf) > 0 {
		r.Val, r.OK = c.buf[0], true
		c.buf = c.buf[1:]
	}
}
func (r *RCase[T]) give() any { panic("vchan: give on receive case") }
func (r *RCase[T]) take(v any, ok bool) {
	r.Val, r.OK = v.(T), ok
}
func (r *RCase[T]) reflectCase() reflect.SelectCase {
	return reflect.SelectCase{Dir: reflect.SelectRecv, Chan: reflect.ValueOf(r.c.rch())}
}
func (r *RCase[T]) reflectDone(v reflect.Value, ok bool) {
	r.OK = ok
	if ok {
		r.Val = v.Interface().(T)
	}
}

func (s *SCase[T]) nilChan() bool { return s.c == nil }
func (s *SCase[T]) isModel() bool { return s.c != nil && s.c.model }
func (s *SCase[T]) chanID() any   { return s.c }
func (s *SCase[T]) isSend() bool  { return true }
func (s *SCase[T]) objID(ex *sched.Exec) int32 {
	if s.c == nil {
		return 0
	}
	id, fresh := s.c.o.ID(ex)
	if fresh {
		s.c.buf, s.c.closed = nil, false
	}
	return id
}
func (s *SCase[T]) timeSrc() (bool, bool) { return false, false }
func (s *SCase[T]) ready(ex *sched.Exec, self *sched.Pending) bool {
	c := s.c
	if c == nil {
		return false
	}
	if c.closed || len(c.buf) < c.capN {
		return true
	}
	if c.capN == 0 {
		p, _ := findPartner(ex, self, any(c), false)
		return p != nil
	}
	return false
}
func (s *SCase[T]) fire(ex *sched.Exec) {
	c := s.c
	switch {
	case c.closed:
		panic("send on closed channel")
	case len(c.buf) < c.capN:
		c.buf = append(c.buf, s.v)
	default:
		p, i := findPartner(ex, nil, any(c), false)
		if p == nil {
			panic("vchan: send fired without room (engine bug)")
		}
		st := p.Data.(*selState)
		st.cases[i].take(any(s.v), true)
		st.doneCase = i
		p.Done = true
	}
}
func (s *SCase[T]) inert() {
	c := s.c
	if c != nil && !c.closed && len(c.buf) < c.capN {
		c.buf = append(c.buf, s.v)
	}
}
func (s *SCase[T]) give() any           { return any(s.v) }
func (s *SCase[T]) take(v any, ok bool) { panic("vchan: take on send case") }
func (s *SCase[T]) reflectCase() reflect.SelectCase {
	return reflect.SelectCase{Dir: reflect.SelectSend, Chan: reflect.ValueOf(s.c.real), Send: reflect.ValueOf(s.v)}
}
func (s *SCase[T]) reflectDone(v reflect.Value, ok bool) {}

// Select performs a select statement over the cases; returns the index of the
// chosen case or -1 for default.
func Select(hasDefault bool, cases ...Case) int {
	return doSelect(sched.KSelect, hasDefault, cases)
}

func doSelect(kind sched.Kind, hasDefault bool, cases []Case) int {
	ex := sched.Cur()
	anyModel, anyReal := false, false
	for _, cs := range cases {
		if cs.nilChan() {
			continue
		}
		if cs.isModel() {
			anyModel = true
		} else {
			anyReal = true
		}
	}
	if anyModel && anyReal {
		panic("vchan: select mixes model and real channels")
	}
	if !anyModel && (anyReal || ex == nil || ex.Inert()) {
		// real channels (or only nil channels outside an execution)
		rc := make([]reflect.SelectCase, 0, len(cases)+1)
		for _, cs := range cases {
			if cs.nilChan() {
				rc = append(rc, reflect.SelectCase{Dir: reflect.SelectRecv, Chan: reflect.ValueOf((chan struct{})(nil))})
				continue
			}
			rc = append(rc, cs.reflectCase())
		}
		if hasDefault {
			rc = append(rc, reflect.SelectCase{Dir: reflect.SelectDefault})
		}
		i, v, ok := reflect.Select(rc)
		if hasDefault && i == len(cases) {
			return -1
		}
		cases[i].reflectDone(v, ok)
		return i
	}
	if ex == nil || ex.Inert() {
		// model channels after the execution ended: never block
		if hasDefault {
			return -1
		}
		for i, cs := range cases {
			if !cs.nilChan() {
				cs.inert()
				return i
			}
		}
		return 0
	}
	if len(cases) > 15 {
		panic("vchan: select with more than 15 cases")
	}
	st := &selState{cases: cases, doneCase: -1}
	var obj int32
	yield := false
	for i, cs := range cases {
		id := cs.objID(ex)
		if i == 0 {
			obj = id
		}
		if has, _ := cs.timeSrc(); has {
			yield = true
		}
	}
	p := &sched.Pending{Kind: kind, Obj: obj, Data: st, Time: yield}
	p.Enabled = func() uint32 {
		var m uint32
		for i, cs := range cases {
			if cs.ready(ex, p) {
				m |= 1 << i
			}
		}
		if m == 0 && hasDefault {
			m = 1 << 15
		}
		return m
	}
	p.TimeBlocked = func() bool {
		for _, cs := range cases {
			if _, b := cs.timeSrc(); b {
				return true
			}
		}
		return false
	}
	ex.Point(p)
	if p.Done {
		return st.doneCase
	}
	if p.Sub == 15 {
		return -1
	}
	cases[p.Sub].fire(ex)
	return p.Sub
}

// ---- plain operations ------------------------------------------------------------

func (c *Chan[T]) Send(v T) {
	if c != nil && !c.model {
		c.real <- v
		return
	}
	doSelect(sched.KSend, false, []Case{&SCase[T]{c: c, v: v}})
}

func (c *Chan[T]) Recv() T {
	v, _ := c.Recv2()
	return v
}

func (c *Chan[T]) Recv2() (T, bool) {
	if c != nil && !c.model {
		v, ok := <-c.rch()
		return v, ok
	}
	r := &RCase[T]{c: c}
	k := sched.KRecv
	if c != nil && c.Src != nil {
		k = sched.KTick
	}
	doSelect(k, false, []Case{r})
	return r.Val, r.OK
}

func (c *Chan[T]) Close() {
	if c == nil {
		panic("close of nil channel")
	}
	if !c.model {
		close(c.real)
		return
	}
	ex := sched.Cur()
	if ex != nil && !ex.Inert() {
		id, fresh := c.o.ID(ex)
		if fresh {
			c.buf, c.closed = nil, false
		}
		ex.Point(&sched.Pending{Kind: sched.KClose, Obj: id})
	} else {
		c.closed = true
		return
	}
	if c.closed {
		panic("close of closed channel")
	}
	c.closed = true
}
