// Package vsync is the drop-in replacement for the subset of package sync the
// overlay-rewritten subject packages use. Under an active sched execution
// every operation is a scheduling point and blocking is modelled; otherwise
// the real primitives are used.
package vsync

import (
	"sync"

	"verif/lib/sched"
)

// Pass-through types.
type (
	Locker = sync.Locker
	Map    = sync.Map
	Pool   = sync.Pool
)

// OnceFunc etc. are plain functions over Once; pass through.
var (
	OnceFunc = sync.OnceFunc
)

// ---- Mutex ---------------------------------------------------------------------

type Mutex struct {
	real   sync.Mutex
	o      sched.Obj
	locked bool
}

func (m *Mutex) id(ex *sched.Exec) int32 {
	id, fresh := m.o.ID(ex)
	if fresh {
		m.locked = false
	}
	return id
}

func (m *Mutex) Lock() {
	ex := sched.Cur()
	if ex == nil {
		m.real.Lock()
		return
	}
	if ex.Inert() {
		return
	}
	id := m.id(ex)
	ex.Point(&sched.Pending{Kind: sched.KLock, Obj: id, Enabled: func() uint32 { return b2u(!m.locked) }})
	m.locked = true
}

func (m *Mutex) TryLock() bool {
	ex := sched.Cur()
	if ex == nil {
		return m.real.TryLock()
	}
	if ex.Inert() {
		return true
	}
	id := m.id(ex)
	ex.Point(&sched.Pending{Kind: sched.KLock, Obj: id})
	if m.locked {
		return false
	}
	m.locked = true
	return true
}

func (m *Mutex) Unlock() {
	ex := sched.Cur()
	if ex == nil {
		m.real.Unlock()
		return
	}
	if ex.Inert() {
		return
	}
	id := m.id(ex)
	ex.Point(&sched.Pending{Kind: sched.KUnlock, Obj: id, NoSwitch: true})
	if !m.locked {
		panic("sync: unlock of unlocked mutex")
	}
	m.locked = false
}

func b2u(b bool) uint32 {
	if b {
		return 1
	}
	return 0
}

// ---- RWMutex -------------------------------------------------------------------

type RWMutex struct {
	real    sync.RWMutex
	o       sched.Obj
	writer  bool
	readers int
}

func (m *RWMutex) id(ex *sched.Exec) int32 {
	id, fresh := m.o.ID(ex)
	if fresh {
		m.writer, m.readers = false, 0
	}
	return id
}

func (m *RWMutex) Lock() {
	ex := sched.Cur()
	if ex == nil {
		m.real.Lock()
		return
	}
	if ex.Inert() {
		return
	}
	id := m.id(ex)
	ex.Point(&sched.Pending{Kind: sched.KLock, Obj: id, Enabled: func() uint32 { return b2u(!m.writer && m.readers == 0) }})
	m.writer = true
}

func (m *RWMutex) Unlock() {
	ex := sched.Cur()
	if ex == nil {
		m.real.Unlock()
		return
	}
	if ex.Inert() {
		return
	}
	id := m.id(ex)
	ex.Point(&sched.Pending{Kind: sched.KUnlock, Obj: id, NoSwitch: true})
	if !m.writer {
		panic("sync: Unlock of unlocked RWMutex")
	}
	m.writer = false
}

func (m *RWMutex) RLock() {
	ex := sched.Cur()
	if ex == nil {
		m.real.RLock()
		return
	}
	if ex.Inert() {
		return
	}
	id := m.id(ex)
	ex.Point(&sched.Pending{Kind: sched.KRLock, Obj: id, Enabled: func() uint32 { return b2u(!m.writer) }})
	m.readers++
}

func (m *RWMutex) RUnlock() {
	ex := sched.Cur()
	if ex == nil {
		m.real.RUnlock()
		return
	}
	if ex.Inert() {
		return
	}
	id := m.id(ex)
	ex.Point(&sched.Pending{Kind: sched.KRUnlock, Obj: id, NoSwitch: true})
	if m.readers <= 0 {
		panic("sync: RUnlock of unlocked RWMutex")
	}
	m.readers--
}

func (m *RWMutex) TryLock() bool {
	ex := sched.Cur()
	if ex == nil {
		return m.real.TryLock()
	}
	if ex.Inert() {
		return true
	}
	id := m.id(ex)
	ex.Point(&sched.Pending{Kind: sched.KLock, Obj: id})
	if m.writer || m.readers > 0 {
		return false
	}
	m.writer = true
	return true
}

func (m *RWMutex) TryRLock() bool {
	ex := sched.Cur()
	if ex == nil {
		return m.real.TryRLock()
	}
	if ex.Inert() {
		return true
	}
	id := m.id(ex)
	ex.Point(&sched.Pending{Kind: sched.KRLock, Obj: id})
	if m.writer {
		return false
	}
	m.readers++
	return true
}

type rlocker RWMutex

func (r *rlocker) Lock()   { (*RWMutex)(r).RLock() }
func (r *rlocker) Unlock() { (*RWMutex)(r).RUnlock() }

func (m *RWMutex) RLocker() Locker { return (*rlocker)(m) }

// ---- WaitGroup -----------------------------------------------------------------

type WaitGroup struct {
	real sync.WaitGroup
	o    sched.Obj
	n    int
}

func (w *WaitGroup) id(ex *sched.Exec) int32 {
	id, fresh := w.o.ID(ex)
	if fresh {
		w.n = 0
	}
	return id
}

func (w *WaitGroup) Add(d int) {
	ex := sched.Cur()
	if ex == nil {
		w.real.Add(d)
		return
	}
	if ex.Inert() {
		return
	}
	id := w.id(ex)
	ex.Point(&sched.Pending{Kind: sched.KWgAdd, Obj: id, NoSwitch: d < 0})
	w.n += d
	if w.n < 0 {
		panic("sync: negative WaitGroup counter")
	}
}

func (w *WaitGroup) Done() { w.Add(-1) }

func (w *WaitGroup) Go(f func()) {
	w.Add(1)
	sched.Go(func() {
		defer w.Done()
		f()
	})
}

func (w *WaitGroup) Wait() {
	ex := sched.Cur()
	if ex == nil {
		w.real.Wait()
		return
	}
	if ex.Inert() {
		return
	}
	id := w.id(ex)
	ex.Point(&sched.Pending{Kind: sched.KWgWait, Obj: id, Enabled: func() uint32 { return b2u(w.n == 0) }})
}

// ---- Once ----------------------------------------------------------------------

type Once struct {
	real    sync.Once
	o       sched.Obj
	done    bool
	running bool
}

func (o *Once) Do(f func()) {
	ex := sched.Cur()
	if ex == nil {
		o.real.Do(f)
		return
	}
	if ex.Inert() {
		return
	}
	id, fresh := o.o.ID(ex)
	if fresh {
		o.done, o.running = false, false
	}
	// a second caller blocks while the first one runs f
	ex.Point(&sched.Pending{Kind: sched.KOnce, Obj: id, Enabled: func() uint32 { return b2u(!o.running) }})
	if o.done {
		return
	}
	o.running = true
	defer func() { o.done, o.running = true, false }()
	f()
}

// ---- Cond ----------------------------------------------------------------------

type Cond struct {
	L       Locker
	real    *sync.Cond
	o       sched.Obj
	waiters []*sched.Pending
}

func NewCond(l Locker) *Cond { return &Cond{L: l} }

func (c *Cond) r() *sync.Cond {
	if c.real == nil {
		c.real = sync.NewCond(c.L)
	}
	return c.real
}

func (c *Cond) id(ex *sched.Exec) int32 {
	id, fresh := c.o.ID(ex)
	if fresh {
		c.waiters = nil
	}
	return id
}

func (c *Cond) Wait() {
	ex := sched.Cur()
	if ex == nil {
		c.r().Wait()
		return
	}
	if ex.Inert() {
		return
	}
	id := c.id(ex)
	// atomically: enqueue as a waiter and release L (Unlock is its own point
	// first, as in the real implementation the enqueue happens before unlock)
	p := &sched.Pending{Kind: sched.KCondWake, Obj: id, Enabled: func() uint32 { return 0 }}
	c.waiters = append(c.waiters, p)
	c.L.Unlock()
	ex.Point(p) // enabled only once Signal/Broadcast set p.Done
	c.L.Lock()
}

func (c *Cond) Signal() {
	ex := sched.Cur()
	if ex == nil {
		c.r().Signal()
		return
	}
	if ex.Inert() {
		return
	}
	id := c.id(ex)
	ex.Point(&sched.Pending{Kind: sched.KCondSignal, Obj: id})
	if len(c.waiters) > 0 {
		c.waiters[0].Done = true
		c.waiters = c.waiters[1:]
	}
}

func (c *Cond) Broadcast() {
	ex := sched.Cur()
	if ex == nil {
		c.r().Broadcast()
		return
	}
	if ex.Inert() {
		return
	}
	id := c.id(ex)
	ex.Point(&sched.Pending{Kind: sched.KCondSignal, Obj: id})
	for _, w := range c.waiters {
		w.Done = true
	}
	c.waiters = nil
}
