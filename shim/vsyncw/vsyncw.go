// Package vsyncw ("write points") is a second replacement for package sync,
// made for subject packages whose locks are also taken by FREE-RUNNING
// goroutines while a controlled execution is active (pkg/core/storage under
// the real Blockchain: storeBlock's AER writer goroutine reads the shared
// stores through read locks while the block-adding logical thread runs).
//
// Differences from verif/shim/vsync:
//   - every operation ALWAYS takes the real primitive as well, so goroutines the
//     scheduler does not know are physically excluded exactly as in production;
//   - only the WRITE side is modelled: Mutex.Lock / RWMutex.Lock are scheduling
//     points (blocking is modelled: a thread waiting for a lock held by a parked
//     thread is disabled, it never blocks for real), Unlock is a pure release
//     point; RLock / RUnlock are not scheduling points at all (plain real lock).
//
// One case of the read side is modelled: a REGISTERED logical thread (the
// harness calls RegisterThread at the start of each of its threads) that
// read-locks while the model says a (necessarily parked) logical thread holds
// the write lock parks at a scheduling point until the lock is released; the
// real RLock would otherwise block without the scheduler knowing (dao.Simple
// keeps nativeCacheLock write-held across Store.Persist / PersistPrivate, which
// contain points). Free-running goroutines always take the plain real lock.
//
// Remaining assumption: no logical thread reaches a scheduling point while it
// holds one of these locks in READ mode if another logical thread may
// write-lock the same object (readers are not counted in the model). It holds
// for memcached_store.go / memory_store.go (read sections contain no points)
// and for dao.go (a read-locked private dao is only ever used by its own
// thread; the shared dao's read sections contain no points).
package vsyncw

import (
	"bytes"
	"runtime"
	"strconv"
	"sync"

	"verif/lib/sched"
)

var (
	regMu   sync.Mutex
	regExec *sched.Exec
	regGIDs map[uint64]bool
)

func gid() uint64 {
	var buf [64]byte
	b := buf[:runtime.Stack(buf[:], false)]
	b = bytes.TrimPrefix(b, []byte("goroutine "))
	if i := bytes.IndexByte(b, ' '); i > 0 {
		b = b[:i]
	}
	n, _ := strconv.ParseUint(string(b), 10, 64)
	return n
}

// RegisterThread tells the shim that the calling goroutine is a logical thread
// of the active execution (call it first thing in every thread function).
func RegisterThread() {
	ex := sched.Cur()
	if ex == nil {
		return
	}
	regMu.Lock()
	if regExec != ex {
		regExec, regGIDs = ex, map[uint64]bool{}
	}
	regGIDs[gid()] = true
	regMu.Unlock()
}

func isLogical(ex *sched.Exec) bool {
	regMu.Lock()
	defer regMu.Unlock()
	return regExec == ex && regGIDs[gid()]
}

// Pass-through types.
type (
	Locker    = sync.Locker
	Map       = sync.Map
	Pool      = sync.Pool
	Once      = sync.Once
	WaitGroup = sync.WaitGroup
)

func b2u(b bool) uint32 {
	if b {
		return 1
	}
	return 0
}

// active returns the execution if the caller must go through the model.
func active() *sched.Exec {
	ex := sched.Cur()
	if ex == nil || ex.Inert() {
		return nil
	}
	return ex
}

// ---- Mutex ---------------------------------------------------------------------

type Mutex struct {
	real   sync.Mutex
	o      sched.Obj
	locked bool
}

func (m *Mutex) id(ex *sched.Exec) int32 {
	id, fresh := m.o.ID(ex)
	if fresh {
		m.locked = false
	}
	return id
}

func (m *Mutex) Lock() {
	if ex := active(); ex != nil {
		id := m.id(ex)
		ex.Point(&sched.Pending{Kind: sched.KLock, Obj: id, Enabled: func() uint32 { return b2u(!m.locked) }})
		m.locked = true
	}
	m.real.Lock()
}

func (m *Mutex) Unlock() {
	if ex := active(); ex != nil {
		id := m.id(ex)
		ex.Point(&sched.Pending{Kind: sched.KUnlock, Obj: id, NoSwitch: true})
		m.locked = false
	}
	m.real.Unlock()
}

// ---- RWMutex -------------------------------------------------------------------

type RWMutex struct {
	real   sync.RWMutex
	o      sched.Obj
	writer bool
}

func (m *RWMutex) id(ex *sched.Exec) int32 {
	id, fresh := m.o.ID(ex)
	if fresh {
		m.writer = false
	}
	return id
}

func (m *RWMutex) Lock() {
	if ex := active(); ex != nil {
		id := m.id(ex)
		ex.Point(&sched.Pending{Kind: sched.KLock, Obj: id, Enabled: func() uint32 { return b2u(!m.writer) }})
		m.writer = true
	}
	m.real.Lock()
}

func (m *RWMutex) Unlock() {
	if ex := active(); ex != nil {
		id := m.id(ex)
		ex.Point(&sched.Pending{Kind: sched.KUnlock, Obj: id, NoSwitch: true})
		m.writer = false
	}
	m.real.Unlock()
}

// RLock: the real lock; a registered logical thread first waits (parked) for a
// write lock the model knows to be held (see the package comment).
func (m *RWMutex) RLock() {
	if m.writer { // cheap pre-check (possibly stale or racy: decided below)
		if ex := active(); ex != nil && isLogical(ex) {
			id := m.id(ex)
			if m.writer {
				ex.Point(&sched.Pending{Kind: sched.KRLock, Obj: id, Enabled: func() uint32 { return b2u(!m.writer) }})
			}
		}
	}
	m.real.RLock()
}

func (m *RWMutex) RUnlock() { m.real.RUnlock() }

type rlocker RWMutex

func (r *rlocker) Lock()   { (*RWMutex)(r).RLock() }
func (r *rlocker) Unlock() { (*RWMutex)(r).RUnlock() }

func (m *RWMutex) RLocker() Locker { return (*rlocker)(m) }
