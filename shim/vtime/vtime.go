// Package vtime replaces package time in overlay-rewritten packages whose
// channel forms are rewritten too (Ticker.C / Timer.C are shim channels).
// Under an active sched execution time is modelled: a ticker tick, a timer
// expiry and Sleep are scheduling points that are enabled only up to an
// explicit horizon (Exec.Horizon ticks per ticker, Exec.TimerBudget one-shot
// events per execution), so that retry loops are finite. Being switched away
// from at such a point is not a preemption (the thread yields).
package vtime

import (
	"time"

	"verif/lib/sched"
	"verif/shim/vchan"
)

type (
	Duration = time.Duration
	Time     = time.Time
	Month    = time.Month
	Weekday  = time.Weekday
	Location = time.Location
)

const (
	Nanosecond  = time.Nanosecond
	Microsecond = time.Microsecond
	Millisecond = time.Millisecond
	Second      = time.Second
	Minute      = time.Minute
	Hour        = time.Hour
	RFC3339     = time.RFC3339
)

var (
	UTC   = time.UTC
	Local = time.Local
)

func Now() Time                                { return time.Now() }
func Since(t Time) Duration                    { return time.Since(t) }
func Until(t Time) Duration                    { return time.Until(t) }
func Unix(s, n int64) Time                     { return time.Unix(s, n) }
func UnixMilli(ms int64) Time                  { return time.UnixMilli(ms) }
func ParseDuration(s string) (Duration, error) { return time.ParseDuration(s) }

// modelNow is the value delivered by modelled tickers/timers (content is never
// meaningful to the subjects; fixed so that executions are deterministic).
var modelNow = time.Unix(1700000000, 0)

type Ticker struct {
	C       *vchan.Chan[Time]
	real    *time.Ticker
	ticks   int
	stopped bool
}

func NewTicker(d Duration) *Ticker {
	if d <= 0 {
		panic("non-positive interval for NewTicker")
	}
	ex := sched.Cur()
	if ex == nil || ex.Inert() {
		rt := time.NewTicker(d)
		return &Ticker{C: vchan.WrapRecv(rt.C), real: rt}
	}
	t := &Ticker{}
	t.C = vchan.NewTimeChan(&vchan.TimeSrc[Time]{
		Ready:   func() bool { return !t.stopped && t.ticks < ex.Horizon() },
		Blocked: func() bool { return !t.stopped && t.ticks >= ex.Horizon() },
		Take:    func() Time { t.ticks++; return modelNow },
	})
	return t
}

func (t *Ticker) Stop() {
	if t.real != nil {
		t.real.Stop()
		return
	}
	t.stopped = true
}

func (t *Ticker) Reset(d Duration) {
	if t.real != nil {
		t.real.Reset(d)
		return
	}
	t.stopped = false
}

type Timer struct {
	C       *vchan.Chan[Time]
	real    *time.Timer
	fired   bool
	stopped bool
}

func NewTimer(d Duration) *Timer {
	ex := sched.Cur()
	if ex == nil || ex.Inert() {
		rt := time.NewTimer(d)
		return &Timer{C: vchan.WrapRecv(rt.C), real: rt}
	}
	t := &Timer{}
	t.C = vchan.NewTimeChan(&vchan.TimeSrc[Time]{
		Ready:   func() bool { return !t.stopped && !t.fired && ex.TimerBudget > 0 },
		Blocked: func() bool { return !t.stopped && !t.fired && ex.TimerBudget <= 0 },
		Take:    func() Time { t.fired = true; ex.TimerBudget--; return modelNow },
	})
	return t
}

func (t *Timer) Stop() bool {
	if t.real != nil {
		return t.real.Stop()
	}
	was := !t.stopped && !t.fired
	t.stopped = true
	return was
}

func (t *Timer) Reset(d Duration) bool {
	if t.real != nil {
		return t.real.Reset(d)
	}
	was := !t.stopped && !t.fired
	t.stopped, t.fired = false, false
	return was
}

func After(d Duration) *vchan.Chan[Time] { return NewTimer(d).C }

func Tick(d Duration) *vchan.Chan[Time] { return NewTicker(d).C }

func Sleep(d Duration) {
	ex := sched.Cur()
	if ex == nil {
		time.Sleep(d)
		return
	}
	if ex.Inert() {
		return
	}
	ex.Point(&sched.Pending{Kind: sched.KSleep, Yield: true, Time: true,
		Enabled: func() uint32 {
			if ex.TimerBudget > 0 {
				return 1
			}
			return 0
		},
		TimeBlocked: func() bool { return ex.TimerBudget <= 0 }})
	ex.TimerBudget--
}

// AfterFunc is not modelled.
func AfterFunc(d Duration, f func()) *Timer {
	if ex := sched.Cur(); ex != nil && !ex.Inert() {
		panic("vtime: AfterFunc is not modelled")
	}
	return &Timer{real: time.AfterFunc(d, f)}
}
