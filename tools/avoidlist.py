#!/usr/bin/env python3
"""Prints the 'avoid' hint for a new seed agent of property <Cxx>: functions and files earlier seeds touched."""
import re, sys, glob
p = sys.argv[1].lower()
funcs, files = set(), set()
for f in glob.glob(f'/verif/seeded/{p}-*/patch*.diff'):
    for l in open(f, errors='replace'):
        m = re.match(r'^\+\+\+ b/(.*)', l)
        if m: files.add(m.group(1).strip())
        m = re.match(r'^@@.*@@ func (?:\([^)]*\) )?([A-Za-z0-9_]+)', l)
        if m: funcs.add(m.group(1))
        m = re.match(r'^[ +-]func (?:\([^)]*\) )?([A-Za-z0-9_]+)', l)
        if m: funcs.add(m.group(1))
print("Earlier reviewers already placed changes in (or next to) these functions - choose a different function and a "
      "different mechanism, preferably in a different file and a different part of the property's statement: "
      + ", ".join(sorted(funcs)) + ". Files already used (a new file is preferred): " + ", ".join(sorted(files)) + ".")
