#!/bin/bash
# Runs the repository's baseline test command (guard OFF, no overlay) on a scratch worktree of /repo HEAD
# and reports every stable_pass test of /root/.vp/BASELINE.json that did not pass.
set -u
WT=/tmp/wt-baseline
OUT=${1:-/tmp/baseline-run}
rm -rf $OUT; mkdir -p $OUT
git -C /repo worktree remove --force $WT 2>/dev/null
git -C /repo worktree add -q $WT HEAD || exit 2
. /w/out/goenv.sh
for m in $(cat /w/out/gomods.txt); do
  MF=$(cd $WT/$m && gomodflag)
  (cd $WT/$m && go test $MF -json -vet=off -count=1 -timeout 60m ./...) >> $OUT/gotest.json 2>> $OUT/stderr.txt
done
python3 - $OUT <<'PY'
import json,sys
out=sys.argv[1]
b=json.load(open('/root/.vp/BASELINE.json'))
stable=set(b['stable_pass'])
res={}
for l in open(out+'/gotest.json'):
    try: e=json.loads(l)
    except Exception: continue
    if e.get('Test') and e.get('Action') in('pass','fail','skip'):
        res[e['Package']+'::'+e['Test']]=e['Action']
bad=[t for t in stable if res.get(t)!='pass']
print("stable_pass:",len(stable),"passed now:",len(stable)-len(bad),"not passing:",len(bad))
for t in sorted(bad)[:80]: print("  ",res.get(t,'MISSING'),t)
open(out+'/summary.txt','w').write("\n".join(f"{res.get(t,'MISSING')} {t}" for t in sorted(bad)))
PY
git -C /repo worktree remove --force $WT
