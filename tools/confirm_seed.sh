#!/bin/bash
# tools/confirm_seed.sh <seed-name e.g. c08-1> <PROPERTY e.g. C08> [extra pkgs to test...]
# Confirms a sub-agent's property-breaking change in its scratch worktree (/tmp/seed-<name>):
#  demo fails with the change, passes without; existing tests of the touched packages pass with it;
# then runs our check against it, stores everything under /verif/seeded/<name>/ and removes the worktree.
set -u
NAME=$1; PROP=$2; shift 2
WT=/tmp/seed-$NAME
OUT=/verif/seeded/$NAME
export PATH=/root/go/pkg/mod/golang.org/toolchain@v0.0.1-go1.25.0.linux-amd64/bin:$PATH GOTOOLCHAIN=local GOFLAGS=-mod=mod GOPROXY=off GOSUMDB=off
mkdir -p $OUT
cd $WT || exit 2
DEMO=$(cat SEED_demo_path.txt | head -1 | tr -d ' \n')
DEMO=${DEMO#$WT/}
cp SEED_patch.diff $OUT/patch.diff
cp SEED_notes.md $OUT/notes.md 2>/dev/null
cp $DEMO $OUT/ 2>/dev/null
PKGDIR=$(dirname $DEMO)
TOUCHED=$(grep '^+++ b/' SEED_patch.diff | sed 's#^+++ b/##' | xargs -n1 dirname | sort -u | sed 's#^#./#')
echo "demo=$DEMO pkg=$PKGDIR touched=$TOUCHED"
TESTS=$(grep -hoE '^func (Test[A-Za-z0-9_]+)' $DEMO | sed 's/^func //' | paste -sd'|')
demo_run() { (cd $WT && go test -count=1 -run "^($TESTS)\$" ./$PKGDIR/ 2>&1 | tail -3); }
echo "--- demo WITH change"; W=$(demo_run); echo "$W"
git apply -R SEED_patch.diff || { echo "cannot reverse patch"; exit 2; }
echo "--- demo WITHOUT change"; WO=$(demo_run); echo "$WO"
git apply SEED_patch.diff
mv $DEMO /tmp/demo-$NAME.go.bak
echo "--- existing tests WITH change (touched packages $TOUCHED $*)"
T=$(go test -count=1 $TOUCHED "$@" 2>&1 | grep -v "no test files" | tail -6); echo "$T"
mv /tmp/demo-$NAME.go.bak $DEMO
cd /verif
echo "--- our check $PROP quick against the change (fresh worktree of /repo HEAD + patch)"
RW=/tmp/reseed-$NAME
git -C /repo worktree remove --force $RW 2>/dev/null
git -C /repo worktree add -q $RW HEAD
if git -C $RW apply $OUT/patch.diff; then
  C=$(VERIF_REPO=$RW ./vr $PROP quick 2>&1 | grep -E "^VIOLATION|^  key=|quick:|CHECK-ERROR|BUILD" | head -8)
else
  C="PATCH-DOES-NOT-APPLY-TO-HEAD"
fi
echo "$C"
git -C /repo worktree remove --force $RW
rm -rf /verif/.build/alt-_tmp_reseed_$(echo $NAME | tr '-' '_')
python3 - "$NAME" "$PROP" "$W" "$WO" "$T" "$C" <<'PY'
import json,sys
name,prop,w,wo,t,c=sys.argv[1:7]
meta={"seed":name,"property":prop,
 "demo_with_change":w,"demo_without_change":wo,"existing_tests_with_change":t,
 "check_quick_against_change":c,
 "demo_fails_with_change":("FAIL" in w),"demo_passes_without":("ok" in wo and "FAIL" not in wo),
 "existing_tests_pass":("FAIL" not in t.replace("--- FAIL: TestUT","").replace("FAIL\tgithub.com/nspcc-dev/neo-go/pkg/vm\t","")) ,"detected_by_quick":("VIOLATION" in c)}
json.dump(meta,open(f"/verif/seeded/{name}/meta.json","w"),indent=1)
print({k:v for k,v in meta.items() if isinstance(v,bool)})
PY
