#!/bin/bash
# tools/covgap.sh <CNN> <tier> <import-path-patterns,comma-separated> [file-substring ...]
# Builds the check with coverage instrumentation of the given /repo packages, runs it, and lists the
# statement blocks of those packages (optionally only files matching a substring) the check never executed.
# Development aid for finding blind spots of a check's alphabet; not part of any registered command.
set -u
ID=$1; TIER=$2; PKGS=$3; shift 3
cd /verif
. ./tools/goenv.sh 2>/dev/null || export PATH=/root/go/pkg/mod/golang.org/toolchain@v0.0.1-go1.25.0.linux-amd64/bin:$PATH GOTOOLCHAIN=local GOFLAGS=-mod=mod GOPROXY=off GOSUMDB=off GOCACHE=/verif/.build/gocache
OUT=/verif/.build/alt-_repo__; rm -rf $OUT/cover/$ID
# "/repo/." is /repo under another name: vr then uses an alternate output root, so evidence/ and replays/ of
# the real runs stay untouched
VERIF_REPO=/repo/. VERIF_COVERPKG=$PKGS ./vr $ID $TIER 2>&1 | grep -E "$TIER:|VIOLATION|ERROR" | head -5
go tool covdata textfmt -i=$OUT/cover/$ID -o $OUT/cover/$ID.txt || exit 2
python3 - $OUT/cover/$ID.txt "$@" <<'PY'
import sys,re,collections
prof=sys.argv[1]; subs=sys.argv[2:]
blocks=collections.defaultdict(dict)
for l in open(prof):
    if l.startswith('mode:'): continue
    m=re.match(r'(.*):(\d+)\.(\d+),(\d+)\.(\d+) (\d+) (\d+)$', l.strip())
    f,sl,sc,el,ec,n,c=m.groups()
    k=(int(sl),int(sc),int(el),int(ec))
    blocks[f][k]=max(blocks[f].get(k,0),int(c))
for f in sorted(blocks):
    if subs and not any(s in f for s in subs): continue
    if f.endswith('_test.go') or 'verif_' in f: continue
    path=f.replace('github.com/nspcc-dev/neo-go/','/repo/')
    try: src=open(path).read().split('\n')
    except Exception: continue
    tot=len(blocks[f]); unc=[k for k,c in blocks[f].items() if c==0]
    print(f"== {f}: {tot-len(unc)}/{tot} blocks reached")
    for k in sorted(unc):
        line=src[k[0]-1].strip()
        print(f"   {k[0]}-{k[2]}: {line[:110]}")
PY
