#!/bin/bash
# Runs tools/covgap.sh for the listed checks (default: all) over the packages their property is anchored in;
# reports go to .build/covgap/<ID>.txt. Development aid.
cd /verif; mkdir -p .build/covgap
IDS=${*:-$(jq -r '.checks[].property_id' tools/checks.json)}
for ID in $IDS; do
  PK=$(python3 - $ID <<'PY'
import json,sys,os
for l in open('/verif/properties.jsonl'):
    p=json.loads(l)
    if p['id']==sys.argv[1]:
        ds=sorted({os.path.dirname(f) for f in p['anchors']['files'] if f.endswith('.go')})
        ds=[d for d in ds if os.path.isdir('/repo/'+d)]
        print(','.join('github.com/nspcc-dev/neo-go/'+d for d in ds))
PY
)
  echo "=== $ID $PK"
  tools/covgap.sh $ID quick "$PK" > .build/covgap/$ID.txt 2>&1
  grep -E "^== " .build/covgap/$ID.txt
done
