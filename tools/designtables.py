#!/usr/bin/env python3
"""Regenerates the two generated tables of DESIGN.md in place: 7.3 (findings, from KNOWN_FINDINGS.txt) and
7.4 (seeded changes, from seeded/*/meta.json via tools/seedtable.py)."""
import re, subprocess
D='/verif/DESIGN.md'
rows=[]
for l in open('/verif/KNOWN_FINDINGS.txt'):
    l=l.strip()
    if not l or l.startswith('#'): continue
    m=re.match(r'fixed: property=(C\d+) (\S+|\([^)]*\)) (.*)$', l)
    if m:
        rows.append((m.group(1), m.group(3), 'fixed '+m.group(2))); continue
    m=re.match(r'property=(C\d+) key=(\S+) (.*)$', l)
    if m:
        rows.append((m.group(1), m.group(3)+' (key `'+m.group(2)+'`)', 'open')); continue
rows.sort(key=lambda r:(r[0], r[2]!='open'))
def esc(s): return s.replace('|','\\|')
t73=['| property | finding (failing input) | status |','|---|---|---|']+['| %s | %s | %s |'%(a,esc(b),c) for a,b,c in rows]
t74=subprocess.run(['python3','/verif/tools/seedtable.py'],capture_output=True,text=True).stdout.strip().split('\n')
s=open(D).read().split('\n')
def replace(header_prefix, new):
    global s
    i=next(k for k,l in enumerate(s) if l.startswith(header_prefix))
    j=i
    while j<len(s) and s[j].startswith('|'): j+=1
    s=s[:i]+new+s[j:]
replace('| property | finding', t73)
replace('| seed | property |', t74)
open(D,'w').write('\n'.join(s))
print('7.3 rows',len(rows),'open',sum(1 for r in rows if r[2]=='open'),'; 7.4 rows',len(t74)-2)
