#!/usr/bin/env python3
"""Merge .build/parts/<ID>.<part>.json partial evidence files into evidence/<ID>.json.
Numeric coverage counters are summed, samples concatenated, exhaustive AND-ed."""
import json, sys, glob, os
ID = sys.argv[1]
root = os.environ.get("VERIF_OUT") or os.environ.get("VERIF_ROOT", "/verif")
files = sorted(glob.glob(f"{root}/parts/{ID}.*.json") if os.environ.get("VERIF_OUT") else glob.glob(f"{root}/.build/parts/{ID}.*.json"))
if not files:
    print("merge: no partial evidence for", ID); sys.exit(3)
parts = [json.load(open(f)) for f in files]
if len(parts) == 1:
    ev = parts[0]
else:
    ev = dict(parts[0])
    cov = {}
    ev["wall_s"] = sum(p["wall_s"] for p in parts)
    ev["violations"] = sum(p.get("violations", 0) for p in parts)
    ass = []
    for p in parts:
        for a in p.get("assumptions") or []:
            if a not in ass: ass.append(a)
    ev["assumptions"] = ass
    per = {}
    for f, p in zip(files, parts):
        name = os.path.basename(f)[len(ID)+1:-5]
        per[name] = p["coverage"]
        for k, v in p["coverage"].items():
            if isinstance(v, bool):
                cov[k] = (cov.get(k, True) and v) if k == "exhaustive" else (cov.get(k, False) or v)
            elif isinstance(v, int):
                cov[k] = cov.get(k, 0) + v
            elif isinstance(v, list) and k == "samples":
                cov[k] = cov.get(k, []) + [{"part": name, "case": s} for s in v[:4]]
            elif isinstance(v, str) and k in ("rule", "explanation"):
                cov[k] = (cov.get(k, "") + f" [{name}] " + v).strip()
    cov["parts"] = per
    ev["coverage"] = cov
os.makedirs(f"{root}/evidence", exist_ok=True)
json.dump(ev, open(f"{root}/evidence/{ID}.json", "w"), indent=1)
