#!/usr/bin/env python3
"""Regenerates MANIFEST.json from tools/checks.json (one entry per built check)
and properties.jsonl (everything else is listed under not_applicable)."""
import json, subprocess, os
root = os.path.dirname(os.path.dirname(os.path.abspath(__file__)))
props = [json.loads(l) for l in open(f"{root}/properties.jsonl")]
checks = json.load(open(f"{root}/tools/checks.json"))
hook_commits = subprocess.run(["git", "-C", "/repo", "log", "--format=%h %s", "--grep=^verif hook"],
                              capture_output=True, text=True).stdout.strip().splitlines()
m = {
 "version": 1,
 "setup_cmd": "./vr --setup",
 "hooks": {
  "guard": "verif",
  "enable": "go test -c -tags verif [-overlay .build/overlay/<check>/overlay.json] (done by ./vr; overlays are regenerated from /repo's working tree on every run)",
  "baseline_off_cmd": json.load(open("/root/.vp/BASELINE.json"))["cmd"],
  "source_commits": [c.split()[0] for c in hook_commits],
  "add_only": True,
 },
 "engines": checks.get("engines", []),
 "checks": [],
 "not_applicable": [],
 "notes": checks.get("notes", ""),
}
done = {c["property_id"] for c in checks["checks"]}
for c in checks["checks"]:
    pid = c["property_id"]
    e = {
     "property_id": pid,
     "quick_cmd": f"./vr {pid} quick",
     "thorough_cmd": f"./vr {pid} thorough",
     "evidence_file": f"/verif/evidence/{pid}.json",
     "replay_cmd_template": f"./vr {pid} --replay {{path}}",
     "engine": c.get("engine", ""),
     "level_claimed": {"category": c["category"], "text": c["text"], "design_ref": c.get("design_ref", f"DESIGN.md section 4, {pid}")},
     "level_note": c["level_note"],
     "technique": c["technique"],
    }
    m["checks"].append(e)
for p in props:
    if p["id"] not in done:
        m["not_applicable"].append({"property_id": p["id"], "reason": checks.get("pending", {}).get(p["id"], "check not built yet in this round (designed in DESIGN.md section 4); not claimed until it runs clean")})
json.dump(m, open(f"{root}/MANIFEST.json", "w"), indent=1)
print("checks:", len(m["checks"]), "not_applicable:", len(m["not_applicable"]))
