// ovgen generates a `go build -overlay` for one subject package of neo-go:
// the CURRENT source files (from $VERIF_REPO, default /repo) are rewritten so
// that sync / sync/atomic / time come from the verif shims, `go` statements
// register their goroutine with the scheduler and (for specs with chans) the
// syntactic channel forms become calls on verif/shim/vchan. The rewrite is
// purely syntactic (go/ast); any form it does not know is a fatal error.
//
//	ovgen <spec> <outdir>   writes <outdir>/<file>.go ... and <outdir>/overlay.json
package main

import (
	"bytes"
	"encoding/json"
	"fmt"
	"go/ast"
	"go/parser"
	"go/printer"
	"go/token"
	"os"
	"path/filepath"
	"sort"
	"strconv"
	"strings"

	"golang.org/x/tools/go/ast/astutil"
)

type spec struct {
	dir     string
	imports map[string]string
	chans   bool
	// files (optional): rewrite only these files of dir instead of all of them.
	files []string
	// keepGo: leave `go` statements alone (the goroutines of the subject stay
	// free-running real goroutines; they must not touch shimmed objects while an
	// execution is active and may only meet logical threads on real channels).
	keepGo bool
}

var specs = map[string]spec{
	"bqueue": {
		dir:     "pkg/network/bqueue",
		imports: map[string]string{"sync": "verif/shim/vsync", "sync/atomic": "verif/shim/vatomic", "time": "verif/shim/vtime"},
		chans:   true,
	},
	"storage": {
		dir:     "pkg/core/storage",
		imports: map[string]string{"sync": "verif/shim/vsync", "sync/atomic": "verif/shim/vatomic"},
	},
	// C20 ledger part: the mutexes of the ledger's own entry points (addLock,
	// lock, persistCond of Blockchain; the header hash list lock) become
	// scheduling points. Atomics, channels and goroutines of the package stay
	// real (storeBlock's AER writer and the event dispatcher are free-running
	// and only meet the block-adding thread on real channels).
	"coreledger": {
		dir:     "pkg/core",
		imports: map[string]string{"sync": "verif/shim/vsync"},
		files:   []string{"blockchain.go", "headerhashes.go"},
		keepGo:  true,
	},
}

// constScale writes an overlay in which one constant definition of one file of
// the repository is replaced (documented scaling of a size constant so that a
// bounded history crosses its boundaries). It fails loudly unless the
// definition occurs exactly once.
func constScale(out, rel, from, to string) {
	constScaleMany(out, rel, [][2]string{{from, to}})
}

// constScaleMany is constScale for several definitions of one file.
func constScaleMany(out, rel string, pairs [][2]string) {
	repo := os.Getenv("VERIF_REPO")
	if repo == "" {
		repo = "/repo"
	}
	outdir, err := filepath.Abs(out)
	if err != nil {
		fatal("%v", err)
	}
	_ = os.RemoveAll(outdir)
	if err := os.MkdirAll(outdir, 0o755); err != nil {
		fatal("%v", err)
	}
	src := filepath.Join(repo, rel)
	b, err := os.ReadFile(src)
	if err != nil {
		fatal("%v", err)
	}
	text := string(b)
	for _, p := range pairs {
		if n := strings.Count(text, p[0]); n != 1 {
			fatal("%s: %q occurs %d times, expected exactly once", src, p[0], n)
		}
		text = strings.Replace(text, p[0], p[1], 1)
		fmt.Printf("ovgen: %s: %s -> %s\n", rel, p[0], p[1])
	}
	dst := filepath.Join(outdir, filepath.Base(rel))
	if err := os.WriteFile(dst, []byte(text), 0o644); err != nil {
		fatal("%v", err)
	}
	ov, _ := json.MarshalIndent(map[string]any{"Replace": map[string]string{src: dst}}, "", " ")
	if err := os.WriteFile(filepath.Join(outdir, "overlay.json"), ov, 0o644); err != nil {
		fatal("%v", err)
	}
}

func fatal(format string, a ...any) {
	fmt.Fprintf(os.Stderr, "ovgen: FATAL: "+format+"\n", a...)
	os.Exit(3)
}

func main() {
	if len(os.Args) != 3 {
		fatal("usage: ovgen <spec> <outdir>")
	}
	if os.Args[1] == "resetbatch2" {
		// the state reset persists its block-removal and storage-item stages in intermediate batches of
		// 200000 blocks / 200000 items; scaled to 2 so that a bounded reset has intermediate batches
		constScaleMany(os.Args[2], "pkg/core/blockchain.go", [][2]string{
			{"const persistBatchSize = 100 * headerBatchCount", "const persistBatchSize = 2"},
			{"const persistBatchSize = 200000", "const persistBatchSize = 2"},
		})
		return
	}
	if os.Args[1] == "hdrbatch4" {
		constScale(os.Args[2], "pkg/core/headerhashes.go", "headerBatchCount = 2000", "headerBatchCount = 4")
		return
	}
	if ms, ok := multiSpecs[os.Args[1]]; ok { // several packages in one overlay (multi.go)
		genMulti(os.Args[1], ms, os.Args[2])
		return
	}
	sp, ok := specs[os.Args[1]]
	if !ok {
		fatal("unknown spec %q", os.Args[1])
	}
	repo := os.Getenv("VERIF_REPO")
	if repo == "" {
		repo = "/repo"
	}
	outdir, err := filepath.Abs(os.Args[2])
	if err != nil {
		fatal("%v", err)
	}
	_ = os.RemoveAll(outdir)
	if err := os.MkdirAll(outdir, 0o755); err != nil {
		fatal("%v", err)
	}
	srcdir := filepath.Join(repo, sp.dir)
	ents, err := os.ReadDir(srcdir)
	if err != nil {
		fatal("%v", err)
	}
	fset := token.NewFileSet()
	type pf struct {
		path string
		f    *ast.File
	}
	var files []pf
	for _, e := range ents {
		n := e.Name()
		if e.IsDir() || !strings.HasSuffix(n, ".go") || strings.HasSuffix(n, "_test.go") {
			continue
		}
		if len(sp.files) > 0 {
			want := false
			for _, w := range sp.files {
				want = want || w == n
			}
			if !want {
				continue
			}
		}
		p := filepath.Join(srcdir, n)
		f, err := parser.ParseFile(fset, p, nil, parser.ParseComments)
		if err != nil {
			fatal("parse %s: %v", p, err)
		}
		// Only the comments before the package clause are kept (build
		// constraints): the printer would misplace the others around
		// generated nodes.
		var keep []*ast.CommentGroup
		for _, cg := range f.Comments {
			if cg.End() < f.Package {
				keep = append(keep, cg)
			}
		}
		f.Comments = keep
		for _, im := range f.Imports {
			if im.Path.Value == `"C"` {
				fatal("%s: cgo file", p)
			}
		}
		files = append(files, pf{p, f})
	}
	if len(files) == 0 {
		fatal("no Go files in %s", srcdir)
	}
	if len(sp.files) > 0 && len(files) != len(sp.files) {
		fatal("spec %s: %d of the %d listed files found in %s", os.Args[1], len(files), len(sp.files), srcdir)
	}
	rw := &rewriter{fset: fset, sp: sp, chanNames: map[string]bool{}}
	if sp.chans {
		for _, f := range files {
			rw.collectChanNames(f.f)
		}
	}
	overlay := map[string]string{}
	total := map[string]int{}
	for _, f := range files {
		rw.counts = map[string]int{}
		rw.file(f.f)
		if len(rw.counts) == 0 {
			continue
		}
		var buf bytes.Buffer
		cfg := printer.Config{Mode: printer.UseSpaces | printer.TabIndent, Tabwidth: 8}
		if err := cfg.Fprint(&buf, fset, f.f); err != nil {
			fatal("print %s: %v", f.path, err)
		}
		// the result must parse
		if _, err := parser.ParseFile(token.NewFileSet(), f.path, buf.Bytes(), 0); err != nil {
			fatal("rewritten %s does not parse: %v", f.path, err)
		}
		out := filepath.Join(outdir, filepath.Base(f.path))
		if err := os.WriteFile(out, buf.Bytes(), 0o644); err != nil {
			fatal("%v", err)
		}
		overlay[f.path] = out
		var ks []string
		for k, v := range rw.counts {
			ks = append(ks, fmt.Sprintf("%s=%d", k, v))
			total[k] += v
		}
		sort.Strings(ks)
		fmt.Printf("ovgen %s: %s: %s\n", os.Args[1], filepath.Base(f.path), strings.Join(ks, " "))
	}
	if total["import"] == 0 {
		fatal("spec %s: no import was rewritten (package layout changed?)", os.Args[1])
	}
	b, _ := json.MarshalIndent(map[string]any{"Replace": overlay}, "", " ")
	if err := os.WriteFile(filepath.Join(outdir, "overlay.json"), b, 0o644); err != nil {
		fatal("%v", err)
	}
}

type commInfo struct {
	send bool
	lhs  []ast.Expr
	tok  token.Token
}

type rewriter struct {
	fset      *token.FileSet
	sp        spec
	counts    map[string]int
	chanNames map[string]bool         // names declared with a channel type somewhere in the package
	genChan   map[ast.Expr]ast.Expr   // generated *vchan.Chan[T] -> T
	recv2     map[*ast.UnaryExpr]bool // receive expressions in a two-value context
	comm      map[*ast.CommClause]*commInfo
	tmp       int
	needSched bool
	needChan  bool
	timeName  string
}

func (rw *rewriter) pos(n ast.Node) string { return rw.fset.Position(n.Pos()).String() }

// collectChanNames records identifiers declared with a syntactic channel type
// (struct fields, vars, params) or defined from make(chan ...).
func (rw *rewriter) collectChanNames(f *ast.File) {
	ast.Inspect(f, func(n ast.Node) bool {
		switch x := n.(type) {
		case *ast.Field:
			if _, ok := x.Type.(*ast.ChanType); ok {
				for _, id := range x.Names {
					rw.chanNames[id.Name] = true
				}
			}
		case *ast.ValueSpec:
			if _, ok := x.Type.(*ast.ChanType); ok {
				for _, id := range x.Names {
					rw.chanNames[id.Name] = true
				}
			}
			for i, v := range x.Values {
				if isMakeChan(v) && i < len(x.Names) {
					rw.chanNames[x.Names[i].Name] = true
				}
			}
		case *ast.AssignStmt:
			for i, v := range x.Rhs {
				if isMakeChan(v) && i < len(x.Lhs) {
					if id, ok := x.Lhs[i].(*ast.Ident); ok {
						rw.chanNames[id.Name] = true
					}
				}
			}
		}
		return true
	})
}

func isMakeChan(e ast.Expr) bool {
	c, ok := e.(*ast.CallExpr)
	if !ok || len(c.Args) == 0 {
		return false
	}
	id, ok := c.Fun.(*ast.Ident)
	if !ok || id.Name != "make" {
		return false
	}
	_, ok = c.Args[0].(*ast.ChanType)
	return ok
}

// knownChan: is e syntactically known to be a channel?
func (rw *rewriter) knownChan(e ast.Expr) bool {
	switch x := e.(type) {
	case *ast.ParenExpr:
		return rw.knownChan(x.X)
	case *ast.Ident:
		return rw.chanNames[x.Name]
	case *ast.SelectorExpr:
		if rw.chanNames[x.Sel.Name] {
			return true
		}
		// ticker.C / timer.C when package time is shimmed
		return rw.timeName != "" && x.Sel.Name == "C"
	case *ast.CallExpr:
		if s, ok := x.Fun.(*ast.SelectorExpr); ok {
			if id, ok := s.X.(*ast.Ident); ok && id.Name == rw.timeName && rw.timeName != "" && (s.Sel.Name == "After" || s.Sel.Name == "Tick") {
				return true
			}
		}
	}
	return false
}

func sel(pkg, name string) ast.Expr {
	return &ast.SelectorExpr{X: ast.NewIdent(pkg), Sel: ast.NewIdent(name)}
}

func recvOperand(e ast.Expr) ast.Expr {
	switch e.(type) {
	case *ast.Ident, *ast.SelectorExpr, *ast.CallExpr, *ast.IndexExpr, *ast.ParenExpr:
		return e
	}
	return &ast.ParenExpr{X: e}
}

func method(x ast.Expr, name string, args ...ast.Expr) *ast.CallExpr {
	return &ast.CallExpr{Fun: &ast.SelectorExpr{X: recvOperand(x), Sel: ast.NewIdent(name)}, Args: args}
}

func (rw *rewriter) file(f *ast.File) {
	rw.genChan = map[ast.Expr]ast.Expr{}
	rw.recv2 = map[*ast.UnaryExpr]bool{}
	rw.comm = map[*ast.CommClause]*commInfo{}
	rw.needSched, rw.needChan = false, false
	rw.timeName = ""
	// imports
	for _, im := range f.Imports {
		p, _ := strconv.Unquote(im.Path.Value)
		to, ok := rw.sp.imports[p]
		if !ok {
			continue
		}
		name := p[strings.LastIndex(p, "/")+1:]
		if im.Name != nil {
			if im.Name.Name == "." || im.Name.Name == "_" {
				fatal("%s: unsupported import form %s %q", rw.pos(im), im.Name.Name, p)
			}
			name = im.Name.Name
		}
		im.Name = ast.NewIdent(name)
		im.Path.Value = strconv.Quote(to)
		im.EndPos = 0
		if p == "time" {
			if !rw.sp.chans {
				fatal("%s: package time can only be shimmed together with the channel forms", rw.pos(im))
			}
			rw.timeName = name
		}
		rw.counts["import"]++
	}
	astutil.Apply(f, rw.pre, rw.post)
	if rw.needSched {
		astutil.AddNamedImport(rw.fset, f, "vsched", "verif/lib/sched")
	}
	if rw.needChan {
		astutil.AddNamedImport(rw.fset, f, "vchan", "verif/shim/vchan")
	}
}

func (rw *rewriter) pre(c *astutil.Cursor) bool {
	if !rw.sp.chans {
		return true
	}
	switch n := c.Node().(type) {
	case *ast.AssignStmt:
		if len(n.Lhs) == 2 && len(n.Rhs) == 1 {
			if u, ok := n.Rhs[0].(*ast.UnaryExpr); ok && u.Op == token.ARROW {
				rw.recv2[u] = true
			}
		}
	case *ast.ValueSpec:
		if len(n.Names) == 2 && len(n.Values) == 1 {
			if u, ok := n.Values[0].(*ast.UnaryExpr); ok && u.Op == token.ARROW {
				rw.recv2[u] = true
			}
		}
	case *ast.SelectStmt:
		// Replace every comm statement by a marker call whose arguments are
		// still traversed (and rewritten); remember the assignment form.
		for _, s := range n.Body.List {
			cc := s.(*ast.CommClause)
			if cc.Comm == nil {
				continue
			}
			info := &commInfo{}
			var marker *ast.CallExpr
			switch cm := cc.Comm.(type) {
			case *ast.SendStmt:
				info.send = true
				marker = &ast.CallExpr{Fun: ast.NewIdent("__vsel"), Args: []ast.Expr{cm.Chan, cm.Value}}
			case *ast.ExprStmt:
				u, ok := unparen(cm.X).(*ast.UnaryExpr)
				if !ok || u.Op != token.ARROW {
					fatal("%s: unknown select communication form", rw.pos(cm))
				}
				marker = &ast.CallExpr{Fun: ast.NewIdent("__vsel"), Args: []ast.Expr{u.X}}
			case *ast.AssignStmt:
				if len(cm.Rhs) != 1 || len(cm.Lhs) > 2 {
					fatal("%s: unknown select communication form", rw.pos(cm))
				}
				u, ok := unparen(cm.Rhs[0]).(*ast.UnaryExpr)
				if !ok || u.Op != token.ARROW {
					fatal("%s: unknown select communication form", rw.pos(cm))
				}
				info.lhs, info.tok = cm.Lhs, cm.Tok
				marker = &ast.CallExpr{Fun: ast.NewIdent("__vsel"), Args: []ast.Expr{u.X}}
			default:
				fatal("%s: unknown select communication form %T", rw.pos(cm), cm)
			}
			cc.Comm = &ast.ExprStmt{X: marker}
			rw.comm[cc] = info
		}
	}
	return true
}

func unparen(e ast.Expr) ast.Expr {
	for {
		p, ok := e.(*ast.ParenExpr)
		if !ok {
			return e
		}
		e = p.X
	}
}

func (rw *rewriter) post(c *astutil.Cursor) bool {
	switch n := c.Node().(type) {
	case *ast.GoStmt:
		if rw.sp.keepGo {
			rw.counts["go-kept"]++
			return true
		}
		c.Replace(rw.goStmt(n))
		rw.counts["go"]++
		rw.needSched = true
		return true
	}
	if !rw.sp.chans {
		return true
	}
	switch n := c.Node().(type) {
	case *ast.ChanType:
		t := &ast.StarExpr{X: &ast.IndexExpr{X: sel("vchan", "Chan"), Index: n.Value}}
		rw.genChan[t] = n.Value
		c.Replace(t)
		rw.counts["chantype"]++
		rw.needChan = true
	case *ast.CallExpr:
		id, ok := n.Fun.(*ast.Ident)
		if !ok {
			break
		}
		switch id.Name {
		case "make":
			if len(n.Args) == 0 {
				break
			}
			if elem, ok := rw.genChan[n.Args[0]]; ok {
				c.Replace(&ast.CallExpr{Fun: &ast.IndexExpr{X: sel("vchan", "Make"), Index: elem}, Args: n.Args[1:]})
				rw.counts["chantype"]--
				rw.counts["make"]++
			}
		case "close":
			if len(n.Args) != 1 {
				fatal("%s: close with %d arguments", rw.pos(n), len(n.Args))
			}
			c.Replace(method(n.Args[0], "Close"))
			rw.counts["close"]++
		case "len", "cap":
			if len(n.Args) == 1 && rw.knownChan(n.Args[0]) {
				name := map[string]string{"len": "Len", "cap": "Cap"}[id.Name]
				c.Replace(method(n.Args[0], name))
				rw.counts["lencap"]++
			}
		}
	case *ast.SendStmt:
		c.Replace(&ast.ExprStmt{X: method(n.Chan, "Send", n.Value)})
		rw.counts["send"]++
	case *ast.UnaryExpr:
		if n.Op != token.ARROW {
			break
		}
		if rw.recv2[n] {
			c.Replace(method(n.X, "Recv2"))
		} else {
			c.Replace(method(n.X, "Recv"))
		}
		rw.counts["recv"]++
	case *ast.SelectStmt:
		c.Replace(rw.selectStmt(n))
		rw.counts["select"]++
		rw.needChan = true
	case *ast.RangeStmt:
		if !rw.knownChan(n.X) {
			// not known to be a channel: left alone; if it is one the build
			// fails (a *vchan.Chan cannot be ranged over)
			break
		}
		if n.Value != nil {
			fatal("%s: range over channel with two variables", rw.pos(n))
		}
		c.Replace(rw.rangeStmt(n))
		rw.counts["range"]++
	}
	return true
}

func (rw *rewriter) goStmt(n *ast.GoStmt) ast.Stmt {
	call := n.Call
	if fl, ok := call.Fun.(*ast.FuncLit); ok && len(call.Args) == 0 {
		return &ast.ExprStmt{X: &ast.CallExpr{Fun: sel("vsched", "Go"), Args: []ast.Expr{fl}}}
	}
	switch f := call.Fun.(type) {
	case *ast.FuncLit, *ast.Ident:
	case *ast.SelectorExpr:
		if _, ok := f.X.(*ast.Ident); !ok {
			fatal("%s: unsupported go statement: function expression too complex", rw.pos(n))
		}
	default:
		fatal("%s: unsupported go statement form %T", rw.pos(n), call.Fun)
	}
	// evaluate the arguments now, call later
	blk := &ast.BlockStmt{}
	var args []ast.Expr
	for _, a := range call.Args {
		rw.tmp++
		id := ast.NewIdent(fmt.Sprintf("_vga%d", rw.tmp))
		blk.List = append(blk.List, &ast.AssignStmt{Lhs: []ast.Expr{id}, Tok: token.DEFINE, Rhs: []ast.Expr{a}})
		args = append(args, ast.NewIdent(id.Name))
	}
	inner := &ast.CallExpr{Fun: call.Fun, Args: args, Ellipsis: call.Ellipsis}
	if call.Ellipsis != token.NoPos {
		inner.Ellipsis = 1
	}
	lit := &ast.FuncLit{Type: &ast.FuncType{Params: &ast.FieldList{}}, Body: &ast.BlockStmt{List: []ast.Stmt{&ast.ExprStmt{X: inner}}}}
	blk.List = append(blk.List, &ast.ExprStmt{X: &ast.CallExpr{Fun: sel("vsched", "Go"), Args: []ast.Expr{lit}}})
	return blk
}

func (rw *rewriter) selectStmt(n *ast.SelectStmt) ast.Stmt {
	rw.tmp++
	base := fmt.Sprintf("_vsel%d_", rw.tmp)
	var names, ctors []ast.Expr
	hasDefault := false
	sw := &ast.SwitchStmt{Body: &ast.BlockStmt{}}
	idx := 0
	for _, s := range n.Body.List {
		cc := s.(*ast.CommClause)
		if cc.Comm == nil {
			hasDefault = true
			sw.Body.List = append(sw.Body.List, &ast.CaseClause{Body: cc.Body})
			continue
		}
		info := rw.comm[cc]
		marker := cc.Comm.(*ast.ExprStmt).X.(*ast.CallExpr)
		name := fmt.Sprintf("%s%d", base, idx)
		names = append(names, ast.NewIdent(name))
		body := cc.Body
		if info.send {
			ctors = append(ctors, &ast.CallExpr{Fun: sel("vchan", "SendCase"), Args: []ast.Expr{marker.Args[0], marker.Args[1]}})
		} else {
			ctors = append(ctors, &ast.CallExpr{Fun: sel("vchan", "RecvCase"), Args: []ast.Expr{marker.Args[0]}})
			if len(info.lhs) > 0 {
				rhs := []ast.Expr{sel(name, "Val")}
				if len(info.lhs) == 2 {
					rhs = append(rhs, sel(name, "OK"))
				}
				body = append([]ast.Stmt{&ast.AssignStmt{Lhs: info.lhs, Tok: info.tok, Rhs: rhs}}, body...)
			}
		}
		sw.Body.List = append(sw.Body.List, &ast.CaseClause{List: []ast.Expr{&ast.BasicLit{Kind: token.INT, Value: strconv.Itoa(idx)}}, Body: body})
		idx++
	}
	hd := "false"
	if hasDefault {
		hd = "true"
	}
	args := []ast.Expr{ast.NewIdent(hd)}
	for _, nm := range names {
		args = append(args, ast.NewIdent(nm.(*ast.Ident).Name))
	}
	if len(names) > 0 {
		sw.Init = &ast.AssignStmt{Lhs: names, Tok: token.DEFINE, Rhs: ctors}
	}
	sw.Tag = &ast.CallExpr{Fun: sel("vchan", "Select"), Args: args}
	return sw
}

func (rw *rewriter) rangeStmt(n *ast.RangeStmt) ast.Stmt {
	rw.tmp++
	chv := fmt.Sprintf("_vrc%d", rw.tmp)
	okv := fmt.Sprintf("_vrok%d", rw.tmp)
	var first []ast.Stmt
	key := n.Key
	if key == nil {
		key = ast.NewIdent("_")
	}
	if n.Tok == token.ASSIGN {
		first = append(first, &ast.DeclStmt{Decl: &ast.GenDecl{Tok: token.VAR, Specs: []ast.Spec{&ast.ValueSpec{Names: []*ast.Ident{ast.NewIdent(okv)}, Type: ast.NewIdent("bool")}}}})
		first = append(first, &ast.AssignStmt{Lhs: []ast.Expr{key, ast.NewIdent(okv)}, Tok: token.ASSIGN, Rhs: []ast.Expr{method(ast.NewIdent(chv), "Recv2")}})
	} else {
		first = append(first, &ast.AssignStmt{Lhs: []ast.Expr{key, ast.NewIdent(okv)}, Tok: token.DEFINE, Rhs: []ast.Expr{method(ast.NewIdent(chv), "Recv2")}})
	}
	first = append(first, &ast.IfStmt{Cond: &ast.UnaryExpr{Op: token.NOT, X: ast.NewIdent(okv)}, Body: &ast.BlockStmt{List: []ast.Stmt{&ast.BranchStmt{Tok: token.BREAK}}}})
	body := &ast.BlockStmt{List: append(first, n.Body.List...)}
	return &ast.ForStmt{Init: &ast.AssignStmt{Lhs: []ast.Expr{ast.NewIdent(chv)}, Tok: token.DEFINE, Rhs: []ast.Expr{n.X}}, Body: body}
}
