package main

// Specs that rewrite files of SEVERAL subject packages into one overlay (the
// single-package specs of main.go stay as they are). Each member is an ordinary
// spec (directory, import map, file list, keepGo); the generated files of
// member i go to <outdir>/m<i>/ and all replacements end up in one
// <outdir>/overlay.json.

import (
	"bytes"
	"encoding/json"
	"fmt"
	"go/ast"
	"go/parser"
	"go/printer"
	"go/token"
	"os"
	"path/filepath"
	"sort"
	"strings"
)

var multiSpecs = map[string][]spec{
	// C02 flushrace part: the real Blockchain with the flusher (persist / GC) on
	// other logical threads than block processing.
	//  * pkg/core/storage: memcached_store.go + memory_store.go through
	//    verif/shim/vsyncw: the WRITE locks of the write cache and of the
	//    MemoryStore backend (MemCachedStore.mut, plock) are scheduling points,
	//    read locks stay plain real locks (storeBlock's free-running AER
	//    goroutine read-locks the stores);
	//  * pkg/core/dao: dao.go through vsyncw as well;
	//  * pkg/core: blockchain.go + headerhashes.go through verif/shim/vsync as in
	//    spec coreledger (addLock, lock, persistCond, the header list lock): a
	//    block-adding thread parked inside the storage layer holds some of them.
	// Goroutines, channels and atomics stay real.
	"flushrace": {
		{
			dir:     "pkg/core/storage",
			imports: map[string]string{"sync": "verif/shim/vsyncw"},
			files:   []string{"memcached_store.go", "memory_store.go"},
			keepGo:  true,
		},
		// dao.Simple.nativeCacheLock is held in write mode across Store.Persist /
		// Store.PersistPrivate (which contain scheduling points) and read-locked by
		// every native getter, also from the free-running AER goroutine
		{
			dir:     "pkg/core/dao",
			imports: map[string]string{"sync": "verif/shim/vsyncw"},
			files:   []string{"dao.go"},
			keepGo:  true,
		},
		{
			dir:     "pkg/core",
			imports: map[string]string{"sync": "verif/shim/vsync"},
			files:   []string{"blockchain.go", "headerhashes.go"},
			keepGo:  true,
		},
	},
}

func genMulti(name string, members []spec, out string) {
	repo := os.Getenv("VERIF_REPO")
	if repo == "" {
		repo = "/repo"
	}
	outdir, err := filepath.Abs(out)
	if err != nil {
		fatal("%v", err)
	}
	_ = os.RemoveAll(outdir)
	if err := os.MkdirAll(outdir, 0o755); err != nil {
		fatal("%v", err)
	}
	overlay := map[string]string{}
	for mi, sp := range members {
		if sp.chans || len(sp.files) == 0 {
			fatal("spec %s: members of a multi-package spec must list their files and cannot rewrite channels", name)
		}
		srcdir := filepath.Join(repo, sp.dir)
		sub := filepath.Join(outdir, fmt.Sprintf("m%d", mi))
		if err := os.MkdirAll(sub, 0o755); err != nil {
			fatal("%v", err)
		}
		fset := token.NewFileSet()
		rw := &rewriter{fset: fset, sp: sp, chanNames: map[string]bool{}}
		imports := 0
		for _, n := range sp.files {
			p := filepath.Join(srcdir, n)
			f, err := parser.ParseFile(fset, p, nil, parser.ParseComments)
			if err != nil {
				fatal("parse %s: %v", p, err)
			}
			var keep []*ast.CommentGroup
			for _, cg := range f.Comments {
				if cg.End() < f.Package {
					keep = append(keep, cg)
				}
			}
			f.Comments = keep
			for _, im := range f.Imports {
				if im.Path.Value == `"C"` {
					fatal("%s: cgo file", p)
				}
			}
			rw.counts = map[string]int{}
			rw.file(f)
			if rw.counts["import"] == 0 {
				fatal("spec %s: %s: no import was rewritten (package layout changed?)", name, p)
			}
			imports += rw.counts["import"]
			var buf bytes.Buffer
			cfg := printer.Config{Mode: printer.UseSpaces | printer.TabIndent, Tabwidth: 8}
			if err := cfg.Fprint(&buf, fset, f); err != nil {
				fatal("print %s: %v", p, err)
			}
			if _, err := parser.ParseFile(token.NewFileSet(), p, buf.Bytes(), 0); err != nil {
				fatal("rewritten %s does not parse: %v", p, err)
			}
			dst := filepath.Join(sub, n)
			if err := os.WriteFile(dst, buf.Bytes(), 0o644); err != nil {
				fatal("%v", err)
			}
			overlay[p] = dst
			var ks []string
			for k, v := range rw.counts {
				ks = append(ks, fmt.Sprintf("%s=%d", k, v))
			}
			sort.Strings(ks)
			fmt.Printf("ovgen %s: %s/%s: %s\n", name, sp.dir, n, strings.Join(ks, " "))
		}
		// every other file of the package must be free of the rewritten imports' types
		// crossing the file boundary in a way that no longer compiles: the build tells.
		_ = imports
	}
	b, _ := json.MarshalIndent(map[string]any{"Replace": overlay}, "", " ")
	if err := os.WriteFile(filepath.Join(outdir, "overlay.json"), b, 0o644); err != nil {
		fatal("%v", err)
	}
}
