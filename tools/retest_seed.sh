#!/bin/bash
# tools/retest_seed.sh <seed-name> <PROPERTY> [quick|thorough]: re-applies a saved seeded change to a fresh
# scratch worktree of /repo HEAD, runs our check against it, updates seeded/<name>/meta.json, removes the worktree.
set -u
NAME=$1; PROP=$2; TIER=${3:-quick}
WT=/tmp/reseed-$NAME
git -C /repo worktree add -q $WT HEAD || exit 2
if ! git -C $WT apply /verif/seeded/$NAME/patch.diff; then echo "patch does not apply to HEAD"; git -C /repo worktree remove --force $WT; exit 2; fi
cd /verif
C=$(VERIF_REPO=$WT ./vr $PROP $TIER 2>&1 | grep -E "^VIOLATION|^  key=|$TIER:|CHECK-ERROR|BUILD" | head -8); echo "$C"
python3 - "$NAME" "$TIER" "$C" <<'PY'
import json,sys
name,tier,c=sys.argv[1:4]
p=f"/verif/seeded/{name}/meta.json"
m=json.load(open(p))
m[f"retest_{tier}"]=c
m[f"detected_by_{tier}_after_strengthening"]=("VIOLATION" in c)
json.dump(m,open(p,"w"),indent=1)
print(name, tier, "detected:", "VIOLATION" in c)
PY
git -C /repo worktree remove --force $WT
rm -rf /verif/.build/alt-_tmp_reseed_$(echo $NAME | tr '-' '_')
