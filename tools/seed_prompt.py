#!/usr/bin/env python3
"""Prints the prompt for a fresh mutation sub-agent: property text only + a scratch worktree."""
import json, sys
pid, n = sys.argv[1], sys.argv[2]
hint = sys.argv[3] if len(sys.argv) > 3 else ""
p = [json.loads(l) for l in open('/verif/properties.jsonl') if json.loads(l)['id'] == pid][0]
wt = f"/tmp/seed-{pid.lower()}-{n}"
print(f"""You are helping to evaluate a verification effort for the Go project nspcc-dev/neo-go (a full node for the Neo N3 blockchain). Your job: produce ONE realistic code change (a plausible programmer slip, not sabotage) that BREAKS the semantic property below while the code still compiles and the project's existing tests still pass, plus a small demonstration that fails with the change and passes without it.

Property {pid}: {p['title']}
Statement: {p['statement']}
Quantified over: {p['quantifier']['text']}
Code areas where it is anchored: {', '.join(p['anchors']['files'])}

Your private scratch git worktree of the repository is {wt} (already created, at the current HEAD). Work ONLY there. Do not read or write anything under /verif, and do not touch /repo (read-only reference at most). No network. Go environment for every shell command:
  export PATH=/root/go/pkg/mod/golang.org/toolchain@v0.0.1-go1.25.0.linux-amd64/bin:$PATH GOTOOLCHAIN=local GOFLAGS=-mod=mod GOPROXY=off GOSUMDB=off

Requirements for the change:
- It must need something SPECIFIC to manifest: a particular interleaving, a crash/fault at a particular point, a multi-step sequence of operations, an unusual input, or two cooperating sites that each look fine alone. NOT something ordinary use or the existing tests would expose at once.{(' ' + hint) if hint else ''}
- Small (a few lines, 1-2 files), in non-test code of the repository, looking like an honest refactoring/optimisation/off-by-one/forgotten-case mistake.
- The repository must still build (`go build ./...` in the worktree) and the EXISTING tests of every package you touched and of the packages that most directly depend on it must still pass (`go test -count=1 ./pkg/<touched>/...` plus the obvious dependants; the full suite takes very long, so choose sensibly and say exactly what you ran). If an existing test fails, pick a different change.
- Demonstration: a NEW test file (or tiny program) that fails with your change and passes on the unchanged code; run it both ways (NEVER use `git stash`: the stash is shared between all worktrees of the repository and other people work in sibling worktrees; instead `git diff -- <your non-test files> > /tmp/<unique>.diff; git apply -R /tmp/<unique>.diff; <run demo>; git apply /tmp/<unique>.diff`) and report the outputs. Keep the demonstration self-contained (it may use the repository's own test helpers such as pkg/neotest).

Deliver in {wt}: the change and the demonstration as uncommitted modifications, and write these files there: `SEED_patch.diff` (git diff of the non-test change only), `SEED_demo_path.txt` (path of the demonstration file), `SEED_notes.md` (what the change is, why it breaks the property, what exactly is needed for it to manifest, the commands you ran and their results). Final answer: a 10-line summary of the same.""")
