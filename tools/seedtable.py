#!/usr/bin/env python3
"""Prints the markdown table of seeded changes (seeded/*/meta.json + patch.diff) for DESIGN.md section 7.4."""
import json,glob,os,re
rows=[]
for d in sorted(glob.glob('/verif/seeded/*/')):
    m=json.load(open(d+'meta.json'))
    files=sorted(set(re.findall(r'^\+\+\+ b/(\S+)', open(d+'patch.diff').read(), re.M)))
    what=m.get('what','')
    first=m.get('detected_by_quick')
    later=m.get('detected_by_quick_after_strengthening')
    if m.get('superseded'): status='superseded (no longer property-breaking after a repair, see meta.json)'
    elif first: status='caught by quick'
    elif later: status='missed at first; caught after strengthening'
    else: status='NOT caught'
    key=''
    src=m.get('retest_quick') or m.get('check_quick_against_change') or ''
    km=re.search(r'key=(\S+)', src)
    if km: key=km.group(1)[:90]
    rows.append((m['seed'],m['property'],', '.join(f.replace('pkg/','') for f in files),what,status,key))
print('| seed | property | files changed | what it is | result | first violation key |')
print('|---|---|---|---|---|---|')
for r in rows: print('| '+' | '.join(r)+' |')
