#!/opt/veriftools/pyvenv/bin/python3
import json, jsonschema, sys, glob
jsonschema.validate(json.load(open('/verif/MANIFEST.json')), json.load(open('/root/.vp/MANIFEST.schema.json')))
s = json.load(open('/root/.vp/EVIDENCE.schema.json'))
for f in sorted(glob.glob('/verif/evidence/*.json')):
    jsonschema.validate(json.load(open(f)), s)
    print('ok', f)
print('manifest ok')
